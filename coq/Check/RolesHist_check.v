(* RolesHist_check.v — shared by C11_check and C12_check: the long-lived-instance parts.  A case carries the sequence
   of poll results the instance's home-chain poller has gone through since it was created (the harness scripts the
   CCIPHome contract reader and waits for the poller to pick every change up); the model runs the poller's state
   machine (Pollers.home_run) over it and reads the role map off its views, the executable property uses the
   configuration of the most recent successful poll only (RolesHist.spec_cfg). *)
Require Export Verif.Model.Base Verif.Model.Roles Verif.Model.RolesHist.

(* (oracle ids with a peer id, destination, feed chain, poll results oldest first) *)
Definition hctx := (list N * N * N * list hpoll)%type.
Definition hctx_model (h : hctx) : cfg := let '(os, d, f, polls) := h in hist_cfg os d f polls.
Definition hctx_spec (h : hctx) : cfg := let '(os, d, f, polls) := h in spec_cfg os d f polls.

(* ---- sink *_api: one query of the poller / ChainSupport API after the history ---- *)
Definition api_in := (hctx * apiq)%type.
Definition oln_eqb : option (list N) -> option (list N) -> bool := option_eqb (list_eqb N.eqb).
Definition zl_eqb (a b : Z * list N) : bool := Z.eqb (fst a) (fst b) && list_eqb N.eqb (snd a) (snd b).
Definition apia_eqb (a b : apia) : bool :=
  match a, b with
  | ASet x, ASet y => list_eqb N.eqb x y
  | AOptSet x, AOptSet y => oln_eqb x y
  | ACfg x, ACfg y => option_eqb zl_eqb x y
  | AFch x, AFch y => list_eqb (pair_eqb N.eqb Z.eqb) x y
  | AAll x, AAll y => list_eqb (pair_eqb N.eqb zl_eqb) x y
  | AOptB x, AOptB y => option_eqb Bool.eqb x y
  | _, _ => false
  end.
Definition api_cmodel (x : api_in) : apia :=
  let '((os, d, f, polls), q) := x in api_model os d (hist_views polls) q.
(* the answer is the one the Roles accessors give on the latest successfully fetched configuration *)
Definition api_ok (x : api_in) (a : apia) : bool := apia_eqb (api_spec (hctx_spec (fst x)) (snd x)) a.
Definition api_judge := judge api_cmodel apia_eqb api_ok (fun _ => 0%N).

(* C02_check.v — case types, model runners and executable property checks for the C02 correspondence. *)
Require Import Verif.Model.Base Verif.Model.SeqRange Verif.Model.CommitMerkle Verif.Proofs.CommitMerkleP.

(* ---- part lim: SeqNumRange.Limit ----  input (start, end, n); output (start', end') *)
Definition lim_in := (N * N * N)%type.
Definition lim_out := (N * N)%type.
Definition lim_model (i : lim_in) : lim_out := let '(s, e, n) := i in limit s e n.
Definition lim_oeqb : lim_out -> lim_out -> bool := pair_eqb N.eqb N.eqb.
(* the start never moves; a well-formed range with n >= 1 becomes [s, min(e, s+n-1)] (unbounded arithmetic) *)
Definition lim_ok (i : lim_in) (o : lim_out) : bool :=
  let '(s, e, n) := i in
  N.eqb (fst o) s &&
  (if N.leb s e && N.leb 1 n then N.eqb (snd o) (N.min e (s + n - 1)) else true).
Definition lim_judge := judge lim_model lim_oeqb lim_ok (fun _ => 0%N).

(* ---- part rng: reportRangesOutcome / Processor.Outcome in the selecting state ----
   input (agreed on-ramp latest map, agreed off-ramp next map, max tree size);
   output (RangesSelectedForReport, OffRampNextSeqNums) *)
Definition rng_in := (list (N * N) * list (N * N) * N)%type.
Definition rng_out := (list (N * (N * N)) * list (N * N))%type.
Definition rng_model (i : rng_in) : rng_out := let '(on, off, n) := i in report_ranges on off n.
Definition cr_eqb : N * (N * N) -> N * (N * N) -> bool := pair_eqb N.eqb (pair_eqb N.eqb N.eqb).
Definition sc_eqb : N * N -> N * N -> bool := pair_eqb N.eqb N.eqb.
Definition rng_oeqb : rng_out -> rng_out -> bool := pair_eqb (list_eqb cr_eqb) (list_eqb sc_eqb).

Fixpoint strictly_asc_keys {V} (l : list (N * V)) : bool :=
  match l with
  | x :: ((y :: _) as l') => N.ltb (fst x) (fst y) && strictly_asc_keys l'
  | _ => true
  end.
Definition lookup_is (k v : N) (m : list (N * N)) : bool :=
  match alookup k m with Some v' => N.eqb v v' | None => false end.

(* the interval clauses of C02 stated directly on the implementation's output *)
Definition rng_ok (i : rng_in) (o : rng_out) : bool :=
  let '(on, off, n) := i in
  let '(rs, os) := o in
  if negb (N.leb 1 n) then true else
  strictly_asc_keys rs && strictly_asc_keys os &&
  (* every selected interval is [off, min(on, off+n-1)] of a chain with something pending *)
  forallb (fun r : N * (N * N) =>
             let '(k, (a, b)) := r in
             lookup_is k a off &&
             match alookup k on with
             | Some m => N.leb a m && N.eqb b (N.min m (a + n - 1))
             | None => false
             end) rs &&
  (* every chain with something pending is selected; nothing else is *)
  forallb (fun p : N * N =>
             let '(k, o) := p in
             match alookup k on with
             | Some m => Bool.eqb (N.leb o m) (memN k (map fst rs))
             | None => negb (memN k (map fst rs))
             end) off &&
  (* the carried cursor is the agreed off-ramp map restricted to chains with an on-ramp value *)
  forallb (fun p : N * N => lookup_is (fst p) (snd p) off &&
                            match alookup (fst p) on with Some _ => true | None => false end) os &&
  forallb (fun p : N * N =>
             match alookup (fst p) on with
             | Some _ => memN (fst p) (map fst os)
             | None => negb (memN (fst p) (map fst os))
             end) off.
Definition rng_judge := judge rng_model rng_oeqb rng_ok (fun _ => 0%N).

(* ---- part roots: observerImpl.ObserveMerkleRoots against a scripted reader ----
   input: SupportedChains answer (None = error), ranges, reader answer per chain (None = error; a message is
   (seq, header source chain, hasher answer)), on-ramp address per chain (absent = error), id of the zero hash,
   table of the internal hashes ((a, b), HashInternal a b) computed with the real keccak hasher;
   output: reported roots (chain, range, address, root) in completion order *)
Definition roots_in :=
  (option (list N) * list (N * (N * N)) * list (N * option (list msg)) * list (N * N) * N * list ((N * N) * N))%type.
Definition roots_out := list root_obs.

Definition tbl_h (tbl : list ((N * N) * N)) (a b : N) : N :=
  match find (fun t : (N * N) * N => N.eqb (fst (fst t)) a && N.eqb (snd (fst t)) b) tbl with
  | Some t => snd t
  | None => 0%N       (* never a real id: ids start at 1 *)
  end.
Definition reader_of (ans : list (N * option (list msg))) (k : N) (_ : N * N) : option (list msg) :=
  match alookup k ans with Some a => a | None => None end.

Definition roots_model (i : roots_in) : roots_out :=
  let '(sup, ranges, ans, addrs, zero, tbl) := i in
  observe_roots (tbl_h tbl) zero sup ranges (reader_of ans) (fun k => alookup k addrs).

Definition ro_eqb (x y : root_obs) : bool :=
  let '(k, (s, e), a, r) := x in let '(k', (s', e'), a', r') := y in
  N.eqb k k' && N.eqb s s' && N.eqb e e' && N.eqb a a' && N.eqb r r'.
(* a total preorder used only to compare the two lists up to order (roots are appended by goroutines) *)
Definition lex2 (c1 : comparison) (c2 : comparison) : comparison := match c1 with Eq => c2 | _ => c1 end.
Definition ro_cmp (x y : root_obs) : comparison :=
  let '(k, (s, e), a, r) := x in let '(k', (s', e'), a', r') := y in
  lex2 (N.compare k k') (lex2 (N.compare s s') (lex2 (N.compare e e') (lex2 (N.compare a a') (N.compare r r')))).
Definition ro_le (x y : root_obs) : bool := match ro_cmp x y with Gt => false | _ => true end.
Definition roots_oeqb (a b : roots_out) : bool := list_eqb ro_eqb (sort_by ro_le a) (sort_by ro_le b).

Definition all_some {A} (l : list (option A)) : bool := forallb (fun o => match o with Some _ => true | None => false end) l.
Definition somes {A} (l : list (option A)) : list A := flat_map (fun o => match o with Some x => [x] | None => [] end) l.

(* the root clause of C02 on one reported root *)
Definition root_justified (i : roots_in) (x : root_obs) : bool :=
  let '(sup, ranges, ans, addrs, zero, tbl) := i in
  let '(k, (s, e), a, r) := x in
  match sup with
  | None => false
  | Some su =>
      memN k su && existsb (cr_eqb (k, (s, e))) ranges &&
      match alookup k ans with
      | Some (Some ms) =>
          let sorted := sort_by seq_le ms in
          N.leb s e && N.eqb (N.of_nat (length ms)) (e - s + 1) &&
          list_eqb N.eqb (map m_seq sorted) (iotaN s (length ms)) &&      (* one message per number, none outside *)
          forallb (fun m => N.eqb (m_src m) k) ms &&                          (* all from that source chain *)
          all_some (map m_hash sorted) &&
          option_eqb N.eqb (mroot (tbl_h tbl) zero (somes (map m_hash sorted))) (Some r) &&
          lookup_is k a addrs
      | _ => false
      end
  end.
Definition roots_ok (i : roots_in) (o : roots_out) : bool :=
  let '(sup, ranges, ans, addrs, zero, tbl) := i in
  forallb (root_justified i) o && Nat.leb (length o) (length ranges).

(* known class 2 (F01b): some reader answer contains a message whose header names another source chain *)
Definition roots_known (i : roots_in) : N :=
  let '(sup, ranges, ans, addrs, zero, tbl) := i in
  if existsb (fun p : N * option (list msg) =>
                match snd p with
                | Some ms => existsb (fun m => negb (N.eqb (m_src m) (fst p))) ms
                | None => false
                end) ans
  then 2%N else 0%N.
Definition roots_judge := judge roots_model roots_oeqb roots_ok roots_known.

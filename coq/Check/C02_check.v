(* C02_check.v — case types, model runners and executable property checks for the C02 correspondence. *)
Require Import Verif.Model.Base Verif.Model.SeqRange Verif.Model.CommitMerkle Verif.Proofs.CommitMerkleP.

(* ---- part lim: SeqNumRange.Limit ----  input (start, end, n); output (start', end') *)
Definition lim_in := (N * N * N)%type.
Definition lim_out := (N * N)%type.
Definition lim_model (i : lim_in) : lim_out := let '(s, e, n) := i in limit s e n.
Definition lim_oeqb : lim_out -> lim_out -> bool := pair_eqb N.eqb N.eqb.
(* the start never moves; a well-formed range with n >= 1 becomes [s, min(e, s+n-1)] (unbounded arithmetic) *)
Definition lim_ok (i : lim_in) (o : lim_out) : bool :=
  let '(s, e, n) := i in
  N.eqb (fst o) s &&
  (if N.leb s e && N.leb 1 n then N.eqb (snd o) (N.min e (s + n - 1)) else true).
Definition lim_judge := judge lim_model lim_oeqb lim_ok (fun _ => 0%N).

(* ---- part rng: reportRangesOutcome / Processor.Outcome in the selecting state ----
   input (agreed on-ramp latest map, agreed off-ramp next map, max tree size);
   output (RangesSelectedForReport, OffRampNextSeqNums) *)
Definition rng_in := (list (N * N) * list (N * N) * N)%type.
Definition rng_out := (list (N * (N * N)) * list (N * N))%type.
Definition rng_model (i : rng_in) : rng_out := let '(on, off, n) := i in report_ranges on off n.
Definition cr_eqb : N * (N * N) -> N * (N * N) -> bool := pair_eqb N.eqb (pair_eqb N.eqb N.eqb).
Definition sc_eqb : N * N -> N * N -> bool := pair_eqb N.eqb N.eqb.
Definition rng_oeqb : rng_out -> rng_out -> bool := pair_eqb (list_eqb cr_eqb) (list_eqb sc_eqb).

Fixpoint strictly_asc_keys {V} (l : list (N * V)) : bool :=
  match l with
  | x :: ((y :: _) as l') => N.ltb (fst x) (fst y) && strictly_asc_keys l'
  | _ => true
  end.
Definition lookup_is (k v : N) (m : list (N * N)) : bool :=
  match alookup k m with Some v' => N.eqb v v' | None => false end.

(* the interval clauses of C02 stated directly on the implementation's output *)
Definition rng_ok (i : rng_in) (o : rng_out) : bool :=
  let '(on, off, n) := i in
  let '(rs, os) := o in
  if negb (N.leb 1 n) then true else
  strictly_asc_keys rs && strictly_asc_keys os &&
  (* every selected interval is [off, min(on, off+n-1)] of a chain with something pending *)
  forallb (fun r : N * (N * N) =>
             let '(k, (a, b)) := r in
             lookup_is k a off &&
             match alookup k on with
             | Some m => N.leb a m && N.eqb b (N.min m (a + n - 1))
             | None => false
             end) rs &&
  (* every chain with something pending is selected; nothing else is *)
  forallb (fun p : N * N =>
             let '(k, o) := p in
             match alookup k on with
             | Some m => Bool.eqb (N.leb o m) (memN k (map fst rs))
             | None => negb (memN k (map fst rs))
             end) off &&
  (* the carried cursor is the agreed off-ramp map restricted to chains with an on-ramp value *)
  forallb (fun p : N * N => lookup_is (fst p) (snd p) off &&
                            match alookup (fst p) on with Some _ => true | None => false end) os &&
  forallb (fun p : N * N =>
             match alookup (fst p) on with
             | Some _ => memN (fst p) (map fst os)
             | None => negb (memN (fst p) (map fst os))
             end) off.
Definition rng_judge := judge rng_model rng_oeqb rng_ok (fun _ => 0%N).

(* ---- part roots: observerImpl.ObserveMerkleRoots against a scripted reader ----
   input: SupportedChains answer (None = error), ranges, reader answer per chain (None = error; a message is
   (seq, header source chain, hasher answer)), on-ramp address per chain (absent = error), id of the zero hash,
   table of the internal hashes ((a, b), HashInternal a b) computed with the real keccak hasher;
   output: reported roots (chain, range, address, root) in completion order *)
Definition roots_in :=
  (option (list N) * list (N * (N * N)) * list (N * option (list msg)) * list (N * N) * N * list ((N * N) * N))%type.
Definition roots_out := list root_obs.

Definition tbl_h (tbl : list ((N * N) * N)) (a b : N) : N :=
  match find (fun t : (N * N) * N => N.eqb (fst (fst t)) a && N.eqb (snd (fst t)) b) tbl with
  | Some t => snd t
  | None => 0%N       (* never a real id: ids start at 1 *)
  end.
Definition reader_of (ans : list (N * option (list msg))) (k : N) (_ : N * N) : option (list msg) :=
  match alookup k ans with Some a => a | None => None end.

Definition roots_model (i : roots_in) : roots_out :=
  let '(sup, ranges, ans, addrs, zero, tbl) := i in
  observe_roots (tbl_h tbl) zero sup ranges (reader_of ans) (fun k => alookup k addrs).

Definition ro_eqb (x y : root_obs) : bool :=
  let '(k, (s, e), a, r) := x in let '(k', (s', e'), a', r') := y in
  N.eqb k k' && N.eqb s s' && N.eqb e e' && N.eqb a a' && N.eqb r r'.
(* a total preorder used only to compare the two lists up to order (roots are appended by goroutines) *)
Definition lex2 (c1 : comparison) (c2 : comparison) : comparison := match c1 with Eq => c2 | _ => c1 end.
Definition ro_cmp (x y : root_obs) : comparison :=
  let '(k, (s, e), a, r) := x in let '(k', (s', e'), a', r') := y in
  lex2 (N.compare k k') (lex2 (N.compare s s') (lex2 (N.compare e e') (lex2 (N.compare a a') (N.compare r r')))).
Definition ro_le (x y : root_obs) : bool := match ro_cmp x y with Gt => false | _ => true end.
Definition roots_oeqb (a b : roots_out) : bool := list_eqb ro_eqb (sort_by ro_le a) (sort_by ro_le b).

Definition all_some {A} (l : list (option A)) : bool := forallb (fun o => match o with Some _ => true | None => false end) l.
Definition somes {A} (l : list (option A)) : list A := flat_map (fun o => match o with Some x => [x] | None => [] end) l.

(* the root clause of C02 on one reported root *)
Definition root_justified (i : roots_in) (x : root_obs) : bool :=
  let '(sup, ranges, ans, addrs, zero, tbl) := i in
  let '(k, (s, e), a, r) := x in
  match sup with
  | None => false
  | Some su =>
      memN k su && existsb (cr_eqb (k, (s, e))) ranges &&
      match alookup k ans with
      | Some (Some ms) =>
          let sorted := sort_by seq_le ms in
          N.leb s e && N.eqb (N.of_nat (length ms)) (e - s + 1) &&
          list_eqb N.eqb (map m_seq sorted) (iotaN s (length ms)) &&      (* one message per number, none outside *)
          forallb (fun m => N.eqb (m_src m) k) ms &&                          (* all from that source chain *)
          all_some (map m_hash sorted) &&
          option_eqb N.eqb (mroot (tbl_h tbl) zero (somes (map m_hash sorted))) (Some r) &&
          lookup_is k a addrs
      | _ => false
      end
  end.
Definition roots_ok (i : roots_in) (o : roots_out) : bool :=
  let '(sup, ranges, ans, addrs, zero, tbl) := i in
  forallb (root_justified i) o && Nat.leb (length o) (length ranges).

(* known class 2 (F01b): some reader answer contains a message whose header names another source chain *)
Definition roots_known (i : roots_in) : N :=
  let '(sup, ranges, ans, addrs, zero, tbl) := i in
  if existsb (fun p : N * option (list msg) =>
                match snd p with
                | Some ms => existsb (fun m => negb (N.eqb (m_src m) (fst p))) ms
                | None => false
                end) ans
  then 2%N else 0%N.
Definition roots_judge := judge roots_model roots_oeqb roots_ok roots_known.

(* =====================================================================================================================
   History parts: ONE long-lived merkleroot.Processor (built by NewProcessor) driven over many rounds while everything
   it reads changes between rounds. Each round is one case, judged against the model evaluated on that round's CURRENT
   inputs only (the model keeps nothing between rounds).
   ===================================================================================================================== *)
Require Verif.Model.Consensus Verif.Model.CommitConsensus Verif.Model.CommitSM Verif.Check.C03_check Verif.Model.C02Hist.

(* constructors used by the harness terms *)
Definition hOut := CommitSM.mkOutcome.
Definition hObs := CommitConsensus.mkObs.
Definition hRmn := CommitConsensus.mkRmn.

(* ---- part hist / sink C02_hist: Processor.Outcome ----
   input (F, dest, MaxReportTransmissionCheckAttempts, MaxMerkleTreeSize, previous outcome as handed in, retry flag of
   the query, attributed observations of this round); output: the outcome *)
Definition hr_in := (Z * N * N * N * CommitSM.outcome * bool * list CommitConsensus.aobs)%type.
Definition hr_out := CommitSM.outcome.

Definition h_conv_root (v : CommitConsensus.root_t) : CommitSM.root := let '(c, a, (s, e), r) := v in (c, (s, e), a, r).
(* the agreed RMN remote config: id agreed under the destination key, F read off an observation that carries that id *)
Definition h_cfg (dest : N) (aos : list CommitConsensus.aobs) (c : CommitConsensus.cons) : CommitSM.rmn_cfg :=
  match alookup dest (CommitConsensus.c_rmn c) with
  | None => CommitSM.cfg_empty
  | Some id =>
      match find (fun ao : CommitConsensus.aobs => N.eqb (CommitConsensus.rc_id (CommitConsensus.o_rmn (snd ao))) id) aos with
      | Some ao => (id, CommitConsensus.rc_f (CommitConsensus.o_rmn (snd ao)))
      | None => CommitSM.cfg_empty
      end
  end.
(* this round's consensus observation: C01 model on this round's observations *)
Definition hr_cons (F : Z) (dest : N) (aos : list CommitConsensus.aobs) : option CommitSM.cons :=
  match CommitConsensus.get_consensus F dest aos with
  | Ok c => Some (CommitSM.mkCons (map (fun kv => h_conv_root (snd kv)) (CommitConsensus.c_roots c))
                                  (CommitConsensus.c_onramp c) (CommitConsensus.c_offramp c) (h_cfg dest aos c))
  | _ => None
  end.

Definition hr_model (i : hr_in) : hr_out :=
  let '(F, dest, max, n, prev, retry, aos) := i in
  CommitSM.get_outcome max n prev (CommitSM.mkQuery retry None) (hr_cons F dest aos).

(* the C02 clauses on one round of a history, on the implementation's outcome:
   selecting round  -> the selected intervals and the carried cursor are exactly those of THIS round's agreed maps
                       (rng_ok: start = this round's agreed off-ramp next, no interval for a chain lacking either agreed
                       number, whatever the previous outcome carried); nothing selected without consensus;
   building round   -> nothing selected; every root reported is a root agreed in THIS round; a retry reproduces the
                       previous outcome (so the recorded intervals survive unchanged);
   waiting round    -> nothing selected, nothing reported *)
Definition hr_ok (i : hr_in) (o : hr_out) : bool :=
  let '(F, dest, max, n, prev, retry, aos) := i in
  match CommitSM.next_state (CommitSM.o_type prev) with
  | CommitSM.Selecting =>
      match hr_cons F dest aos with
      | None => match CommitSM.o_ranges o with [] => true | _ => false end
      | Some c =>
          Z.eqb (CommitSM.o_type o) CommitSM.T_selected &&
          rng_ok (CommitSM.c_on c, CommitSM.c_off c, n) (CommitSM.o_ranges o, CommitSM.o_off o) &&
          match CommitSM.o_roots o with [] => true | _ => false end &&
          (* judge soundness (Proofs/JudgeSoundC02P.v): C02_hist_selection_exact also says that a fresh selection
             resets the attempt counter and carries no signatures; the clause was not evaluated before, so an outcome
             with the right intervals but a stale counter / stale signatures passed (hr_ok_before_unsound) *)
          N.eqb (CommitSM.o_attempts o) 0 &&
          match CommitSM.o_sigs o with [] => true | _ => false end
      end
  | CommitSM.Building =>
      if retry then C03_check.outcome_eqb o prev
      else match CommitSM.o_ranges o with [] => true | _ => false end &&
           match hr_cons F dest aos with
           | None => match CommitSM.o_roots o with [] => true | _ => false end
           | Some c => forallb (fun r => existsb (CommitSM.root_eqb r) (CommitSM.c_roots c)) (CommitSM.o_roots o) &&
                       nodupb N.eqb (map CommitSM.root_chain (CommitSM.o_roots o))
           end
  | CommitSM.Waiting =>
      match CommitSM.o_ranges o with [] => true | _ => false end &&
      match CommitSM.o_roots o with [] => true | _ => false end
  end.
Definition hr_judge := judge hr_model C03_check.outcome_eqb hr_ok (fun _ => 0%N).

(* ---- part hist / sink C02_hobs: Processor.Observation of the same long-lived instance ----
   input: previous outcome (type, recorded intervals), retry flag, and the environment of THIS round:
     chain support (SupportedChains, KnownSourceChainsSlice, SupportsDestChain; None = error),
     curse info (None = read error; (global or destination curse, cursed source chains)),
     off-ramp reader (mode 0 honest / 1 error / 2 one answer short / 3 one long; cursor per chain),
     on-ramp reader (expected next per chain; None or absent = error),
     message reader answer per chain, on-ramp address per chain, id of the zero hash, table of internal hashes,
     home chain fChain (None = error)
   output: (MerkleRoots, OnRampMaxSeqNums, OffRampNextSeqNums, FChain sorted by chain) *)
Definition ho_env := (option (list N) * option (list N) * option bool * option (bool * list N))%type.
Definition ho_in :=
  (Z * list (N * (N * N)) * bool * ho_env * (N * list (N * N)) * list (N * option N) *
   (list (N * option (list msg)) * list (N * N) * N * list ((N * N) * N)) * option (list (N * Z)))%type.
Definition ho_out := (list root_obs * list (N * N) * list (N * N) * list (N * Z))%type.

Definition ho_next (mode : N) (cur : list (N * N)) (chains : list N) : option (list N) :=
  if N.eqb mode 1 then None
  else let ans := map (fun k => match alookup k cur with Some v => v | None => 0%N end) chains in
       if N.eqb mode 2 then Some (removelast ans)
       else if N.eqb mode 3 then Some (ans ++ [1%N])
       else Some ans.
Definition ho_expected (ex : list (N * option N)) (k : N) : option N :=
  match alookup k ex with Some a => a | None => None end.
Definition ho_prev (t : Z) (ranges : list (N * (N * N))) : CommitSM.outcome :=
  CommitSM.mkOutcome t ranges [] [] 0 [] CommitSM.cfg_empty.

Definition ho_model (i : ho_in) : ho_out :=
  let '(t, ranges, retry, (sup, known, sd, curse), (mode, cur), ex, (ans, addrs, zero, tbl), fch) := i in
  let ob := C02Hist.get_observation (tbl_h tbl) zero sup known sd curse (ho_next mode cur) (ho_expected ex)
                                    (reader_of ans) (fun k => alookup k addrs) fch (ho_prev t ranges) retry in
  (C02Hist.ob_roots ob, C02Hist.ob_on ob, C02Hist.ob_off ob, C02Hist.ob_fchain ob).

Definition zc_eqb : N * Z -> N * Z -> bool := pair_eqb N.eqb Z.eqb.
Definition ho_oeqb (a b : ho_out) : bool :=
  let '(r1, on1, off1, f1) := a in let '(r2, on2, off2, f2) := b in
  roots_oeqb r1 r2 && list_eqb sc_eqb on1 on2 && list_eqb sc_eqb off1 off2 && list_eqb zc_eqb f1 f2.

Definition in_opt (k : N) (l : option (list N)) : bool := match l with Some x => memN k x | None => false end.

(* roots: only in a non-retry building round, only for an interval the previous outcome recorded, justified by THIS
   round's reader answer / address / support (root_justified, the root clause of C02);
   off-ramp numbers: only in selecting / waiting rounds, only for known, non-cursed chains, the off-ramp's current value;
   on-ramp numbers: only in selecting rounds, for known supported chains, expected next - 1 as read in this round *)
Definition ho_ok (i : ho_in) (o : ho_out) : bool :=
  let '(t, ranges, retry, (sup, known, sd, curse), (mode, cur), ex, (ans, addrs, zero, tbl), fch) := i in
  let '(roots, on, off, f) := o in
  let st := CommitSM.next_state t in
  let building := CommitSM.state_eqb st CommitSM.Building && negb retry in
  roots_ok (sup, (if building then ranges else []), ans, addrs, zero, tbl) roots &&
  nodupb N.eqb (map fst off) && nodupb N.eqb (map fst on) &&
  forallb (fun p : N * N =>
             negb (CommitSM.state_eqb st CommitSM.Building) &&
             match sd with Some true => true | _ => false end &&
             in_opt (fst p) known &&
             match curse with
             | Some (blocked, cursed) => negb blocked && negb (memN (fst p) cursed)
             | None => false
             end &&
             (if N.eqb mode 0 then N.eqb (snd p) (match alookup (fst p) cur with Some v => v | None => 0%N end) else false)) off &&
  forallb (fun p : N * N =>
             CommitSM.state_eqb st CommitSM.Selecting && in_opt (fst p) known && in_opt (fst p) sup &&
             match ho_expected ex (fst p) with
             | Some v => negb (N.eqb v 0) && N.eqb (snd p) (v - 1)
             | None => false
             end) on &&
  (if CommitSM.state_eqb st CommitSM.Building && retry then match f with [] => true | _ => false end
   else list_eqb zc_eqb f (C02Hist.observe_fchain fch)).
(* known class 2 (F01b), as in part roots: a reader answer with a message whose header names another source chain *)
Definition ho_known (i : ho_in) : N :=
  let '(t, ranges, retry, env, nx, ex, (ans, addrs, zero, tbl), fch) := i in
  roots_known (None, [], ans, addrs, zero, tbl).
Definition ho_judge := judge ho_model ho_oeqb ho_ok ho_known.

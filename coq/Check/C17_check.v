(* C17_check.v — case types, model runners and executable property for the C17 correspondence. *)
Require Export Verif.Model.Base Verif.Model.Truncate.

Definition tc_eqb (a b : tcommit) : bool :=
  N.eqb (tc_id a) (tc_id b) && N.eqb (tc_lo a) (tc_lo b) && N.eqb (tc_hi a) (tc_hi b).
Definition tmsg_eqb (a b : tmsg) : bool :=
  N.eqb (fst (fst a)) (fst (fst b)) && N.eqb (snd (fst a)) (snd (fst b)) && N.eqb (snd a) (snd b).
Definition tobs_eqb (a b : tobs) : bool :=
  list_eqb (pair_eqb N.eqb (list_eqb tc_eqb)) (t_commits a) (t_commits b) &&
  list_eqb tmsg_eqb (t_msgs a) (t_msgs b) &&
  list_eqb (pair_eqb N.eqb N.eqb) (t_toks a) (t_toks b) &&
  list_eqb N.eqb (t_costly a) (t_costly b) &&
  list_eqb N.eqb (t_nonces a) (t_nonces b).

(* the consistency clause of C17, executable: the result is the original projected on the commit reports that are
   left, and those are prefixes of the original lists *)
Fixpoint is_prefix (l' l : list tcommit) : bool :=
  match l', l with
  | [], _ => true
  | a :: l1, b :: l2 => tc_eqb a b && is_prefix l1 l2
  | _, _ => false
  end.
(* the token-data clause presupposes token data only where a message is; otherwise that component is skipped *)
Definition toks_have_msgsb (o : tobs) : bool := forallb (fun t => has_msg (t_msgs o) (fst t) (snd t)) (t_toks o).
Definition consistentb (o0 o : tobs) : bool :=
  (let p := project o0 (t_commits o) in
   tobs_eqb o (if toks_have_msgsb o0 then p else mkTObs (t_commits p) (t_msgs p) (t_toks o) (t_costly p) (t_nonces p))) &&
  forallb (fun kv => match alookup (fst kv) (t_commits o0) with
                     | Some l => is_prefix (snd kv) l
                     | None => false end) (t_commits o) &&
  nodupb N.eqb (tkeys (t_commits o)).

(* ---- part steps: truncateLastCommit (kind 0) / truncateChain (kind 1) on one chain ---- *)
Definition step_in := (N * N * tobs)%type.
Definition step_out := res tobs.
Definition step_model (i : step_in) : step_out :=
  let '(kind, c, o) := i in
  Ok (if N.eqb kind 0 then truncate_last_commit o c else truncate_chain o c).
Definition step_oeqb : step_out -> step_out -> bool := res_eqb tobs_eqb.
Definition step_ok (i : step_in) (r : step_out) : bool :=
  let '(kind, c, o) := i in
  match r with
  | Ok o' =>
      consistentb o o' &&
      (* only the chain asked for is touched *)
      forallb (fun kv => if N.eqb (fst kv) c then true
                         else match alookup (fst kv) (t_commits o') with
                              | Some l => list_eqb tc_eqb l (snd kv) | None => false end) (t_commits o)
  | _ => false
  end.
Definition step_judge := judge step_model step_oeqb step_ok (fun _ => 0%N).

(* ---- part trunc: truncateObservation at several limits.
   input: the observation; a table (remaining reports per chain -> encoded size) holding the real encoded size of
   every observation on the witness paths; per limit the chains a witness path cuts, iteration by iteration (the
   implementation takes the first key in Go map order after the first iteration - the harness finds a path that
   explains the implementation's answer; the model replays it and checks it is legal).
   output per limit: the implementation's answer and the real encoded size of the returned observation ---- *)
Definition vec_t := list (N * nat).
Definition trunc_in := (tobs * list (vec_t * N) * list (Z * list N))%type.
Definition trunc_out := list (res tobs * N).

Definition vec (o : tobs) : vec_t := map (fun kv => (fst kv, length (snd kv))) (t_commits o).
Definition vec_eqb : vec_t -> vec_t -> bool := list_eqb (pair_eqb N.eqb Nat.eqb).
Definition size_tab (tab : list (vec_t * N)) (o : tobs) : N :=
  match find (fun e => vec_eqb (fst e) (vec o)) tab with Some e => snd e | None => 0%N end.
Definition pick_of (picks : list N) (n : nat) (_ : tobs) : N := nth n picks 0%N.

Definition trunc_model (i : trunc_in) : trunc_out :=
  let '(o, tab, runs) := i in
  map (fun r => let res := truncate (size_tab tab) (fst r) (pick_of (snd r)) o in
                (res, match res with Ok o' => size_tab tab o' | _ => 0%N end)) runs.
Definition trunc_oeqb : trunc_out -> trunc_out -> bool := list_eqb (pair_eqb (res_eqb tobs_eqb) N.eqb).

(* "an error only if nothing fits" (C17_error_only_if_nothing_fits), executable: every observation the loop measures on
   the case's witness path - the original, each intermediate one, down to one whose next cut leaves no commit report -
   exceeds the limit under the case's size table.  [cut_next] = one iteration's cut. *)
Definition cut_next (pick : nat -> tobs -> N) (n : nat) (o : tobs) : tobs :=
  match chain_for pick n o with Some c => step o c | None => o end.
Fixpoint nothing_fits (size : tobs -> N) (max : Z) (pick : nat -> tobs -> N) (fuel n : nat) (o : tobs) : bool :=
  too_big size max o &&
  match fuel with
  | O => false
  | S fuel' => let o' := cut_next pick n o in
               match t_commits o' with
               | [] => true
               | _ => nothing_fits size max pick fuel' (S n) o'
               end
  end.

Definition trunc_ok1 (o : tobs) (tab : list (vec_t * N)) (max : Z) (picks : list N) (r : res tobs * N) : bool :=
  match fst r with
  | Ok o' => Z.leb (Z.of_N (snd r)) max && consistentb o o' &&
             (* nothing is cut when the observation fits *)
             (if Z.leb (Z.of_N (size_tab tab o)) max then tobs_eqb o o' else true) &&
             (* "if not even one report fits, an error is returned": a result that was cut still has a chain entry
                (for observations without empty per-chain lists - all that the plugin builds - that is a report) *)
             (tobs_eqb o o' || negb (Nat.eqb (length (t_commits o')) 0))
  | Err => nothing_fits (size_tab tab) max (pick_of picks) (S (measure o)) 0 o
  | _ => false
  end.
Definition trunc_ok (i : trunc_in) (out : trunc_out) : bool :=
  let '(o, tab, runs) := i in
  Nat.eqb (length runs) (length out) &&
  forallb (fun p => trunc_ok1 o tab (fst (fst p)) (snd (fst p)) (snd p)) (combine runs out).
Definition trunc_judge := judge trunc_model trunc_oeqb trunc_ok (fun _ => 0%N).

(* C20_tx.v — the compact text encoding of the C20 case files: bytes packed seven to a primitive 63-bit integer, the
   length in bits 56..58.  Imported by the generated case files only (lib/specs/C20.py: case_import).  It is kept out of
   Check/C20_check.v because that file is imported by the theorem files (judge soundness), and loading the Uint63
   library makes `coqchk -o` list that library's axioms (the primitive operations and their specifications) for the
   property theorems although none of them depends on it. *)
Require Export Verif.Model.Base.
From Coq Require Uint63.
Definition chunk_bytes (c : Uint63.int) : list N :=
  let len := Z.to_nat (Uint63.to_Z (Uint63.land (Uint63.lsr c (Uint63.of_Z 56)) (Uint63.of_Z 7))) in
  map (fun i => Z.to_N (Uint63.to_Z (Uint63.land (Uint63.lsr c (Uint63.of_Z (8 * Z.of_nat i))) (Uint63.of_Z 255)))) (seq 0 len).
Definition txp (l : list Uint63.int) : list N := flat_map chunk_bytes l.

(* number notation for the packed chunks in case files *)
Export Coq.Numbers.Cyclic.Int63.PrimInt63.

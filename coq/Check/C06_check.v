(* C06_check.v — case types, model runner and executable property for the C06 correspondence.

   One case = one scripted run of the real rmn.controller.ComputeReportSignatures.
   Input:  the configuration, what the harness observed of Go's random choices (send orders), the scripted Send
           failures and the script of items the harness delivered.
   Output: the canonical observable of the run.

   The harness delivers an item only when the controller goroutine is parked in its select, so a timer that is
   due (elapsed initial duration, or Reset(0) after an invalid response) has fired before the next item: the
   model inserts TimerFire exactly there ("eager timer").  Race items are handed over at the very next select
   entry, where Go may pick either ready case: the model produces both outcomes and the implementation must show
   one of them.  The iteration order of rmnNodeInfo is not observable; the model tries every order that is
   compatible with the set of nodes that were asked. *)
Require Export Verif.Model.Base Verif.Model.Rmn.

(* ---------- oracles as scripted by the harness stubs ---------- *)
(* ed25519 stub: a signature verifies under a key iff it is that key's marker *)
Definition edv_c (key : N) (_ : observation) (sg : N) : bool := N.eqb sg key.
(* RMNCrypto stub: signature g verifies for signer address g / 100 *)
Definition vrs_c (addr : N) (sg : N) (_ : report) : bool := N.eqb (sg / 100) addr.

Inductive item :=
| IResp (n : node) (b : body)
| IRace (n : node) (b : body)      (* handed over at the next select entry, possibly together with a due timer *)
| ICancel                          (* context cancelled while the controller is parked *)
| IRaceCancel.                     (* context cancelled at the next select entry *)

Definition send_t := (N * node * reqid * bool * list chain)%type.
Definition send_of (s : send_rec) : send_t := (sd_kind s, sd_node s, sd_id s, sd_ok s, sd_chains s).

(* kind: 0 success, 3 ErrNothingToDo, 4 ErrTimeout, 5 ErrInsufficientObservationResponses,
   6 ErrInsufficientSignatureResponses, 7 any other error, 9 panic, 10 still running after the watchdog *)
Record out1 := mkOut {
  o_kind : N;
  o_lanes : list (chain * root);              (* ReportSignatures.LaneUpdates: (selector, root) *)
  o_sigs : list N;                            (* ReportSignatures.Signatures in order *)
  o_log : list send_t;                        (* every PeerClient.Send call in order *)
  o_attr : list (node * list (chain * root)); (* AttributedSignedObservations of the signature request *)
  o_repok : bool                              (* every VerifyReportSignatures call saw exactly the report handed back *)
}.

Record c06_in := mkIn {
  i_cfg : config;
  i_asked : list node;      (* nodes of the initial observation requests in Send order *)
  i_sendA2 : list node;     (* nodes of the additional observation requests in Send order *)
  i_shufB1 : list node;     (* nodes of the first signature requests in Send order *)
  i_shufB2 : list node;     (* nodes of the additional signature requests in Send order *)
  i_fails : list bool;      (* scripted failure of the k-th Send call *)
  i_items : list item
}.
Definition c06_out := list out1.

Definition fail_code (f : fail) : N :=
  match f with
  | FNothingToDo => 3
  | FTimeoutA | FTimeoutB => 4
  | FInsufObs => 5
  | FInsufSigs => 6
  | FDupChain | FNoF | FRoots | FDest | FSendSigs => 7
  end%N.

(* request ids are interned by the harness as 1 + the index of the Send call in the controller's lifetime: [off] is
   the number of Send calls made by EARLIER calls on the same controller (0 for a controller built for one call) *)
Definition mk_sched (off : nat) (order1 a1 a2 rootord b1 b2 : list node) (fails : list bool) : sched :=
  mkSched order1 a1 a2 rootord b1 b2 (fun k => N.of_nat (S (off + k))) (fun k => nth k fails false).

Section Run.
  Variable cfg : config.
  Variable sc : sched.

  Definition step1 := gstep edv_c vrs_c fixed cfg sc.

  (* the harness waits until the controller is parked before it acts: a due timer has fired by then *)
  Definition settle (g : gstate) : gstate := if g_due g then step1 g TimerFire else g.

  Definition fixroot (p : chain * rootv) : chain * root :=
    (fst p, match snd p with R32 r | RLong r => r | _ => 0%N end).
  Definition attr_of (acc : acc_t) : list (node * list (chain * root)) :=
    map (fun a => (fst a, sort_by (fun x y => N.leb (fst x) (fst y)) (map fixroot (snd a))))
        (sort_by (fun a b => N.leb (fst a) (fst b)) acc).

  (* did a ReportSignatureRequest leave the controller? it carries the attributed observations *)
  Definition sig_sent (log : list send_rec) : bool := existsb (fun s => N.eqb (sd_kind s) 1) log.

  Definition out_of (g : gstate) (acc_seen : acc_t) : out1 :=
    let log := map send_of (g_log g) in
    let attr := if sig_sent (g_log g) then attr_of acc_seen else [] in
    match g with
    | GFinal (Success sigs rep) _ => mkOut 0 (map (fun p => (lr_chain (fst p), snd p)) rep) sigs log attr true
    | GFinal (Failure f) _ => mkOut (fail_code f) [] [] log attr true
    | GFinal Crash _ => mkOut 9 [] [] log attr true
    | _ => mkOut 10 [] [] log attr true
    end.
End Run.

(* the observations phase A handed to phase B (they travel in the signature request) are not part of a final
   state: pick them up at the step that ends phase A *)
Definition acc_after (cfg : config) (sc : sched) (g : gstate) (e : event) (acc : acc_t) : acc_t :=
  match g with
  | GA us s => match stepA edv_c fixed cfg sc us s e with Done (inl a) => a | _ => acc end
  | _ => acc
  end.

Fixpoint eager_acc (cfg : config) (sc : sched) (g : gstate) (acc : acc_t) (its : list item) : list (gstate * acc_t) :=
  let st := step1 cfg sc in
  let go := fun g acc e r => eager_acc cfg sc (st g e) (acc_after cfg sc g e acc) r in
  let gs := settle cfg sc g in   (* TimerFire never ends phase A, so [acc] is unchanged by it *)
  match its with
  | [] => [(gs, acc)]
  | IResp n b :: r => go gs acc (Resp n b) r
  | ICancel :: r => go gs acc CtxDone r
  | IRace n b :: r =>
      if g_due g then go gs acc (Resp n b) r ++ go g acc (Resp n b) r else go g acc (Resp n b) r
  | IRaceCancel :: r =>
      if g_due g then go gs acc CtxDone r ++ go g acc CtxDone r else go g acc CtxDone r
  end.

(* every way of moving one element of l to the end *)
Fixpoint rotations_aux (pre l : list N) : list (list N) :=
  match l with
  | [] => []
  | x :: l' => (pre ++ l' ++ [x]) :: rotations_aux (pre ++ [x]) l'
  end.
Definition rotations (l : list N) : list (list N) := match l with [] => [[]] | _ => rotations_aux [] l end.

Fixpoint item_roots (its : list item) : list root :=
  let of_body := fun b =>
    match b with
    | BMsg _ (PObs (mkSO (Some ob) _)) =>
        flat_map (fun lu => match lu_root lu with R32 r | RLong r => [r] | _ => [] end) (ob_lus ob)
    | _ => []
    end in
  match its with
  | [] => []
  | IResp _ b :: r | IRace _ b :: r => of_body b ++ item_roots r
  | _ :: r => item_roots r
  end.

Definition c06_model_from (off : nat) (i : c06_in) : c06_out :=
  let roots := dedupN (item_roots (i_items i)) in
  let rootords := if memN 0%N roots then [[0%N]; filter (fun r => negb (N.eqb r 0)) roots] else [[]] in
  flat_map (fun order1 =>
    flat_map (fun ro =>
      let sc := mk_sched off order1 (i_asked i) (i_sendA2 i) ro (i_shufB1 i) (i_shufB2 i) (i_fails i) in
      let g0 := ginit (i_cfg i) sc in
      map (fun ga => out_of (fst ga) (snd ga))
          (eager_acc (i_cfg i) sc g0 [] (i_items i)))
      rootords)
    (rotations (i_asked i)).
Definition c06_model := c06_model_from 0.

Definition vote_pair_eqb (p q : chain * root) : bool := N.eqb (fst p) (fst q) && N.eqb (snd p) (snd q).
Definition send_eqb (a b : send_t) : bool :=
  let '(k1, n1, i1, o1, c1) := a in
  let '(k2, n2, i2, o2, c2) := b in
  N.eqb k1 k2 && N.eqb n1 n2 && N.eqb i1 i2 && Bool.eqb o1 o2 && list_eqb N.eqb c1 c2.
Definition out1_eqb (a b : out1) : bool :=
  N.eqb (o_kind a) (o_kind b) &&
  list_eqb vote_pair_eqb (o_lanes a) (o_lanes b) &&
  list_eqb N.eqb (o_sigs a) (o_sigs b) &&
  list_eqb send_eqb (o_log a) (o_log b) &&
  list_eqb (pair_eqb N.eqb (list_eqb vote_pair_eqb)) (o_attr a) (o_attr b) &&
  Bool.eqb (o_repok a) (o_repok b).
(* the implementation shows exactly one outcome; it has to be one the model allows *)
Definition c06_oeqb (m o : c06_out) : bool :=
  match o with
  | [x] => existsb (fun y => out1_eqb y x) m
  | _ => false
  end.

(* ---------- the executable property, evaluated on the implementation's output alone ---------- *)
Definition item_resp (it : item) : option (node * body) :=
  match it with IResp n b | IRace n b => Some (n, b) | _ => None end.

(* node n sent an observation, correctly signed, for this destination and configuration, in which lane
   (chain of u, requested onramp, requested interval) carries exactly root r *)
Definition good_vote (cfg : config) (u : upd) (r : root) (it : item) : option node :=
  match item_resp it with
  | Some (n, BMsg _ (PObs (mkSO (Some ob) sg))) =>
      match find_home cfg n with
      | Some hn =>
          if memN n (u_nodes u) && memN (u_chain u) (hn_chains hn) &&
             option_eqb (pair_eqb N.eqb N.eqb) (ob_dest ob) (Some (c_dest_sel cfg, c_dest_off cfg)) &&
             N.eqb (ob_digest ob) (c_digest cfg) &&
             edv_c (hn_key hn) ob sg &&
             existsb (fun lu =>
               (* the lane source is exactly the requested lane: selector AND on-ramp address, the latter by the code's
                  rule — byte-equal to the last 20 bytes of the requested address *)
               option_eqb (pair_eqb N.eqb addr_eqb) (lu_src lu) (Some (u_chain u, exp_onramp (u_req u))) &&
               option_eqb (pair_eqb N.eqb N.eqb) (lu_itv lu) (Some (lr_min (u_req u), lr_max (u_req u))) &&
               match lu_root lu with R32 r' => N.eqb r' r | _ => false end) (ob_lus ob)
          then Some n else None
      | None => None
      end
  | _ => None
  end.
Fixpoint somes {A} (l : list (option A)) : list A :=
  match l with [] => [] | Some x :: l' => x :: somes l' | None :: l' => somes l' end.
Definition voters (cfg : config) (u : upd) (r : root) (its : list item) : list node :=
  dedupN (somes (map (good_vote cfg u r) its)).

(* a configured signer whose node sent signature g, valid for the report, of the right shape *)
Definition sig_signer (cfg : config) (rep : report) (its : list item) (g : N) : option signer :=
  find (fun s =>
    vrs_c (sg_addr s) g rep &&
    existsb (fun it => match item_resp it with
                       | Some (n, BMsg _ (PSig (Some e))) => N.eqb n (sg_node s) && e_lenok e && N.eqb (e_sig e) g
                       | _ => false
                       end) its) (c_signers cfg).

Fixpoint strictly_ascN (l : list N) : bool :=
  match l with
  | x :: ((y :: _) as l') => N.ltb x y && strictly_ascN l'
  | _ => true
  end.

(* executable twin of C06_one_observation_per_node / C06_obs_threshold on what phase A actually handed to the signers
   (the AttributedSignedObservations of the ReportSignatureRequest): no node appears twice, and every lane has a root
   carried by F_home+1 DISTINCT nodes *)
Definition attr_voters (attr : list (node * list (chain * root))) (ch : chain) (r : root) : list node :=
  dedupN (map fst (filter (fun a => existsb (vote_pair_eqb (ch, r)) (snd a)) attr)).
(* [The carriers were counted without looking at the script: attributed observations of nodes that never sent a
   correctly signed observation of that root for the requested lane (C06_obs_threshold: "each ... whose response in
   the schedule is correctly signed, names this destination and configuration, and carries r for exactly the
   requested onramp and interval") were accepted — witness attr_ok_before_unsound in Proofs/JudgeSoundC06P.v.  Now
   only carriers that are voters of that root in the script count towards F_home+1.] *)
Definition attr_ok (cfg : config) (its : list item) (attr : list (node * list (chain * root))) : bool :=
  match attr with
  | [] => true
  | _ =>
      nodupb N.eqb (map fst attr) &&
      (* every observation that is counted comes from a node that is a configured observer of that chain in THIS
         configuration *)
      forallb (fun a => forallb (fun v => memN (fst a) (rmn_nodes_of cfg (fst v))) (snd a)) attr &&
      match prepare cfg with
      | inl (Ok us) =>
          forallb (fun u =>
            existsb (fun a => existsb (fun v => N.eqb (fst v) (u_chain u) &&
                                               gte_f_plus_one (u_F u)
                                                 (zlen (filter (fun n => memN n (voters cfg u (snd v) its))
                                                               (attr_voters attr (u_chain u) (snd v)))))
                                      (snd a)) attr) us
      | _ => false
      end
  end.

(* the clauses on the result itself: no panic / hang, the attributed observations, and the success clause of
   C06_sig_threshold (signatures strictly ascending by signer address: C06_sigs_strictly_ordered) *)
Definition c06_core (i : c06_in) (o : out1) : bool :=
  let cfg := i_cfg i in
  negb (N.eqb (o_kind o) 9) && negb (N.eqb (o_kind o) 10) && attr_ok cfg (i_items i) (o_attr o) &&
  (if N.eqb (o_kind o) 0 then
     match prepare cfg with
     | inl (Ok us) =>
         (* exactly the requested lanes that have enough observers, ascending *)
         list_eqb N.eqb (map fst (o_lanes o)) (sortN (map u_chain us)) &&
         (* F_home+1 distinct configured observers vouch for every root handed back, and that root is not the empty
            (all-zero) root.  [The second conjunct was missing: C06_sig_threshold says r <> 0, and an output handing
            back the empty root for a lane on which F_home+1 observers voted the empty root was accepted — witness
            c06_ok_before_unsound in Proofs/JudgeSoundC06P.v.] *)
         forallb (fun u =>
           match alookup (u_chain u) (o_lanes o) with
           | Some r => negb (N.eqb r 0) && gte_f_plus_one (u_F u) (zlen (voters cfg u r (i_items i)))
           | None => false
           end) us &&
         (* F_remote+1 signatures of distinct configured signers over that report, ascending by signer address *)
         (let rep := map (fun u => (u_req u, match alookup (u_chain u) (o_lanes o) with Some r => r | None => 0%N end))
                         us in
          let sgs := map (sig_signer cfg rep (i_items i)) (o_sigs o) in
          forallb (fun x => negb (is_none x)) sgs &&
          strictly_ascN (map sg_addr (somes sgs)) &&
          nodupb N.eqb (map sg_node (somes sgs)) &&
          gte_f_plus_one (c_remoteF cfg) (zlen (o_sigs o))) &&
         o_repok o
     | _ => false
     end
   else true).

(* ---------- the Send log: every PeerClient.Send call of the run (C06_requests_wellformed) ----------
   an observation request goes only to a configured observer of every chain it names, and names requested lanes only;
   no node is sent two observation requests (C06_one_observation_per_node read on the log); a report-signature request
   goes only to a configured signer that RMNHome knows, no signer has two ACCEPTED signature requests; and a signature
   request leaves the controller exactly when phase A handed observations on (then [attr_ok] demands F_home+1
   carriers per lane: signature requests only after the observation threshold, C06_obs_threshold).  If the
   configuration is refused before the first select nothing is sent at all. *)
Definition snd_kind (s : send_t) : N := fst (fst (fst (fst s))).
Definition snd_node (s : send_t) : node := snd (fst (fst (fst s))).
Definition snd_ok (s : send_t) : bool := snd (fst s).
Definition snd_chains (s : send_t) : list chain := snd s.
Definition is_k0 (s : send_t) : bool := N.eqb (snd_kind s) 0.
Definition is_k1 (s : send_t) : bool := N.eqb (snd_kind s) 1.
Definition log_ok (cfg : config) (log : list send_t) (attr : list (node * list (chain * root))) : bool :=
  match prepare cfg with
  | inl (Ok us) =>
      forallb (fun s =>
        if is_k0 s
        then forallb (fun ch => memN ch (map u_chain us) && memN (snd_node s) (rmn_nodes_of cfg ch)) (snd_chains s)
        else is_k1 s && memN (snd_node s) (signer_nodes cfg) && is_home cfg (snd_node s)) log &&
      nodupb N.eqb (map snd_node (filter is_k0 log)) &&
      nodupb N.eqb (map snd_node (filter (fun s => is_k1 s && snd_ok s) log)) &&
      Bool.eqb (existsb is_k1 log) (negb (nilb attr))
  | _ => nilb log && nilb attr
  end.

(* ---------- WHEN the call may fail (C06_failure_origin) ----------
   a configuration error (duplicate chain / no F / nothing to do) is reported exactly when the configuration has it;
   ErrTimeout only if the context was cancelled within the script; ErrInsufficientObservationResponses only in phase A
   (no signature request has left the controller).  The other error kinds are constrained by the liveness clause
   below only. *)
Definition is_cancel (it : item) : bool := match it with ICancel | IRaceCancel => true | _ => false end.
Definition kind_ok (cfg : config) (its : list item) (o : out1) : bool :=
  match prepare cfg with
  | inr f => N.eqb (o_kind o) (fail_code f)
  | _ => negb (N.eqb (o_kind o) 3)
  end &&
  (if N.eqb (o_kind o) 4 then existsb is_cancel its else true) &&
  (if N.eqb (o_kind o) 5 then negb (existsb is_k1 (o_log o)) else true).

(* ---------- liveness (C06_liveness) as a test on the case ----------
   The hypotheses of the theorem are decidable once the schedule and the event list are fixed, because they speak about
   the states the MODEL is in when a response arrives (is this request id the one sent to this node?).  [eager_evs] are
   the event lists behind [eager_acc] (same branching: due timers, races); for each of them [live_hyp] evaluates the
   hypotheses with
     rho  = per requested lane the non-empty root with the most correctly signed votes in the script,
     hon  = the nodes that never answer a request that was sent to them wrongly (w.r.t. rho / the report to sign),
     q u  = honest observers of lane u that answered in time, qs = honest known signers that answered in time.
   If the test holds for EVERY schedule and event list the model allows, the call must succeed. *)
Fixpoint eager_evs (cfg : config) (sc : sched) (g : gstate) (its : list item) : list (list event) :=
  let st := step1 cfg sc in
  let tf := if g_due g then [TimerFire] else [] in
  let gs := settle cfg sc g in
  match its with
  | [] => [tf]
  | IResp n b :: r => map (fun l => tf ++ Resp n b :: l) (eager_evs cfg sc (st gs (Resp n b)) r)
  | ICancel :: r => map (fun l => tf ++ CtxDone :: l) (eager_evs cfg sc (st gs CtxDone) r)
  | IRace n b :: r =>
      if g_due g
      then map (fun l => tf ++ Resp n b :: l) (eager_evs cfg sc (st gs (Resp n b)) r) ++
           map (fun l => Resp n b :: l) (eager_evs cfg sc (st g (Resp n b)) r)
      else map (fun l => Resp n b :: l) (eager_evs cfg sc (st g (Resp n b)) r)
  | IRaceCancel :: r =>
      if g_due g
      then map (fun l => tf ++ CtxDone :: l) (eager_evs cfg sc (st gs CtxDone) r) ++
           map (fun l => CtxDone :: l) (eager_evs cfg sc (st g CtxDone) r)
      else map (fun l => CtxDone :: l) (eager_evs cfg sc (st g CtxDone) r)
  end.

Definition in_ids (id : reqid) (h : node) (ids : ids_t) : bool :=
  existsb (fun p => N.eqb (fst p) id && N.eqb (snd p) h) ids.
(* [good_answer] / [good_sig] of Proofs/RmnP.v *)
Definition good_answerb (cfg : config) (us : list upd) (rho : chain -> root) (h : node) (p : payload) : bool :=
  match validate_obs edv_c fixed cfg h us p with
  | Ok votes =>
      forallb (fun u => negb (memN h (u_nodes u)) ||
                        existsb (fun v => N.eqb (fst v) (u_chain u) &&
                                          match snd v with R32 r => N.eqb r (rho (u_chain u)) | _ => false end) votes) us
  | _ => false
  end.
Definition good_sigb (cfg : config) (rep : report) (h : node) (p : payload) : bool :=
  match find_signer cfg h, p with
  | Some sg, PSig (Some e) => e_lenok e && vrs_c (sg_addr sg) (e_sig e) rep
  | _, _ => false
  end.
(* [honest_at]: a response under a request id that was sent to this node is a correct answer *)
Definition hon_okb (cfg : config) (us : list upd) (rho : chain -> root) (g : gstate) (h : node) (id : reqid) (p : payload)
  : bool :=
  match g with
  | GA _ s => if in_ids id h (a_ids s) then good_answerb cfg us rho h p else true
  | GB s => if in_ids id h (b_ids s) then good_sigb cfg (b_rep s) h p else true
  | GFinal _ _ => true
  end.
(* [answered_A] / [answered_B] *)
Definition ansAb (g : gstate) (h : node) (id : reqid) (_ : payload) : bool :=
  match g with GA _ s => in_ids id h (a_ids s) | _ => true end.
Definition ansBb (g : gstate) (h : node) (id : reqid) (_ : payload) : bool :=
  match g with GA _ _ => false | GB s => in_ids id h (b_ids s) | GFinal _ _ => true end.
(* the senders of the responses at whose arrival [f] holds of the state the model is in *)
Fixpoint collect (cfg : config) (sc : sched) (f : gstate -> node -> reqid -> payload -> bool) (g : gstate)
                 (evs : list event) : list node :=
  match evs with
  | [] => []
  | e :: r =>
      match e with
      | Resp h (BMsg id p) =>
          if f g h id p then h :: collect cfg sc f (step1 cfg sc g e) r else collect cfg sc f (step1 cfg sc g e) r
      | _ => collect cfg sc f (step1 cfg sc g e) r
      end
  end.
Definition is_ctx (e : event) : bool := match e with CtxDone => true | _ => false end.

Definition live_hyp (cfg : config) (sc : sched) (us : list upd) (rho : chain -> root) (evs : list event) : bool :=
  let g0 := ginit cfg sc in
  let bad := collect cfg sc (fun g h id p => negb (hon_okb cfg us rho g h id p)) g0 evs in
  let hon := fun h => negb (memN h bad) in
  let aA := collect cfg sc ansAb g0 evs in
  let aB := collect cfg sc ansBb g0 evs in
  negb (existsb is_ctx evs) &&
  forallb (fun u =>
    Z.leb (u_F u + 1) (zlen (dedupN (filter (fun h => hon h && memN h aA) (u_nodes u)))) &&
    Z.leb 0 (u_F u) &&
    Z.leb (zlen (filter (fun n => negb (hon n)) (u_nodes u))) (u_F u)) us &&
  Z.leb (c_remoteF cfg + 1)
        (zlen (dedupN (filter (fun h => hon h && memN h aB && is_home cfg h) (signer_nodes cfg)))) &&
  Z.leb 0 (c_remoteF cfg).

(* the non-empty root with the most voters for lane u in the script (0 if there is none) *)
Definition best_root (cfg : config) (u : upd) (its : list item) : root :=
  fold_left (fun best r =>
               if N.eqb r 0 then best
               else if N.eqb best 0 then r
               else if Z.ltb (zlen (voters cfg u best its)) (zlen (voters cfg u r its)) then r else best)
            (dedupN (item_roots its)) 0%N.
Definition rho_of (tab : list (chain * root)) (ch : chain) : root :=
  match alookup ch tab with Some r => r | None => 0%N end.

Definition live_test_from (off : nat) (i : c06_in) : bool :=
  let cfg := i_cfg i in
  match prepare cfg with
  | inl (Ok us) =>
      let rho := rho_of (map (fun u => (u_chain u, best_root cfg u (i_items i))) us) in
      if c_dest_known cfg && forallb negb (i_fails i) && negb (existsb is_cancel (i_items i)) &&
         forallb (fun u => negb (N.eqb (rho (u_chain u)) 0)) us
      then
        let roots := dedupN (item_roots (i_items i)) in
        let rootords := if memN 0%N roots then [[0%N]; filter (fun r => negb (N.eqb r 0)) roots] else [[]] in
        forallb (fun order1 =>
          forallb (fun ro =>
            let sc := mk_sched off order1 (i_asked i) (i_sendA2 i) ro (i_shufB1 i) (i_shufB2 i) (i_fails i) in
            forallb (live_hyp cfg sc us rho) (eager_evs cfg sc (ginit cfg sc) (i_items i)))
            rootords)
          (rotations (i_asked i))
      else false
  | _ => false
  end.

(* ---------- WHEN the call may GIVE UP (C06_giveup_only_after_asking_all; C06_liveness read on the observers that were
   never asked) ----------
   [asked_for log ch]: the addressees of the observation requests in the Send log that name lane ch (accepted by
   PeerClient.Send or not: the code enters a node into requestedNodes before it tries to send, and the model logs the
   failed Send calls too).  ErrInsufficientObservationResponses (kind 5) may be reported only when the observers the
   call never asked could not have completed the thresholds: if some observer of some lane was never asked and on EVERY
   lane the voters of the best root in the script together with the never-asked observers of that lane are F_home+1
   distinct nodes, then in the world where exactly the never-asked observers are honest and ready the call fails
   although enough honest nodes would answer in time.  (The liveness twin [live_test_from] cannot see this: the harness
   scripts answers only to requests that were sent, so the honest observers that were never asked never answer.) *)
Definition asked_for (log : list send_t) (ch : chain) : list node :=
  map snd_node (filter (fun s => is_k0 s && memN ch (snd_chains s)) log).
Definition unasked (log : list send_t) (u : upd) : list node :=
  filter (fun n => negb (memN n (asked_for log (u_chain u)))) (u_nodes u).
Definition have_votes (cfg : config) (its : list item) (u : upd) : list node :=
  let best := best_root cfg u its in if N.eqb best 0 then [] else voters cfg u best its.
Definition reachable_with (cfg : config) (its : list item) (log : list send_t) (u : upd) : bool :=
  gte_f_plus_one (u_F u) (zlen (dedupN (have_votes cfg its u ++ unasked log u))).
Definition giveup_ok (cfg : config) (its : list item) (o : out1) : bool :=
  if N.eqb (o_kind o) 5 then
    match prepare cfg with
    | inl (Ok us) =>
        negb (existsb (fun u => negb (nilb (unasked (o_log o) u))) us && forallb (reachable_with cfg its (o_log o)) us)
    | _ => true
    end
  else true.

(* the same for phase B (C06_giveupB_only_after_asking_all): ErrInsufficientSignatureResponses (kind 6) may be reported
   only when the configured signers RMNHome knows that were never sent a report-signature request (no kind-1 Send in
   the log, accepted or not) could not by themselves supply F_remote+1 signatures; otherwise in the world where those
   signers are honest and ready the call fails although enough honest signers would answer in time.  No report is
   needed for this form (a failing output carries none). *)
Definition asked_sig (log : list send_t) : list node := map snd_node (filter is_k1 log).
Definition unasked_signers (cfg : config) (log : list send_t) : list node :=
  filter (fun n => is_home cfg n && negb (memN n (asked_sig log))) (signer_nodes cfg).
Definition giveupB_ok (cfg : config) (o : out1) : bool :=
  if N.eqb (o_kind o) 6
  then negb (gte_f_plus_one (c_remoteF cfg) (zlen (dedupN (unasked_signers cfg (o_log o)))))
  else true.

(* the executable property of one outcome of a call whose request ids start at 1 + off *)
Definition c06_ok1_from (off : nat) (i : c06_in) (o : out1) : bool :=
  c06_core i o && log_ok (i_cfg i) (o_log o) (o_attr o) && kind_ok (i_cfg i) (i_items i) o &&
  giveup_ok (i_cfg i) (i_items i) o && giveupB_ok (i_cfg i) o &&
  (if N.eqb (o_kind o) 0 then true else negb (live_test_from off i)).
Definition c06_ok1 := c06_ok1_from 0.
Definition c06_ok_from (off : nat) (i : c06_in) (o : c06_out) : bool :=
  match o with [x] => c06_ok1_from off i x | _ => false end.
Definition c06_ok := c06_ok_from 0.

Definition c06_judge := judge c06_model c06_oeqb c06_ok (fun _ => 0%N).

(* ---------- sink C06_hist: a SEQUENCE of calls on one long-lived controller ----------
   One case = the whole history: per call the number of Send calls made before it on this controller, the call's own
   configuration (what RMNHome / RMNRemote / the plugin say at THAT call) and its script; the output is the observable
   of every call.  The model of a history is the single-call model applied to every call on its own
   (Proofs/RmnHistP.v: [history_memoryless] — the multi-call machine over the concatenated history is the single-call
   machine mapped over the calls; the only thing threaded through is the position in the request-id stream, and
   answers under request ids of earlier calls change nothing: [leftover_ignored]).  The executable property is the
   single-call property of every call, evaluated against the configuration current at that call. *)
Definition hist_in := list (N * c06_in).
Definition hist_out := list c06_out.
Definition hist_model (h : hist_in) : hist_out := map (fun c => c06_model_from (N.to_nat (fst c)) (snd c)) h.
Fixpoint forall2b {A B} (f : A -> B -> bool) (l : list A) (m : list B) : bool :=
  match l, m with
  | [], [] => true
  | x :: l', y :: m' => f x y && forall2b f l' m'
  | _, _ => false
  end.
Definition hist_oeqb (m o : hist_out) : bool := forall2b c06_oeqb m o.
(* [every call is judged with ITS position in the request-id stream: the liveness clause asks whether a response came
   under the id that was sent to its sender, which depends on where the call's ids start] *)
Definition hist_ok (h : hist_in) (o : hist_out) : bool :=
  forall2b (fun c x => c06_ok_from (N.to_nat (fst c)) (snd c) x) h o.
Definition hist_judge := judge hist_model hist_oeqb hist_ok (fun _ => 0%N).

(* the observer sets come from the RMNHome observer bitmaps (pkg/reader/rmn_home.go): parts borrowed from C18 *)
Require Verif.Check.C18_check.
Definition bm18_judge := Verif.Check.C18_check.bm_judge.
Definition conv18_judge := Verif.Check.C18_check.conv_judge.

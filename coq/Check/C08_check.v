(* C08_check.v — case types, model runners and executable property checks for the C08 correspondence. *)
Require Export Verif.Model.Base Verif.Model.Merkle Verif.Model.ExecReport.
From Coq Require Import FSets.FMapPositive.

(* ---------- the internal hash as a finite table ----------
   The harness interns every 32-byte value to a small id and lists, for every internal node it computed with the
   real hashutil keccak HashInternal, the triple (id a, id b, id (H a b)) with id a <= id b.  The model's hash is
   that table (commutative by construction, like HashInternal which sorts its arguments); unknown pairs give 0. *)
Definition hkey (a b : N) : positive := N.succ_pos (N.min a b * 4294967296 + N.max a b).
Definition htable := PositiveMap.t N.
Definition mk_htable (l : list (N * N * N)) : htable :=
  fold_left (fun t e => let '(a, b, c) := e in PositiveMap.add (hkey a b) c t) l (PositiveMap.empty N).
Definition thash (t : htable) (a b : N) : N :=
  match PositiveMap.find (hkey a b) t with Some c => c | None => 0%N end.

(* ---------- boolean equalities ---------- *)
Definition msg_eqb (a b : msg) : bool :=
  N.eqb (m_id a) (m_id b) && N.eqb (m_src a) (m_src b) && N.eqb (m_seq a) (m_seq b) &&
  N.eqb (m_nonce a) (m_nonce b) && N.eqb (m_sender a) (m_sender b) && N.eqb (m_size a) (m_size b) &&
  N.eqb (m_gas a) (m_gas b).
Definition td_eqb : tokdata -> tokdata -> bool := list_eqb (pair_eqb Bool.eqb N.eqb).
Definition cdata_eqb (a b : cdata) : bool :=
  N.eqb (c_src a) (c_src b) && N.eqb (c_root a) (c_root b) && N.eqb (c_start a) (c_start b) &&
  N.eqb (c_end a) (c_end b) && list_eqb N.eqb (c_exec a) (c_exec b) && list_eqb msg_eqb (c_msgs a) (c_msgs b) &&
  list_eqb N.eqb (c_costly a) (c_costly b) && list_eqb td_eqb (c_td a) (c_td b).
Definition creport_eqb (a b : creport) : bool :=
  N.eqb (r_src a) (r_src b) && list_eqb msg_eqb (r_msgs a) (r_msgs b) &&
  list_eqb (list_eqb N.eqb) (r_td a) (r_td b) && list_eqb N.eqb (r_proofs a) (r_proofs b) &&
  Z.eqb (r_flags a) (r_flags b).

(* ---------- part add: NewBuilder, Add on every commit report in order (stop at the first error), Build ----------
   configuration: hash table, id of ZeroHash, sendersNonce (flattened), maxReportSizeBytes, maxGas,
   merkle-tree gas a + b*n, codec: base + sum m_size + 32*|proofs| + 3*(number of token-data entries), codec fails
   when some message has m_size = bad_size. *)
Record cfg := mkCfg {
  g_table : list (N * N * N);
  g_zero : N;
  g_nonces : nmap;
  g_max_size : N;
  g_max_gas : N;
  g_tga : N;
  g_tgb : N;
  g_base : N;
  g_bad : N
}.
Definition add_in := (cfg * list cdata)%type.
(* one Add call: error, or (report appended by this call together with the result of re-verifying it in Go with
   merklemulti.VerifyComputeRoot against the committed root, updated commit data returned by Add) *)
Inductive add_out :=
| AErr
| APanic                                   (* never produced by the model *)
| AOk (appended : option (creport * bool)) (cd' : cdata).
Definition c08_out := (list add_out * list creport)%type.   (* per-Add results, Build() *)

Definition codec_size (g : cfg) (r : creport) : option N :=
  if existsb (fun m => N.eqb (m_size m) (g_bad g)) (r_msgs r) then None
  else Some (g_base g + fold_left (fun a m => a + m_size m) (r_msgs r) 0 + 32 * N.of_nat (length (r_proofs r))
             + 3 * N.of_nat (length (concat (r_td r))))%N.
Definition tgas (g : cfg) (n : N) : N := add64 (g_tga g) (mul64 (g_tgb g) n).
Definition lhash (m : msg) : option N := Some (m_id m).       (* mocks.MessageHasher: the message id *)

(* what the destination contract does with a chain report: leaves = message hashes, flags = the first
   |leaves|+|proofs|-1 bits, recompute the root *)
Definition reverify (h : N -> N -> N) (r : creport) (root : N) : bool :=
  let leaves := map m_id (r_msgs r) in
  let n := (length leaves + length (r_proofs r) - 1)%nat in
  match verify h leaves (r_proofs r) (flags_to_bools (r_flags r) n) with
  | Ok x => N.eqb x root
  | _ => false
  end.

Section WithCfg.
  Variable g : cfg.
  Variable h : N -> N -> N.
  Let Add := add h (g_zero g) lhash (codec_size g) (tgas g) (g_nonces g) (g_max_size g) (g_max_gas g).

  Fixpoint run_model (st : bstate) (cds : list cdata) : list add_out * bstate :=
    match cds with
    | [] => ([], st)
    | cd :: cds' =>
        match Add st cd with
        | Ok (st1, cd1) =>
            let app :=
              if Nat.ltb (length (b_reports st)) (length (b_reports st1))
              then match last (b_reports st1) empty_creport with r => Some (r, reverify h r (c_root cd)) end
              else None in
            let '(outs, stf) := run_model st1 cds' in (AOk app cd1 :: outs, stf)
        | _ => ([AErr], st)
        end
    end.

  (* ---- the executable property, evaluated on the implementation's output ---- *)
  Definition root_ok (cd : cdata) : bool :=
    match construct_tree h (g_zero g) lhash cd with
    | Ok t => N.eqb (troot (g_zero g) t) (c_root cd)
    | _ => false
    end.

  (* the report's messages are messages of the commit data, in order; each one not executed, not costly, with ready
     token data, and OffchainTokenData holds the byte projection of the token data at the message's own index *)
  Fixpoint sel_match (cd : cdata) (ms : list msg) (tds : list tokdata) (rm : list msg) (rt : list (list N)) : bool :=
    match rm, rt with
    | [], [] => true
    | m :: rm', t :: rt' =>
        match ms, tds with
        | m0 :: ms', td0 :: tds' =>
            if msg_eqb m0 m && list_eqb N.eqb (td_bytes td0) t && td_ready td0
            then negb (memN (m_seq m) (c_exec cd)) && negb (memN (m_id m) (c_costly cd)) &&
                 sel_match cd ms' tds' rm' rt'
            else sel_match cd ms' tds' rm rt
        | _, _ => false
        end
    | _, _ => false
    end.

  (* per-sender nonce order: every sequenced message carries exactly the next expected nonce of its
     (source chain, sender), expectations starting right after the on-chain nonce *)
  Fixpoint nonce_run (exp : nmap) (src : N) (ms : list msg) : option nmap :=
    match ms with
    | [] => Some exp
    | m :: ms' =>
        if N.eqb (m_nonce m) 0 then nonce_run exp src ms'
        else match nlookup src (m_sender m) (g_nonces g) with
             | None => None
             | Some onchain =>
                 let e := match nlookup src (m_sender m) exp with Some e => e | None => (onchain + 1)%N end in
                 if N.eqb (m_nonce m) e then nonce_run (nupdate src (m_sender m) (e + 1)%N exp) src ms' else None
             end
    end.

  (* walk the Add results: returns false on the first violated clause.
     state: total encoded size, total gas, reports appended so far.  Every clause but the nonce order. *)
  Fixpoint steps_ok (size gas : N) (acc : list creport) (cds : list cdata) (outs : list add_out)
           (built : list creport) : bool :=
    match cds, outs with
    | _, [] => list_eqb creport_eqb acc built
    | cd :: _, [AErr] => list_eqb creport_eqb acc built      (* an error aborts: nothing more is added *)
    | cd :: cds', AOk None cd1 :: outs' => cdata_eqb cd cd1 && steps_ok size gas acc cds' outs' built
    | cd :: cds', AOk (Some (r, v)) cd1 :: outs' =>
        v && reverify h r (c_root cd) && root_ok cd &&
        N.eqb (r_src r) (c_src cd) &&
        negb (match r_msgs r with [] => true | _ => false end) &&
        sel_match cd (c_msgs cd) (c_td cd) (r_msgs r) (r_td r) &&
        cdata_eqb cd1 (set_exec cd (sortN (c_exec cd ++ map m_seq (r_msgs r)))) &&
        match codec_size g r with
        | Some sz =>
            let size1 := (size + sz)%N in
            let gas1 := (gas + fold_left (fun a m => a + m_gas m) (r_msgs r) 0 + tgas g (N.of_nat (length (r_msgs r))))%N in
            N.leb size1 (g_max_size g) && N.leb gas1 (g_max_gas g) &&
            steps_ok size1 gas1 (acc ++ [r]) cds' outs' built
        | None => false
        end
    | _, _ => false
    end.

  (* the nonce-order clause alone, over the chain reports in the order they were appended *)
  Fixpoint nonce_ok (exp : nmap) (rs : list creport) : bool :=
    match rs with
    | [] => true
    | r :: rs' => match nonce_run exp (r_src r) (r_msgs r) with
                  | Some exp1 => nonce_ok exp1 rs'
                  | None => false
                  end
    end.
End WithCfg.

Definition add_model (i : add_in) : c08_out :=
  let '(g, cds) := i in
  let t := mk_htable (g_table g) in
  let '(outs, st) := run_model g (thash t) b_init cds in
  (outs, build st).

Definition app_eqb (a b : option (creport * bool)) : bool := option_eqb (pair_eqb creport_eqb Bool.eqb) a b.
Definition add_out_eqb (a b : add_out) : bool :=
  match a, b with
  | AErr, AErr => true
  | AOk x c, AOk y d => app_eqb x y && cdata_eqb c d
  | _, _ => false
  end.
Definition add_oeqb : c08_out -> c08_out -> bool := pair_eqb (list_eqb add_out_eqb) (list_eqb creport_eqb).

Definition add_ok (i : add_in) (o : c08_out) : bool :=
  let '(g, cds) := i in
  let t := mk_htable (g_table g) in
  Nat.leb (length (fst o)) (length cds) &&
  steps_ok g (thash t) 0 0 [] cds (fst o) (snd o).
Definition add_nonce_ok (i : add_in) (o : c08_out) : bool := nonce_ok (fst i) [] (snd o).

(* known-finding class 1 (F14, what is left after repair F14a): during some Add the size / gas fallback dropped a
   ready sequenced message, whose nonce had already been counted *)
Fixpoint known_run (g : cfg) (h : N -> N -> N) (st : bstate) (cds : list cdata) : bool :=
  match cds with
  | [] => false
  | cd :: cds' =>
      fallback_drop h (g_zero g) lhash (codec_size g) (tgas g) (g_nonces g) (g_max_size g) (g_max_gas g) st cd ||
      match add h (g_zero g) lhash (codec_size g) (tgas g) (g_nonces g) (g_max_size g) (g_max_gas g) st cd with
      | Ok (st1, _) => known_run g h st1 cds'
      | _ => false
      end
  end.
Definition add_known (i : add_in) : N :=
  let '(g, cds) := i in
  if known_run g (thash (mk_htable (g_table g))) b_init cds then 1%N else 0%N.

(* Two passes over the same cases so that the recorded class masks the nonce clause only: every other clause is
   judged without a known-finding class (codes 1 and 2); the nonce clause is judged alone (code 2, or 101 inside
   class 1). *)
Definition add_judge (cs : list (add_in * c08_out)) : list (N * N) :=
  judge add_model add_oeqb add_ok (fun _ => 0%N) cs ++
  judge (fun _ : add_in => (@nil add_out, @nil creport)) (fun _ _ => true) add_nonce_ok add_known cs.

(* ---------- part mm: merklemulti directly, over an arithmetic commutative hash ----------
   input: leaves, indices to prove, then a (possibly mutated) proof handed to VerifyComputeRoot;
   output: Prove result, Root, VerifyComputeRoot result. *)
Definition mm_p : N := 2147483647.
Definition ahash (a b : N) : N := ((N.min a b * 48271 + N.max a b * 69621 + 7) mod mm_p)%N.
Definition mm_zero : N := 2147483646.
Definition mm_in := (list N * list nat * (list N * list N * list bool))%type.
Definition mm_out := (res (list N * list bool) * N * res N)%type.
Definition mm_model (i : mm_in) : mm_out :=
  let '(leaves, idxs, (vl, vp, vf)) := i in
  match new_tree ahash mm_zero leaves with
  | Ok t => (prove t idxs, troot mm_zero t, verify ahash vl vp vf)
  | _ => (Err, 0%N, verify ahash vl vp vf)
  end.
Definition mm_oeqb : mm_out -> mm_out -> bool :=
  pair_eqb (pair_eqb (res_eqb (pair_eqb (list_eqb N.eqb) (list_eqb Bool.eqb))) N.eqb) (res_eqb N.eqb).
Fixpoint strictly_asc_nat (l : list nat) : bool :=
  match l with
  | x :: ((y :: _) as l') => Nat.ltb x y && strictly_asc_nat l'
  | _ => true
  end.
(* multiproof property on the implementation's own answers: for ascending in-range non-empty index sets of a tree
   with at most 256 leaves, verifying the selected leaves with the produced proof gives the root *)
Definition mm_ok (i : mm_in) (o : mm_out) : bool :=
  let '(leaves, idxs, (vl, vp, vf)) := i in
  let '(pr, root, vr) := o in
  if strictly_asc_nat idxs && forallb (fun x => Nat.ltb x (length leaves)) idxs &&
     negb (match idxs with [] => true | _ => false end) && Nat.leb (length leaves) 256
  then match pr with
       | Ok (ps, fl) =>
           match verify ahash (select leaves idxs) ps fl with Ok x => N.eqb x root | _ => false end &&
           (* when exactly that proof was handed to the implementation's verifier, its answer is the root *)
           (if list_eqb N.eqb vl (select leaves idxs) && list_eqb N.eqb vp ps && list_eqb Bool.eqb vf fl
            then res_eqb N.eqb vr (Ok root) else true)
       | _ => false
       end
  else true.
Definition mm_judge := judge mm_model mm_oeqb mm_ok (fun _ => 0%N).

(* ---------- part sel: execute/plugin.go selectReport driven with a scripted builder ----------
   input: the builder's script (one entry per Add call: None = error, Some k = success marking k more messages
   executed; a chain report is appended when k > 0) and the commit reports as (messages, executed) counts;
   output: error, or (number of chain reports returned, pending commit reports as (position, executed count)). *)
Definition sel_in := (list (option N) * list (N * N))%type.
Definition sel_out := res (N * list (N * N) * list N).    (* reports, pending, positions handed to Add *)
Definition sel_cd (pos : N) (x : N * N) : cdata :=
  mkCD pos 0 0 0 (map N.of_nat (seq 0 (N.to_nat (snd x))))
       (map (fun i => mkMsg (N.of_nat i) pos (N.of_nat i) 0 0 0 0) (seq 0 (N.to_nat (fst x)))) [] [].
Fixpoint sel_cds (pos : N) (l : list (N * N)) : list cdata :=
  match l with [] => [] | x :: l' => sel_cd pos x :: sel_cds (N.succ pos) l' end.
Definition sel_st := (list (option N) * N * list N)%type.
Definition sel_add (st : sel_st) (cd : cdata) : res (sel_st * cdata) :=
  let '(script, cnt, calls) := st in
  match script with
  | Some k :: rest =>
      Ok ((rest, (if N.eqb k 0 then cnt else N.succ cnt), calls ++ [c_src cd]),
          set_exec cd (c_exec cd ++ map (fun i => (1000 + N.of_nat i)%N) (seq 0 (N.to_nat k))))
  | None :: _ => Err
  | [] => Ok ((script, cnt, calls ++ [c_src cd]), set_exec cd (c_exec cd))   (* script used up: succeed, add nothing *)
  end.
Definition sel_model (i : sel_in) : sel_out :=
  match select_loop_with sel_add (fst i, 0%N, []) (sel_cds 0 (snd i)) with
  | Ok ((_, cnt, calls), pend) =>
      Ok (cnt, map (fun cd => (c_src cd, N.of_nat (length (c_exec cd)))) pend, calls)
  | Err => Err | Panic => Panic | Spin => Spin
  end.
Definition sel_oeqb : sel_out -> sel_out -> bool :=
  res_eqb (pair_eqb (pair_eqb N.eqb (list_eqb (pair_eqb N.eqb N.eqb))) (list_eqb N.eqb)).
(* on the implementation's answer: a pending entry is an input report that either has no messages (untouched) or
   still has more messages than executed entries; reports without messages are all pending and are never handed to
   the builder; order preserved *)
Fixpoint sel_pending_ok (pos : N) (l : list (N * N)) (pend : list (N * N)) : bool :=
  match l with
  | [] => match pend with [] => true | _ => false end
  | (nm, ne) :: l' =>
      match pend with
      | (p, e) :: pend' =>
          if N.eqb p pos
          then (if N.eqb nm 0 then N.eqb e ne else N.ltb e nm) && sel_pending_ok (N.succ pos) l' pend'
          else negb (N.eqb nm 0) && sel_pending_ok (N.succ pos) l' pend
      | [] => negb (N.eqb nm 0) && sel_pending_ok (N.succ pos) l' []
      end
  end.
Definition sel_ok (i : sel_in) (o : sel_out) : bool :=
  match o with
  | Ok (_, pend, calls) =>
      sel_pending_ok 0 (snd i) pend &&
      forallb (fun p => match nth_error (snd i) (N.to_nat p) with Some (nm, _) => negb (N.eqb nm 0) | None => false end) calls
  | Err => true
  | _ => false
  end.
Definition sel_judge := judge sel_model sel_oeqb sel_ok (fun _ => 0%N).

(* ---------- part out: execute.Plugin.Outcome in the Filter state ----------
   input: the oracles' configuration as far as the builder sees it (hash table, ZeroHash id, BatchGasLimit of the
   offchain config in g_max_gas, estimator and codec parameters; g_nonces and g_max_size are not used), fChain of the
   destination, the nonce observations of the attributed observations (one map per oracle), and the pending commit
   reports of the previous (GetMessages) outcome in the order of its encoding.
   What the plugin SHOULD hand to report.NewBuilder: the nonces agreed by f(dest)+1 oracles, maxReportLength
   (1 MiB, execute/factory.go), the offchain config's BatchGasLimit.
   output: error, or (Report.ChainReports, PendingCommitReports) of the decoded outcome. *)
Definition plugin_max_report : N := 1048576.
Definition out_in := (cfg * N * list nmap * list cdata)%type.
Definition out_out := res (list creport * list cdata).

Definition triple_eqb (a b : (N * N) * N) : bool :=
  N.eqb (fst (fst a)) (fst (fst b)) && N.eqb (snd (fst a)) (snd (fst b)) && N.eqb (snd a) (snd b).
Definition votes (t : (N * N) * N) (obs : list nmap) : N :=
  N.of_nat (length (filter (fun m => existsb (triple_eqb t) m) obs)).
(* mergeNonceObservations: a (source, sender, nonce) triple is valid when more than f(dest) oracles report it *)
Definition agreed_nonces (f : N) (obs : list nmap) : nmap :=
  fold_left (fun acc t => if N.ltb f (votes t obs) && negb (existsb (triple_eqb t) acc) then acc ++ [t] else acc)
            (concat obs) [].

(* Outcome.Encode: chain reports stably sorted by source chain, pending reports by (source chain, range start) *)
Definition sort_reports (rs : list creport) : list creport := sort_by (fun a b => N.leb (r_src a) (r_src b)) rs.
Definition cd_le (a b : cdata) : bool :=
  if N.eqb (c_src a) (c_src b) then N.leb (c_start a) (c_start b) else N.ltb (c_src a) (c_src b).
Definition sort_pending (cs : list cdata) : list cdata := sort_by cd_le cs.

Definition out_cfg (i : out_in) : cfg :=
  let '(g, f, obs, _) := i in
  mkCfg (g_table g) (g_zero g) (agreed_nonces f obs) plugin_max_report (g_max_gas g) (g_tga g) (g_tgb g) (g_base g) (g_bad g).

Definition out_model (i : out_in) : out_out :=
  let g := out_cfg i in
  let cds := snd i in
  let h := thash (mk_htable (g_table g)) in
  match select_report h (g_zero g) lhash (codec_size g) (tgas g) (g_nonces g) (g_max_size g) (g_max_gas g) cds with
  | Ok (rs, pend) => Ok (sort_reports rs, sort_pending pend)
  | Err => Err | Panic => Panic | Spin => Spin
  end.
Definition out_oeqb : out_out -> out_out -> bool :=
  res_eqb (pair_eqb (list_eqb creport_eqb) (list_eqb cdata_eqb)).

(* the executable property on the decoded outcome.  Chain reports are matched to the pending commit reports in order
   (both are in processing order: the previous outcome is encoded sorted by chain and range start): a chain report
   belongs to the first not yet passed commit report of its chain that holds its first message.  Returns the
   pending list the outcome must show. *)
Section OutOk.
  Variable g : cfg.
  Variable h : N -> N -> N.
  Definition owns (cd : cdata) (r : creport) : bool :=
    N.eqb (c_src cd) (r_src r) &&
    match r_msgs r with m :: _ => existsb (msg_eqb m) (c_msgs cd) | [] => false end.
  Definition still_pending (cd : cdata) : list cdata :=
    match c_msgs cd with
    | [] => [cd]
    | _ => if Nat.ltb (length (c_exec cd)) (length (c_msgs cd)) then [cd] else []
    end.
  Fixpoint out_walk (size gas : N) (cds : list cdata) (rs : list creport) : option (list cdata) :=
    match cds with
    | [] => match rs with [] => Some [] | _ => None end       (* a chain report of no pending commit report *)
    | cd :: cds' =>
        match rs with
        | r :: rs' =>
            if owns cd r then
              if reverify h r (c_root cd) && root_ok g h cd &&
                 sel_match cd (c_msgs cd) (c_td cd) (r_msgs r) (r_td r)
              then match codec_size g r with
                   | Some sz =>
                       let size1 := (size + sz)%N in
                       let gas1 := (gas + fold_left (fun a m => a + m_gas m) (r_msgs r) 0 +
                                    tgas g (N.of_nat (length (r_msgs r))))%N in
                       if N.leb size1 (g_max_size g) && N.leb gas1 (g_max_gas g)
                       then match out_walk size1 gas1 cds' rs' with
                            | Some p => Some (still_pending (set_exec cd (sortN (c_exec cd ++ map m_seq (r_msgs r)))) ++ p)
                            | None => None
                            end
                       else None
                   | None => None
                   end
              else None
            else match out_walk size gas cds' rs with Some p => Some (still_pending cd ++ p) | None => None end
        | [] => match out_walk size gas cds' [] with Some p => Some (still_pending cd ++ p) | None => None end
        end
    end.
End OutOk.

Definition out_ok (i : out_in) (o : out_out) : bool :=
  let g := out_cfg i in
  let h := thash (mk_htable (g_table g)) in
  match o with
  | Ok (rs, pend) =>
      match out_walk g h 0 0 (snd i) rs with
      | Some p => list_eqb cdata_eqb (sort_pending p) pend
      | None => false
      end
  | Err => true           (* no outcome: nothing is reported *)
  | _ => false
  end.
(* the nonce clause alone, from the AGREED on-chain nonces, over the chain reports in outcome order *)
Definition out_nonce_ok (i : out_in) (o : out_out) : bool :=
  match o with
  | Ok (rs, _) => nonce_ok (out_cfg i) [] rs
  | _ => true
  end.
Definition out_known (i : out_in) : N :=
  let g := out_cfg i in
  if known_run g (thash (mk_htable (g_table g))) b_init (snd i) then 1%N else 0%N.
Definition out_judge (cs : list (out_in * out_out)) : list (N * N) :=
  judge out_model out_oeqb out_ok (fun _ => 0%N) cs ++
  judge (fun _ : out_in => @Err (list creport * list cdata)) (fun _ _ => true) out_nonce_ok out_known cs.

(* C18_check.v — case types, model runners and executable property checks for the C18 correspondence
   (home-chain poller, RMN-home poller, observer bitmaps). *)
Require Export Verif.Model.Base Verif.Model.Pollers.

(* ---------- equality on the observable values ---------- *)
Definition cc_eqb (a b : chaincfg) : bool :=
  N.eqb (cc_f a) (cc_f b) && list_eqb N.eqb (cc_nodes a) (cc_nodes b) && N.eqb (cc_cfg a) (cc_cfg b).
Definition hcfgs_eqb : hcfgs -> hcfgs -> bool := list_eqb (pair_eqb N.eqb cc_eqb).
Definition hn_eqb (a b : hnode) : bool :=
  N.eqb (hn_id a) (hn_id b) && N.eqb (hn_peer a) (hn_peer b) && N.eqb (hn_key a) (hn_key b) &&
  list_eqb N.eqb (hn_chains a) (hn_chains b).
Definition fmap_eqb : list (N * Z) -> list (N * Z) -> bool := list_eqb (pair_eqb N.eqb Z.eqb).
Definition hc_eqb (a b : homecfg) : bool :=
  list_eqb hn_eqb (hc_nodes a) (hc_nodes b) && fmap_eqb (hc_f a) (hc_f b) &&
  N.eqb (hc_digest a) (hc_digest b) && N.eqb (hc_off a) (hc_off b).
Definition rmap_eqb : rmap -> rmap -> bool := list_eqb (pair_eqb N.eqb hc_eqb).

(* =====================================================================================================
   part hseq: sequential histories of the home-chain poller.
   input: the events; output: what a reader saw at every HRead, in order *)
Inductive hev :=
| HStart
| HPoll (pages : list (option (list entry)))
| HRead (peers sels : list N)      (* the peers / selectors the reader asks about *)
| HClose.
(* (GetAllChainConfigs, GetKnownCCIPChains, GetFChain, GetSupportedChainsForPeer per peer,
    GetChainConfig per selector (None = error), Ready()==nil, HealthReport()==nil) *)
Definition hobs := (hcfgs * list N * list (N * N) * list (list N) * list (option chaincfg) * bool * bool)%type.
Definition hobs_eqb (a b : hobs) : bool :=
  let '(a1, a2, a3, a4, a5, a6, a7) := a in
  let '(b1, b2, b3, b4, b5, b6, b7) := b in
  hcfgs_eqb a1 b1 && list_eqb N.eqb a2 b2 && list_eqb (pair_eqb N.eqb N.eqb) a3 b3 &&
  list_eqb (list_eqb N.eqb) a4 b4 && list_eqb (option_eqb cc_eqb) a5 b5 && Bool.eqb a6 b6 && Bool.eqb a7 b7.
Definition hobs_mk (v : hviews) (rdy hl : bool) (peers sels : list N) : hobs :=
  (get_all_chain_configs v, get_known_chains v, get_fchain v,
   map (get_supported_chains v) peers, map (get_chain_config v) sels, rdy, hl).

Definition hev_pev (e : hev) : home_ev :=
  match e with HStart => EStart | HPoll p => EPoll p | HRead _ _ => ERead | HClose => EClose end.

Fixpoint hseq_run (s : home_st) (evs : list hev) : list hobs :=
  match evs with
  | [] => []
  | HRead ps ss :: r => hobs_mk (views s) (ready s) (healthy s) ps ss :: hseq_run s r
  | e :: r => hseq_run (home_step s (hev_pev e)) r
  end.
Definition hseq_model (evs : list hev) : list hobs := hseq_run (pinit home_init) evs.

(* the property, read off the history directly (no state machine): the views are those of the most recent
   successful fetch, health is bad exactly when not polling or >= 10 failures since the last success *)
Fixpoint hseq_spec (reset : bool) (pre : list home_ev) (evs : list hev) : list hobs :=
  match evs with
  | [] => []
  | HRead ps ss :: r =>
      hobs_mk (spec_views home_fetch home_derive home_init pre) (running home_fetch pre)
              (spec_healthy home_fetch reset pre) ps ss :: hseq_spec reset (pre ++ [ERead]) r
  | e :: r => hseq_spec reset (pre ++ [hev_pev e]) r
  end.
Definition hseq_ok (i : list hev) (o : list hobs) : bool := list_eqb hobs_eqb (hseq_spec true [] i) o.
Definition hseq_judge := judge hseq_model (list_eqb hobs_eqb) hseq_ok (fun _ => 0%N).

(* =====================================================================================================
   part hconc: readers running while the poller refreshes.
   input: the entry list answered to the k-th poll (k = 1..); output: (table of distinct views seen,
   per reader goroutine the list of its records; a record is 8 table indexes:
   the four getter results in call order, then the four fields of one copy of the state struct taken under RLock) *)
Inductive hitem :=
| IAll (c : hcfgs) | ISupp (p : N) (l : list N) | IKnown (l : list N) | IFch (l : list (N * N)).
Definition hconc_in := list (list entry).
Definition hconc_out := (list hitem * list (list (list N)))%type.

Definition hitem_matches (v : hviews) (it : hitem) : bool :=
  match it with
  | IAll c => hcfgs_eqb c (hv_cc v)
  | ISupp p l => list_eqb N.eqb l (get_supported_chains v p)
  | IKnown l => list_eqb N.eqb l (hv_known v)
  | IFch l => list_eqb (pair_eqb N.eqb N.eqb) l (hv_fch v)
  end.
Fixpoint find_idx {A} (f : A -> bool) (l : list A) (i : N) : option N :=
  match l with [] => None | x :: r => if f x then Some i else find_idx f r (N.succ i) end.
Fixpoint nondecreasing (l : list N) : bool :=
  match l with x :: ((y :: _) as r) => N.leb x y && nondecreasing r | _ => true end.
Fixpoint all_some {A} (l : list (option A)) : option (list A) :=
  match l with
  | [] => Some []
  | Some x :: r => match all_some r with Some r' => Some (x :: r') | None => None end
  | None :: _ => None
  end.
(* a record's eight snapshot indexes: the last four (one struct copy) must be one and the same snapshot *)
Definition record_ok (r : list N) : bool :=
  match r with
  | [_; _; _; _; s1; s2; s3; s4] => N.eqb s1 s2 && N.eqb s2 s3 && N.eqb s3 s4
  | _ => false
  end.
(* the views are resolved to SETS of snapshots: row k of the match table says which polled configurations
   (index 0 = before the first fetch) give the k-th view of the table.  Two polls may give the same view (a peer
   that reads no chain in either), so a view does not name one snapshot. *)
Definition match_rows {V IT} (cands : list V) (matches : V -> IT -> bool) (table : list IT) : list (list bool) :=
  map (fun it => map (fun v => matches v it) cands) table.
Fixpoint and_rows (a b : list bool) : list bool :=
  match a, b with x :: a', y :: b' => (x && y) :: and_rows a' b' | _, _ => [] end.
(* the least snapshot number >= cur that the row allows (the row's first position is number i) *)
Fixpoint next_set (row : list bool) (i cur : N) : option N :=
  match row with
  | [] => None
  | b :: r => if b && N.leb cur i then Some i else next_set r (N.succ i) cur
  end.
Fixpoint walk (evs : list (list bool)) (cur : N) : option N :=
  match evs with
  | [] => Some cur
  | row :: r => match next_set row 0%N cur with Some s => walk r s | None => None end
  end.
(* a record's five reads: four getter results, then one struct copy whose four fields must be ONE snapshot *)
Definition rec_events (rows : list (list bool)) (r : list N) : option (list (list bool)) :=
  match all_some (map (fun k => nth_error rows (N.to_nat k)) r) with
  | Some [ra; rb; rc; rd; r1; r2; r3; r4] => Some [ra; rb; rc; rd; and_rows (and_rows r1 r2) (and_rows r3 r4)]
  | _ => None
  end.
(* forward pass along one reader: cur = the least snapshot number the reader can be at (choosing the least possible
   snapshot at every read is optimal for "some non-decreasing choice exists") *)
Fixpoint walk_recs (rows : list (list bool)) (recs : list (list N)) (cur : N) : bool :=
  match recs with
  | [] => true
  | r :: rest =>
      match rec_events rows r with
      | Some evs => match walk evs cur with Some c => walk_recs rows rest c | None => false end
      | None => false
      end
  end.
(* every view seen is a view of some polled configuration, and every reader's records have a consistent reading:
   each read resolved to a snapshot that gives the view read, one struct copy never a mixture, and the reader never
   back at an older snapshot *)
Definition conc_ok {V IT} (cands : list V) (matches : V -> IT -> bool) (o : list IT * list (list (list N))) : bool :=
  let '(table, readers) := o in
  let rows := match_rows cands matches table in
  forallb (existsb (fun b : bool => b)) rows && forallb (fun recs => walk_recs rows recs 0%N) readers.
Definition hconc_ok (i : hconc_in) (o : hconc_out) : bool :=
  conc_ok (home_init :: map (fun es => home_derive (home_convert es)) i) hitem_matches o.
Definition hconc_judge :=
  judge (fun _ : hconc_in => (@nil hitem, @nil (list (list N)))) (fun _ _ => true) hconc_ok (fun _ => 0%N).

(* =====================================================================================================
   part rseq: sequential histories of the RMN-home poller *)
Inductive rev_ :=
| RStart
| RPoll (p : option (vconfig * vconfig))
| RRead (ds : list N)
| RClose.
(* (GetAllConfigDigests, then per asked digest: GetRMNNodesInfo, IsRMNHomeConfigDigestSet, GetF, GetOffChainConfig,
    Ready()==nil, HealthReport()==nil) *)
Definition robs := ((N * N) * list (option (list hnode)) * list bool * list (option (list (N * Z))) *
                    list (option N) * bool * bool)%type.
Definition robs_eqb (a b : robs) : bool :=
  let '(a1, a2, a3, a4, a5, a6, a7) := a in
  let '(b1, b2, b3, b4, b5, b6, b7) := b in
  pair_eqb N.eqb N.eqb a1 b1 && list_eqb (option_eqb (list_eqb hn_eqb)) a2 b2 && list_eqb Bool.eqb a3 b3 &&
  list_eqb (option_eqb fmap_eqb) a4 b4 && list_eqb (option_eqb N.eqb) a5 b5 && Bool.eqb a6 b6 && Bool.eqb a7 b7.
Definition robs_mk (v : rviews) (rdy hl : bool) (ds : list N) : robs :=
  (get_digests v, map (get_nodes_info v) ds, map (is_digest_set v) ds, map (get_f v) ds, map (get_offchain v) ds,
   rdy, hl).
Definition rev_pev (e : rev_) : rmn_ev :=
  match e with RStart => EStart | RPoll p => EPoll p | RRead _ => ERead | RClose => EClose end.
Fixpoint rseq_run (s : rmn_st) (evs : list rev_) : list robs :=
  match evs with
  | [] => []
  | RRead ds :: r => robs_mk (views s) (ready s) (healthy s) ds :: rseq_run s r
  | e :: r => rseq_run (rmn_step s (rev_pev e)) r
  end.
Definition rseq_model (evs : list rev_) : list robs := rseq_run (pinit rmn_init) evs.
Fixpoint rseq_spec (pre : list rmn_ev) (evs : list rev_) : list robs :=
  match evs with
  | [] => []
  | RRead ds :: r =>
      robs_mk (spec_views rmn_fetch (fun v => v) rmn_init pre) (running rmn_fetch pre)
              (spec_healthy rmn_fetch true pre) ds :: rseq_spec (pre ++ [ERead]) r
  | e :: r => rseq_spec (pre ++ [rev_pev e]) r
  end.
Definition rseq_ok (i : list rev_) (o : list robs) : bool := list_eqb robs_eqb (rseq_spec [] i) o.
Definition rseq_judge := judge rseq_model (list_eqb robs_eqb) rseq_ok (fun _ => 0%N).

(* =====================================================================================================
   part rconc: readers running while the RMN-home poller refreshes *)
Inductive ritem :=
| RDig (a c : N) | RNodes (d : N) (o : option (list hnode)) | RF (d : N) (o : option (list (N * Z)))
| ROff (d : N) (o : option N).
Definition rconc_in := list (vconfig * vconfig).
Definition rconc_out := (list ritem * list (list (list N)))%type.
Definition ritem_matches (v : rviews) (it : ritem) : bool :=
  match it with
  | RDig a c => pair_eqb N.eqb N.eqb (a, c) (get_digests v)
  | RNodes d o => option_eqb (list_eqb hn_eqb) o (get_nodes_info v d)
  | RF d o => option_eqb fmap_eqb o (get_f v d)
  | ROff d o => option_eqb N.eqb o (get_offchain v d)
  end.
Definition rconc_cands (i : rconc_in) : list rviews :=
  rmn_init :: flat_map (fun p => match rmn_fetch (Some p) with Ok v => [v] | _ => [] end) i.
Definition rconc_ok (i : rconc_in) (o : rconc_out) : bool := conc_ok (rconc_cands i) ritem_matches o.
Definition rconc_judge :=
  judge (fun _ : rconc_in => (@nil ritem, @nil (list (list N)))) (fun _ _ => true) rconc_ok (fun _ => 0%N).

(* =====================================================================================================
   part bitmap: IsNodeObserver(bitmap, j, n); output 0 = false, 1 = true, 2 = error, 3 = panic *)
Definition bm_in := (option Z * Z * Z)%type.
Definition bm_code (r : res bool) : N :=
  match r with Ok false => 0 | Ok true => 1 | Err => 2 | _ => 3 end%N.
Definition bm_model (i : bm_in) : N := let '(b, j, n) := i in bm_code (is_node_observer b j n).
Definition bm_valid (i : bm_in) : option Z :=
  let '(b, j, n) := i in
  match b with
  | Some z => if Z.leb 1 n && Z.leb n 256 && Z.leb 0 j && Z.ltb j n && Z.leb 0 z && Z.ltb z (2 ^ n) then Some z else None
  | None => None
  end.
(* valid committee, index and bitmap: the answer is the bitmap's bit j; an out-of-range bitmap never yields an answer.
   (Judge soundness, Proofs/JudgeSoundC18P.v: the exemption for a negative big.Int used to be tested BEFORE the
   committee size and the index, so with a negative bitmap any answer was accepted even for n = 300 or j >= n, where
   C18_bitmap_refusals demands a refusal whatever the bitmap; witness bm_ok_before_unsound.  The exemption now
   applies only where the bitmap is looked at: committee size and index valid.) *)
Definition bm_ok (i : bm_in) (o : N) : bool :=
  let '(b, j, n) := i in
  match bm_valid i with
  | Some z => N.eqb o (if Z.testbit z j then 1 else 0)
  | None =>
      match b with
      | Some z => if Z.leb 1 n && Z.leb n 256 && Z.leb 0 j && Z.ltb j n
                  then (if Z.ltb z 0 then true  (* negative big.Int: not an on-chain value *)
                        else N.leb 2 o)         (* 0 <= z but z >= 2^n: must be refused *)
                  else N.leb 2 o                (* committee size or index out of range: refused whatever the bitmap *)
      | None => N.leb 2 o
      end
  end.
Definition bm_judge := judge bm_model N.eqb bm_ok (fun _ => 0%N).

(* =====================================================================================================
   part conv: convertOnChainConfigToRMNHomeChainConfig(primary, secondary) *)
Definition conv_in := (vconfig * vconfig)%type.
Definition conv_model (i : conv_in) : res rmap := rmn_convert (fst i) (snd i).
(* what the property prescribes for one accepted versioned config, written with testbit *)
Definition bm_observer (n : nat) (j : nat) (ch : rchain) : bool :=
  match rc_bitmap ch with
  | Some z => Nat.leb 1 n && Nat.leb n 256 && Z.leb z (2 ^ Z.of_nat n - 1) && Z.testbit z (Z.of_nat j)
  | None => false
  end.
Fixpoint spec_nodes (vc : vconfig) (j : nat) (nodes : list rnode) : list hnode :=
  match nodes with
  | [] => []
  | nd :: r =>
      mkHN (N.of_nat j) (rn_peer nd) (rn_key nd)
           (set_of (map rc_sel (filter (bm_observer (length (vc_nodes vc)) j) (vc_chains vc)))) :: spec_nodes vc (S j) r
  end.
Definition spec_homecfg (vc : vconfig) : homecfg :=
  mkHC (spec_nodes vc 0 (vc_nodes vc))
       (fold_left (fun m ch => minsert (rc_sel ch) (int_of_u64 (rc_f ch)) m) (vc_chains vc) [])
       (vc_digest vc) (vc_off vc).
Definition conv_ok (i : conv_in) (o : res rmap) : bool :=
  let '(a, c) := i in
  match o with
  | Ok m =>
      (* exactly the non-empty digests are present, the candidate wins when both carry the same digest *)
      forallb (fun kv => negb (N.eqb (fst kv) 0) &&
                         (if N.eqb (fst kv) (vc_digest c) then hc_eqb (snd kv) (spec_homecfg c)
                          else N.eqb (fst kv) (vc_digest a) && hc_eqb (snd kv) (spec_homecfg a))) m &&
      forallb (fun vc => N.eqb (vc_digest vc) 0 || existsb (fun kv => N.eqb (fst kv) (vc_digest vc)) m) [a; c] &&
      nodupb N.eqb (map fst m)
  | _ => true     (* a crash on a nil bitmap is C13's subject; C18 constrains the answers that are given *)
  end.
Definition conv_judge := judge conv_model (res_eqb rmap_eqb) conv_ok (fun _ => 0%N).

(* =====================================================================================================
   soundness of the executable properties of the sequential parts: what hseq_ok / rseq_ok compare against is exactly
   what the theorems snapshot / ready_spec / healthy_spec (Proofs/PollersP.v; the C18_snapshot and C18_health_exact theorems)
   state about the model *)
Require Import Verif.Proofs.PollersP.

Lemma hseq_run_is_spec evs : forall pre, hseq_run (home_run pre) evs = hseq_spec true pre evs.
Proof.
  induction evs as [|e evs IH]; intros pre; cbn [hseq_run hseq_spec]; [reflexivity|].
  destruct e; cbn [hev_pev];
    try (unfold home_step, home_run in *; rewrite <- run_snoc; apply IH).
  unfold home_run at 1 2 3. rewrite snapshot, ready_spec, healthy_spec. f_equal.
  rewrite <- IH. unfold home_run. now rewrite run_snoc.
Qed.
Theorem hseq_model_satisfies_ok evs : hseq_model evs = hseq_spec true [] evs.
Proof. exact (hseq_run_is_spec evs []). Qed.

Lemma rseq_run_is_spec evs : forall pre, rseq_run (rmn_run pre) evs = rseq_spec pre evs.
Proof.
  induction evs as [|e evs IH]; intros pre; cbn [rseq_run rseq_spec]; [reflexivity|].
  destruct e; cbn [rev_pev];
    try (unfold rmn_step, rmn_run in *; rewrite <- run_snoc; apply IH).
  unfold rmn_run at 1 2 3. rewrite snapshot, ready_spec, healthy_spec. f_equal.
  rewrite <- IH. unfold rmn_run. now rewrite run_snoc.
Qed.
Theorem rseq_model_satisfies_ok evs : rseq_model evs = rseq_spec [] evs.
Proof. exact (rseq_run_is_spec evs []). Qed.

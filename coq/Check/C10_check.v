(* C10_check.v — determinism correspondence: the harness evaluates Outcome (+ Reports) R times on fresh plugin
   instances (fresh Go maps, different own oracle ids, different process time zones) on one input and reports
   how many distinct results it saw. The model's claim (Props/C10.v) is: exactly one. *)
Require Import Verif.Model.Base.

(* input: (plugin 0 commit / 1 execute, recorded known-finding class or 0, repetitions, digest of the concrete input) ;
   output: distinct results *)
Definition det_in := (N * N * N * N)%type.
Definition det_model (i : det_in) : N := 1%N.
Definition det_ok (i : det_in) (o : N) : bool := N.eqb o 1.
Definition det_known (i : det_in) : N := let '(_, k, _, _) := i in k.
Definition det_judge := judge det_model N.eqb det_ok det_known.

(* long-lived execute oracles over the real home-chain poller (part borrowed from C16): the distinct transmission
   schedules the oracles attach to one outcome; the judge is C16's (exactly one answer, the model schedule) *)
Require Verif.Check.C16_check.
Definition rep_roles_judge := Verif.Check.C16_check.rep_judge.

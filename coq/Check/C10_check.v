(* C10_check.v — determinism correspondence: the harness evaluates Outcome (+ Reports) R times on fresh plugin
   instances (fresh Go maps, different own oracle ids, different process time zones) on one input and reports
   how many distinct results it saw. The model's claim (Props/C10.v) is: exactly one. *)
Require Import Verif.Model.Base.

(* input: (plugin 0 commit / 1 execute, recorded known-finding class or 0, repetitions, digest of the concrete input) ;
   output: distinct results *)
Definition det_in := (N * N * N * N)%type.
Definition det_model (i : det_in) : N := 1%N.
Definition det_ok (i : det_in) (o : N) : bool := N.eqb o 1.
Definition det_known (i : det_in) : N := let '(_, k, _, _) := i in k.
Definition det_judge := judge det_model N.eqb det_ok det_known.

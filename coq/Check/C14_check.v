(* C14_check.v — case types, model runners and executable property checks for the C14 correspondence. *)
Require Export Verif.Model.Base Verif.Model.Consensus Verif.Model.CommitConsensus Verif.Model.Prices Verif.Model.PricesHist.
Require Import Verif.Check.C01_check.

(* ================= mathslib.Deviates, called in both argument orders ================= *)
Definition dev_in := (Z * Z * Z)%type.
Definition dev_out := (bool * bool)%type.
Definition dev_model (i : dev_in) : dev_out := let '(x1, x2, ppb) := i in (deviates x1 x2 ppb, deviates x2 x1 ppb).
Definition dev_oeqb : dev_out -> dev_out -> bool := pair_eqb Bool.eqb Bool.eqb.
(* the statement as an integer inequality (positive operands), any change from or to zero counts *)
Definition dev_spec (x1 x2 ppb : Z) : bool :=
  if Z.eqb x1 0 || Z.eqb x2 0 then negb (Z.eqb x1 x2)
  else if Z.ltb 0 x1 && Z.ltb 0 x2 then
    let hi := Z.max x1 x2 in let lo := Z.min x1 x2 in
    Z.leb ((ppb + 1) * lo) ((hi - lo) * 1000000000)
  else deviates x1 x2 ppb.
Definition dev_ok (i : dev_in) (o : dev_out) : bool :=
  let '(x1, x2, ppb) := i in
  Bool.eqb (fst o) (snd o) && Bool.eqb (fst o) (dev_spec x1 x2 ppb).
Definition dev_judge := judge dev_model dev_oeqb dev_ok (fun _ => 0%N).

(* ================= mathslib.CalculateUsdPerUnitGas ================= *)
Definition usd_in := (Z * Z)%type.
Definition usd_model (i : usd_in) : Z := usd_per_unit_gas (fst i) (snd i).
Definition usd_ok (i : usd_in) (o : Z) : bool :=
  let p := (fst i * snd i)%Z in
  Z.leb (o * 1000000000000000000) p && Z.ltb p ((o + 1) * 1000000000000000000).
Definition usd_judge := judge usd_model Z.eqb usd_ok (fun _ => 0%N).

(* ================= ToPackedFee / FromPackedFee ================= *)
(* input (da, exec); output (packed, FromPackedFee packed = (exec', da')) *)
Definition pack_in := (Z * Z)%type.
Definition pack_out := (Z * (Z * Z))%type.
Definition pack_model (i : pack_in) : pack_out :=
  let p := to_packed (fst i) (snd i) in (p, from_packed p).
Definition pack_oeqb : pack_out -> pack_out -> bool := pair_eqb Z.eqb (pair_eqb Z.eqb Z.eqb).
Definition pack_ok (i : pack_in) (o : pack_out) : bool :=
  let '(da, ex) := i in
  if Z.leb 0 ex && Z.ltb ex (2 ^ 112) && Z.leb 0 da then
    Z.eqb (fst o) (da * 2 ^ 112 + ex) && Z.eqb (fst (snd o)) ex && Z.eqb (snd (snd o)) da
  else true.
Definition pack_judge := judge pack_model pack_oeqb pack_ok (fun _ => 0%N).

(* ================= consensus.Median over big integers ================= *)
Definition med_model (l : list Z) : Z := medianZ l.
Definition med_ok (l : list Z) (o : Z) : bool :=
  match l with
  | [] => true
  | _ =>
      let n := length l in
      memZ o l &&
      Nat.leb (length (filter (fun x => Z.ltb x o) l)) (Nat.div2 n) &&
      Nat.leb (length (filter (fun x => Z.ltb o x) l)) (n - 1 - Nat.div2 n)
  end.
Definition med_judge := judge med_model Z.eqb med_ok (fun _ => 0%N).

(* ================= shared by the two processor parts ================= *)
Definition select {A} (bs : list bool) (l : list A) : list A := map snd (filter fst (combine bs l)).
Definition out_eqb : res (list (N * Z)) -> res (list (N * Z)) -> bool := res_eqb (list_eqb (pair_eqb N.eqb Z.eqb)).
Fixpoint strictly_asc (l : list N) : bool :=
  match l with
  | x :: ((y :: _) as l') => N.ltb x y && strictly_asc l'
  | _ => true
  end.
(* the value oracle-by-oracle: at most one per observation *)
Definition obs_vals {O V} (get : O -> list (N * V)) (aos : list (N * O)) (k : N) : list V :=
  flat_map (fun ao => match alookup k (get (snd ao)) with Some v => [v] | None => [] end) aos.
(* "at least 2f+1 observations" *)
Definition enough (f : Z) (n : nat) : bool := Z.leb (2 * f + 1) (Z.of_nat n).
(* agreed f of chain k by the statement: unique value with 2F+1 distinct reporters *)
Definition f_of {O} (get : O -> list (N * Z)) (F : Z) (aos : list (N * O)) (k : N) : option Z :=
  prescribed Z.eqb get aos (fun _ : N => Some (two_f_plus_1 F)) k.

(* ================= chain fee processor ================= *)
(* input: (write frequency ns, feeinfo, F, dest, roles, known, raw attributed observations)
   output: (validation verdicts, Outcome gas prices / Err / Panic) *)
Definition cf_in := (Z * list (N * (Z * Z)) * Z * N * roles_t * list N * list (N * cf_raw))%type.
Definition cf_out := (list bool * res (list (N * Z)))%type.
Definition cf_model (i : cf_in) : cf_out :=
  let '(freq, feeinfo, F, dest, roles, known, aos) := i in
  let vs := map (cf_validate roles known dest) aos in
  (vs, cf_outcome freq feeinfo F dest (map (fun ao => (fst ao, cf_clean (snd ao))) (select vs aos))).
Definition cf_oeqb (a b : cf_out) : bool := list_eqb Bool.eqb (fst a) (fst b) && out_eqb (snd a) (snd b).

(* the statement, restated directly over the accepted observations.
   The reported price is to_packed da ex (C14_gas_price), not da * 2^112 + ex: the two agree only for 0 <= ex < 2^112
   (C14_units_packing), beyond that the sum rejected the model's own output (Proofs/JudgeSoundC14P.v: cf_ok_before_false_alarm). *)
Definition cf_spec (freq : Z) (feeinfo : list (N * (Z * Z))) (F : Z) (dest : N) (acc : list (N * cf_obs))
  : res (list (N * Z)) :=
  match f_of cf_fchain F acc dest with
  | None => Err
  | Some fd =>
      if negb (enough fd (length acc)) then Err
      else
        let now := medianZ (map (fun ao => cf_ts (snd ao)) acc) in
        Ok (flat_map (fun k =>
          match f_of cf_fchain F acc k with
          | None => []
          | Some fk =>
              let fcs := obs_vals cf_feecomp acc k in
              let nts := obs_vals cf_native acc k in
              if enough fk (length fcs) && enough fk (length nts) then
                let p := medianZ nts in
                let ex := usd_per_unit_gas (medianZ (map fst fcs)) p in
                let da := usd_per_unit_gas (medianZ (map snd fcs)) p in
                let ups := obs_vals cf_updates acc k in
                let sel :=
                  if enough fd (length ups) then
                    let uex := medianZ (map (fun u => fst (fst u)) ups) in
                    let uda := medianZ (map (fun u => snd (fst u)) ups) in
                    let uts := medianZ (map snd ups) in
                    Z.ltb (uts + freq) now ||
                    match alookup k feeinfo with
                    | None => false
                    | Some (eppb, dppb) => dev_spec ex uex eppb || dev_spec da uda dppb
                    end
                  else true in
                if sel then [(k, to_packed da ex)] else []
              else []
          end) (sortN (keys_of cf_feecomp acc)))
  end.

(* C14_validated_no_null_chainfee in full: fee components and native prices of an accepted observation are non-null AND
   in range (exec fee > 0, da fee >= 0, native price > 0); the range half was not checked before
   (Proofs/JudgeSoundC14P.v: cf_ok_before_weak) *)
Definition cf_accept_ok (ao : N * cf_raw) : bool :=
  let ob := snd ao in
  forallb (fun e => match snd e with (Some ex, Some da) => Z.ltb 0 ex && Z.leb 0 da | _ => false end) (cfr_feecomp ob) &&
  forallb (fun e => match snd e with Some p => Z.ltb 0 p | None => false end) (cfr_native ob) &&
  forallb (fun e => is_some (fst (fst (snd e))) && is_some (snd (fst (snd e)))) (cfr_updates ob) &&
  forallb (fun e => Z.ltb 0 (snd e)) (cfr_fchain ob).

Definition cf_ok (i : cf_in) (o : cf_out) : bool :=
  let '(freq, feeinfo, F, dest, roles, known, aos) := i in
  let accr := select (fst o) aos in
  let acc := map (fun ao => (fst ao, cf_clean (snd ao))) accr in
  Nat.eqb (length (fst o)) (length aos) &&
  nodupb N.eqb (map fst aos) &&
  forallb cf_accept_ok accr &&
  out_eqb (snd o) (cf_spec freq feeinfo F dest acc) &&
  match snd o with Ok l => strictly_asc (map fst l) | Err => true | _ => false end.
Definition cf_judge := judge cf_model cf_oeqb cf_ok (fun _ => 0%N).

(* ================= token price processor ================= *)
(* input: (write frequency ns, tokeninfo, feed chain, F, dest, roles, known, raw attributed observations) *)
Definition tp_in := (Z * list (N * Z) * N * Z * N * roles_t * list N * list (N * tp_raw))%type.
Definition tp_out := (list bool * res (list (N * Z)))%type.
Definition tp_model (i : tp_in) : tp_out :=
  let '(freq, tokeninfo, feedchain, F, dest, roles, known, aos) := i in
  let vs := map (tp_validate roles known feedchain dest) aos in
  (vs, tp_outcome freq tokeninfo feedchain F dest (map (fun ao => (fst ao, tp_clean (snd ao))) (select vs aos))).

Definition tp_spec (freq : Z) (tokeninfo : list (N * Z)) (feedchain : N) (F : Z) (dest : N) (acc : list (N * tp_obs))
  : res (list (N * Z)) :=
  if Z.eqb freq 0 then Ok []
  else
  match f_of tp_fchain F acc dest, f_of tp_fchain F acc feedchain with
  | Some fd, Some ff =>
      let now := medianZ (map (fun ao => tp_ts (snd ao)) acc) in
      Ok (flat_map (fun t =>
        let ps := obs_vals tp_feed acc t in
        if enough ff (length ps) then
          let p := medianZ ps in
          let ups := obs_vals tp_updates acc t in
          let sel :=
            if enough fd (length ups) then
              match alookup t tokeninfo with
              | None => false
              | Some ppb => Z.ltb (medianZ (map fst ups) + freq) now || dev_spec p (medianZ (map snd ups)) ppb
              end
            else true in
          if sel then [(t, p)] else []
        else []) (sortN (keys_of tp_feed acc)))
  | _, _ => Err
  end.

Definition tp_accept_ok (ao : N * tp_raw) : bool :=
  let ob := snd ao in
  nodupb N.eqb (map fst (tpr_feed ob)) &&
  forallb (fun e => is_some (snd e)) (tpr_feed ob) &&
  forallb (fun e => is_some (snd (snd e))) (tpr_updates ob) &&
  forallb (fun e => Z.ltb 0 (snd e)) (tpr_fchain ob).

Definition tp_ok (i : tp_in) (o : tp_out) : bool :=
  let '(freq, tokeninfo, feedchain, F, dest, roles, known, aos) := i in
  let accr := select (fst o) aos in
  let acc := map (fun ao => (fst ao, tp_clean (snd ao))) accr in
  Nat.eqb (length (fst o)) (length aos) &&
  nodupb N.eqb (map fst aos) &&
  forallb tp_accept_ok accr &&
  out_eqb (snd o) (tp_spec freq tokeninfo feedchain F dest acc) &&
  match snd o with Ok l => strictly_asc (map fst l) | Err => true | _ => false end.
Definition tp_judge := judge tp_model cf_oeqb tp_ok (fun _ => 0%N).

(* ================= part pplug: commit.Plugin.ValidateObservation + Outcome + Reports, price processors ================= *)
(* observation: chain-fee part, token-price part, top-level fChain (merkle-root and discovery parts empty)
   input: (gas write frequency, feeinfo, token write frequency, tokeninfo, feed chain, F, dest, roles, known, observations)
   output: (verdicts, Ok (outcome gas prices, outcome token prices, (report GasPriceUpdates, report TokenPriceUpdates))) *)
Definition pplug_obs := (cf_raw * tp_raw * list (N * Z))%type.
Definition pplug_in :=
  (Z * list (N * (Z * Z)) * Z * list (N * Z) * N * Z * N * roles_t * list N * list (N * pplug_obs))%type.
(* prices = list (N * Z): Model/PricesHist.v *)
Definition prices_eqb : prices -> prices -> bool := list_eqb (pair_eqb N.eqb Z.eqb).
Definition pplug_out := (list bool * res (prices * prices * (prices * prices)))%type.

Definition empty_mobs : obs := mkObs [] [] [] (mkRmn 0 true true [] 0 0 true) [].

Definition pplug_validate (roles : roles_t) (known : list N) (feedchain dest : N) (ao : N * pplug_obs) : bool :=
  let '(o, (cf, tp, topf)) := ao in
  forallb (fun e => Z.ltb 0 (snd e)) topf &&
  validate_obs false roles known dest (o, empty_mobs) &&
  tp_validate roles known feedchain dest (o, tp) &&
  cf_validate roles known dest (o, cf).

(* Plugin.Outcome logs and drops a price processor's error: the outcome then carries no prices of that kind *)
Definition or_nil (r : res prices) : prices := carried r.

Definition pplug_model (i : pplug_in) : pplug_out :=
  let '(gfreq, feeinfo, tfreq, tokeninfo, feedchain, F, dest, roles, known, aos) := i in
  let vs := map (pplug_validate roles known feedchain dest) aos in
  let acc := select vs aos in
  let gas := or_nil (cf_outcome gfreq feeinfo F dest (map (fun ao => (fst ao, cf_clean (fst (fst (snd ao))))) acc)) in
  let tok := or_nil (tp_outcome tfreq tokeninfo feedchain F dest (map (fun ao => (fst ao, tp_clean (snd (fst (snd ao))))) acc)) in
  (vs, Ok (gas, tok, (gas, tok))).

Definition pplug_oeqb (a b : pplug_out) : bool :=
  list_eqb Bool.eqb (fst a) (fst b) &&
  res_eqb (pair_eqb (pair_eqb prices_eqb prices_eqb) (pair_eqb prices_eqb prices_eqb)) (snd a) (snd b).

Definition pplug_ok (i : pplug_in) (o : pplug_out) : bool :=
  let '(gfreq, feeinfo, tfreq, tokeninfo, feedchain, F, dest, roles, known, aos) := i in
  let vs := map (pplug_validate roles known feedchain dest) aos in
  let acc := select vs aos in
  nodupb N.eqb (map fst aos) &&
  list_eqb Bool.eqb (fst o) vs &&
  match snd o with
  | Ok (gas, tok, (rgas, rtok)) =>
      (* the report carries exactly the outcome's prices, in the outcome's order *)
      prices_eqb rgas gas && prices_eqb rtok tok &&
      strictly_asc (map fst gas) && strictly_asc (map fst tok) &&
      prices_eqb gas (or_nil (cf_spec gfreq feeinfo F dest (map (fun ao => (fst ao, cf_clean (fst (fst (snd ao))))) acc))) &&
      prices_eqb tok (or_nil (tp_spec tfreq tokeninfo feedchain F dest (map (fun ao => (fst ao, tp_clean (snd (fst (snd ao))))) acc)))
  | _ => false
  end.
Definition pplug_judge := judge pplug_model pplug_oeqb pplug_ok (fun _ => 0%N).

(* typed constructor for the harness output (a case file in which some list is empty in EVERY case must still type-check) *)
Definition pp_out (gas tok rgas rtok : prices) : res (prices * prices * (prices * prices)) := Ok (gas, tok, (rgas, rtok)).

(* ================= history parts: ONE long-lived processor / plugin, one case per round =================
   input : (the previous outcome's prices handed to this round, this round's input in the shape of the one-shot part)
   output: (verdicts, Outcome result, prices of the Outcome VALUE returned — also on the error exit; it is what
            commit.Plugin.Outcome stores and what the harness hands to the next round)
   The model is the step function of Model/PricesHist.v (Props: the C14_history theorems): it is evaluated on THIS round's role map and
   observations only, so state left over in the instance or taken from the previous outcome is a mismatch, and the
   executable property restates "every price is the median of >= 2f+1 observations of this round, selected by this round's
   deviation / heartbeat rule; no consensus, no price" on the implementation's output. *)
Definition hist_out := round_out.
Definition hist_oeqb (a b : hist_out) : bool :=
  list_eqb Bool.eqb (fst (fst a)) (fst (fst b)) && out_eqb (snd (fst a)) (snd (fst b)) && prices_eqb (snd a) (snd b).

Definition cfh_in := (prices * cf_in)%type.
Definition cfh_model (i : cfh_in) : hist_out :=
  let '(prev, (freq, feeinfo, F, dest, roles, known, aos)) := i in
  cf_step (mkCfCfg freq feeinfo F dest) prev (mkCfRound roles known aos).
Definition cfh_ok (i : cfh_in) (o : hist_out) : bool :=
  let '(prev, (freq, feeinfo, F, dest, roles, known, aos)) := i in
  let '(vs, r, car) := o in
  let acc := map (fun ao => (fst ao, cf_clean (snd ao))) (select vs aos) in
  cf_ok (snd i) (vs, r) &&
  (* an observation is accepted iff THIS round's role map allows it *)
  list_eqb Bool.eqb vs (map (cf_validate roles known dest) aos) &&
  prices_eqb car (or_nil (cf_spec freq feeinfo F dest acc)) &&
  strictly_asc (map fst car).
Definition cfh_judge := judge cfh_model hist_oeqb cfh_ok (fun _ => 0%N).

Definition tph_in := (prices * tp_in)%type.
Definition tph_model (i : tph_in) : hist_out :=
  let '(prev, (freq, tokeninfo, feedchain, F, dest, roles, known, aos)) := i in
  tp_step (mkTpCfg freq tokeninfo feedchain F dest) prev (mkTpRound roles known aos).
Definition tph_ok (i : tph_in) (o : hist_out) : bool :=
  let '(prev, (freq, tokeninfo, feedchain, F, dest, roles, known, aos)) := i in
  let '(vs, r, car) := o in
  let acc := map (fun ao => (fst ao, tp_clean (snd ao))) (select vs aos) in
  tp_ok (snd i) (vs, r) &&
  list_eqb Bool.eqb vs (map (tp_validate roles known feedchain dest) aos) &&
  prices_eqb car (or_nil (tp_spec freq tokeninfo feedchain F dest acc)) &&
  strictly_asc (map fst car).
Definition tph_judge := judge tph_model hist_oeqb tph_ok (fun _ => 0%N).

(* plugin: previous plugin outcome's (gas prices, token prices), then the round as in part pplug *)
Definition pplugh_in := (prices * prices * pplug_in)%type.
Definition pplugh_model (i : pplugh_in) : pplug_out := pplug_model (snd i).
Definition pplugh_ok (i : pplugh_in) (o : pplug_out) : bool := pplug_ok (snd i) o.
Definition pplugh_judge := judge pplugh_model pplug_oeqb pplugh_ok (fun _ => 0%N).
(* typed constructors for the harness *)
Definition hist_o (vs : list bool) (r : res prices) (car : prices) : hist_out := (vs, r, car).
Definition no_prices : prices := [].

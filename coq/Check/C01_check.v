(* C01_check.v — case types, model runners and executable property checks for the C01 correspondence. *)
Require Export Verif.Model.Base Verif.Model.Consensus Verif.Model.CommitConsensus Verif.Model.Discovery.

Definition sortk {V} (m : list (N * V)) : list (N * V) := sort_by (fun a b => N.leb (fst a) (fst b)) m.
Definition kv_eqb {V} (e : V -> V -> bool) : list (N * V) -> list (N * V) -> bool :=
  list_eqb (pair_eqb N.eqb e).

(* ================= part mr: ValidateObservation on each observation, getConsensusObservation on the accepted ================= *)
(* input: (F, dest, retry, roles, known oracle ids, attributed observations in slice order)
   output: (validation verdict per observation, consensus observation with every map sorted by key) *)
Definition mr_in := (Z * N * bool * roles_t * list N * list aobs)%type.
Definition mr_out := (list bool * res cons)%type.

Definition cons_sort (c : cons) : cons :=
  mkCons (sortk (c_roots c)) (sortk (c_onramp c)) (sortk (c_offramp c)) (sortk (c_rmn c)) (sortk (c_fchain c)).
Definition cons_eqb (a b : cons) : bool :=
  kv_eqb root_eqb (c_roots a) (c_roots b) && kv_eqb N.eqb (c_onramp a) (c_onramp b) &&
  kv_eqb N.eqb (c_offramp a) (c_offramp b) && kv_eqb N.eqb (c_rmn a) (c_rmn b) &&
  kv_eqb Z.eqb (c_fchain a) (c_fchain b).

Definition select {A} (bs : list bool) (l : list A) : list A :=
  map snd (filter fst (combine bs l)).

Definition mr_model (i : mr_in) : mr_out :=
  let '(F, dest, retry, roles, known, aos) := i in
  let vs := map (validate_obs retry roles known dest) aos in
  (vs, match get_consensus F dest (select vs aos) with Ok c => Ok (cons_sort c) | r => r end).
Definition mr_oeqb (a b : mr_out) : bool :=
  list_eqb Bool.eqb (fst a) (fst b) && res_eqb cons_eqb (snd a) (snd b).

(* ----- the property, stated on the implementation's answers by counting DISTINCT oracles directly ----- *)
(* oracles (each once) that put entry (k, v) into field [get] *)
Definition distinct_reporters {O V} (e : V -> V -> bool) (get : O -> list (N * V)) (aos : list (N * O)) (k : N) (v : V) : N :=
  N.of_nat (length (dedup N.eqb
    (map fst (filter (fun ao => existsb (fun kv => N.eqb (fst kv) k && e (snd kv) v) (get (snd ao))) aos)))).
Definition values_for {O V} (e : V -> V -> bool) (get : O -> list (N * V)) (aos : list (N * O)) (k : N) : list V :=
  dedup e (flat_map (fun ao => map snd (filter (fun kv => N.eqb (fst kv) k) (get (snd ao)))) aos).
Definition keys_of {O V} (get : O -> list (N * V)) (aos : list (N * O)) : list N :=
  dedup N.eqb (flat_map (fun ao => map fst (get (snd ao))) aos).

(* the value the statement prescribes for key k: the unique value with >= thr distinct reporters, if the key has a threshold *)
Definition prescribed {O V} (e : V -> V -> bool) (get : O -> list (N * V)) (aos : list (N * O)) (thr_of : N -> option N) (k : N) : option V :=
  match thr_of k with
  | None => None
  | Some thr =>
      match filter (fun v => N.leb thr (distinct_reporters e get aos k v)) (values_for e get aos k) with
      | [v] => Some v
      | _ => None
      end
  end.
Definition field_ok {O V} (e : V -> V -> bool) (get : O -> list (N * V)) (aos : list (N * O)) (thr_of : N -> option N)
           (out : list (N * V)) : bool :=
  nodupb N.eqb (map fst out) &&
  forallb (fun k => option_eqb e (alookup k out) (prescribed e get aos thr_of k)) (keys_of get aos ++ map fst out).

(* what validation must guarantee of an accepted observation for "one oracle = one vote" and "designated" *)
Definition one_vote_ok (roles : roles_t) (dest : N) (ao : aobs) : bool :=
  let o := fst ao in
  let ob := snd ao in
  let sd := match alookup dest roles with Some l => memN o l | None => false end in
  nodupb N.eqb (map root_chain (o_roots ob)) && nodupb N.eqb (map fst (o_onramp ob)) &&
  nodupb N.eqb (map fst (o_offramp ob)) &&
  forallb (fun c => memN c (supported roles o)) (map root_chain (o_roots ob) ++ map fst (o_onramp ob)) &&
  (match o_offramp ob with [] => true | _ => sd end) &&
  (rmn_is_empty (o_rmn ob) || sd) &&
  forallb (fun e => Z.ltb 0 (snd e)) (o_fchain ob).

Definition mr_ok (i : mr_in) (o : mr_out) : bool :=
  let '(F, dest, retry, roles, known, aos) := i in
  let acc := select (fst o) aos in
  Nat.eqb (length (fst o)) (length aos) &&
  nodupb N.eqb (map fst aos) &&
  forallb (one_vote_ok roles dest) acc &&
  let fthr := fun _ : N => Some (two_f_plus_1 F) in
  match snd o with
  | Err => match prescribed Z.eqb fchain_kv acc fthr dest with None => true | Some _ => false end
  | Ok c =>
      field_ok Z.eqb fchain_kv acc fthr (c_fchain c) &&
      (match alookup dest (c_fchain c) with Some _ => true | None => false end) &&
      let thr := thr_2f1 (c_fchain c) in
      field_ok root_eqb roots_kv acc thr (c_roots c) &&
      field_ok N.eqb onramp_kv acc thr (c_onramp c) &&
      (* off-ramp next numbers are destination data: every key at the destination's 2*f_dest+1 (fixes/F26.patch) *)
      (let dthr := fun _ : N => match alookup dest (c_fchain c) with
                                 | Some fd => Some (two_f_plus_1 fd) | None => None end in
       field_ok N.eqb offramp_kv acc dthr (c_offramp c)) &&
      field_ok N.eqb (rmn_kv dest) acc thr (c_rmn c)
  | _ => false
  end.

Definition mr_judge := judge mr_model mr_oeqb mr_ok (fun _ => 0%N).

(* ================= part disc: discovery Outcome, argument handed to CCIPReader.Sync ================= *)
(* input: (F, dest, sync_fails, observations); output: Ok (Some contracts) / Err, contracts sorted by key *)
Definition disc_in := (Z * N * bool * list (N * dobs))%type.
Definition disc_out := res (dcons * bool)%type.   (* (Sync argument, Outcome returned an error) *)

Definition dcons_sort (c : dcons) : dcons :=
  mkDcons (sortk (dc_onramp c)) (sortk (dc_nonce c)) (sortk (dc_rmn c)) (sortk (dc_feeq c)) (sortk (dc_router c)).
Definition dcons_eqb (a b : dcons) : bool :=
  kv_eqb N.eqb (dc_onramp a) (dc_onramp b) && kv_eqb N.eqb (dc_nonce a) (dc_nonce b) &&
  kv_eqb N.eqb (dc_rmn a) (dc_rmn b) && kv_eqb N.eqb (dc_feeq a) (dc_feeq b) && kv_eqb N.eqb (dc_router a) (dc_router b).

Definition disc_model (i : disc_in) : disc_out :=
  let '(F, dest, sync_fails, aos) := i in
  Ok (dcons_sort (discovery_outcome F dest aos), sync_fails).

Definition d_reporters (get : dobs -> list (N * N)) (aos : list (N * dobs)) (k a : N) : N :=
  N.of_nat (length (dedup N.eqb
    (map fst (filter (fun ao => existsb (fun kv => N.eqb (fst kv) k && N.eqb (snd kv) a && negb (N.eqb a 0)) (get (snd ao))) aos)))).
Definition d_values (get : dobs -> list (N * N)) (aos : list (N * dobs)) (k : N) : list N :=
  dedup N.eqb (flat_map (fun ao => map snd (filter (fun kv => N.eqb (fst kv) k && negb (N.eqb (snd kv) 0)) (get (snd ao)))) aos).
Definition d_prescribed (get : dobs -> list (N * N)) (aos : list (N * dobs)) (thr_of : N -> option N) (k : N) : option N :=
  match thr_of k with
  | None => None
  | Some thr =>
      match filter (fun a => N.leb thr (d_reporters get aos k a)) (d_values get aos k) with
      | [a] => Some a
      | _ => None
      end
  end.
Definition d_field_ok (get : dobs -> list (N * N)) (aos : list (N * dobs)) (thr_of : N -> option N)
           (only : option N) (out : list (N * N)) : bool :=
  nodupb N.eqb (map fst out) &&
  forallb (fun k => option_eqb N.eqb (alookup k out)
                      (match only with
                       | Some d => if N.eqb k d then d_prescribed get aos thr_of k else None
                       | None => d_prescribed get aos thr_of k
                       end))
          (dedup N.eqb (flat_map (fun ao => map fst (get (snd ao))) aos) ++ map fst out).

(* the agreed fChain is not observable at Sync; the property is evaluated with the fChain prescribed by the statement *)
Definition d_fchain (F : Z) (aos : list (N * dobs)) : list (N * Z) :=
  let keys := dedup N.eqb (flat_map (fun ao => map fst (d_fchain_obs (snd ao))) aos) in
  flat_map (fun k =>
    match filter (fun f => N.leb (two_f_plus_1 F)
                    (N.of_nat (length (filter (fun ao => match alookup k (d_fchain_obs (snd ao)) with
                                                         | Some f' => Z.eqb f f' | None => false end) aos))))
                 (dedup Z.eqb (flat_map (fun ao => match alookup k (d_fchain_obs (snd ao)) with Some f => [f] | None => [] end) aos)) with
    | [f] => [(k, f)]
    | _ => []
    end) keys.

Definition disc_ok (i : disc_in) (o : disc_out) : bool :=
  let '(F, dest, sync_fails, aos) := i in
  nodupb N.eqb (map fst aos) &&
  forallb (fun ao => nodupb N.eqb (map fst (d_fchain_obs (snd ao)))) aos &&
  match o with
  | Ok (c, err) =>
      Bool.eqb err sync_fails &&
      let fch := d_fchain F aos in
      let thr := thr_2f1 fch in
      let dthr := fun _ : N => match alookup dest fch with Some f => Some (two_f_plus_1 f) | None => None end in
      d_field_ok d_onramp aos dthr None (dc_onramp c) &&
      d_field_ok d_nonce aos thr (Some dest) (dc_nonce c) &&
      d_field_ok d_rmn aos thr (Some dest) (dc_rmn c) &&
      d_field_ok d_feeq aos thr None (dc_feeq c) &&
      d_field_ok d_router aos thr None (dc_router c)
  | _ => false
  end.

(* F03 (no agreed fChain for the destination => on-ramp threshold 1) is repaired by fixes/F03.patch: no known class *)
Definition disc_known (i : disc_in) : N := 0%N.

Definition disc_judge := judge disc_model (res_eqb (pair_eqb dcons_eqb Bool.eqb)) disc_ok disc_known.

(* ================= part plug: commit.Plugin.ValidateObservation + Plugin.Outcome with discovery enabled ================= *)
Require Import Verif.Model.CommitMerkle.
(* observation of the plugin: merkle-root part, discovery part, top-level fChain (price parts empty)
   input: (fresh instance?, F, dest, MaxMerkleTreeSize, roles, known, observations)
   output: (verdicts, Ok (merkle outcome: type, ranges, off-ramp next, RMN config id; Sync argument) / Err) *)
Definition plug_obs := (obs * dobs * list (N * Z))%type.
Definition plug_in := (bool * Z * N * N * roles_t * list N * list (N * plug_obs))%type.
Definition mro := (N * list (N * (N * N)) * list (N * N) * option N)%type.
Definition plug_out := (list bool * res (mro * dcons))%type.

Definition plug_validate (roles : roles_t) (known : list N) (dest : N) (ao : N * plug_obs) : bool :=
  let '(o, (mo, dob, topf)) := ao in
  forallb (fun e => Z.ltb 0 (snd e)) topf &&
  validate_obs false roles known dest (o, mo) &&
  disc_validate roles known dest (o, dob).

(* merkleroot getOutcome in the state after an empty previous outcome: reportRangesOutcome *)
Definition mro_of (dest maxsize : N) (r : res cons) : mro :=
  match r with
  | Ok c =>
      let '(rs, os) := report_ranges (c_onramp c) (c_offramp c) maxsize in
      (1%N, rs, os, alookup dest (c_rmn c))
  | _ => (0%N, [], [], None)
  end.

Definition plug_model (i : plug_in) : plug_out :=
  let '(fresh, F, dest, maxsize, roles, known, aos) := i in
  let vs := map (plug_validate roles known dest) aos in
  let acc := select vs aos in
  (vs, Ok (mro_of dest maxsize (get_consensus F dest (map (fun ao => (fst ao, fst (fst (snd ao)))) acc)),
           dcons_sort (discovery_outcome F dest (map (fun ao => (fst ao, snd (fst (snd ao)))) acc)))).

Definition mro_eqb (a b : mro) : bool :=
  let '(t1, r1, o1, c1) := a in let '(t2, r2, o2, c2) := b in
  N.eqb t1 t2 && kv_eqb (pair_eqb N.eqb N.eqb) r1 r2 && kv_eqb N.eqb o1 o2 && option_eqb N.eqb c1 c2.
Definition plug_oeqb (a b : plug_out) : bool :=
  list_eqb Bool.eqb (fst a) (fst b) && res_eqb (pair_eqb mro_eqb dcons_eqb) (snd a) (snd b).

(* consensus observation prescribed by the statement: per key the unique value with enough DISTINCT reporters *)
Definition spec_map {O V} (e : V -> V -> bool) (get : O -> list (N * V)) (aos : list (N * O)) (thr_of : N -> option N)
  : list (N * V) :=
  flat_map (fun k => match prescribed e get aos thr_of k with Some v => [(k, v)] | None => [] end)
           (sortN (keys_of get aos)).
Definition spec_cons (F : Z) (dest : N) (acc : list aobs) : res cons :=
  let fch := spec_map Z.eqb fchain_kv acc (fun _ : N => Some (two_f_plus_1 F)) in
  match alookup dest fch with
  | None => Err
  | Some fd =>
      let thr := thr_2f1 fch in
      (* off-ramp next numbers at the destination's f for every key (fixes/F26.patch) *)
      Ok (mkCons (spec_map root_eqb roots_kv acc thr) (spec_map N.eqb onramp_kv acc thr)
                 (spec_map N.eqb offramp_kv acc (fun _ : N => Some (two_f_plus_1 fd)))
                 (spec_map N.eqb (rmn_kv dest) acc thr) fch)
  end.

(* the property: verdicts are those of the validation rules (an implementation that lets more through is a violation),
   and what the outcome holds is what 2f+1 distinct validated reporters agree on - whatever the instance's state *)
Definition plug_ok (i : plug_in) (o : plug_out) : bool :=
  let '(fresh, F, dest, maxsize, roles, known, aos) := i in
  let vs := map (plug_validate roles known dest) aos in
  let acc := select vs aos in
  nodupb N.eqb (map fst aos) &&
  list_eqb Bool.eqb (fst o) vs &&
  forallb (fun ao => one_vote_ok roles dest (fst ao, fst (fst (snd ao)))) acc &&
  match snd o with
  | Ok (m, d) =>
      mro_eqb m (mro_of dest maxsize (spec_cons F dest (map (fun ao => (fst ao, fst (fst (snd ao)))) acc))) &&
      disc_ok (F, dest, false, map (fun ao => (fst ao, snd (fst (snd ao)))) acc) (Ok (d, false))
  | _ => false
  end.
Definition plug_judge := judge plug_model plug_oeqb plug_ok (fun _ => 0%N).

(* ================= commit.Plugin.ObservationQuorum ================= *)
(* input (N, F, number of attributed observations); the commit plugin asks for 2F+1 observations.
   None of the C01 theorems assumes a quorum: they hold for every list of validated observations; the quorum only
   decides whether Outcome is called at all. *)
Definition quorum_model (i : Z * Z * Z) : bool := let '(n, f, cnt) := i in Z.leb (2 * f + 1) cnt.
Definition quorum_judge := judge quorum_model Bool.eqb (fun i o => Bool.eqb o (quorum_model i)) (fun _ => 0%N).

(* typed constructor for the harness output *)
Definition plug_res (t : N) (rs : list (N * (N * N))) (os : list (N * N)) (rmn : option N) (d : dcons)
  : res (mro * dcons) := Ok ((t, rs, os, rmn), d).

(* whole rounds of long-lived commit plugins (the history part of C04: Byzantine colluders, lost observations, "rollout"
   rounds in which the f of a chain has no 2F+1 agreement), judged by C04's round judge: every per-chain value of a
   round's outcome needs 2f+1 observers with the f agreed IN THAT ROUND (seeded change C01-12: a long-lived processor
   fell back to the f of an earlier round) *)
Require Verif.Check.C04_check.
Definition rd04_judge := Verif.Check.C04_check.rd_judge.

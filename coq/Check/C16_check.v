(* C16_check.v — case types, model runners and executable property checks for the C16 correspondence. *)
Require Import Verif.Model.Base Verif.Model.Transmit.

Definition sched_t := option (list N * list Z).
Definition sched_eqb : sched_t -> sched_t -> bool :=
  option_eqb (pair_eqb (list_eqb N.eqb) (list_eqb Z.eqb)).

Definition sup_of (items : list (N * N)) (o : N) : N :=
  match alookup o items with Some s => s | None => 2%N end.

(* ---- part sched: GetTransmissionSchedule called twice, with the same oracles in two orders ---- *)
Definition sched_in := (list (N * N) * list (N * N) * Z)%type.
Definition sched_out := (sched_t * sched_t)%type.
Definition sched_model (i : sched_in) : sched_out :=
  let '(a, b, mult) := i in
  (schedule (sup_of a) (map fst a) mult, schedule (sup_of b) (map fst b) mult).
Definition sched_oeqb : sched_out -> sched_out -> bool := pair_eqb sched_eqb sched_eqb.

Fixpoint strictly_asc (l : list N) : bool :=
  match l with
  | x :: ((y :: _) as l') => N.ltb x y && strictly_asc l'
  | _ => true
  end.
Definition writers_l (items : list (N * N)) : list N :=
  map fst (filter (fun p => N.eqb (snd p) 1) items).
Definition any_err (items : list (N * N)) : bool :=
  existsb (fun p => negb (N.eqb (snd p) 0) && negb (N.eqb (snd p) 1)) items.

(* the C16 schedule clauses, executable, on one call *)
Definition sched_ok1 (items : list (N * N)) (mult : Z) (o : sched_t) : bool :=
  match o with
  | None => any_err items || match writers_l items with [] => true | _ => false end
  | Some (t, d) =>
      negb (any_err items) &&
      strictly_asc t &&
      list_eqb N.eqb t (sortN (writers_l items)) &&
      negb (match t with [] => true | _ => false end) &&
      list_eqb Z.eqb d (delays mult (length t))
  end.
Definition sched_ok (i : sched_in) (o : sched_out) : bool :=
  let '(a, b, mult) := i in
  sched_ok1 a mult (fst o) && sched_ok1 b mult (snd o) && sched_eqb (fst o) (snd o).

Definition sched_judge := judge sched_model sched_oeqb sched_ok (fun _ => 0%N).

(* ---- part reports: Plugin.Reports of either plugin on R fresh instances ----
   input: (plugin (0 commit / 1 execute), items (id, sup) , report_empty, mult);
   output: the distinct results seen, each Ok None (no report) / Ok (Some schedule) / Err *)
Definition rep_in := (N * list (N * N) * bool * Z)%type.
Definition rep_res := res sched_t.
Definition rep_out := list rep_res.
Definition rep_eqb : rep_res -> rep_res -> bool := res_eqb sched_eqb.
Definition rep_model1 (i : rep_in) : rep_res :=
  let '(plugin, items, empty, mult) := i in
  if N.eqb plugin 0 && empty then Ok None
  else match schedule (sup_of items) (map fst items) mult with
       | None => Err
       | Some s => Ok (Some s)
       end.
Definition rep_model (i : rep_in) : rep_out := [rep_model1 i].
Definition rep_oeqb : rep_out -> rep_out -> bool := list_eqb rep_eqb.
Definition rep_ok (i : rep_in) (o : rep_out) : bool :=
  let '(plugin, items, empty, mult) := i in
  match o with
  | [r] =>
      match r with
      | Ok None => N.eqb plugin 0 && empty
      | Ok (Some s) => sched_ok1 items mult (Some s)
      | Err => (N.eqb plugin 0 && empty) || sched_ok1 items mult None
      | _ => false
      end
  | _ => false   (* several distinct answers for one input: oracles would disagree *)
  end.
Definition rep_judge := judge rep_model rep_oeqb rep_ok (fun _ => 0%N).

(* ---- part gates: the four accept / transmit callbacks ----
   kind 0: commit transmit (my, cand option, decode_ok, roots_state_ok)
   kind 1: exec transmit (writer option, my, cand option, decode_ok)
   kind 2: commit accept (decode_ok, roots, tprices, gprices, sigs, curse, info_ok, rmn, remoteF)
   kind 3: exec accept (nil, decode_ok, chain_reports, curse)
   output: 0 = (false,nil), 1 = (true,nil), 2 = error *)
Inductive gate_in :=
| GCommitT (my : N) (cand : option N) (decode_ok roots_ok : bool)
| GExecT (writer : option bool) (my : N) (cand : option N) (decode_ok : bool)
| GCommitA (decode_ok : bool) (roots tp gp sigs curse : N) (info_ok rmn : bool) (remoteF : N)
| GExecA (nil_report decode_ok : bool) (chain_reports curse : N).

Definition code (r : res bool) : N :=
  match r with Ok false => 0 | Ok true => 1 | _ => 2 end%N.
Definition gate_model (g : gate_in) : N :=
  match g with
  | GCommitT my cand d r => code (commit_should_transmit my cand d r)
  | GExecT w my cand d => code (exec_should_transmit w my cand d)
  | GCommitA d r t g s c i rmn f =>
      code (commit_should_accept d r t g s (if N.eqb r 0 then 0%N else c) i rmn f)
  | GExecA n d cr c => code (exec_should_accept n d cr (if N.eqb cr 0 then 0%N else c))
  end.
(* the C16 gate clauses stated directly on the implementation's answer (transmit also needs a decodable report and, for
   commit, a passed roots-state check: all conjuncts of C16_commit_transmit_only_active /
   C16_exec_transmit_only_active_writer; proved sound in Proofs/JudgeSoundC16P.v) *)
Definition gate_ok (g : gate_in) (o : N) : bool :=
  match g with
  | GCommitT my cand d r =>
      if N.eqb o 1 then match cand with Some c => negb (N.eqb c my) | None => false end && d && r else true
  | GExecT w my cand d =>
      if N.eqb o 1 then
        match w, cand with Some true, Some c => negb (N.eqb c my) | _, _ => false end && d
      else true
  | GCommitA d r t g s c i rmn f =>
      if N.eqb o 1 then negb (commit_report_empty r t g s) else true
  | GExecA n d cr c =>
      if N.eqb o 1 then negb (N.eqb cr 0) else true
  end.
Definition gate_judge := judge gate_model N.eqb gate_ok (fun _ => 0%N).

(* C11_check.v — case types, model runners and executable property for the C11 correspondence:
   one real plugin per oracle over a real ccipChainReader limited to the oracle's role chains; Observation of
   oracle i (canonicalised) and the verdicts of every oracle j's ValidateObservation on it. *)
Require Export Verif.Model.Base Verif.Model.Roles Verif.Check.RolesHist_check.
Require Import Verif.Proofs.RolesP.

Definition fail_of (fl : list (N * N)) (k c : N) : bool := existsb (fun p => N.eqb (fst p) k && N.eqb (snd p) c) fl.

(* ---- boolean equality of canonical observations ---- *)
Definition fc_eqb : list (N * Z) -> list (N * Z) -> bool := list_eqb (pair_eqb N.eqb Z.eqb).
Definition ln_eqb : list N -> list N -> bool := list_eqb N.eqb.
Definition rmn_eqb (a b : rmncfg) : bool :=
  Bool.eqb (rc_addr_empty a) (rc_addr_empty b) && Bool.eqb (rc_digest_zero a) (rc_digest_zero b) &&
  list_eqb (pair_eqb Bool.eqb N.eqb) (rc_signers a) (rc_signers b) && N.eqb (rc_f a) (rc_f b) &&
  Bool.eqb (rc_version_zero a) (rc_version_zero b) && Bool.eqb (rc_repver_zero a) (rc_repver_zero b).
Definition mobs_eqb (a b : mobs) : bool :=
  ln_eqb (m_roots a) (m_roots b) && ln_eqb (m_onramp a) (m_onramp b) && ln_eqb (m_offramp a) (m_offramp b) &&
  rmn_eqb (m_rmn a) (m_rmn b) && fc_eqb (m_fchain a) (m_fchain b).
Definition tobs_eqb (a b : tobs) : bool :=
  list_eqb (pair_eqb N.eqb Bool.eqb) (t_feed a) (t_feed b) && ln_eqb (t_fq a) (t_fq b) && fc_eqb (t_fchain a) (t_fchain b).
Definition oz_eqb : option Z -> option Z -> bool := option_eqb Z.eqb.
Definition fobs_eqb (a b : fobs) : bool :=
  list_eqb (pair_eqb N.eqb (pair_eqb oz_eqb oz_eqb)) (f_comp a) (f_comp b) &&
  list_eqb (pair_eqb N.eqb oz_eqb) (f_native a) (f_native b) && ln_eqb (f_upd a) (f_upd b) && fc_eqb (f_fchain a) (f_fchain b).
Definition dobs_eqb : dobs -> dobs -> bool := list_eqb (pair_eqb N.eqb ln_eqb).
Definition cobs_eqb (a b : cobs) : bool :=
  mobs_eqb (co_m a) (co_m b) && tobs_eqb (co_t a) (co_t b) && fobs_eqb (co_f a) (co_f b) &&
  dobs_eqb (co_d a) (co_d b) && fc_eqb (co_fchain a) (co_fchain b).
Definition cdata_eqb (a b : cdata) : bool :=
  N.eqb (cd_root a) (cd_root b) && N.eqb (cd_start a) (cd_start b) && N.eqb (cd_end a) (cd_end b) &&
  ln_eqb (cd_exec a) (cd_exec b).
Definition kc_eqb : list (N * N) -> list (N * N) -> bool := list_eqb (pair_eqb N.eqb N.eqb).
Definition eobs_eqb (a b : eobs) : bool :=
  list_eqb (pair_eqb N.eqb (list_eqb cdata_eqb)) (e_commit a) (e_commit b) && kc_eqb (e_msgs a) (e_msgs b) &&
  Bool.eqb (e_keys_ok a) (e_keys_ok b) && kc_eqb (e_tokens a) (e_tokens b) && N.eqb (e_costly a) (e_costly b) &&
  kc_eqb (e_nonces a) (e_nonces b) && dobs_eqb (e_d a) (e_d b).

(* some scripted failure concerns a reader oracle i has (its own reads are not all successful).  The per-selector
   destination reads (fee update, executed ranges, nonces) are made on the destination reader. *)
Definition on_dest_reader (k : N) : bool := N.eqb k K_FEEUPD || N.eqb k K_EXECUTED || N.eqb k K_NONCES.
Definition own_failure (g : cfg) (i : N) (fl : list (N * N)) : bool :=
  existsb (fun p => if on_dest_reader (fst p) then reads g i (c_dest g) else reads g i (snd p)) fl.

(* ---- sink C11_commit: input (cfg, failing calls, reader state, phase, retry, i);
        output (Observation of i, verdict of every oracle j in c_oracles order) ---- *)
Definition cc_in := (cfg * list (N * N) * rstate * N * bool * N)%type.
Definition cc_out := (res cobs * list bool)%type.
Definition cc_model (x : cc_in) : cc_out :=
  let '(g, fl, st, phase, retry, i) := x in
  let r := observe_commit g i st phase retry in
  (r, match r with Ok ob => map (fun _ => validate_commit g retry i ob) (c_oracles g) | _ => [] end).
Definition cc_oeqb (a b : cc_out) : bool := res_eqb cobs_eqb (fst a) (fst b) && list_eqb Bool.eqb (snd a) (snd b).
(* C11_commit on the implementation's answer: an observation is produced (commit never fails) and every oracle accepts it *)
Definition cc_ok (x : cc_in) (o : cc_out) : bool :=
  let '(g, fl, st, phase, retry, i) := x in
  (* outside [values_ok] (a stored execution fee <= 0 or absent, a data-availability fee < 0 or absent, a native price of 0:
     values validation rejects from anybody, whatever the role) the case is judged for model/implementation agreement only *)
  negb (values_ok st) ||
  match fst o with
  | Ok _ => Nat.eqb (length (snd o)) (length (c_oracles g)) && forallb (fun v => v) (snd o)
  | _ => false
  end.
Definition cc_judge := judge cc_model cc_oeqb cc_ok (fun _ => 0%N).

(* ---- sink C11_exec: input (cfg, failing calls, reader state, phase, i) ---- *)
Definition ce_in := (cfg * list (N * N) * rstate * N * N)%type.
Definition ce_out := (res eobs * list bool)%type.
Definition ce_model (x : ce_in) : ce_out :=
  let '(g, fl, st, phase, i) := x in
  let r := observe_exec g i st phase in
  (r, match r with Ok ob => map (fun _ => validate_exec g i ob) (c_oracles g) | _ => [] end).
Definition ce_oeqb (a b : ce_out) : bool := res_eqb eobs_eqb (fst a) (fst b) && list_eqb Bool.eqb (snd a) (snd b).
(* C11_exec on the implementation's answer: never a panic; an error only if one of the oracle's own reads fails or
   the destination publishes no prices; whatever is produced is accepted by every oracle — unless the previous
   outcome names a chain the home chain no longer configures (outside the stable-home-configuration hypothesis
   [pending_known]; the model still has to predict the answer) *)
Definition ce_ok (x : ce_in) (o : ce_out) : bool :=
  let '(g, fl, st, phase, i) := x in
  negb (values_ok st) ||
  match fst o with
  | Ok _ => negb (pending_known g st) ||
            (Nat.eqb (length (snd o)) (length (c_oracles g)) && forallb (fun v => v) (snd o))
  | Err => own_failure g i fl || negb (dest_priced g st)
  | _ => false
  end.
Definition ce_judge := judge ce_model ce_oeqb ce_ok (fun _ => 0%N).

(* ---- sinks C11_commit_hist / C11_exec_hist: long-lived plugins (one per oracle) on real home-chain pollers while the
   CCIPHome configuration changes between rounds.  Input: (history context, round input) — the round input is the one
   of C11_commit / C11_exec without the role configuration; the role configuration is whatever the poller holds after
   the poll results of the context.  The model goes through the poller's state machine; the property is evaluated on
   the configuration of the most recent successful poll alone. ---- *)
Definition cch_in := (hctx * (list (N * N) * rstate * N * bool * N))%type.
Definition cch_at (g : cfg) (x : cch_in) : cc_in := let '(fl, st, phase, retry, i) := snd x in (g, fl, st, phase, retry, i).
Definition cch_model (x : cch_in) : cc_out := cc_model (cch_at (hctx_model (fst x)) x).
(* outside the hypothesis [cfg_ok] of C11_commit / C11_history_commit (the latest successfully fetched configuration does
   not configure the destination — e.g. a successful poll answered with no chain config at all — or gives a chain
   F = 0) no honest observation can be accepted by anybody: judged for model/implementation agreement only *)
Definition cch_ok (x : cch_in) (o : cc_out) : bool :=
  let '(_, _, _, _, i) := snd x in
  negb (cfg_ok (hctx_spec (fst x)) i) || cc_ok (cch_at (hctx_spec (fst x)) x) o.
Definition cch_judge := judge cch_model cc_oeqb cch_ok (fun _ => 0%N).

Definition ceh_in := (hctx * (list (N * N) * rstate * N * N))%type.
Definition ceh_at (g : cfg) (x : ceh_in) : ce_in := let '(fl, st, phase, i) := snd x in (g, fl, st, phase, i).
Definition ceh_model (x : ceh_in) : ce_out := ce_model (ceh_at (hctx_model (fst x)) x).
Definition ceh_ok (x : ceh_in) (o : ce_out) : bool :=
  let '(_, _, _, i) := snd x in
  negb (cfg_ok (hctx_spec (fst x)) i) || ce_ok (ceh_at (hctx_spec (fst x)) x) o.
Definition ceh_judge := judge ceh_model ce_oeqb ceh_ok (fun _ => 0%N).

(* the API sink of the history parts (judge shared with the other roles property) *)
Definition api_judge := Verif.Check.RolesHist_check.api_judge.

(* C09_check.v — case types, model runners and executable properties for the C09 correspondence
   (function level: computeRanges, groupByChainSelector + filterOutExecutedMessages via getPendingExecutedReports). *)
Require Export Verif.Model.Base Verif.Model.ExecPending.

Definition range_eqb (a b : range) : bool := N.eqb (fst a) (fst b) && N.eqb (snd a) (snd b).

(* a flat slice a, a+1, .., b, c, c+1, .. is reported by the harness as its maximal +1-runs; the model's runs are
   brought to the same form by joining runs that continue each other *)
Fixpoint join_adj (cur : option range) (runs : list range) : list range :=
  match runs with
  | [] => match cur with Some c => [c] | None => [] end
  | (a, b) :: rs =>
      match cur with
      | None => join_adj (Some (a, b)) rs
      | Some (c, d) => if N.eqb a (d + 1) then join_adj (Some (c, b)) rs else (c, d) :: join_adj (Some (a, b)) rs
      end
  end.
Definition rep_eqb (a b : rep) : bool :=
  N.eqb (p_id a) (p_id b) && N.eqb (p_lo a) (p_lo b) && N.eqb (p_hi a) (p_hi b) &&
  list_eqb range_eqb (join_adj None (p_exec a)) (join_adj None (p_exec b)).

(* ---------- the specification used by the executable properties: plain interval arithmetic ---------- *)
(* union of intervals given in ascending start order, as disjoint maximal runs *)
Fixpoint merge_runs (cur : option range) (es : list range) : list range :=
  match es with
  | [] => match cur with Some c => [c] | None => [] end
  | e :: es' =>
      if N.ltb (snd e) (fst e) then merge_runs cur es'
      else match cur with
           | None => merge_runs (Some e) es'
           | Some (a, b) => if N.leb (fst e) (b + 1) then merge_runs (Some (a, N.max b (snd e))) es'
                            else (a, b) :: merge_runs (Some e) es'
           end
  end.
Definition clip (lo hi : N) (e : range) : list range :=
  let a := N.max (fst e) lo in let b := N.min (snd e) hi in if N.leb a b then [(a, b)] else [].
(* the executed sequence numbers of [lo, hi] *)
Definition executed_in (es : list range) (lo hi : N) : list range :=
  merge_runs None (flat_map (clip lo hi) (ranges_by_start es)).
Definition fully_executed (es : list range) (lo hi : N) : bool :=
  list_eqb range_eqb (executed_in es lo hi) [(lo, hi)].
(* what must be pending: the reports with at least one unexecuted message, by start, each with its executed runs *)
Definition pending_spec (reports : list rep) (es : list range) : list rep :=
  flat_map (fun r => if fully_executed es (p_lo r) (p_hi r) then []
                     else [mkRep (p_id r) (p_lo r) (p_hi r) (executed_in es (p_lo r) (p_hi r))])
           (by_start reports).

(* preconditions of the specification *)
Fixpoint disjoint_sorted (l : list rep) : bool :=
  match l with
  | a :: ((b :: _) as l') => N.leb (p_lo a) (p_hi a) && N.ltb (p_hi a) (p_lo b) && disjoint_sorted l'
  | [a] => N.leb (p_lo a) (p_hi a)
  | [] => true
  end.
Definition legal_executed (es : list range) : bool :=
  forallb (fun e => N.leb (fst e) (snd e)) es && no_overlap 0 (ranges_by_start es).

(* ---------- part ranges: computeRanges ---------- *)
Definition ranges_in := list range.
Definition ranges_out := res (list range).
Definition ranges_model (i : ranges_in) : ranges_out := compute_ranges i.
Definition ranges_oeqb : ranges_out -> ranges_out -> bool := res_eqb (list_eqb range_eqb).
Fixpoint separated (l : list range) : bool :=
  match l with
  | a :: ((b :: _) as l') => N.ltb (snd a + 1) (fst b) && separated l'
  | _ => true
  end.
Fixpoint asc_disjoint (l : list range) : bool :=
  match l with
  | a :: ((b :: _) as l') => N.leb (fst a) (snd a) && N.ltb (snd a) (fst b) && asc_disjoint l'
  | [a] => N.leb (fst a) (snd a)
  | [] => true
  end.
(* on ascending disjoint input: the answer is the union as maximal runs - the fewest ranges that cover exactly
   the reports' sequence numbers; an error is allowed only when the input is not ascending and disjoint *)
Definition ranges_ok (i : ranges_in) (o : ranges_out) : bool :=
  if asc_disjoint i && forallb (fun r => N.ltb (snd r) max64) i then
    match o with
    | Ok l => list_eqb range_eqb l (merge_runs None i)
    | _ => false
    end
  else match o with Ok _ | Err => true | _ => false end.
Definition ranges_judge := judge ranges_model ranges_oeqb ranges_ok (fun _ => 0%N).

(* ---------- part filter: filterOutExecutedMessages ---------- *)
Definition filter_in := (list rep * list range)%type.
Definition filter_out := res (list rep).
Definition filter_model (i : filter_in) : filter_out := filter_executed (fst i) (snd i).
Definition filter_oeqb : filter_out -> filter_out -> bool := res_eqb (list_eqb rep_eqb).
Definition filter_ok (i : filter_in) (o : filter_out) : bool :=
  let '(reports, es) := i in
  if disjoint_sorted (by_start reports) then
    if legal_executed es then
      match o with
      | Ok out => list_eqb rep_eqb out (pending_spec reports es)
      | _ => false
      end
    else match o with Ok _ | Err => true | _ => false end      (* malformed reader answer: only "no crash" *)
  else match o with Ok _ | Err => true | _ => false end.
Definition filter_judge := judge filter_model filter_oeqb filter_ok (fun _ => 0%N).

(* ---------- part pending: getPendingExecutedReports over a scripted reader ----------
   input: the commit reports the reader returns (None = reader error), the executed-range answers the reader gave
   per (chain, queried range) (None = error), and per chain the executed set of the destination as runs.
   output: chain -> pending reports, chains ascending *)
Definition pend_in := (option (list (list (N * rep))) * list (N * range * option (list range)) *
                       list (N * list range))%type.
Definition pend_out := res (list (N * list rep)).
Definition answer_of (tab : list (N * range * option (list range))) (c : N) (q : range) : option (list range) :=
  match find (fun e => N.eqb (fst (fst e)) c && range_eqb (snd (fst e)) q) tab with
  | Some e => snd e
  | None => None
  end.
Definition by_chain {V} (l : list (N * V)) : list (N * V) := sort_by (fun a b => N.leb (fst a) (fst b)) l.
Definition pend_model (i : pend_in) : pend_out :=
  let '(crs, tab, _) := i in
  match pending_reports crs (answer_of tab) with
  | Ok m => Ok (by_chain m) | Err => Err | Panic => Panic | Spin => Spin
  end.
Definition pend_oeqb : pend_out -> pend_out -> bool := res_eqb (list_eqb (pair_eqb N.eqb (list_eqb rep_eqb))).

(* against the destination's executed set: a report is pending iff one of its messages is not executed, and its
   executed list is the executed set inside its interval (C09_pending_exact on the implementation's answer) *)
Definition pend_ok (i : pend_in) (o : pend_out) : bool :=
  let '(crs, tab, world) := i in
  match crs with
  | None => match o with Err => true | _ => false end
  | Some l =>
      let groups := group_by_chain l in
      let any_err := existsb (fun e => match snd e with None => true | Some _ => false end) tab in
      let good := forallb (fun g => disjoint_sorted (snd g) && forallb (fun r => N.ltb (p_hi r) max64) (snd g)) groups in
      if negb good then match o with Ok _ | Err => true | _ => false end
      else match o with
           | Ok out =>
               negb any_err &&
               list_eqb (pair_eqb N.eqb (list_eqb rep_eqb)) out
                 (by_chain (map (fun g => (fst g, pending_spec (snd g)
                                                   (match alookup (fst g) world with Some w => w | None => [] end))) groups))
           | Err => any_err
           | _ => false
           end
  end.
Definition pend_judge := judge pend_model pend_oeqb pend_ok (fun _ => 0%N).

(* ---------- part history: rounds of a four-oracle execute DON over a scripted world ----------
   input: the round's state (1 GetCommitReports, 2 GetMessages, 3 Filter) and the world as it was at the first
   observation of the round's cycle: per chain the commit reports on the destination and the executed set (runs).
   output: the outcome's pending commit reports (chain, report), by chain and start, and the (chain, sequence number)
   pairs of the messages in the report the DON transmits (execute.Plugin.Reports on the outcome, decoded with the report
   codec), and the same pairs read from the outcome's own Report field.
   Conditions of the simulated histories: all (honest) oracles read the same world within a cycle, every committed
   message is readable, unordered messages (nonce 0), no token data, nothing costly, everything fits the limits. *)
Definition snap_t := list (N * list rep * list range).
Definition hist_in := (N * snap_t)%type.
Definition hist_out := res (list (N * rep) * list (N * N) * list (N * N)).

Fixpoint seq_from (a : N) (n : nat) : list N :=
  match n with O => [] | S n' => a :: seq_from (a + 1) n' end.
Definition in_runsb (runs : list range) (s : N) : bool := existsb (fun r => N.leb (fst r) s && N.leb s (snd r)) runs.
Definition unexecuted (r : rep) : list N :=
  filter (fun s => negb (in_runsb (p_exec r) s)) (seq_from (p_lo r) (N.to_nat (p_hi r - p_lo r + 1))).

(* the verified model of the pending computation, per chain *)
Definition cycle_pending (snap : snap_t) : list (N * rep) :=
  flat_map (fun cre => let '(c, reps, ex) := cre in
                       match filter_executed reps ex with Ok l => map (pair c) l | _ => [] end) snap.
Definition hist_model (i : hist_in) : hist_out :=
  let '(st, snap) := i in
  let pend := cycle_pending snap in
  if N.eqb st 3 then let ms := flat_map (fun cr => map (pair (fst cr)) (unexecuted (snd cr))) pend in Ok ([], ms, ms)
  else Ok (pend, [], []).
Definition hist_oeqb : hist_out -> hist_out -> bool :=
  res_eqb (pair_eqb (pair_eqb (list_eqb (pair_eqb N.eqb rep_eqb)) (list_eqb (pair_eqb N.eqb N.eqb))) (list_eqb (pair_eqb N.eqb N.eqb))).

(* monitors on the implementation's outcome, by interval arithmetic on the snapshot *)
Definition snap_executed (snap : snap_t) (c : N) : list range :=
  flat_map (fun cre => if N.eqb (fst (fst cre)) c then snd cre else []) snap.
Definition snap_reports (snap : snap_t) (c : N) : list rep :=
  flat_map (fun cre => if N.eqb (fst (fst cre)) c then snd (fst cre) else []) snap.
Definition hist_ok (i : hist_in) (o : hist_out) : bool :=
  let '(st, snap) := i in
  match o with
  | Ok (pend, msgs, omsgs) =>
      (* what is transmitted is the outcome's report *)
      list_eqb (pair_eqb N.eqb N.eqb) msgs omsgs &&
      (* a message the destination reported as executed at the start of the cycle is in no report *)
      forallb (fun cs => negb (in_runsb (snap_executed snap (fst cs)) (snd cs)) &&
                         existsb (fun r => N.leb (p_lo r) (snd cs) && N.leb (snd cs) (p_hi r)) (snap_reports snap (fst cs))) msgs &&
      nodupb (pair_eqb N.eqb N.eqb) msgs &&
      (* pending exactly the reports with an unexecuted message, with the executed set inside their interval *)
      (if N.eqb st 3 then
         (* after the Filter round a report is still pending only if one of its messages is neither executed nor selected *)
         forallb (fun cr => match unexecuted (snd cr) with [] => false | _ => true end) pend
       else list_eqb (pair_eqb N.eqb rep_eqb) pend
              (flat_map (fun cre => map (pair (fst (fst cre))) (pending_spec (snd (fst cre)) (snd cre))) snap) &&
            match msgs with [] => true | _ => false end)
  | _ => false
  end.
Definition hist_judge := judge hist_model hist_oeqb hist_ok (fun _ => 0%N).

(* histories whose backlog is too big for everything to be fetched in one cycle: the monitors only (what is pending and
   what it records, nothing executed is selected, nothing fully selected stays pending); how much is selected is not
   compared with the everything-fits model *)
Definition histmon_judge :=
  judge (fun _ : hist_in => @Ok (list (N * rep) * list (N * N) * list (N * N)) ([], [], [])) (fun _ _ => true) hist_ok (fun _ => 0%N).

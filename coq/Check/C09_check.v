(* C09_check.v — case types, model runners and executable properties for the C09 correspondence
   (function level: computeRanges, groupByChainSelector + filterOutExecutedMessages via getPendingExecutedReports). *)
Require Export Verif.Model.Base Verif.Model.ExecPending.

Definition range_eqb (a b : range) : bool := N.eqb (fst a) (fst b) && N.eqb (snd a) (snd b).

(* a flat slice a, a+1, .., b, c, c+1, .. is reported by the harness as its maximal +1-runs; the model's runs are
   brought to the same form by joining runs that continue each other *)
Fixpoint join_adj (cur : option range) (runs : list range) : list range :=
  match runs with
  | [] => match cur with Some c => [c] | None => [] end
  | (a, b) :: rs =>
      match cur with
      | None => join_adj (Some (a, b)) rs
      | Some (c, d) => if N.eqb a (d + 1) then join_adj (Some (c, b)) rs else (c, d) :: join_adj (Some (a, b)) rs
      end
  end.
Definition rep_eqb (a b : rep) : bool :=
  N.eqb (p_id a) (p_id b) && N.eqb (p_lo a) (p_lo b) && N.eqb (p_hi a) (p_hi b) &&
  list_eqb range_eqb (join_adj None (p_exec a)) (join_adj None (p_exec b)).

(* ---------- the specification used by the executable properties: plain interval arithmetic ---------- *)
(* union of intervals given in ascending start order, as disjoint maximal runs *)
Fixpoint merge_runs (cur : option range) (es : list range) : list range :=
  match es with
  | [] => match cur with Some c => [c] | None => [] end
  | e :: es' =>
      if N.ltb (snd e) (fst e) then merge_runs cur es'
      else match cur with
           | None => merge_runs (Some e) es'
           | Some (a, b) => if N.leb (fst e) (b + 1) then merge_runs (Some (a, N.max b (snd e))) es'
                            else (a, b) :: merge_runs (Some e) es'
           end
  end.
Definition clip (lo hi : N) (e : range) : list range :=
  let a := N.max (fst e) lo in let b := N.min (snd e) hi in if N.leb a b then [(a, b)] else [].
(* the executed sequence numbers of [lo, hi] *)
Definition executed_in (es : list range) (lo hi : N) : list range :=
  merge_runs None (flat_map (clip lo hi) (ranges_by_start es)).
Definition fully_executed (es : list range) (lo hi : N) : bool :=
  list_eqb range_eqb (executed_in es lo hi) [(lo, hi)].
(* what must be pending: the reports with at least one unexecuted message, by start, each with its executed runs *)
Definition pending_spec (reports : list rep) (es : list range) : list rep :=
  flat_map (fun r => if fully_executed es (p_lo r) (p_hi r) then []
                     else [mkRep (p_id r) (p_lo r) (p_hi r) (executed_in es (p_lo r) (p_hi r))])
           (by_start reports).

(* preconditions of the specification *)
Fixpoint disjoint_sorted (l : list rep) : bool :=
  match l with
  | a :: ((b :: _) as l') => N.leb (p_lo a) (p_hi a) && N.ltb (p_hi a) (p_lo b) && disjoint_sorted l'
  | [a] => N.leb (p_lo a) (p_hi a)
  | [] => true
  end.
Definition legal_executed (es : list range) : bool :=
  forallb (fun e => N.leb (fst e) (snd e)) es && no_overlap 0 (ranges_by_start es).

(* ---------- part ranges: computeRanges ---------- *)
Definition ranges_in := list range.
Definition ranges_out := res (list range).
Definition ranges_model (i : ranges_in) : ranges_out := compute_ranges i.
Definition ranges_oeqb : ranges_out -> ranges_out -> bool := res_eqb (list_eqb range_eqb).
Fixpoint separated (l : list range) : bool :=
  match l with
  | a :: ((b :: _) as l') => N.ltb (snd a + 1) (fst b) && separated l'
  | _ => true
  end.
Fixpoint asc_disjoint (l : list range) : bool :=
  match l with
  | a :: ((b :: _) as l') => N.leb (fst a) (snd a) && N.ltb (snd a) (fst b) && asc_disjoint l'
  | [a] => N.leb (fst a) (snd a)
  | [] => true
  end.
(* on ascending disjoint input: the answer is the union as maximal runs - the fewest ranges that cover exactly
   the reports' sequence numbers; an error is allowed only when the input is not ascending and disjoint *)
Definition ranges_ok (i : ranges_in) (o : ranges_out) : bool :=
  if asc_disjoint i && forallb (fun r => N.ltb (snd r) max64) i then
    match o with
    | Ok l => list_eqb range_eqb l (merge_runs None i)
    | _ => false
    end
  else match o with Ok _ | Err => true | _ => false end.
Definition ranges_judge := judge ranges_model ranges_oeqb ranges_ok (fun _ => 0%N).

(* ---------- part filter: filterOutExecutedMessages ---------- *)
Definition filter_in := (list rep * list range)%type.
Definition filter_out := res (list rep).
Definition filter_model (i : filter_in) : filter_out := filter_executed (fst i) (snd i).
Definition filter_oeqb : filter_out -> filter_out -> bool := res_eqb (list_eqb rep_eqb).
Definition filter_ok (i : filter_in) (o : filter_out) : bool :=
  let '(reports, es) := i in
  if disjoint_sorted (by_start reports) then
    if legal_executed es then
      match o with
      | Ok out => list_eqb rep_eqb out (pending_spec reports es)
      | _ => false
      end
    (* judge soundness (Proofs/JudgeSoundC09P.v): this branch used to accept ANY non-crashing answer, so the "if" half
       of C09_filter_error_iff was not judged - an answer Ok on well-formed ranges that overlap passed
       (witness filter_ok_before_weak).  Well-formed ranges that overlap once sorted by start: errOverlappingRanges. *)
    else if forallb (fun e => N.leb (fst e) (snd e)) es then match o with Err => true | _ => false end
    else match o with Ok _ | Err => true | _ => false end      (* start > end in the reader answer: only "no crash" *)
  else match o with Ok _ | Err => true | _ => false end.
(* ties of the sort key: see the note at [pend_judge] below — Go's sort.Slice is not stable, so with two different
   executed ranges (or two different reports) that start at the same number the order after the sort, and with it the
   overlap test, is not determined; such a case (garbage input only) is judged for "no crash" alone *)
Definition range_tie (a b : range) : bool := N.eqb (r_start a) (r_start b) && negb (N.eqb (r_end a) (r_end b)).
Fixpoint has_tie {A} (tie : A -> A -> bool) (l : list A) : bool :=
  match l with [] => false | x :: l' => existsb (tie x) l' || has_tie tie l' end.
Definition rep_tie (a b : rep) : bool := N.eqb (p_lo a) (p_lo b) && negb (rep_eqb a b).
Definition filter_sort_tie (i : filter_in) : bool := has_tie rep_tie (fst i) || has_tie range_tie (snd i).
Definition no_crash {A} (o : res A) : bool := match o with Ok _ | Err => true | _ => false end.
Definition filter_judge (cs : list (filter_in * filter_out)) : list (N * N) :=
  judge (fun i => (filter_model i, filter_sort_tie i))
        (fun m o => filter_oeqb (fst m) (fst o) || (snd m && no_crash (fst o)))
        (fun i o => if filter_sort_tie i then no_crash (fst o) else filter_ok i (fst o)) (fun _ => 0%N)
        (map (fun c => (fst c, (snd c, false))) cs).

(* ---------- part pending: getPendingExecutedReports over a scripted reader ----------
   input: the commit reports the reader returns (None = reader error), the executed-range answers the reader gave
   per (chain, queried range) (None = error), and per chain the executed set of the destination as runs.
   output: chain -> pending reports, chains ascending *)
Definition pend_in := (option (list (list (N * rep))) * list (N * range * option (list range)) *
                       list (N * list range))%type.
Definition pend_out := res (list (N * list rep)).
Definition answer_of (tab : list (N * range * option (list range))) (c : N) (q : range) : option (list range) :=
  match find (fun e => N.eqb (fst (fst e)) c && range_eqb (snd (fst e)) q) tab with
  | Some e => snd e
  | None => None
  end.
Definition by_chain {V} (l : list (N * V)) : list (N * V) := sort_by (fun a b => N.leb (fst a) (fst b)) l.
Definition pend_model (i : pend_in) : pend_out :=
  let '(crs, tab, _) := i in
  match pending_reports crs (answer_of tab) with
  | Ok m => Ok (by_chain m) | Err => Err | Panic => Panic | Spin => Spin
  end.
Definition pend_oeqb : pend_out -> pend_out -> bool := res_eqb (list_eqb (pair_eqb N.eqb (list_eqb rep_eqb))).

(* against the destination's executed set: a report is pending iff one of its messages is not executed, and its
   executed list is the executed set inside its interval (C09_pending_exact on the implementation's answer) *)
Definition pend_ok (i : pend_in) (o : pend_out) : bool :=
  let '(crs, tab, world) := i in
  match crs with
  | None => match o with Err => true | _ => false end
  | Some l =>
      let groups := group_by_chain l in
      let any_err := existsb (fun e => match snd e with None => true | Some _ => false end) tab in
      let good := forallb (fun g => disjoint_sorted (snd g) && forallb (fun r => N.ltb (p_hi r) max64) (snd g)) groups in
      if negb good then match o with Ok _ | Err => true | _ => false end
      else match o with
           | Ok out =>
               negb any_err &&
               list_eqb (pair_eqb N.eqb (list_eqb rep_eqb)) out
                 (by_chain (map (fun g => (fst g, pending_spec (snd g)
                                                   (match alookup (fst g) world with Some w => w | None => [] end))) groups))
           | Err => any_err
           | _ => false
           end
  end.
(* Ties of a sort key.  [sort_by] (Base) is the model of sort.Slice ON UNIQUE KEYS: Go's sort.Slice is not stable, and
   for more than 12 elements (pdqsort) two elements with the same key can come out in either order.  The reader of an
   honest destination never produces such a tie (executed ranges of disjoint queries start at different numbers, the
   committed reports of a chain start at different numbers), but a garbage reader can: two DIFFERENT executed ranges
   with the same start, or two different reports of one chain with the same start.  Then the order after the sort —
   and with it whether the overlap test `Start < previousMax` fires — is not determined by the Go language, the model
   cannot predict it, and the comparison with the model is suspended for that case: any answer that is `Ok` or `Err`
   is accepted by the correspondence (first thorough-tier false alarm: 1 case in 155 427, thirteen executed ranges
   with (35,35) and (35,37) among them; the stable order passes the overlap test, pdqsort's order failed it).  The
   executable property [pend_ok] is still evaluated on the implementation's answer. *)
Definition pend_sort_tie (i : pend_in) : bool :=
  let '(crs, tab, _) := i in
  match crs with
  | None => false
  | Some l =>
      let groups := group_by_chain l in
      existsb (fun g =>
        has_tie rep_tie (snd g) ||
        has_tie range_tie (concat (map (fun e => if N.eqb (fst (fst e)) (fst g)
                                                  then match snd e with Some rs => rs | None => [] end else []) tab)))
        groups
  end.
Definition pend_model_t (i : pend_in) : pend_out * bool := (pend_model i, pend_sort_tie i).
Definition pend_oeqb_t (m o : pend_out * bool) : bool :=
  pend_oeqb (fst m) (fst o) || (snd m && match fst o with Ok _ | Err => true | _ => false end).
Definition pend_judge (cs : list (pend_in * pend_out)) : list (N * N) :=
  judge pend_model_t pend_oeqb_t (fun i o => pend_ok i (fst o)) (fun _ => 0%N)
        (map (fun c => (fst c, (snd c, false))) cs).

(* ---------- part history: rounds of a four-oracle execute DON over a scripted world ----------
   input: the round's state (1 GetCommitReports, 2 GetMessages, 3 Filter) and the world as it was at the first
   observation of the round's cycle: per chain the commit reports on the destination and the executed set (runs).
   output: the outcome's pending commit reports (chain, report), by chain and start, and the (chain, sequence number)
   pairs of the messages in the report the DON transmits (execute.Plugin.Reports on the outcome, decoded with the report
   codec), and the same pairs read from the outcome's own Report field.
   Conditions of the simulated histories: all (honest) oracles read the same world within a cycle, every committed
   message is readable, unordered messages (nonce 0), no token data, nothing costly, everything fits the limits. *)
Definition snap_t := list (N * list rep * list range).
Definition hist_in := (N * snap_t)%type.
Definition hist_out := res (list (N * rep) * list (N * N) * list (N * N)).

Fixpoint seq_from (a : N) (n : nat) : list N :=
  match n with O => [] | S n' => a :: seq_from (a + 1) n' end.
Definition in_runsb (runs : list range) (s : N) : bool := existsb (fun r => N.leb (fst r) s && N.leb s (snd r)) runs.
Definition unexecuted (r : rep) : list N :=
  filter (fun s => negb (in_runsb (p_exec r) s)) (seq_from (p_lo r) (N.to_nat (p_hi r - p_lo r + 1))).

(* the verified model of the pending computation, per chain *)
Definition cycle_pending (snap : snap_t) : list (N * rep) :=
  flat_map (fun cre => let '(c, reps, ex) := cre in
                       match filter_executed reps ex with Ok l => map (pair c) l | _ => [] end) snap.
Definition hist_model (i : hist_in) : hist_out :=
  let '(st, snap) := i in
  let pend := cycle_pending snap in
  if N.eqb st 3 then let ms := flat_map (fun cr => map (pair (fst cr)) (unexecuted (snd cr))) pend in Ok ([], ms, ms)
  else Ok (pend, [], []).
Definition hist_oeqb : hist_out -> hist_out -> bool :=
  res_eqb (pair_eqb (pair_eqb (list_eqb (pair_eqb N.eqb rep_eqb)) (list_eqb (pair_eqb N.eqb N.eqb))) (list_eqb (pair_eqb N.eqb N.eqb))).

(* monitors on the implementation's outcome, by interval arithmetic on the snapshot *)
Definition snap_executed (snap : snap_t) (c : N) : list range :=
  flat_map (fun cre => if N.eqb (fst (fst cre)) c then snd cre else []) snap.
Definition snap_reports (snap : snap_t) (c : N) : list rep :=
  flat_map (fun cre => if N.eqb (fst (fst cre)) c then snd (fst cre) else []) snap.
(* the messages of chain [c] in the report, as executed ranges (one per message) *)
Definition reported_runs (msgs : list (N * N)) (c : N) : list range :=
  map (fun m => (snd m, snd m)) (filter (fun m => N.eqb (fst m) c) msgs).
Definition hist_ok (i : hist_in) (o : hist_out) : bool :=
  let '(st, snap) := i in
  match o with
  | Ok (pend, msgs, omsgs) =>
      (* what is transmitted is the outcome's report *)
      list_eqb (pair_eqb N.eqb N.eqb) msgs omsgs &&
      (* a message the destination reported as executed at the start of the cycle is in no report *)
      forallb (fun cs => negb (in_runsb (snap_executed snap (fst cs)) (snd cs)) &&
                         existsb (fun r => N.leb (p_lo r) (snd cs) && N.leb (snd cs) (p_hi r)) (snap_reports snap (fst cs))) msgs &&
      nodupb (pair_eqb N.eqb N.eqb) msgs &&
      (* pending exactly the reports with an unexecuted message, with the executed set inside their interval *)
      (if N.eqb st 3 then
         (* after the Filter round a report is still pending only if one of its messages is neither executed nor selected *)
         forallb (fun cr => match unexecuted (snd cr) with [] => false | _ => true end) pend &&
         (* judge soundness (Proofs/JudgeSoundC09P.v): state 3 used to test only the line above, so a report with an
            unreported unexecuted message could be dropped from the pending list, and the executed list recorded for a
            report that stays pending was free (witness hist_ok_before_weak).  EXACT clause, relative to what THIS
            outcome's report holds (so it stays true when not everything fits into one report): pending after Filter =
            the committed reports with a message that is neither executed per the snapshot nor in the report, each
            recording (executed per the snapshot \/ in the report) /\ its interval *)
         list_eqb (pair_eqb N.eqb rep_eqb) pend
           (flat_map (fun cre => map (pair (fst (fst cre)))
                                     (pending_spec (snd (fst cre)) (snd cre ++ reported_runs msgs (fst (fst cre))))) snap)
       else list_eqb (pair_eqb N.eqb rep_eqb) pend
              (flat_map (fun cre => map (pair (fst (fst cre))) (pending_spec (snd (fst cre)) (snd cre))) snap) &&
            match msgs with [] => true | _ => false end)
  | _ => false
  end.
Definition hist_judge := judge hist_model hist_oeqb hist_ok (fun _ => 0%N).

(* histories whose backlog is too big for everything to be fetched in one cycle: the monitors only (what is pending and
   what it records, nothing executed is selected, nothing fully selected stays pending); how much is selected is not
   compared with the everything-fits model *)
(* known class 1 (F55): a GetMessages round whose first pending report is so wide (more than 2500 messages, one source
   chain) that its messages alone exceed maxObservationLength - truncateObservation returns "no more data to truncate" *)
Definition histmon_known (i : hist_in) : N :=
  let '(st, snap) := i in
  if N.eqb st 2 then
    match snap with
    | [(_, reps, ex)] =>
        match pending_spec reps ex with
        | r :: _ => if N.ltb 2500 (p_hi r - p_lo r) then 1%N else 0%N
        | [] => 0%N
        end
    | _ => 0%N
    end
  else 0%N.
Definition histmon_judge :=
  judge (fun _ : hist_in => @Ok (list (N * rep) * list (N * N) * list (N * N)) ([], [], [])) (fun _ _ => true) hist_ok histmon_known.

(* ---------- part cycles: whole histories of long-lived plugins over one evolving destination ----------
   input: MessageVisibilityInterval and the start of the clock (minutes), the event list (Model/ExecCycles.v).
   output: per cycle event, in order: the (lower bound, limit) arguments of every CommitReportsGTETimestamp call, the
   pending commit reports of the GetCommitReports outcome, the (chain, sequence number) pairs of the transmitted
   report (Plugin.Reports decoded), the pending commit reports of the Filter outcome.
   The model evaluates every cycle on the destination's CURRENT content ([run_from]); nothing is carried from one
   cycle to the next except that content.
   Conditions of the simulated histories: honest oracles read the same destination within a cycle, every committed
   message is readable, no token data, nothing costly, everything fits the limits, fewer than 1000 reports in the
   window; a message is not ready iff it is sequenced and the destination's nonce for its sender is not the one
   before its own. *)
Require Export Verif.Model.ExecCycles.

Definition cyc_in := (N * N * list event)%type.
Definition cyc_out := res (list cyc_obs).
Definition cyc_model (i : cyc_in) : cyc_out :=
  let '(V, t0, evs) := i in Ok (run_from V (init t0) evs).
Definition crep_eqb := pair_eqb N.eqb rep_eqb.
Definition obs_eqb (a b : cyc_obs) : bool :=
  let '(r1, p1, o1, q1) := a in let '(r2, p2, o2, q2) := b in
  list_eqb (pair_eqb N.eqb N.eqb) r1 r2 && list_eqb crep_eqb p1 p2 && list_eqb msg_eqb o1 o2 && list_eqb crep_eqb q1 q2.
Definition cyc_oeqb : cyc_out -> cyc_out -> bool := res_eqb (list_eqb obs_eqb).

(* the executable history property, by plain interval arithmetic on the destination's content *)
Definition st_exec_runs (st : dest) (c : N) : list range :=
  map (fun m => (snd m, snd m)) (filter (fun m => N.eqb (fst m) c) (d_exec st)).
Definition st_window (V : N) (st : dest) (c : N) : list creport :=
  filter (fun r => N.eqb (cr_chain r) c && N.leb (d_now st - V) (cr_ts r)) (d_reports st).
Definition st_open (st : dest) : bool := negb (d_global st || d_destcursed st).
Definition st_live (st : dest) (c : N) : bool := memN c (d_known st) && negb (memN c (d_cursed st)).
Definition seqs_of (lo hi : N) : list N := seq_from lo (N.to_nat (hi - lo + 1)).
Definition one_cycle_ok (V : N) (st : dest) (nobs : N) (o : cyc_obs) : bool :=
  let '(reads, pend1, off, pend3) := o in
  let live := filter (st_live st) (d_known st) in
  (* (a) what is read: from the lower bound given by the CURRENT clock and the configured interval *)
  (if st_open st
   then N.eqb (N.of_nat (length reads)) nobs &&
        forallb (fun rd => N.eqb (fst rd) (d_now st - V) && N.eqb (snd rd) 1000) reads
   else match reads with [] => true | _ => false end) &&
  (* (b) pending = the reports in the window with an unexecuted message, each with executed set = executed inside it *)
  list_eqb crep_eqb pend1
    (if st_open st
     then flat_map (fun c => map (pair c) (pending_spec (map to_rep (st_window V st c)) (st_exec_runs st c))) live
     else []) &&
  (* (c) nothing is lost: an unexecuted, ready message of a report in the window of a live chain is in the report *)
  (negb (st_open st) ||
   forallb (fun c => forallb (fun r => forallb (fun s => mem_msg (c, s) (d_exec st) || mem_msg (c, s) (d_blocked st) ||
                                                          mem_msg (c, s) off)
                                               (seqs_of (cr_lo r) (cr_hi r)))
                             (st_window V st c)) live) &&
  (* (d) nothing executed is executed again, nothing is invented, nothing twice *)
  forallb (fun m => st_open st && st_live st (fst m) && negb (mem_msg m (d_exec st)) && negb (mem_msg m (d_blocked st)) &&
                    existsb (fun r => N.leb (cr_lo r) (snd m) && N.leb (snd m) (cr_hi r)) (st_window V st (fst m))) off &&
  nodupb msg_eqb off &&
  (* (e) after the Filter round a report is pending iff one of its messages is neither executed nor in the report *)
  list_eqb crep_eqb pend3
    (flat_map (fun cr => let c := fst cr in let r := snd cr in
                         let rest := filter (fun s => negb (mem_msg (c, s) off)) (unexecuted r) in
                         match rest with
                         | [] => []
                         | _ => [(c, mkRep (p_id r) (p_lo r) (p_hi r)
                                       (map (fun s => (s, s)) (filter (fun s => negb (memN s rest)) (seqs_of (p_lo r) (p_hi r)))))]
                         end) pend1).

Definition obs_offered (o : cyc_obs) : list msgid := snd (fst o).
Fixpoint cyc_ok_from (V : N) (st : dest) (evs : list event) (outs : list cyc_obs) : bool :=
  match evs with
  | [] => match outs with [] => true | _ => false end
  | e :: evs' =>
      match e with
      | ECycle nobs _ =>
          match outs with
          | [] => false
          | o :: outs' =>
              (* what lands with the cycle is taken from the report the implementation built *)
              one_cycle_ok V st nobs o && cyc_ok_from V (step_off (obs_offered o) st e) evs' outs'
          end
      | _ => cyc_ok_from V (step_off [] st e) evs' outs
      end
  end.
Definition cyc_ok (i : cyc_in) (o : cyc_out) : bool :=
  let '(V, t0, evs) := i in
  match o with
  | Ok outs => cyc_ok_from V (init t0) evs outs
  | _ => false              (* an honest oracle failed, or honest oracles disagreed *)
  end.
Definition cyc_judge := judge cyc_model cyc_oeqb cyc_ok (fun _ => 0%N).

(* ---------- part execsys: whole execute cycles on real plugins with deviating oracles and reader failures, judged by
   Check/ExecSys_check.v (its case terms use that module's constructors: 'coq_import' in lib/specs/C09.py) ---------- *)
Require Verif.Check.ExecSys_check.
Definition sys_judge := Verif.Check.ExecSys_check.sys_judge_noclass.

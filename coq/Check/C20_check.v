(* C20_check.v — case types, model runners and executable property checks for the C20 correspondence. *)
Require Export Verif.Model.Base Verif.Model.Codec Verif.Model.JsonText.
From Coq Require Strings.String Strings.Ascii.
Export Coq.Strings.String.StringSyntax.
Delimit Scope string_scope with str.

(* Texts in case files.  [tx]: string literal (slow to parse, used sparingly); [dn k]: k-th entry of the dictionary
   of member names below (the Go harness holds the same list; an unknown name is simply written out);
   [txp] (Check/C20_tx.v): bytes packed seven to a primitive integer, length in bits 56..58. *)
Definition tx (s : String.string) : list N := map Ascii.N_of_ascii (String.list_ascii_of_string s).
Definition dict : list String.string := [
  "0"; "0001-01-01T00:00:00Z"; "0s"; "0x"; "1"; "Addresses"; "DataAvailabilityFee"; "ExecutionFee";
  "FChain"; "Filter"; "GetCommitReports"; "GetMessages"; "Initialized"; "RMNSignatures";
  "RetryRMNSignatures"; "State"; "TokenData"; "aggregatorAddress"; "amount"; "batchGasLimit";
  "batchingStrategyID"; "blockNum"; "chain"; "chainFee"; "chainFeeObs"; "chainFeeOutcome";
  "chainFeeQuery"; "chainFeeUpdates"; "chainReports"; "chainSel"; "chainSelector"; "commitReports";
  "configDigest"; "configVersion"; "contractAddress"; "contracts"; "costlyMessages"; "daFee";
  "daGasPriceDeviationPPB"; "data"; "dataAvailabilityDeviationPPB"; "decimals"; "destChainSelector";
  "destExecData"; "destTokenAddress"; "deviationPPB"; "discoveryObs"; "execDeviationPPB"; "execFee";
  "executedMessages"; "extraArgs"; "extraData"; "f"; "fChain"; "feeComponents"; "feeInfo";
  "feeQuoterTokenUpdates"; "feeToken"; "feeTokenAmount"; "feeValueJuels"; "feedTokenPrices";
  "gasPrice"; "gasPriceDeviationPPB"; "gasPrices"; "header"; "inflightCacheExpiry";
  "maxReportTransmissionCheckAttempts"; "maxTreeSize"; "merkleObs"; "merkleRoot";
  "merkleRootOutcome"; "merkleRootQuery"; "merkleRoots"; "messageId"; "messageTokenData";
  "messageVisibilityInterval"; "messages"; "msgHash"; "nativeTokenPrice"; "newMsgScanBatchSize";
  "nodeIndex"; "nonce"; "nonces"; "offRampNextSeqNums"; "offchainTokenData"; "onRamp";
  "onRampAddress"; "onRampMaxSeqNums"; "onchainPublicKey"; "optimisticConfirmations"; "outcomeType";
  "price"; "proofFlagBits"; "proofs"; "r"; "rangesSelectedForReport"; "ready"; "receiver";
  "relativeBoostPerWaitHour"; "remoteF"; "remoteGasPriceBatchWriteFrequency"; "report";
  "reportTransmissionCheckAttempts"; "rmnEnabled"; "rmnRemoteCfg"; "rmnRemoteConfig";
  "rmnReportSignatures"; "rmnReportVersion"; "rmnSignaturesTimeout"; "rootSnoozeTime";
  "rootsToReport"; "s"; "sender"; "seqNum"; "seqNumRange"; "seqNumsRange"; "sequenceNumberRange";
  "signObservationPrefix"; "signers"; "sourceChainSelector"; "sourcePoolAddress"; "timestamp";
  "tokenAmounts"; "tokenDataObservations"; "tokenDataObservers"; "tokenID"; "tokenInfo"; "tokenObs";
  "tokenPriceBatchWriteFrequency"; "tokenPriceChainSelector"; "tokenPriceOutcome"; "tokenPriceQuery";
  "tokenPrices"; "type"; "value"; "version"; "zzUnknown"
]%str.
Definition dict_tx : list (list N) := Eval vm_compute in map tx dict.
Definition dn (k : N) : list N := nth (N.to_nat k) dict_tx [].
(* [txp] (bytes packed into primitive 63-bit integers, used by the case files only) lives in Check/C20_tx.v, so that the
   theorem files, which import this file for the judges, do not load the Uint63 library and its axioms. *)

(* ================= part leaf: the custom marshalers, called directly on generated tokens / values ================= *)
Inductive leaf_in :=
| LBytesDec (tok : list N)                    (* Bytes / UnknownAddress .UnmarshalJSON on a fresh value *)
| LBytesEnc (b : option (list N))             (* MarshalJSON *)
| LBytesStr (s : list N)                      (* NewBytesFromString / NewUnknownAddressFromHex *)
| LB32Dec (prev : list N) (tok : list N)      (* Bytes32.UnmarshalJSON on a value holding prev *)
| LB32Enc (b : list N)
| LB32Str (s : list N)                        (* NewBytes32FromString *)
| LBigDec (prev : option Z) (tok : list N)    (* BigInt.UnmarshalJSON *)
| LBigEnc (b : option Z)
| LSeqStr (n : N)                             (* SeqNum.String *)
| LUintQ (content : list N)                   (* {"seqNum":"<content>"} into RampMessageHeader (`,string`) *)
| LUintKey (content : list N)                 (* {"<content>":1} into map[ChainSelector]int *)
| LUintNum (content : list N).                (* {"nonce":<content>} into RampMessageHeader (plain number) *)

Inductive leaf_out :=
| OErr
| OBytes (isnil : bool) (l : list N)
| OText (t : list N)
| OBig (z : option Z)
| ON (n : N).

(* {"nonce":<content>} as RampMessageHeader sees it (its other members are absent from the document) *)
Definition nonce_ty : ty := TStruct [([110; 111; 110; 99; 101]%N, TUint max64)].
Definition obytes (o : option (list N)) : leaf_out := match o with Some l => OBytes false l | None => OErr end.
Definition leaf_model (i : leaf_in) : leaf_out :=
  match i with
  | LBytesDec tok => obytes (bytes_dec tok)
  | LBytesEnc b => OText (bytes_enc b)
  | LBytesStr s => obytes (bytes_from_string s)
  | LB32Dec prev tok => obytes (bytes32_dec prev tok)
  | LB32Enc b => OText (bytes32_enc b)
  | LB32Str s => obytes (bytes32_from_string s)
  | LBigDec prev tok => match bigint_dec prev tok with Some z => OBig z | None => OErr end
  | LBigEnc b => OText (bigint_enc b)
  | LSeqStr n => OText (dec_enc n)
  | LUintQ s => match uint_dec max64 0 s with Some n => ON n | None => OErr end
  | LUintKey s => match uint_parse max64 s with Some n => ON n | None => OErr end
  | LUintNum s =>
      (* the content stands unquoted inside the document, so the text layer sees it first: white space around the
         number is skipped by the scanner (" 1" and "1 " decode to 1) *)
      match decode_text nonce_ty ([123; 34; 110; 111; 110; 99; 101; 34; 58]%N ++ s ++ [125]%N) with
      | Some (VRec [VU n]) => ON n
      | _ => OErr
      end
  end.
Definition leaf_oeqb (a b : leaf_out) : bool :=
  match a, b with
  | OErr, OErr => true
  | OBytes n l, OBytes n' l' => Bool.eqb n n' && text_eqb l l'
  | OText t, OText t' => text_eqb t t'
  | OBig z, OBig z' => option_eqb Z.eqb z z'
  | ON n, ON n' => N.eqb n n'
  | _, _ => false
  end.
(* the C20 clauses on the implementation's own answer:
   decoders: an accepted token's value re-encodes (model encoder) to a token that decodes to the same value;
   encoders: the emitted text decodes (model decoder) to the value that was encoded. *)
Definition leaf_ok (i : leaf_in) (o : leaf_out) : bool :=
  match i, o with
  | LBytesDec _, OErr | LBytesStr _, OErr | LB32Dec _ _, OErr | LB32Str _, OErr
  | LBigDec _ _, OErr | LUintQ _, OErr | LUintKey _, OErr | LUintNum _, OErr => true
  | LBytesDec _, OBytes n l | LBytesStr _, OBytes n l =>
      negb n && byte_list l && option_eqb text_eqb (bytes_dec (bytes_enc (Some l))) (Some l)
  | LB32Dec prev _, OBytes n l =>
      Nat.eqb (length l) (length prev) && byte_list l &&
      option_eqb text_eqb (bytes32_dec prev (bytes32_enc l)) (Some l)
  | LB32Str _, OBytes n l =>
      Nat.eqb (length l) 32 && option_eqb text_eqb (bytes32_dec zero32 (bytes32_enc l)) (Some l)
  | LBigDec prev _, OBig z =>
      option_eqb (option_eqb Z.eqb) (bigint_dec None (bigint_enc z)) (Some z)
  | LBytesEnc b, OText t => option_eqb text_eqb (bytes_dec t) (Some (bytes_content b))
  | LB32Enc b, OText t => option_eqb text_eqb (bytes32_dec zero32 t) (Some b)
  | LBigEnc b, OText t => option_eqb (option_eqb Z.eqb) (bigint_dec None t) (Some b)
  | LSeqStr n, OText t => option_eqb N.eqb (uint_parse max64 t) (Some n)
  | LUintQ _, ON n | LUintKey _, ON n | LUintNum _, ON n =>
      N.leb n max64 && option_eqb N.eqb (uint_dec max64 0 (dec_enc n)) (Some n)
  | _, _ => false
  end.
Definition leaf_judge := judge leaf_model leaf_oeqb leaf_ok (fun _ => 0%N).

(* ================= part struct: Encode / Decode pairs of the wire types, at byte level ================= *)
(* input: type descriptor (derived from the Go type by reflection), the value, and for foreign cases the bytes that
   were fed to Decode.
   output: honest: (bytes of Encode v, Decode (Encode v), Encode (Decode (Encode v)) has the same bytes)
           foreign: (bytes of Encode v' or empty, Decode bytes = v' or error, Encode (Decode (Encode v')) same bytes)
   The model prints and parses the bytes itself (Model/JsonText.v composed with Codec.enc / Codec.dec). *)
Definition struct_in := (ty * val * option (list N))%type.
Definition struct_out := (list N * option val * bool)%type.
Definition struct_model (i : struct_in) : struct_out :=
  let '(t, v, f) := i in
  match f with
  | None => let b := encode_text t v in (b, decode_text t b, true)
  | Some fb =>
      match decode_text t fb with
      | Some v' => (encode_text t v', Some v', true)
      | None => ([], None, true)
      end
  end.
Definition struct_oeqb (a b : struct_out) : bool :=
  let '(j, d, fl) := a in let '(j', d', fl') := b in
  text_eqb j j' && option_eqb val_eqb d d' && Bool.eqb fl fl'.
Definition struct_ok (i : struct_in) (o : struct_out) : bool :=
  let '(t, v, f) := i in
  let '(b, d, fl) := o in
  wf_ty t &&
  match f with
  | None =>
      (* honest value: well-typed, its tree inside the modelled text subset (so C20_wire_roundtrip applies), the
         implementation decodes its own bytes to the normalised original and re-encodes them to the same bytes, and
         the bytes it emitted decode under the model to the normalised original *)
      wt t v && wf_json (enc t v) && fl &&
      match d with Some v' => val_eqb v' (norm t v) | None => false end &&
      option_eqb val_eqb (decode_text t b) (Some (norm t v))
  | Some _ =>
      (* accepted foreign bytes: the decoded value is well-typed and inside the subset (so the theorems apply to
         it), its encoding is the model's, and decode-encode is idempotent on it *)
      match d with
      | None => true
      | Some v' => wt t v' && wf_json (enc t v') && fl && text_eqb b (encode_text t v') &&
                   option_eqb val_eqb (decode_text t b) (Some (norm t v'))
      end
  end.
Definition struct_judge := judge struct_model struct_oeqb struct_ok (fun _ => 0%N).

(* ================= part json: the text layer against encoding/json itself ================= *)
(* jprint: a tree of the modelled subset, marshalled by encoding/json (through a MarshalJSON tree type that delegates
   strings to the standard encoder, or as native []any / map[string]any / string / json.Number values);
   output = the bytes Go emitted.  Model: print.  Property on Go's bytes: they parse back to the tree. *)
Definition jprint_model (j : json) : list N := print j.
Definition jprint_ok (j : json) (b : list N) : bool :=
  wf_json j && option_eqb json_eqb (parse b) (Some j).
Definition jprint_judge := judge jprint_model text_eqb jprint_ok (fun _ => 0%N).

(* jparse: a byte string (valid with white space / alternative escapes / duplicate members, or malformed) given to
   json.Valid and walked with json.Decoder.Token (UseNumber) into an order-preserving tree.
   input: (accept_only, bytes); output: the tree Go built, or None for an error; with accept_only (inputs whose
   tree would be too deep to write down) only whether Go accepted.
   Model: parse.  Property on Go's tree: it lies in the subset and print-then-parse gives it back. *)
Inductive jparse_out := PTree (o : option json) | PAcc (b : bool).
Definition jparse_model (i : bool * list N) : jparse_out :=
  let '(acc, s) := i in
  if acc then PAcc (match parse s with Some _ => true | None => false end) else PTree (parse s).
Definition jparse_oeqb (a b : jparse_out) : bool :=
  match a, b with
  | PTree x, PTree y => option_eqb json_eqb x y
  | PAcc x, PAcc y => Bool.eqb x y
  | _, _ => false
  end.
Definition jparse_ok (i : bool * list N) (o : jparse_out) : bool :=
  match o with
  | PTree (Some j) => wf_json j && option_eqb json_eqb (parse (print j)) (Some j)
  | _ => true
  end.
Definition jparse_judge := judge jparse_model jparse_oeqb jparse_ok (fun _ => 0%N).
(* n copies of a text (deep nesting cases) *)
Definition nrep (n : N) (w : list N) : list N := concat (repeat w (N.to_nat n)).

(* ================= part sort: canonical order of the outcome encoders ================= *)
(* kind 0: commit Outcome.Encode, three lists of (chain, payload id);
   kind 1: execute Outcome.Encode, pending commits (source, start, payload id) and chain reports (source, payload id).
   Every case holds two arrangements of the same items; output: the order found in the bytes of each arrangement
   and whether the two byte strings are equal. *)
Inductive sort_in :=
| SCommit (a b : mr_lists N N N)
| SExec (c c' : list (N * N * N)) (r r' : list (N * N)).
Inductive sort_out :=
| SOCommit (a b : mr_lists N N N) (same : bool)
| SOExec (c c' : list (N * N * N)) (r r' : list (N * N)) (same : bool).

Definition pN_eqb : N * N -> N * N -> bool := pair_eqb N.eqb N.eqb.
Definition tN_eqb : N * N * N -> N * N * N -> bool := pair_eqb pN_eqb N.eqb.
Definition mr_eqb (a b : mr_lists N N N) : bool :=
  list_eqb pN_eqb (mr_ranges a) (mr_ranges b) && list_eqb pN_eqb (mr_roots a) (mr_roots b) &&
  list_eqb pN_eqb (mr_offramp a) (mr_offramp b).
Definition sort_model (i : sort_in) : sort_out :=
  match i with
  | SCommit a b => let sa := mr_sort a in let sb := mr_sort b in SOCommit sa sb (mr_eqb sa sb)
  | SExec c c' r r' =>
      let sc := exec_sort_commits c in let sc' := exec_sort_commits c' in
      let sr := exec_sort_reports r in let sr' := exec_sort_reports r' in
      SOExec sc sc' sr sr' (list_eqb tN_eqb sc sc' && list_eqb pN_eqb sr sr')
  end.
Definition sort_oeqb (x y : sort_out) : bool :=
  match x, y with
  | SOCommit a b s, SOCommit a' b' s' => mr_eqb a a' && mr_eqb b b' && Bool.eqb s s'
  | SOExec c d r q s, SOExec c' d' r' q' s' =>
      list_eqb tN_eqb c c' && list_eqb tN_eqb d d' && list_eqb pN_eqb r r' && list_eqb pN_eqb q q' && Bool.eqb s s'
  | _, _ => false
  end.
Definition uniq_keys {P} (l : list (N * P)) : bool := nodupb N.eqb (map fst l).
Definition uniq_pairs {P} (l : list (N * N * P)) : bool := nodupb pN_eqb (map fst l).
(* the canonical-order clause: two arrangements of the same items give the same bytes *)
(* (the order found in the two byte strings must also be the same list: equal bytes hold equal orders; before, the
   flag alone was tested, so the answer's two orders were not constrained at all - Proofs/JudgeSoundC20P.v) *)
Definition sort_ok (i : sort_in) (o : sort_out) : bool :=
  match i, o with
  | SCommit _ _, SOCommit a b same => same && mr_eqb a b
  | SExec _ _ _ _, SOExec c c' r r' same => same && list_eqb tN_eqb c c' && list_eqb pN_eqb r r'
  | _, _ => false
  end.
(* known class 1 (F29): some sort key occurs twice *)
Definition sort_known (i : sort_in) : N :=
  match i with
  | SCommit a _ =>
      if uniq_keys (mr_ranges a) && uniq_keys (mr_roots a) && uniq_keys (mr_offramp a) then 0%N else 1%N
  | SExec c _ r _ => if uniq_pairs c && uniq_keys r then 0%N else 1%N
  end.
Definition sort_judge := judge sort_model sort_oeqb sort_ok sort_known.


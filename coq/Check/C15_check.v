(* C15_check.v — case types, model runners and executable property checks for the C15 correspondence. *)
Require Export Verif.Model.Base Verif.Model.Transmit Verif.Model.Curses.

Definition ci_eqb (a b : curse_info) : bool :=
  list_eqb (pair_eqb N.eqb Bool.eqb) (ci_sources a) (ci_sources b) &&
  Bool.eqb (ci_dest a) (ci_dest b) && Bool.eqb (ci_global a) (ci_global b).
Definition pN_eqb : N * N -> N * N -> bool := pair_eqb N.eqb N.eqb.

(* ---- part subj: getCurseInfoFromCursedSubjects and NonCursedSourceChains (package reader) ----
   input: subjects (hi, lo halves), dest, sources asked about, a second list fed to NonCursedSourceChains
   output: CurseInfo (source map sorted by chain, duplicates of the request collapsed) and the filtered list *)
Definition subj_in := (list subject * N * list N * list N)%type.
Definition subj_out := (curse_info * list N)%type.
Fixpoint dedup_keys (l : list (N * bool)) : list (N * bool) :=
  match l with
  | [] => []
  | (k, v) :: r => (k, v) :: filter (fun kv => negb (N.eqb (fst kv) k)) (dedup_keys r)
  end.
Definition canon_ci (ci : curse_info) : curse_info :=
  CurseInfo (sort_by (fun a b => N.leb (fst a) (fst b)) (dedup_keys (ci_sources ci))) (ci_dest ci) (ci_global ci).
Definition subj_model (i : subj_in) : subj_out :=
  let '(sb, d, srcs, inp) := i in
  let ci := curse_info_of sb d srcs in (canon_ci ci, non_cursed_sources ci inp).
Definition subj_oeqb (a b : subj_out) : bool := ci_eqb (fst a) (fst b) && list_eqb N.eqb (snd a) (snd b).
(* the C15 clauses on the implementation's answer *)
Definition subj_ok (i : subj_in) (o : subj_out) : bool :=
  let '(sb, d, srcs, inp) := i in
  let '(ci, nc) := o in
  let g := mem_subj global_subject sb in
  Bool.eqb (ci_global ci) g &&
  Bool.eqb (ci_dest ci) (g || mem_subj (subject_of_chain d) sb) &&
  forallb (fun c => Bool.eqb (src_cursed ci c) (mem_subj (subject_of_chain c) sb)) srcs &&
  forallb (fun kv => memN (fst kv) srcs) (ci_sources ci) &&
  (* the filtered list holds no cursed chain, and nothing at all under a global curse *)
  forallb (fun c => negb g && negb (src_cursed ci c) && memN c inp) nc &&
  forallb (fun c => g || src_cursed ci c || memN c nc) inp.
Definition subj_judge := judge subj_model subj_oeqb subj_ok (fun _ => 0%N).

(* the scripted curse reader of the plugin-level parts: what the remote holds, and whether the read fails.
   cursed = chains whose subject is set; the fake answers like the real reader (only for the chains asked). *)
Definition remote := (bool * bool * bool * list N)%type.   (* read_fails, global, dest, cursed chains *)
Definition answer (r : remote) (asked : list N) : option curse_info :=
  let '(fails, g, d, cursed) := r in
  if fails then None
  else Some (CurseInfo (map (fun c => (c, memN c cursed)) asked) (g || d) g).

(* ---- part obs_commit: ObserveOffRampNextSeqNums ----
   input: sup, known sources (None = error), remote, next-seq reader (0 ok / 1 error / 2 one answer short) *)
Definition obsc_in := (N * option (list N) * remote * N)%type.
Definition nextseq_of (mode : N) (l : list N) : option (list N) :=
  if N.eqb mode 1 then None
  else if N.eqb mode 2 then Some (tl (map (fun c => add64 c 1000) l))
  else Some (map (fun c => add64 c 1000) l).
Definition obsc_model (i : obsc_in) : list (N * N) :=
  let '(sup, known, r, mode) := i in
  observe_offramp sup known (match known with Some all => answer r all | None => None end) (nextseq_of mode).
Definition obsc_ok (i : obsc_in) (o : list (N * N)) : bool :=
  let '(sup, known, r, mode) := i in
  let '(fails, g, d, cursed) := r in
  if fails || g || d then match o with [] => true | _ => false end
  else forallb (fun kv => negb (memN (fst kv) cursed)) o.
Definition obsc_judge := judge obsc_model (list_eqb pN_eqb) obsc_ok (fun _ => 0%N).

(* ---- part obs_exec: execute Plugin.Observation in the GetCommitReports phase ----
   input: sup, known sources, remote, pending commit reports on the destination (chain, number of reports; None = reader error)
   output: 0 = error, or 1 + the observed commit report chains with counts (no commit reports observed = []) *)
Definition obse_in := (N * option (list N) * remote * option (list (N * N)))%type.
Definition obse_out := option (list (N * N)).
Definition obse_model (i : obse_in) : obse_out :=
  let '(sup, known, r, pending) := i in
  match exec_observe sup known (match known with Some all => answer r all | None => None end) pending with
  | Ok (Some g) => Some g
  | Ok None => Some []
  | _ => None
  end.
Definition obse_ok (i : obse_in) (o : obse_out) : bool :=
  let '(sup, known, r, pending) := i in
  let '(fails, g, d, cursed) := r in
  match o with
  | None => true
  | Some l => if fails || g || d then match l with [] => true | _ => false end
              else forallb (fun kv => negb (memN (fst kv) cursed)) l
  end.
Definition obse_judge := judge obse_model (option_eqb (list_eqb pN_eqb)) obse_ok (fun _ => 0%N).

(* ---- part accept: ShouldAcceptAttestedReport of both plugins ----
   plugin 0 commit: (srcs = chains of the merkle roots, tp, gp, sigs, info_ok, rmn, remoteF)
   plugin 1 execute: srcs = chains of the chain reports
   output: 0 = (false, nil), 1 = (true, nil), 2 = error *)
Definition acc_in := (N * list N * remote * (N * N * N * bool * bool * N))%type.
Definition acc_model (i : acc_in) : N :=
  let '(plugin, srcs, r, extra) := i in
  let '(tp, gp, sigs, info_ok, rmn, f) := extra in
  if N.eqb plugin 0
  then curse_code (commit_accept true srcs tp gp sigs (answer r srcs) info_ok rmn f)
  else curse_code (exec_accept false true srcs (answer r srcs)).
Definition acc_ok (i : acc_in) (o : N) : bool :=
  let '(plugin, srcs, r, extra) := i in
  let '(fails, g, d, cursed) := r in
  match srcs with
  | [] => true
  | _ => if fails || g || d || existsb (fun c => memN c cursed) srcs then negb (N.eqb o 1) else true
  end.
Definition acc_judge := judge acc_model N.eqb acc_ok (fun _ => 0%N).

(* C15_check.v — case types, model runners and executable property checks for the C15 correspondence. *)
Require Export Verif.Model.Base Verif.Model.Transmit Verif.Model.Curses.

Definition ci_eqb (a b : curse_info) : bool :=
  list_eqb (pair_eqb N.eqb Bool.eqb) (ci_sources a) (ci_sources b) &&
  Bool.eqb (ci_dest a) (ci_dest b) && Bool.eqb (ci_global a) (ci_global b).
Definition pN_eqb : N * N -> N * N -> bool := pair_eqb N.eqb N.eqb.

(* ---- part subj: getCurseInfoFromCursedSubjects and NonCursedSourceChains (package reader) ----
   input: subjects (hi, lo halves), dest, sources asked about, a second list fed to NonCursedSourceChains
   output: CurseInfo (source map sorted by chain, duplicates of the request collapsed) and the filtered list *)
Definition subj_in := (list subject * N * list N * list N)%type.
Definition subj_out := (curse_info * list N)%type.
Fixpoint dedup_keys (l : list (N * bool)) : list (N * bool) :=
  match l with
  | [] => []
  | (k, v) :: r => (k, v) :: filter (fun kv => negb (N.eqb (fst kv) k)) (dedup_keys r)
  end.
Definition canon_ci (ci : curse_info) : curse_info :=
  CurseInfo (sort_by (fun a b => N.leb (fst a) (fst b)) (dedup_keys (ci_sources ci))) (ci_dest ci) (ci_global ci).
Definition subj_model (i : subj_in) : subj_out :=
  let '(sb, d, srcs, inp) := i in
  let ci := curse_info_of sb d srcs in (canon_ci ci, non_cursed_sources ci inp).
Definition subj_oeqb (a b : subj_out) : bool := ci_eqb (fst a) (fst b) && list_eqb N.eqb (snd a) (snd b).
(* the C15 clauses on the implementation's answer *)
Definition subj_ok (i : subj_in) (o : subj_out) : bool :=
  let '(sb, d, srcs, inp) := i in
  let '(ci, nc) := o in
  let g := mem_subj global_subject sb in
  Bool.eqb (ci_global ci) g &&
  Bool.eqb (ci_dest ci) (g || mem_subj (subject_of_chain d) sb) &&
  forallb (fun c => Bool.eqb (src_cursed ci c) (mem_subj (subject_of_chain c) sb)) srcs &&
  forallb (fun kv => memN (fst kv) srcs) (ci_sources ci) &&
  (* the filtered list holds no cursed chain, and nothing at all under a global curse *)
  forallb (fun c => negb g && negb (src_cursed ci c) && memN c inp) nc &&
  forallb (fun c => g || src_cursed ci c || memN c nc) inp.
Definition subj_judge := judge subj_model subj_oeqb subj_ok (fun _ => 0%N).

(* the scripted curse reader of the plugin-level parts: what the remote holds, and whether the read fails.
   cursed = chains whose subject is set; the fake answers like the real reader (only for the chains asked). *)
Definition remote := (bool * bool * bool * list N)%type.   (* read_fails, global, dest, cursed chains *)
Definition answer (r : remote) (asked : list N) : option curse_info :=
  let '(fails, g, d, cursed) := r in
  if fails then None
  else Some (CurseInfo (map (fun c => (c, memN c cursed)) asked) (g || d) g).

(* ---- part obs_commit: ObserveOffRampNextSeqNums ----
   input: sup, known sources (None = error), remote, next-seq reader (0 ok / 1 error / 2 one answer short) *)
Definition obsc_in := (N * option (list N) * remote * N)%type.
Definition nextseq_of (mode : N) (l : list N) : option (list N) :=
  if N.eqb mode 1 then None
  else if N.eqb mode 2 then Some (tl (map (fun c => add64 c 1000) l))
  else Some (map (fun c => add64 c 1000) l).
Definition obsc_model (i : obsc_in) : list (N * N) :=
  let '(sup, known, r, mode) := i in
  observe_offramp sup known (match known with Some all => answer r all | None => None end) (nextseq_of mode).
(* judge soundness (Proofs/JudgeSoundC15P.v): the earlier check looked at the curse state only.  It accepted numbers
   observed without destination support or without the known sources (C15_no_observe_commit), numbers for a chain
   outside the known sources (C15_observed_sources_commit), and a healthy round that drops a non-cursed known source
   (C15_observes_exactly_commit).  All three clauses are read off the case now. *)
Definition no_known (known : option (list N)) : bool := match known with None => true | Some _ => false end.
Definition in_known (known : option (list N)) (c : N) : bool :=
  match known with Some all => memN c all | None => false end.
Definition obsc_ok (i : obsc_in) (o : list (N * N)) : bool :=
  let '(sup, known, r, mode) := i in
  let '(fails, g, d, cursed) := r in
  if negb (N.eqb sup 1) || no_known known || fails || g || d then match o with [] => true | _ => false end
  else forallb (fun kv => negb (memN (fst kv) cursed) && in_known known (fst kv)) o &&
       match known with
       | Some all =>
           match answer r all with
           | Some ci =>
               let src := non_cursed_sources ci all in
               match nextseq_of mode src with
               | Some sn => if Nat.eqb (length sn) (length src) then list_eqb N.eqb (map fst o) src else true
               | None => true
               end
           | None => true
           end
       | None => true
       end.
Definition obsc_judge := judge obsc_model (list_eqb pN_eqb) obsc_ok (fun _ => 0%N).

(* ---- part obs_exec: execute Plugin.Observation in the GetCommitReports phase ----
   input: sup, known sources, remote, pending commit reports on the destination (chain, number of reports; None = reader error)
   output: 0 = error, or 1 + the observed commit report chains with counts (no commit reports observed = []) *)
Definition obse_in := (N * option (list N) * remote * option (list (N * N)))%type.
Definition obse_out := option (list (N * N)).
Definition obse_model (i : obse_in) : obse_out :=
  let '(sup, known, r, pending) := i in
  match exec_observe sup known (match known with Some all => answer r all | None => None end) pending with
  | Ok (Some g) => Some g
  | Ok None => Some []
  | _ => None
  end.
(* judge soundness: the earlier check accepted commit reports observed without the known sources
   (C15_no_observe_exec), for a chain outside the known sources (C15_observed_sources_exec) and an observation that
   drops a report of a non-cursed known source (C15_other_sources_kept_exec); now read off the case. *)
Definition obse_ok (i : obse_in) (o : obse_out) : bool :=
  let '(sup, known, r, pending) := i in
  let '(fails, g, d, cursed) := r in
  match o with
  | None => true
  | Some l => if no_known known || fails || g || d then match l with [] => true | _ => false end
              else forallb (fun kv => negb (memN (fst kv) cursed) && in_known known (fst kv)) l &&
                   match pending with
                   | Some p => if N.eqb sup 1
                               then forallb (fun kv => negb (in_known known (fst kv)) || memN (fst kv) cursed ||
                                                       existsb (pN_eqb kv) l) p
                               else true
                   | None => true
                   end
  end.
Definition obse_judge := judge obse_model (option_eqb (list_eqb pN_eqb)) obse_ok (fun _ => 0%N).

(* ---- part accept: ShouldAcceptAttestedReport of both plugins ----
   plugin 0 commit: (srcs = chains of the merkle roots, tp, gp, sigs, info_ok, rmn, remoteF)
   plugin 1 execute: srcs = chains of the chain reports
   output: 0 = (false, nil), 1 = (true, nil), 2 = error *)
Definition acc_in := (N * list N * remote * (N * N * N * bool * bool * N))%type.
Definition acc_model (i : acc_in) : N :=
  let '(plugin, srcs, r, extra) := i in
  let '(tp, gp, sigs, info_ok, rmn, f) := extra in
  if N.eqb plugin 0
  then curse_code (commit_accept true srcs tp gp sigs (answer r srcs) info_ok rmn f)
  else curse_code (exec_accept false true srcs (answer r srcs)).
Definition acc_ok (i : acc_in) (o : N) : bool :=
  let '(plugin, srcs, r, extra) := i in
  let '(fails, g, d, cursed) := r in
  match srcs with
  | [] => true
  | _ => if fails || g || d || existsb (fun c => memN c cursed) srcs then negb (N.eqb o 1) else true
  end.
Definition acc_judge := judge acc_model N.eqb acc_ok (fun _ => 0%N).

(* ================= plugin level: Plugin.Observation in every state / phase, curse changing between rounds ================= *)
(* ---- part cyc_commit: commit.Plugin.Observation (real Plugin, real merkleroot.Processor, real chain support) ----
   input: state the round is in (1 SelectingRangesForReport, 2 BuildingReport, 3 WaitingForReportTransmission),
          sup (0/1 destination supported, 2 home chain failing), known sources (None = home chain failing), remote,
          next-seq reader mode, chains of the ranges selected by the previous outcome (state 2)
   output: decoded observation: off-ramp next numbers, chains for which a merkle root was observed (ascending) *)
Definition cycc_in := (N * N * option (list N) * remote * N * list N)%type.
Definition cycc_out := (list (N * N) * list N)%type.
Definition cycc_model (i : cycc_in) : cycc_out :=
  let '(st, sup, known, r, mode, sel) := i in
  if N.eqb st 2
  then ([], if N.eqb sup 2 then [] else sortN sel)     (* roots of the agreed ranges: not curse gated in the code *)
  else (observe_offramp sup known (match known with Some all => answer r all | None => None end) (nextseq_of mode), []).
Definition cycc_oeqb (a b : cycc_out) : bool := list_eqb pN_eqb (fst a) (fst b) && list_eqb N.eqb (snd a) (snd b).
(* C15_no_observe_commit / C15_source_left_out_commit on the decoded observation, in every state; and the
   BuildingReport round reads no off-ramp numbers at all *)
Definition cycc_ok (i : cycc_in) (o : cycc_out) : bool :=
  let '(st, sup, known, r, mode, sel) := i in
  let '(fails, g, d, cursed) := r in
  let off := fst o in
  (* judge soundness: the off-ramp numbers are held to the full obs_commit check (was: curse state only) *)
  (if N.eqb st 2 then true else obsc_ok (sup, known, (fails, g, d, cursed), mode) off) &&
  (if N.eqb st 2 then match off with [] => true | _ => false end else true) &&
  (* roots are observed for agreed ranges only *)
  forallb (fun c => memN c sel) (snd o).
Definition cycc_judge := judge cycc_model cycc_oeqb cycc_ok (fun _ => 0%N).

(* ---- part cyc_exec: execute.Plugin.Observation (real Plugin, real chain support) ----
   input: phase (1 GetCommitReports, 2 GetMessages, 3 Filter), sup, known, remote,
          phase 1: commit reports on the destination (chain, count), None = reader error;
          phase 2/3: pending commit reports of the previous outcome (chain, count)
   output: None = error, else (commit reports (chain, count), messages (chain, count), chains with nonces) *)
Definition cyce_in := (N * N * option (list N) * remote * option (list (N * N)))%type.
Definition cyce_out := option (list (N * N) * list (N * N) * list N).
Definition msgs_per_report : N := 10.
Definition cyce_model (i : cyce_in) : cyce_out :=
  let '(ph, sup, known, r, pend) := i in
  if N.eqb ph 1 then
    match exec_observe sup known (match known with Some all => answer r all | None => None end) pend with
    | Ok (Some g) => Some (g, [], [])
    | Ok None => Some ([], [], [])
    | _ => None
    end
  else
    let p := match pend with Some p => p | None => [] end in
    if N.eqb sup 2 then None
    else if N.eqb ph 2 then
      (* GetMessages: the agreed reports and their messages, whatever the curse state is now (no re-check in the code) *)
      Some (p, map (fun kv => (fst kv, (snd kv * msgs_per_report)%N)) p, [])
    else
      (* Filter: nonces for the sources of the agreed reports, destination readers only *)
      Some ([], [], if N.eqb sup 1 then map fst p else []).
Definition cyce_oeqb : cyce_out -> cyce_out -> bool :=
  option_eqb (pair_eqb (pair_eqb (list_eqb pN_eqb) (list_eqb pN_eqb)) (list_eqb N.eqb)).
(* phase 1: C15_no_observe_exec / C15_source_left_out_exec on the decoded observation.
   phases 2 and 3 read nothing curse-gated: they may only repeat commit reports the previous outcome agreed on *)
Definition cyce_ok (i : cyce_in) (o : cyce_out) : bool :=
  let '(ph, sup, known, r, pend) := i in
  let '(fails, g, d, cursed) := r in
  match o with
  | None => true
  | Some (cr, ms, ns) =>
      if N.eqb ph 1 then
        (match ms, ns with [], [] => true | _, _ => false end) &&
        (* judge soundness: the commit reports are held to the full obs_exec check (adds: known sources missing,
           reports of non-cursed known sources stay) *)
        obse_ok (sup, known, (fails, g, d, cursed), pend) (Some cr)
      else
        let p := match pend with Some p => p | None => [] end in
        forallb (fun kv => existsb (pN_eqb kv) p) cr &&
        forallb (fun kv => memN (fst kv) (map fst p)) ms &&
        forallb (fun c => memN c (map fst p)) ns
  end.
Definition cyce_judge := judge cyce_model cyce_oeqb cyce_ok (fun _ => 0%N).

(* C03_check.v — case types, model runner and executable property check for the C03 correspondence:
   histories of rounds through merkleroot.Processor.Outcome. *)
Require Export Verif.Model.Base Verif.Model.SeqRange Verif.Model.CommitMerkle Verif.Model.CommitSM.

(* input: (MaxReportTransmissionCheckAttempts, MaxMerkleTreeSize, first previous outcome, rounds);
   a round is (query, consensus observation computed by the real getConsensusObservation, None = error);
   output: the outcome returned in each round (each one is the previous outcome of the next round) *)
Definition hist_in := (N * N * outcome * list round_in)%type.
Definition hist_out := list outcome.

Fixpoint scan (max n : N) (prev : outcome) (rs : list round_in) : list outcome :=
  match rs with
  | [] => []
  | r :: rs' => let o := run_step max n prev r in o :: scan max n o rs'
  end.
Definition hist_model (i : hist_in) : hist_out := let '(max, n, prev, rs) := i in scan max n prev rs.

Definition cr_eqb : N * (N * N) -> N * (N * N) -> bool := pair_eqb N.eqb (pair_eqb N.eqb N.eqb).
Definition sc_eqb : N * N -> N * N -> bool := pair_eqb N.eqb N.eqb.
Definition outcome_eqb (a b : outcome) : bool :=
  Z.eqb (o_type a) (o_type b) && list_eqb cr_eqb (o_ranges a) (o_ranges b) &&
  list_eqb root_eqb (o_roots a) (o_roots b) && list_eqb sc_eqb (o_off a) (o_off b) &&
  N.eqb (o_attempts a) (o_attempts b) && list_eqb N.eqb (o_sigs a) (o_sigs b) && cfg_eqb (o_cfg a) (o_cfg b).
Definition hist_oeqb : hist_out -> hist_out -> bool := list_eqb outcome_eqb.

Definition is_some {A} (o : option A) : bool := match o with Some _ => true | None => false end.

(* the C03 clauses on one round, evaluated on the implementation's outcome *)
Definition step_ok (max : N) (prev : outcome) (r : round_in) (o : outcome) : bool :=
  let q := fst r in
  match next_state (o_type prev) with
  | Selecting =>
      match snd r with
      | None => outcome_eqb o empty_outcome
      | Some _ => Z.eqb (o_type o) T_selected
      end
  | Building =>
      if q_retry q then outcome_eqb o prev                  (* retry reproduces the previous outcome *)
      else outcome_eqb o empty_outcome || Z.eqb (o_type o) T_empty ||
           (Z.eqb (o_type o) T_generated && is_some (snd r) &&
            list_eqb sc_eqb (o_off o) (o_off prev) && N.eqb (o_attempts o) 0)
  | Waiting =>
      match snd r with
      | None => outcome_eqb o empty_outcome
      | Some c =>
          if off_updated (o_off prev) (c_off c) then Z.eqb (o_type o) T_transmitted
          else if N.leb max (add64 (o_attempts prev) 1) then Z.eqb (o_type o) T_failed
          else Z.eqb (o_type o) T_inflight && list_eqb sc_eqb (o_off o) (o_off prev) &&
               N.eqb (o_attempts o) (add64 (o_attempts prev) 1)
      end
  end.

Definition is_retry_b (prev : outcome) (r : round_in) : bool :=
  state_eqb (next_state (o_type prev)) Building && q_retry (fst r).

(* every round legal *)
Fixpoint steps_ok (max : N) (prev : outcome) (rs : list round_in) (os : list outcome) : bool :=
  match rs, os with
  | [], [] => true
  | r :: rs', o :: os' => step_ok max prev r o && steps_ok max o rs' os'
  | _, _ => false
  end.

(* back in the selecting state within max+2 rounds, retry rounds not counted; cnt = non-retry rounds so far *)
Fixpoint recov_ok (max : N) (prev : outcome) (rs : list round_in) (os : list outcome) (cnt : N) : bool :=
  if state_eqb (next_state (o_type prev)) Selecting then true
  else match rs, os with
       | r :: rs', o :: os' =>
           if is_retry_b prev r then recov_ok max o rs' os' cnt
           else if state_eqb (next_state (o_type o)) Selecting then true
                else if N.leb (max + 2) (cnt + 1) then false
                     else recov_ok max o rs' os' (cnt + 1)
       | _, _ => true       (* history ended before the bound *)
       end.

Definition hist_ok (i : hist_in) (os : hist_out) : bool :=
  let '(max, n, prev, rs) := i in
  steps_ok max prev rs os && recov_ok max prev rs os 0.

Definition hist_judge := judge hist_model hist_oeqb hist_ok (fun _ => 0%N).

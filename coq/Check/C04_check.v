(* C04_check.v — history-level correspondence for the commit plugin.
   C04_transmit: every evaluation of ShouldTransmitAcceptedReport in a simulated DON history (4, 7 or 10 real plugin
   instances over one shared world; the DON shape — N, F, per-chain f, reader sets, colluding Byzantine oracles — is
   drawn per history): input = the report's roots (with the harness's ground truth "is this the true root"),
   the off-ramp cursor at that moment, whether the oracle's destination read fails; output = the verdict.
   C04_final: the sequence of reports that reached the off-ramp and what it holds at the end. *)
Require Import Verif.Model.Base Verif.Model.Transmit Verif.Model.CommitSys.

Definition troot := (N * (N * N) * bool)%type.          (* chain, interval, root is the true root *)
Definition tr_in := (list troot * cursor * bool)%type.
Definition to_rroot (t : troot) : rroot := (fst (fst t), snd (fst t), 0%N).

Definition tr_model (i : tr_in) : N :=
  let '(roots, c, fails) := i in
  (* my digest 1, candidate digest 2 in the harness: the active instance; the report decodes *)
  match commit_should_transmit 1 (Some 2%N) true (roots_state_ok (map to_rroot roots) (honest_next_reader c fails)) with
  | Ok true => 1%N | Ok false => 0%N | _ => 2%N
  end.
(* the property on the implementation's verdict: agreed to transmit => every interval starts at the destination's
   current cursor, no chain twice, every root is the true root of its interval, and — for a report that carries
   roots — the oracle's read of the destination did not fail.
   (The last clause, C04_transmit_reader_failure, was missing: the case carries [fails] but the property ignored it,
   so a verdict "transmit" reached without a successful re-check passed whenever the cursor happened to match;
   st_ok below always had the clause. Witness and soundness: Proofs/JudgeSoundC04P.v.) *)
Definition tr_ok (i : tr_in) (o : N) : bool :=
  let '(roots, c, fails) := i in
  if N.eqb o 1 then
    forallb (fun t : troot => N.eqb (fst (snd (fst t))) (next_of c (fst (fst t))) && snd t) roots &&
    nodupb N.eqb (map (fun t : troot => fst (fst t)) roots) &&
    (match roots with [] => true | _ => negb fails end)
  else true.
Definition tr_judge := judge tr_model N.eqb tr_ok (fun _ => 0%N).

(* final state *)
Definition fin_in := (cursor * list (list rroot))%type.
Definition fin_out := (list (N * list (N * N)) * cursor * N)%type.   (* committed per chain, cursor, outcome divergences *)
Definition fin_model (i : fin_in) : fin_out :=
  let '(init, reports) := i in
  let d := run_lands (mkDest init []) reports in
  (map (fun kc => (fst kc, committed_for d (fst kc))) init,
   map (fun kc => (fst kc, next_of (d_cursor d) (fst kc))) init, 0%N).
Definition ivs_eqb : list (N * N) -> list (N * N) -> bool := list_eqb (pair_eqb N.eqb N.eqb).
Definition fin_oeqb (a b : fin_out) : bool :=
  let '(c1, k1, d1) := a in let '(c2, k2, d2) := b in
  list_eqb (pair_eqb N.eqb ivs_eqb) c1 c2 && list_eqb (pair_eqb N.eqb N.eqb) k1 k2 && N.eqb d1 d2.
Fixpoint contiguousb (start : N) (l : list (N * N)) : bool :=
  match l with
  | [] => true
  | (s, e) :: l' => N.eqb s start && N.leb s e && contiguousb (succ64 e) l'
  end.
Definition fin_ok (i : fin_in) (o : fin_out) : bool :=
  let '(init, _) := i in let '(comm, _, div) := o in
  forallb (fun kc : N * list (N * N) => contiguousb (next_of init (fst kc)) (snd kc)) comm && N.eqb div 0.
Definition fin_judge := judge fin_model fin_oeqb fin_ok (fun _ => 0%N).

(* function level: ValidateMerkleRootsState with scripted readers. mode 0 honest, 1 error, 2 one answer short, 3 one long *)
Definition st_in := (list rroot * cursor * N)%type.
Definition st_reader (c : cursor) (mode : N) (chains : list N) : option (list N) :=
  if N.eqb mode 1 then None
  else let ans := map (next_of c) chains in
       if N.eqb mode 2 then Some (removelast ans)
       else if N.eqb mode 3 then Some (ans ++ [1%N])
       else Some ans.
Definition st_model (i : st_in) : bool :=
  let '(roots, c, mode) := i in roots_state_ok roots (st_reader c mode).
Definition st_ok (i : st_in) (o : bool) : bool :=
  let '(roots, c, mode) := i in
  if o then forallb (fun r : rroot => N.eqb (rr_start r) (next_of c (rr_chain r))) roots &&
            nodupb N.eqb (map rr_chain roots) &&
            (match roots with [] => true | _ => N.eqb mode 0 end)
  else true.
Definition st_judge := judge st_model Bool.eqb st_ok (fun _ => 0%N).

(* ---------- whole-plugin round correspondence (sink C04_round) ----------
   commit.Plugin.Outcome (merkle-root part) on the decoded attributed observations of a DON history round must equal
   the composition of the C01 model (CommitConsensus.get_consensus) and the C03 model (CommitSM.get_outcome).
   RMN is disabled in these histories (no bundles, empty remote configs). F is the role-DON F of the history the round
   belongs to; the per-chain f values are the fChain maps inside the observations. *)
Require Export Verif.Model.CommitSM.
Require Verif.Model.CommitConsensus Verif.Check.C03_check.
Definition mkObs := CommitConsensus.mkObs.
Definition rmn_none : CommitConsensus.rmn_cfg := CommitConsensus.mkRmn 0 true true [] 0 0 true.

Definition conv_root (v : CommitConsensus.root_t) : CommitSM.root := let '(c, a, (s, e), r) := v in (c, (s, e), a, r).
Definition conv_cons (c : CommitConsensus.cons) : CommitSM.cons :=
  CommitSM.mkCons (map (fun kv => conv_root (snd kv)) (CommitConsensus.c_roots c))
                  (CommitConsensus.c_onramp c) (CommitConsensus.c_offramp c) CommitSM.cfg_empty.
Definition round_cons (F : Z) (dest : N) (aos : list CommitConsensus.aobs) : option CommitSM.cons :=
  match CommitConsensus.get_consensus F dest aos with Ok c => Some (conv_cons c) | _ => None end.

(* the round function judged here is the one the liveness theorems of Props/C04.v are stated over
   (Model/CommitLive.v, RMN remote config taken as empty) *)
Require Verif.Model.CommitLive.
Lemma round_cons_is_live_model F dest aos :
  round_cons F dest aos = CommitLive.round_cons (fun _ => CommitSM.cfg_empty) F dest aos.
Proof. reflexivity. Qed.

(* input: F, dest, MaxReportTransmissionCheckAttempts, MaxMerkleTreeSize, previous outcome, retry flag, observations *)
Definition rd_in := (Z * N * N * N * CommitSM.outcome * bool * list CommitConsensus.aobs)%type.
Definition rd_model (i : rd_in) : CommitSM.outcome :=
  let '(F, dest, max, n, prev, retry, aos) := i in
  CommitSM.get_outcome max n prev (CommitSM.mkQuery retry None) (round_cons F dest aos).
(* roots of a consensus map come in map order; the outcome sorts them: compare outcomes field-wise *)
(* C04_report_roots_are_agreed on the implementation's outcome: with consensus c, every root of the outcome is an
   agreed root of c — or, in an RMN-retry round of the building state, a root of the previous outcome.
   (This clause was missing: step_ok speaks of types, cursors and counters only, so an outcome carrying a root
   nobody agreed on passed. Witness and soundness: Proofs/JudgeSoundC04P.v.) *)
Definition rd_roots_ok (prev : CommitSM.outcome) (retry : bool) (co : option CommitSM.cons) (o : CommitSM.outcome) : bool :=
  match co with
  | None => true
  | Some c =>
      forallb (fun r => (CommitSM.state_eqb (CommitSM.next_state (CommitSM.o_type prev)) CommitSM.Building && retry &&
                         existsb (CommitSM.root_eqb r) (CommitSM.o_roots prev))
                        || existsb (CommitSM.root_eqb r) (CommitSM.c_roots c)) (CommitSM.o_roots o)
  end.
(* Liveness, the round-level steps (C04_liveness_round_partial, 7., split into its two rounds = the steps select_round /
   build_round of C04_liveness, 9.) on the implementation's outcome, hypotheses read off the agreed values c of the round:
     selecting, the agreed off-ramp map has one entry per chain, agreed on-ramp numbers are uint64, n >= 1:
        for every chain k with agreed next = off and agreed latest = on, off <= on (messages pending), the outcome
        is "ranges selected" and selects [off, min(on, off+n-1)] for k;
     building, no RMN retry (no bundle in this sink): every agreed root is reported in a "report generated" outcome.
   (These clauses were missing: step_ok accepts a selecting outcome that selects nothing and an empty outcome in the
   building state whatever was agreed. Witness and soundness: Proofs/JudgeSoundC04P.v.) *)
Require Verif.Model.SeqRange.
Definition rd_live_ok (n : N) (prev : CommitSM.outcome) (retry : bool) (co : option CommitSM.cons) (o : CommitSM.outcome)
  : bool :=
  match co with
  | None => true
  | Some c =>
      match CommitSM.next_state (CommitSM.o_type prev) with
      | CommitSM.Selecting =>
          if nodupb N.eqb (map fst (CommitSM.c_off c)) &&
             forallb (fun e : N * N => match alookup (fst e) (CommitSM.c_on c) with
                                       | Some m => SeqRange.u64b m | None => true end) (CommitSM.c_on c) &&
             N.leb 1 n
          then forallb (fun ko : N * N =>
                          match alookup (fst ko) (CommitSM.c_on c) with
                          | Some on =>
                              if N.leb (snd ko) on
                              then Z.eqb (CommitSM.o_type o) CommitSM.T_selected &&
                                   existsb (C03_check.cr_eqb (fst ko, (snd ko, N.min on (snd ko + n - 1))))
                                           (CommitSM.o_ranges o)
                              else true
                          | None => true
                          end) (CommitSM.c_off c)
          else true
      | CommitSM.Building =>
          if retry then true
          else forallb (fun r => Z.eqb (CommitSM.o_type o) CommitSM.T_generated &&
                                 existsb (CommitSM.root_eqb r) (CommitSM.o_roots o)) (CommitSM.c_roots c)
      | CommitSM.Waiting => true
      end
  end.
Definition rd_ok (i : rd_in) (o : CommitSM.outcome) : bool :=
  let '(F, dest, max, n, prev, retry, aos) := i in
  C03_check.step_ok max prev (CommitSM.mkQuery retry None, round_cons F dest aos) o &&
  rd_roots_ok prev retry (round_cons F dest aos) o &&
  rd_live_ok n prev retry (round_cons F dest aos) o.
Definition rd_judge := judge rd_model C03_check.outcome_eqb rd_ok (fun _ => 0%N).

(* ExecSys_check.v — case types, model runner and executable end-to-end property for the execute SYSTEM
   correspondence (sink ExecSys_cycle): real execute.Plugin instances driven through whole cycles
   (GetCommitReports -> GetMessages -> Filter) round by round.
   One case = (configuration, previous outcome of the cycle's first round, per round: fChain of the home chain and
   every attributed observation with the chains its oracle supports) and, per round, the implementation's
   ValidateObservation verdicts and the decoded outcome (or Err).  A failed round commits nothing. *)
Require Export Verif.Model.Base Verif.Model.Consensus Verif.Model.Merkle Verif.Model.ExecReport Verif.Model.ExecSys.
Require Verif.Check.C08_check.
Module C8 := Verif.Check.C08_check.

(* constructor names for the case terms (ExecMerge and ExecReport both have a mkMsg) *)
Definition XTok := EM.mkTok.
Definition XMsg := mkMsg.
Definition XCD := mkCD.
Definition XCR := mkCR.

Record scfg := mkSCfg {
  s_table : list (N * N * N);       (* keccak HashInternal pairs (C08_check.thash) *)
  s_zero : N;                       (* id of ZeroHash *)
  s_bigF : Z;                       (* reportingCfg.F *)
  s_dest : N;
  s_batch_gas : N;                  (* offchainCfg.BatchGasLimit *)
  s_tga : N; s_tgb : N;             (* merkle tree gas a + b*n *)
  s_base : N;                       (* codec: base + sum m_size + 32*|proofs| + 3*|token data entries| *)
  s_nkeys : list (EM.nonce_t * N);  (* id order of the nonce triples of the Filter round *)
  s_live : bool;                    (* the harness's ground truth applies: honest oracles share one view, at most f deviate *)
  s_expect : list (N * N);          (* ground truth: (chain, seq) of the eligible pending messages of the cycle *)
  s_executed : list (N * N)         (* ground truth (same condition): messages executed on the destination when the cycle starts *)
}.
Definition sobs_in := (N * list N * sobs)%type.                  (* oracle, supported chains, observation *)
Definition sround_in := (list (N * Z) * list sobs_in)%type.      (* fChain, observations *)
Definition sys_in := (scfg * outcome * list sround_in)%type.
Definition sround_out := (list bool * res outcome)%type.         (* verdicts, outcome *)
Definition sys_out := list sround_out.

Definition c8cfg (g : scfg) : C8.cfg :=
  C8.mkCfg (s_table g) (s_zero g) [] C8.plugin_max_report (s_batch_gas g) (s_tga g) (s_tgb g) (s_base g) 1999999999.
Definition nkey_of (g : scfg) (t : EM.nonce_t) : N :=
  match find (fun e => EM.nonce_eqb (fst e) t) (s_nkeys g) with Some e => snd e | None => 0%N end.
Definition accepted (vals : list bool) (obs : list sobs_in) : list sao :=
  map (fun p => (fst (fst (snd p)), snd (snd p))) (filter fst (combine vals obs)).
Definition verdicts (g : scfg) (r : sround_in) : list bool :=
  map (fun a => EM.validate (snd (fst a)) (s_dest g) (fst r) (to_obs (snd a))) (snd r).
Definition round_model (g : scfg) (h : N -> N -> N) (prev : outcome) (r : sround_in) (vals : list bool) : res outcome :=
  exec_round h (s_zero g) C8.lhash (C8.codec_size (c8cfg g)) (C8.tgas (c8cfg g)) C8.plugin_max_report (s_batch_gas g)
             (nkey_of g) (s_bigF g) (s_dest g) (fst r) prev (accepted vals (snd r)).

Fixpoint run_model (g : scfg) (h : N -> N -> N) (prev : outcome) (rs : list sround_in) : sys_out :=
  match rs with
  | [] => []
  | r :: rs' =>
      let vals := verdicts g r in
      let o := round_model g h prev r vals in
      (vals, o) :: run_model g h (match o with Ok x => x | _ => prev end) rs'
  end.
Definition sys_model (i : sys_in) : sys_out :=
  let '(g, prev, rs) := i in run_model g (C8.thash (C8.mk_htable (s_table g))) prev rs.

Definition outcome_eqb (a b : outcome) : bool :=
  N.eqb (o_state a) (o_state b) && list_eqb C8.cdata_eqb (o_pending a) (o_pending b) &&
  list_eqb C8.creport_eqb (o_report a) (o_report b).
Definition sys_oeqb : sys_out -> sys_out -> bool :=
  list_eqb (pair_eqb (list_eqb Bool.eqb) (res_eqb outcome_eqb)).

(* ---------- the executable end-to-end property, on the implementation's outputs ---------- *)
Definition xc_eqb (a b : xcommit) : bool :=
  N.eqb (xc_key a) (xc_key b) && N.eqb (xc_ts a) (xc_ts b) && C8.cdata_eqb (xc_cd a) (xc_cd b).
Definition xm_eqb (a b : xmsg) : bool := N.eqb (xm_key a) (xm_key b) && C8.msg_eqb (xm_msg a) (xm_msg b).
Definition reporters (has : sobs -> bool) (aos : list sao) : N :=
  N.of_nat (length (filter (fun a => has (snd a)) aos)).
Definition thr_of (fchain : list (N * Z)) (k : N) : option N :=
  match alookup k fchain with Some f => Some (f_plus_1 f) | None => None end.
Definition fdest_of (g : scfg) (fchain : list (N * Z)) : Z := EM.f_dest (s_dest g) fchain.

Definition core_eqb (a b : cdata) : bool :=
  N.eqb (c_src a) (c_src b) && N.eqb (c_root a) (c_root b) && N.eqb (c_start a) (c_start b) &&
  N.eqb (c_end a) (c_end b) && list_eqb N.eqb (c_exec a) (c_exec b).

(* (i) the commit data was reported identically (full item) by f_dest+1 distinct oracles under the key of its own source
   chain, a configured chain (after the repairs of F75) *)
Definition commit_agreed (dest : N) (fchain : list (N * Z)) (aos : list sao) (cd : cdata) : bool :=
  let k := c_src cd in
  memN k (EM.keys fchain) &&
  existsb (fun x => C8.cdata_eqb (xc_cd x) cd &&
                    N.leb (f_plus_1 (EM.f_dest dest fchain))
                          (reporters (fun o => existsb (xc_eqb x) (EM.entries k (so_commits o))) aos))
          (xcommits_at k aos).
(* (ii) the message was reported identically by f_k+1 distinct oracles under its own source chain key *)
Definition msg_agreed (fchain : list (N * Z)) (aos : list sao) (k : N) (m : msg) : bool :=
  match thr_of fchain k with
  | None => false
  | Some thr =>
      existsb (fun x => C8.msg_eqb (xm_msg x) m &&
                        N.leb thr (reporters (fun o => existsb (xm_eqb x) (map snd (EM.entries k (so_msgs o)))) aos))
              (xmsgs_at k aos)
  end.
(* (iii) every token-data value used for the message was reported, ready, at the message's own (chain, seq, slot) by
   f_k+1 distinct oracles *)
Fixpoint idx_forallb {A} (p : nat -> A -> bool) (i : nat) (l : list A) : bool :=
  match l with [] => true | x :: l' => p i x && idx_forallb p (S i) l' end.
Definition slot_of (k s : N) (i : nat) (o : sobs) : option EM.tok :=
  nth_error (EM.entries s (EM.entries k (so_tokens o))) i.
Definition tokens_agreed (fchain : list (N * Z)) (aos : list sao) (k s : N) (bytes : list N) : bool :=
  match thr_of fchain k with
  | None => false
  | Some thr =>
      idx_forallb (fun i d => N.leb thr (reporters (fun o => match slot_of k s i o with
                                                             | Some t => EM.tok_eqb t (EM.mkTok true d)
                                                             | None => false end) aos)) O bytes
  end.
(* (iii) as C07_used_needs_quorum_cycle states it, against the agreed commit data cd1 of the GetCommitReports round.
   getMessagesOutcome APPENDS to report.MessageTokenData and the builder compares list lengths only, so when the agreed
   commit data already carried token data (possible only for commit data f_dest+1 oracles made up: no honest oracle
   observes commit data with token data) the token data used for a message is either an entry the agreed commit data
   carried or the merged entry of SOME sequence number of the report's interval.  When the agreed commit data carried
   none this is the exact test [tokens_agreed] (C07_token_data_cycle).  Before Proofs/JudgeSoundExecSysP.v decided the
   question the exact test was applied unconditionally: the model's own output failed it on a cycle whose agreed
   commit data carried token data (witness TokCase.tokens_agreed_before_false_alarm there). *)
Definition tok_seqs_at (k : N) (aos : list sao) : list N :=
  flat_map (fun a => EM.keys (EM.entries k (so_tokens (snd a)))) aos.
Definition tokens_ok (fchain : list (N * Z)) (aos : list sao) (cd1 : cdata) (k s : N) (bytes : list N) : bool :=
  tokens_agreed fchain aos k s bytes ||
  match c_td cd1 with
  | [] => false
  | tds =>
      existsb (fun td => td_ready td && list_eqb N.eqb (td_bytes td) bytes) tds ||
      existsb (fun s' => PS.in_range (c_start cd1) (c_end cd1) s' && tokens_agreed fchain aos k s' bytes)
              (tok_seqs_at k aos)
  end.
(* not flagged too costly by f_dest+1 *)
Definition not_costly (fdest : Z) (aos : list sao) (mid : N) : bool :=
  negb (EM.gte_f_plus_one fdest (reporters (fun o => memN mid (so_costly o)) aos)).
(* (iv) per (source, sender): the first sequenced message of the report carries agreed on-chain nonce + 1 (agreed =
   f_dest+1 distinct reporters of the triple), later ones carry larger nonces *)
Definition nonce_agreed (fdest : Z) (aos : list sao) (t : EM.nonce_t) : bool :=
  N.leb (f_plus_1 fdest) (reporters (fun o => existsb (EM.nonce_eqb t) (EM.nonce_triples (to_obs o))) aos).
Fixpoint nonces_walk (fdest : Z) (aos : list sao) (seen : list (N * N * N)) (ms : list msg) : bool :=
  match ms with
  | [] => true
  | m :: ms' =>
      if N.eqb (m_nonce m) 0 then nonces_walk fdest aos seen ms'
      else
        match find (fun e => N.eqb (fst (fst e)) (m_src m) && N.eqb (snd (fst e)) (m_sender m)) seen with
        | Some e => N.ltb (snd e) (m_nonce m) &&
                    nonces_walk fdest aos ((m_src m, m_sender m, m_nonce m) :: seen) ms'
        | None =>
            negb (N.eqb (m_nonce m) 0) &&
            nonce_agreed fdest aos (m_src m, m_sender m, (m_nonce m - 1)%N) &&
            nonces_walk fdest aos ((m_src m, m_sender m, m_nonce m) :: seen) ms'
        end
  end.

Record rctx := mkRC { rc_fchain : list (N * Z); rc_aos : list sao; rc_out : outcome }.

Section SysProp.
  Variable g : scfg.
  Variable h : N -> N -> N.

  (* one chain report of the Filter outcome against the agreed rounds.
     The interval test of (i) ("the message lies in the interval of its agreed commit report",
     C07_used_needs_quorum_cycle) was added with Proofs/JudgeSoundExecSysP.v: before, a report holding a message outside
     the agreed interval passed (witness chain_report_ok_before_weak there). *)
  Definition chain_report_ok (r1 r2 : rctx) (fchain3 : list (N * Z)) (aos3 : list sao) (r : creport) : bool :=
    existsb (fun cd2 =>
      C8.owns cd2 r && C8.reverify h r (c_root cd2) &&                                  (* (b) *)
      existsb (fun cd1 =>
        core_eqb cd1 cd2 && commit_agreed (s_dest g) (rc_fchain r1) (rc_aos r1) cd1 &&             (* wiring, (i) *)
        forallb (fun m => negb (memN (m_seq m) (c_exec cd1)) &&                         (* (c) *)
                          PS.in_range (c_start cd1) (c_end cd1) (m_seq m)) (r_msgs r) &&  (* (i), interval *)
        forallb (fun mt => tokens_ok (rc_fchain r2) (rc_aos r2) cd1 (r_src r) (m_seq (fst mt)) (snd mt))
                (combine (r_msgs r) (r_td r)))                                          (* (iii) *)
        (o_pending (rc_out r1)) &&
      Nat.eqb (length (r_msgs r)) (length (r_td r)) &&
      forallb (fun mt =>
        let m := fst mt in
        N.eqb (m_src m) (r_src r) &&
        existsb (C8.msg_eqb m) (c_msgs cd2) &&
        msg_agreed (rc_fchain r2) (rc_aos r2) (r_src r) m &&                            (* (ii) *)
        not_costly (fdest_of g (rc_fchain r2)) (rc_aos r2) (m_id m))
        (combine (r_msgs r) (r_td r)))
      (o_pending (rc_out r2)).

  Definition report_ok (r1 r2 : option rctx) (fchain3 : list (N * Z)) (aos3 : list sao) (o3 : outcome) : bool :=
    match o_report o3 with
    | [] => true
    | rs =>
        match r1, r2 with
        | Some a, Some b =>
            forallb (chain_report_ok a b fchain3 aos3) rs &&
            nonces_walk (fdest_of g fchain3) aos3 [] (flat_map r_msgs rs)               (* (iv) *)
        | _, _ => false
        end
    end.

  (* pending reports travel: the GetMessages outcome holds the GetCommitReports outcome's reports, enriched *)
  Definition carried (o1 o2 : outcome) : bool :=
    list_eqb core_eqb (o_pending o1) (o_pending o2).

  (* walk the rounds with the implementation's outcomes *)
  Fixpoint walk (cur : outcome) (r1 r2 : option rctx) (rs : list sround_in) (outs : sys_out) : bool :=
    match rs, outs with
    | r :: rs', (vals, o) :: outs' =>
        let aos := accepted vals (snd r) in
        match o with
        | Ok x =>
            let st := match PS.exec_next (o_state cur) with Ok s => s | _ => 0%N end in
            if N.eqb st 2 then walk x (Some (mkRC (fst r) aos x)) None rs' outs'
            else if N.eqb st 3 then
              carried cur x && walk x r1 (Some (mkRC (fst r) aos x)) rs' outs'
            else report_ok r1 r2 (fst r) aos x && walk x None None rs' outs'
        | Err => walk cur r1 r2 rs' outs'
        | _ => false
        end
    | [], [] => true
    | _, _ => false
    end.
End SysProp.

(* liveness ground truth (s_live): the cycle reaches a Filter outcome whose report holds every expected message *)
Definition last_report (outs : sys_out) : option (list creport) :=
  fold_left (fun acc vo => match snd vo with Ok x => if N.eqb (o_state x) 4 then Some (o_report x) else acc | _ => acc end)
            outs None.
Definition live_ok (g : scfg) (outs : sys_out) : bool :=
  if s_live g then
    match s_expect g with
    | [] => true
    | ex =>
        match last_report outs with
        | Some rs => forallb (fun cs => existsb (fun r => N.eqb (r_src r) (fst cs) &&
                                                          existsb (fun m => N.eqb (m_seq m) (snd cs)) (r_msgs r)) rs) ex
        | None => false
        end
    end
  else true.

(* never re-executed, against the ground truth: when the honest oracles share the destination's view and at most f
   deviate, no report of the cycle holds a message that the destination shows as executed *)
Definition noreexec_ok (g : scfg) (outs : sys_out) : bool :=
  if s_live g then
    forallb (fun vo => match snd vo with
                       | Ok x => forallb (fun r => forallb (fun m => negb (existsb (fun cs => N.eqb (fst cs) (r_src r) && N.eqb (snd cs) (m_seq m))
                                                                                   (s_executed g))) (r_msgs r)) (o_report x)
                       | _ => true end) outs
  else true.

(* safety: clauses (a)-(c) and the wiring; liveness: the ground truth *)
Definition sys_safe (i : sys_in) (o : sys_out) : bool :=
  let '(g, prev, rs) := i in
  walk g (C8.thash (C8.mk_htable (s_table g))) prev None None rs o && noreexec_ok g o.
Definition sys_live (i : sys_in) (o : sys_out) : bool := live_ok (fst (fst i)) o.


(* recorded class 2 = F13e (C07): in some round an accepted observation holds, for some message (c, s), a token slot
   index that fewer than f_c+1 oracles report at all (the merged token data of the message then has a not-ready
   slot: the liveness ground truth does not apply) *)
Definition has_slot (c s : N) (i : nat) (o : sobs) : bool :=
  match slot_of c s i o with Some _ => true | None => false end.
Definition lonely_slot (fchain : list (N * Z)) (aos : list sao) : bool :=
  existsb (fun a => existsb (fun cl => existsb (fun ss =>
      negb (idx_forallb (fun i _ => match thr_of fchain (fst cl) with
                                    | Some thr => N.leb thr (reporters (has_slot (fst cl) (fst ss) i) aos)
                                    | None => true end) O (snd ss)))
    (snd cl)) (so_tokens (snd a))) aos.
Definition sys_known (i : sys_in) : N :=
  let '(g, _, rs) := i in
  if existsb (fun r => lonely_slot (fst r) (accepted (verdicts g r) (snd r))) rs then 2%N else 0%N.

(* two passes: model = implementation and the safety clauses are judged without any recorded class; the liveness ground
   truth alone is judged inside / outside class 2 *)
Definition sys_judge (cs : list (sys_in * sys_out)) : list (N * N) :=
  judge sys_model sys_oeqb sys_safe (fun _ => 0%N) cs ++
  judge (fun _ : sys_in => @nil sround_out) (fun _ _ => true) sys_live sys_known cs.

(* the same judge for a property that does not own the recorded class 2 (F13e belongs to C07): the liveness ground
   truth is simply not judged inside that class *)
Definition sys_judge_noclass (cs : list (sys_in * sys_out)) : list (N * N) :=
  judge sys_model sys_oeqb sys_safe (fun _ => 0%N) cs ++
  judge (fun _ : sys_in => @nil sround_out) (fun _ _ => true)
        (fun i o => if N.eqb (sys_known i) 0 then sys_live i o else true) (fun _ => 0%N) cs.

(* C07_check.v — case types, model runner and executable property for the C07 correspondence:
   execute.Plugin.ValidateObservation on every attributed observation, then getConsensusObservation on the
   accepted ones. *)
Require Export Verif.Model.Base Verif.Model.Consensus Verif.Model.ExecMerge.

(* input: F, destination chain, fChain, [(oracle, chains the oracle supports, observation)] *)
Definition c07_in := (Z * N * list (N * Z) * list (N * list N * obs))%type.
(* canonical merged observation: chains ascending; reports by id; messages as the map seq -> message, keys
   ascending; token slots in index order; costly ids ascending; nonce triples ascending *)
Definition mout := (list (N * list commit) * list (N * list (N * msg)) * list (N * list (N * list tok)) *
                    list N * list nonce_t)%type.
Definition c07_out := (list bool * res mout)%type.

Definition by_key {V} (l : list (N * V)) : list (N * V) := sort_by (fun a b => N.leb (fst a) (fst b)) l.
Definition by_cid (l : list commit) : list commit := sort_by (fun a b => N.leb (c_id a) (c_id b)) l.
Definition nonce_le (a b : nonce_t) : bool :=
  let '(c1, s1, n1) := a in let '(c2, s2, n2) := b in
  N.ltb c1 c2 || (N.eqb c1 c2 && (N.ltb s1 s2 || (N.eqb s1 s2 && N.leb n1 n2))).

Definition accepted (vals : list bool) (aos : list (N * list N * obs)) : list ao :=
  map (fun p => (fst (fst (snd p)), snd (snd p))) (filter fst (combine vals aos)).

Definition canon (m : merged) : mout :=
  (by_key (map (fun kl => (fst kl, by_cid (snd kl))) (g_commits m)),
   by_key (map (fun kl => (fst kl, by_key (map (fun x => (m_seq x, x)) (snd kl)))) (g_msgs m)),
   by_key (map (fun kl => (fst kl, by_key (snd kl))) (g_tokens m)),
   sortN (g_costly m),
   sort_by nonce_le (g_nonces m)).

Definition c07_model (i : c07_in) : c07_out :=
  let '(bigF, dest, fchain, aos) := i in
  let vals := map (fun a => validate (snd (fst a)) dest fchain (snd a)) aos in
  (vals, match get_consensus bigF dest fchain (accepted vals aos) with
         | Ok m => Ok (canon m) | Err => Err | Panic => Panic | Spin => Spin end).

(* ---- comparison. Two valid messages with one sequence number (two valid nonces for one sender) are stored
   under one map key by the implementation and Go's map order decides which survives (F17, property C10):
   the implementation's map must be a possible assignment of the model's valid items. ---- *)
Definition tokl_eqb := list_eqb tok_eqb.
Definition assigned {K T} (keq : K -> K -> bool) (teq : T -> T -> bool) (mdl impl : list (K * T)) : bool :=
  nodupb keq (map fst impl) &&
  forallb (fun kv => existsb (fun kv' => keq (fst kv) (fst kv') && teq (snd kv) (snd kv')) mdl) impl &&
  forallb (fun kv => existsb (keq (fst kv)) (map fst impl)) mdl.
Definition msgs_eq (a b : list (N * list (N * msg))) : bool :=
  list_eqb (fun x y => N.eqb (fst x) (fst y) && assigned N.eqb msg_eqb (snd x) (snd y)) a b.
Definition nkey (t : nonce_t) : N * N := fst t.
Definition nkey_eqb (a b : N * N) : bool := N.eqb (fst a) (fst b) && N.eqb (snd a) (snd b).
Definition nonces_eq (a b : list nonce_t) : bool :=
  assigned nkey_eqb N.eqb (map (fun t => (nkey t, snd t)) a) (map (fun t => (nkey t, snd t)) b).

Definition mout_eqb (a b : mout) : bool :=
  let '(c1, m1, t1, k1, n1) := a in let '(c2, m2, t2, k2, n2) := b in
  list_eqb (pair_eqb N.eqb (list_eqb commit_eqb)) c1 c2 &&
  msgs_eq m1 m2 &&
  list_eqb (pair_eqb N.eqb (list_eqb (pair_eqb N.eqb tokl_eqb))) t1 t2 &&
  list_eqb N.eqb k1 k2 &&
  nonces_eq n1 n2.
(* first argument: the model's answer *)
Definition c07_oeqb (a b : c07_out) : bool :=
  list_eqb Bool.eqb (fst a) (fst b) && res_eqb mout_eqb (snd a) (snd b).

(* ---- the executable property, evaluated on the implementation's output: every merged item is reported
   identically by at least f+1 DISTINCT accepted oracles (an oracle counts once however often and wherever it
   files the item), and every item with that support is present (nothing blocks it) ---- *)
Section Support.
  Context {T : Type} (eqb : T -> T -> bool) (f : obs -> list T).
  Definition support (x : T) (aos : list ao) : N :=
    N.of_nat (length (filter (fun a => existsb (eqb x) (f (snd a))) aos)).
  Definition all_items (aos : list ao) : list T := flat_map (fun a => f (snd a)) aos.
End Support.

Definition commits_at (k : N) (o : obs) := entries k (o_commits o).
Definition msgs_at (k : N) (o : obs) := map snd (entries k (o_msgs o)).
Definition tok_at (c s : N) (i : nat) (o : obs) : list tok :=
  match nth_error (entries s (entries c (o_tokens o))) i with Some t => [t] | None => [] end.
Definition has_slot (c s : N) (i : nat) (o : obs) : list unit :=
  match nth_error (entries s (entries c (o_tokens o))) i with Some _ => [tt] | None => [] end.

Definition thr_of (fchain : list (N * Z)) (k : N) : option N :=
  match alookup k fchain with Some f => Some (f_plus_1 f) | None => None end.

(* commit reports (repair of F75): under a configured chain key, reports OF that chain, each with f_dest+1 distinct
   reporters; every report with that support is present *)
Definition commits_ok (dest : N) (fchain : list (N * Z)) (aos : list ao) (out : list (N * list commit)) : bool :=
  let thr := f_plus_1 (f_dest dest fchain) in
  forallb (fun kl => memN (fst kl) (keys fchain) &&
                     negb (match snd kl with [] => true | _ => false end) &&
                     nodupb commit_eqb (snd kl) &&
                     forallb (fun x => N.eqb (c_src x) (fst kl) &&
                                       N.leb thr (support commit_eqb (commits_at (fst kl)) x aos)) (snd kl)) out &&
  forallb (fun kf => forallb (fun x => if N.leb thr (support commit_eqb (commits_at (fst kf)) x aos)
                                       then existsb (commit_eqb x) (entries (fst kf) out) else true)
                             (all_items (commits_at (fst kf)) aos)) fchain.

Definition msgs_ok (fchain : list (N * Z)) (aos : list ao) (out : list (N * list (N * msg))) : bool :=
  forallb (fun kl => match thr_of fchain (fst kl) with
                     | None => false
                     | Some thr => nodupb N.eqb (map fst (snd kl)) &&
                                   forallb (fun sm => N.eqb (fst sm) (m_seq (snd sm)) &&
                                                      N.leb thr (support msg_eqb (msgs_at (fst kl)) (snd sm) aos)) (snd kl)
                     end) out &&
  forallb (fun kf => forallb (fun x => if N.leb (f_plus_1 (snd kf)) (support msg_eqb (msgs_at (fst kf)) x aos)
                                       then memN (m_seq x) (map fst (entries (fst kf) out)) else true)
                             (all_items (msgs_at (fst kf)) aos)) fchain.

(* a ready token slot has f+1 identical reports; when f+1 oracles report token data for a message at all, a slot
   index exists in the result only if f+1 oracles report a slot at that index - an unsupported extra slot must not
   turn a supported message's token data not-ready (this clause fails inside the recorded class F13e).
   Third conjunct (added with Proofs/JudgeSoundC07P.v; the property was weaker than C07_token_slot_complete before: a
   result slot that is not ready although exactly one value has f+1 reporters passed): when exactly one value of a
   slot has f+1 reporters, the result slot carries that value. *)
Fixpoint idx_forallb {A} (p : nat -> A -> bool) (i : nat) (l : list A) : bool :=
  match l with [] => true | x :: l' => p i x && idx_forallb p (S i) l' end.
Definition tokens_ok (fchain : list (N * Z)) (aos : list ao) (out : list (N * list (N * list tok))) : bool :=
  forallb (fun cl => match thr_of fchain (fst cl) with
                     | None => false
                     | Some thr =>
                         forallb (fun ss => idx_forallb (fun i t =>
                                    (if t_ready t then N.leb thr (support tok_eqb (tok_at (fst cl) (fst ss) i) t aos) else true) &&
                                    (N.leb thr (support (fun _ _ => true) (has_slot (fst cl) (fst ss) i) tt aos) ||
                                     negb (N.leb thr (support (fun _ _ => true) (has_slot (fst cl) (fst ss) O) tt aos))) &&
                                    match filter (fun t' => N.leb thr (support tok_eqb (tok_at (fst cl) (fst ss) i) t' aos))
                                                 (dedup tok_eqb (all_items (tok_at (fst cl) (fst ss) i) aos)) with
                                    | [t'] => tok_eqb t t'
                                    | _ => true
                                    end) O (snd ss))
                                 (snd cl)
                     end) out.

Definition costly_ok (fdest : Z) (aos : list ao) (out : list N) : bool :=
  nodupb N.eqb out &&
  forallb (fun x => gte_f_plus_one fdest (support N.eqb o_costly x aos)) out &&
  forallb (fun x => if gte_f_plus_one fdest (support N.eqb o_costly x aos) then memN x out else true)
          (all_items o_costly aos).

Definition nonces_ok (fdest : Z) (aos : list ao) (out : list nonce_t) : bool :=
  nodupb nkey_eqb (map nkey out) &&
  forallb (fun x => N.leb (f_plus_1 fdest) (support nonce_eqb nonce_triples x aos)) out &&
  forallb (fun x => if N.leb (f_plus_1 fdest) (support nonce_eqb nonce_triples x aos)
                    then existsb (nkey_eqb (nkey x)) (map nkey out) else true)
          (all_items nonce_triples aos).

Definition c07_ok (i : c07_in) (o : c07_out) : bool :=
  let '(bigF, dest, fchain, aos) := i in
  let vaos := accepted (fst o) aos in
  match snd o with
  | Ok (cs, ms, ts, ks, ns) =>
      negb (Z.ltb (Z.of_nat (length vaos)) bigF) &&
      commits_ok dest fchain vaos cs && msgs_ok fchain vaos ms && tokens_ok fchain vaos ts &&
      costly_ok (f_dest dest fchain) vaos ks && nonces_ok (f_dest dest fchain) vaos ns
  | Err => Z.ltb (Z.of_nat (length vaos)) bigF    (* the only legitimate refusal *)
  | _ => false
  end.

(* recorded class: 2 = F13e (a message with f+1 reporters of token data and a slot index reported by fewer than f+1
   oracles). Class 1 (F13d, unknown chain key) is repaired: such observations are rejected by the validation. *)
Definition lonely_slot (fchain : list (N * Z)) (aos : list ao) : bool :=
  existsb (fun a => existsb (fun cl => existsb (fun ss =>
      negb (idx_forallb (fun i _ => match thr_of fchain (fst cl) with
                                    | Some thr => N.leb thr (support (fun _ _ => true) (has_slot (fst cl) (fst ss) i) tt aos) ||
                                                  negb (N.leb thr (support (fun _ _ => true) (has_slot (fst cl) (fst ss) O) tt aos))
                                    | None => true end) O (snd ss)))
    (snd cl)) (o_tokens (snd a))) aos.
(* the class predicates look at the observations the (model of the) validation accepts *)
Definition c07_known (i : c07_in) : N :=
  let '(bigF, dest, fchain, aos) := i in
  let vaos := accepted (map (fun a => validate (snd (fst a)) dest fchain (snd a)) aos) aos in
  if lonely_slot fchain vaos then 2%N else 0%N.

Definition c07_judge := judge c07_model c07_oeqb c07_ok c07_known.

(* ---------- part outcome: Plugin.ValidateObservation + Plugin.Outcome ----------
   input: phase (1 GetCommitReports: the outcome's pending reports are the merged commit reports, flattened;
   2 GetMessages: the outcome's reports carry the merged messages of their chain), F of the reporting config, destination,
   the home chain's fChain, the attributed observations.  output: verdicts, (commit reports by id, chain -> seq -> message) *)
Definition c07o_in := (N * Z * N * list (N * Z) * list (N * list N * obs))%type.
Definition c07o_out := (list bool * res (list commit * list (N * list (N * msg))))%type.
(* getCommitReportsOutcome drops an agreed report when another agreed report of its chain has the same root or an
   overlapping interval (repair of F76; every report conflicts with itself) *)
Definition c_conflicts (a b : commit) : bool :=
  N.eqb (c_src a) (c_src b) && (N.eqb (c_root a) (c_root b) || overlaps (c_range a) (c_range b)).
Definition drop_conflicting_c (l : list commit) : list commit :=
  filter (fun x => Nat.leb (length (filter (c_conflicts x) l)) 1) l.
Definition c07o_model (i : c07o_in) : c07o_out :=
  let '(phase, bigF, dest, fchain, aos) := i in
  let vals := map (fun a => validate (snd (fst a)) dest fchain (snd a)) aos in
  (vals, match get_consensus bigF dest fchain (accepted vals aos) with
         | Ok m => let '(cs, ms, _, _, _) := canon m in
                   if N.eqb phase 1 then Ok (by_cid (drop_conflicting_c (flat_map snd cs)), []) else Ok ([], ms)
         | Err => Err | Panic => Panic | Spin => Spin end).
Definition c07o_oeqb (a b : c07o_out) : bool :=
  list_eqb Bool.eqb (fst a) (fst b) &&
  res_eqb (fun x y => list_eqb commit_eqb (fst x) (fst y) && msgs_eq (snd x) (snd y)) (snd a) (snd b).
(* a flattened commit report has f_dest+1 distinct reporters under the key of its own source chain, and every report
   with that support under a key is present, unless another such report of its chain has the same root or an overlapping
   interval (then both are dropped: repair of F76) *)
Definition agreed_at (dest : N) (fchain : list (N * Z)) (aos : list ao) (k : N) (x : commit) : bool :=
  memN k (keys fchain) && existsb (commit_eqb x) (all_items (commits_at k) aos) &&
  N.leb (f_plus_1 (f_dest dest fchain)) (support commit_eqb (commits_at k) x aos).
Definition all_agreed (dest : N) (fchain : list (N * Z)) (aos : list ao) : list commit :=
  flat_map (fun kf => filter (agreed_at dest fchain aos (fst kf)) (dedup commit_eqb (all_items (commits_at (fst kf)) aos))) fchain.
Definition commits_flat_ok (dest : N) (fchain : list (N * Z)) (aos : list ao) (out : list commit) : bool :=
  let agreed := all_agreed dest fchain aos in
  forallb (fun x => agreed_at dest fchain aos (c_src x) x) out &&
  forallb (fun x => if Nat.leb (length (filter (c_conflicts x) agreed)) 1
                    then existsb (commit_eqb x) out else negb (existsb (commit_eqb x) out)) agreed.
Definition c07o_ok (i : c07o_in) (o : c07o_out) : bool :=
  let '(phase, bigF, dest, fchain, aos) := i in
  let vaos := accepted (fst o) aos in
  match snd o with
  | Ok (cs, ms) =>
      negb (Z.ltb (Z.of_nat (length vaos)) bigF) &&
      (if N.eqb phase 1 then commits_flat_ok dest fchain vaos cs && match ms with [] => true | _ => false end
       else msgs_ok fchain vaos ms && match cs with [] => true | _ => false end)
  | Err => Z.ltb (Z.of_nat (length vaos)) bigF
  | _ => false
  end.
Definition c07o_judge := judge c07o_model c07o_oeqb c07o_ok (fun _ => 0%N).

(* ---------- part quorum: Plugin.ObservationQuorum = at least F+1 observations ---------- *)
Definition quorum_model (i : N * Z * N) : N := let '(_, bigF, cnt) := i in if Z.leb (bigF + 1) (Z.of_N cnt) then 1%N else 0%N.
Definition quorum_judge := judge quorum_model N.eqb (fun i o => N.eqb (quorum_model i) o) (fun _ => 0%N).

(* ---------- part execsys: whole execute cycles on real plugins, judged by Check/ExecSys_check.v (its case terms use
   that module's constructors: the part imports it, see 'coq_import' in lib/specs/C07.py) ---------- *)
Require Verif.Check.ExecSys_check.
Definition sys_judge := Verif.Check.ExecSys_check.sys_judge.

(* C19_check.v — case types, model runner and executable property for the C19 correspondence
   (background token-data observer). *)
Require Export Verif.Model.Base Verif.Model.BgObserver.

Definition tok_eqb (a b : tok) : bool :=
  Bool.eqb (t_ready a) (t_ready b) && Bool.eqb (t_sup a) (t_sup b) && N.eqb (t_data a) (t_data b).
Definition tdata_eqb : tdata -> tdata -> bool := list_eqb tok_eqb.
Definition ent_eqb (a b : N * N * tdata) : bool :=
  N.eqb (fst (fst a)) (fst (fst b)) && N.eqb (snd (fst a)) (snd (fst b)) && tdata_eqb (snd a) (snd b).
Definition obs_res_eqb (a b : obs_res) : bool :=
  match a, b with
  | Done x, Done y => list_eqb ent_eqb x y
  | ObsErr, ObsErr | Blocked, Blocked => true
  | _, _ => false
  end.
Definition bout_eqb (a b : bout) : bool :=
  match a, b with
  | OObs x, OObs y => obs_res_eqb x y
  | OProbe q f, OProbe q' f' => list_eqb N.eqb q q' && list_eqb N.eqb f f'
  | OCache n, OCache n' => N.eqb n n'
  | OTake t f, OTake t' f' => Bool.eqb t t' && Bool.eqb f f'
  | ONone, ONone => true
  | _, _ => false
  end.

(* one schedule: (workers, ttl, events); output: the per-event observations, then (Close returned, no goroutine left) *)
Definition bg_in := (N * N * list bev)%type.
Definition bg_out := (list bout * (bool * bool))%type.

(* after Close: every idle worker and every pending sender can leave; are all gone then? *)
Definition shutdown_ok (workers : N) (st : bst) : bool * bool :=
  if closed st then
    (match inflight st with [] => true | _ => false end,          (* Close (wg.Wait) returns once no fetch is running *)
     N.eqb (idle st + stopped st) workers)                        (* all workers are idle or stopped: each can exit *)
  else (true, true).

Definition bg_model (i : bg_in) : bg_out :=
  let '(w, ttl, evs) := i in
  let '(st, outs) := brun ttl true true (binit w) evs in
  (outs, shutdown_ok w st).
Definition bg_oeqb (a b : bg_out) : bool :=
  list_eqb bout_eqb (fst a) (fst b) && Bool.eqb (fst (snd a)) (fst (snd b)) && Bool.eqb (snd (snd a)) (snd (snd b)).

(* ---- the property, evaluated on the implementation's observations ----
   hist: the successful, ready fetch results so far, newest first *)
Fixpoint latest (id : N) (hist : list (N * tdata * N)) : option (tdata * N) :=
  match hist with
  | [] => None
  | (i, d, t) :: r => if N.eqb i id then Some (d, t) else latest id r
  end.
Definition entry_ok (vw : msg -> tdata -> tdata) (ttl : N) (hist : list (N * tdata * N)) (now : N) (m : msg) (e : N * N * tdata) : bool :=
  let '(ch, sq, d) := e in
  N.eqb ch (m_chain m) && N.eqb sq (m_seq m) &&
  (tdata_eqb d (vw m (initial_td m)) ||
   match latest (m_id m) hist with
   | Some (d', t) => tdata_eqb d (vw m d') && sup_ready d' && N.leb now (t + ttl)   (* fetched, all supported ready, not expired *)
   | None => false
   end).
Fixpoint entries_ok vw (ttl : N) hist now (ms : list msg) (es : list (N * N * tdata)) : bool :=
  match ms, es with
  | [], [] => true
  | m :: ms', e :: es' => entry_ok vw ttl hist now m e && entries_ok vw ttl hist now ms' es'
  | _, _ => false      (* not one entry per message *)
  end.
Definition add_seen (seen : list N) (ms : list msg) : list N :=
  fold_left (fun s m => if memN (m_id m) s then s else m_id m :: s) ms seen.
(* seen: the distinct message ids asked for so far (a message waits at most once, so the queue is never longer) *)
(* the probe that follows an Observe (only worker pick-ups in between), if any: (ids waiting, ids being fetched) *)
Fixpoint next_probe (evs : list bev) (outs : list bout) : option (list N * list N) :=
  match evs, outs with
  | BTake _ :: e', _ :: o' => next_probe e' o'
  | BProbe :: _, OProbe q f :: _ => Some (q, f)
  | _, _ => None
  end.
(* safety form of "every message asked for is eventually fetched": once Observe has answered and the idle workers have
   picked up what they can, a message asked for is served from the cache, or waits in the queue, or is being fetched -
   never silently dropped *)
Definition accounted (vw : msg -> tdata -> tdata) (ttl : N) (hist : list (N * tdata * N)) (now : N) (q f : list N) (m : msg) (e : N * N * tdata) : bool :=
  negb (tdata_eqb (snd e) (vw m (initial_td m))) || memN (m_id m) q || memN (m_id m) f ||
  match latest (m_id m) hist with       (* cached data that looks exactly like the placeholder *)
  | Some (d', t) => tdata_eqb (vw m d') (vw m (initial_td m)) && N.leb now (t + ttl)
  | None => false
  end.
Fixpoint all_accounted vw ttl hist now q f (ms : list msg) (es : list (N * N * tdata)) : bool :=
  match ms, es with
  | m :: ms', e :: es' => accounted vw ttl hist now q f m e && all_accounted vw ttl hist now q f ms' es'
  | _, _ => true
  end.
(* may this Observe answer with an error? never for the background observer alone; the composite refuses to merge
   cached data whose slot count differs from the message's token count *)
Definition err_allowed (strict : bool) (ttl : N) (hist : list (N * tdata * N)) (now : N) (ms : list msg) : bool :=
  negb strict &&
  existsb (fun m => match latest (m_id m) hist with
                    | Some (d', t) => N.leb now (t + ttl) && negb (Nat.eqb (length d') (length (m_sup m)))
                    | None => false end) ms.
Fixpoint walk_ok (strict : bool) (vw : msg -> tdata -> tdata) (w ttl : N) (seen : list N) (hist : list (N * tdata * N)) (evs : list bev) (outs : list bout) : bool :=
  match evs, outs with
  | [], [] => true
  | BObserve ms now :: e', OObs r :: o' =>
      match r with
      | Done es => entries_ok vw ttl hist now ms es &&    (* answered at once, mirrored structure, ready-only, not expired *)
                   match next_probe e' o' with
                   | Some (q, f) => all_accounted vw ttl hist now q f ms es
                   | None => true
                   end
      | ObsErr => err_allowed strict ttl hist now ms
      | Blocked => false
      end && walk_ok strict vw w ttl (add_seen seen ms) hist e' o'
  | BReturn id (FOk d) now :: e', _ :: o' =>
      walk_ok strict vw w ttl seen (if sup_ready d then (id, d, now) :: hist else hist) e' o'
  | BTake _ :: e', OTake t f :: o' => t && f && walk_ok strict vw w ttl seen hist e' o'      (* only waiting messages, oldest call first *)
  | BProbe :: e', OProbe q f :: o' =>
      (match q with [] => true | _ => N.leb w (N.of_nat (length f)) end) &&
      Nat.leb (length q) (length seen) && nodupb N.eqb q && walk_ok strict vw w ttl seen hist e' o'   (* no idle worker while messages wait *)
  (* Judge soundness (Proofs/JudgeSoundC19P.v): an Observe / pick-up / probe event whose recorded output is of another
     kind used to fall through to the catch-all below and was accepted unchecked - e.g. an Observe "answered" by ONone
     passed although C19_nonblocking demands an answer (witness bg_ok_before_unsound).  Such an output is now rejected. *)
  | BObserve _ _ :: _, _ :: _ | BTake _ :: _, _ :: _ | BProbe :: _, _ :: _ => false
  | _ :: e', _ :: o' => walk_ok strict vw w ttl seen hist e' o'
  | _, _ => false
  end.
Definition bg_ok (i : bg_in) (o : bg_out) : bool :=
  let '(w, ttl, evs) := i in
  walk_ok true (fun _ d => d) w ttl [] [] evs (fst o) && fst (snd o) && snd (snd o).
Definition bg_judge := judge bg_model bg_oeqb bg_ok (fun _ => 0%N).

(* =====================================================================================================
   part comp: the same schedules driven through NewCompositeObservers(NewBackgroundObserver(gated observer)).
   compositeTokenDataObserver.Observe = initTokenDataObservations + merge of the child's answer:
   a token no child supports is a ready no-op, a supported token shows the child's slot if the child marks it supported,
   else "not ready"; a child answer with another slot count than the message makes the whole call fail. *)
Fixpoint comp_slots (sup : list bool) (d : tdata) : tdata :=
  match sup, d with
  | s :: sup', t :: d' =>
      (if s then (if t_sup t then t else mkT false true 0) else mkT true true 0) :: comp_slots sup' d'
  | _, _ => []
  end.
Definition comp_view (m : msg) (d : tdata) : tdata := comp_slots (m_sup m) d.
Fixpoint comp_entries (ms : list msg) (es : list (N * N * tdata)) : option (list (N * N * tdata)) :=
  match ms, es with
  | [], [] => Some []
  | m :: ms', (ch, sq, d) :: es' =>
      if Nat.eqb (length d) (length (m_sup m)) then
        match comp_entries ms' es' with Some r => Some ((ch, sq, comp_view m d) :: r) | None => None end
      else None
  | _, _ => None
  end.
Fixpoint comp_outs (evs : list bev) (outs : list bout) : list bout :=
  match evs, outs with
  | BObserve ms _ :: e', OObs (Done es) :: o' =>
      OObs (match comp_entries ms es with Some r => Done r | None => ObsErr end) :: comp_outs e' o'
  | _ :: e', o :: o' => o :: comp_outs e' o'
  | _, _ => []
  end.
(* output: observations, (Close returned, no goroutine left), IsTokenSupported passes through *)
Definition comp_out := (list bout * (bool * bool) * bool)%type.
Definition comp_model (i : bg_in) : comp_out :=
  let '(w, ttl, evs) := i in
  let '(outs, fin) := bg_model i in (comp_outs evs outs, fin, true).
Definition comp_oeqb (a b : comp_out) : bool := bg_oeqb (fst a) (fst b) && Bool.eqb (snd a) (snd b).
Definition comp_ok (i : bg_in) (o : comp_out) : bool :=
  let '(w, ttl, evs) := i in
  walk_ok false comp_view w ttl [] [] evs (fst (fst o)) && fst (snd (fst o)) && snd (snd (fst o)) && snd o.
Definition comp_judge := judge comp_model comp_oeqb comp_ok (fun _ => 0%N).

(* =====================================================================================================
   part ctor: NewConfigBasedCompositeObservers on a USDC/CCTP observer configuration.
   input: (NumWorkers, CacheExpirationInterval, CacheCleanupInterval, ObserveTimeout) in ms;
   output: (a background observer was built, its worker count, goroutines it started,
            its expiry, the cleanup period measured on its cache, its observe timeout,
            goroutines left after Close of the composite) *)
Definition ctor_in := (N * N * N * N)%type.
Definition ctor_out := (bool * N * N * N * N * N * N)%type.
Definition ctor_model (i : ctor_in) : ctor_out :=
  let '(w, e, c, t) := i in
  if N.eqb w 0 then (false, 0, 0, 0, 0, 0, 0)%N else (true, w, w + 1, e, c, t, 0)%N.
Definition ctor_oeqb (a b : ctor_out) : bool :=
  let '(a1, a2, a3, a4, a5, a6, a7) := a in
  let '(b1, b2, b3, b4, b5, b6, b7) := b in
  Bool.eqb a1 b1 && N.eqb a2 b2 && N.eqb a3 b3 && N.eqb a4 b4 && N.eqb a5 b5 && N.eqb a6 b6 && N.eqb a7 b7.
(* the configuration is the specification: background iff workers are configured, every interval where it belongs *)
Definition ctor_ok (i : ctor_in) (o : ctor_out) : bool := ctor_oeqb (ctor_model i) o.
Definition ctor_judge := judge ctor_model ctor_oeqb ctor_ok (fun _ => 0%N).

(* =====================================================================================================
   part plugin: execute.Plugin.getMessagesObservation over composite(background(gated observer)), called before and
   after the gate opens, then Plugin.Close.
   input: (workers, messages, the token data the underlying observer answers per message);
   output: (first answer, answer once every fetch has returned, fetches performed, Close returned, no goroutine left) *)
Definition plug_in := (N * list msg * list tdata)%type.
Definition plug_out := (bout * bout * N * bool * bool)%type.
Fixpoint plug_entries (ms : list msg) (ds : list tdata) (fetched : bool) : list (N * N * tdata) :=
  match ms, ds with
  | m :: ms', d :: ds' =>
      (m_chain m, m_seq m, comp_view m (if fetched && sup_ready d then d else initial_td m)) :: plug_entries ms' ds' fetched
  | _, _ => []
  end.
Definition plug_model (i : plug_in) : plug_out :=
  let '(w, ms, ds) := i in
  (OObs (Done (plug_entries ms ds false)), OObs (Done (plug_entries ms ds true)), N.of_nat (length ms), true, true).
Definition plug_oeqb (a b : plug_out) : bool :=
  let '(a1, a2, a3, a4, a5) := a in
  let '(b1, b2, b3, b4, b5) := b in
  bout_eqb a1 b1 && bout_eqb a2 b2 && N.eqb a3 b3 && Bool.eqb a4 b4 && Bool.eqb a5 b5.
(* the round is never held up, every message is fetched exactly once, only fetched ready data is reported, Close cleans up *)
Definition plug_ok (i : plug_in) (o : plug_out) : bool := plug_oeqb (plug_model i) o.
Definition plug_judge := judge plug_model plug_oeqb plug_ok (fun _ => 0%N).

(* C19_check.v — case types, model runner and executable property for the C19 correspondence
   (background token-data observer). *)
Require Export Verif.Model.Base Verif.Model.BgObserver.

Definition tok_eqb (a b : tok) : bool :=
  Bool.eqb (t_ready a) (t_ready b) && Bool.eqb (t_sup a) (t_sup b) && N.eqb (t_data a) (t_data b).
Definition tdata_eqb : tdata -> tdata -> bool := list_eqb tok_eqb.
Definition ent_eqb (a b : N * N * tdata) : bool :=
  N.eqb (fst (fst a)) (fst (fst b)) && N.eqb (snd (fst a)) (snd (fst b)) && tdata_eqb (snd a) (snd b).
Definition obs_res_eqb (a b : obs_res) : bool :=
  match a, b with
  | Done x, Done y => list_eqb ent_eqb x y
  | ObsErr, ObsErr | Blocked, Blocked => true
  | _, _ => false
  end.
Definition bout_eqb (a b : bout) : bool :=
  match a, b with
  | OObs x, OObs y => obs_res_eqb x y
  | OProbe q f, OProbe q' f' => list_eqb N.eqb q q' && list_eqb N.eqb f f'
  | OCache n, OCache n' => N.eqb n n'
  | OTake t f, OTake t' f' => Bool.eqb t t' && Bool.eqb f f'
  | ONone, ONone => true
  | _, _ => false
  end.

(* one schedule: (workers, ttl, events); output: the per-event observations, then (Close returned, no goroutine left) *)
Definition bg_in := (N * N * list bev)%type.
Definition bg_out := (list bout * (bool * bool))%type.

(* after Close: every idle worker and every pending sender can leave; are all gone then? *)
Definition shutdown_ok (workers : N) (st : bst) : bool * bool :=
  if closed st then
    (match inflight st with [] => true | _ => false end,          (* Close (wg.Wait) returns once no fetch is running *)
     N.eqb (idle st + stopped st) workers)                        (* all workers are idle or stopped: each can exit *)
  else (true, true).

Definition bg_model (i : bg_in) : bg_out :=
  let '(w, ttl, evs) := i in
  let '(st, outs) := brun ttl true true (binit w) evs in
  (outs, shutdown_ok w st).
Definition bg_oeqb (a b : bg_out) : bool :=
  list_eqb bout_eqb (fst a) (fst b) && Bool.eqb (fst (snd a)) (fst (snd b)) && Bool.eqb (snd (snd a)) (snd (snd b)).

(* ---- the property, evaluated on the implementation's observations ----
   hist: the successful, ready fetch results so far, newest first *)
Fixpoint latest (id : N) (hist : list (N * tdata * N)) : option (tdata * N) :=
  match hist with
  | [] => None
  | (i, d, t) :: r => if N.eqb i id then Some (d, t) else latest id r
  end.
Definition entry_ok (ttl : N) (hist : list (N * tdata * N)) (now : N) (m : msg) (e : N * N * tdata) : bool :=
  let '(ch, sq, d) := e in
  N.eqb ch (m_chain m) && N.eqb sq (m_seq m) &&
  (tdata_eqb d (initial_td m) ||
   match latest (m_id m) hist with
   | Some (d', t) => tdata_eqb d d' && sup_ready d && N.leb now (t + ttl)   (* fetched, all supported ready, not expired *)
   | None => false
   end).
Fixpoint entries_ok (ttl : N) hist now (ms : list msg) (es : list (N * N * tdata)) : bool :=
  match ms, es with
  | [], [] => true
  | m :: ms', e :: es' => entry_ok ttl hist now m e && entries_ok ttl hist now ms' es'
  | _, _ => false      (* not one entry per message *)
  end.
Definition add_seen (seen : list N) (ms : list msg) : list N :=
  fold_left (fun s m => if memN (m_id m) s then s else m_id m :: s) ms seen.
(* seen: the distinct message ids asked for so far (a message waits at most once, so the queue is never longer) *)
(* the probe that follows an Observe (only worker pick-ups in between), if any: (ids waiting, ids being fetched) *)
Fixpoint next_probe (evs : list bev) (outs : list bout) : option (list N * list N) :=
  match evs, outs with
  | BTake _ :: e', _ :: o' => next_probe e' o'
  | BProbe :: _, OProbe q f :: _ => Some (q, f)
  | _, _ => None
  end.
(* safety form of "every message asked for is eventually fetched": once Observe has answered and the idle workers have
   picked up what they can, a message asked for is served from the cache, or waits in the queue, or is being fetched -
   never silently dropped *)
Definition accounted (ttl : N) (hist : list (N * tdata * N)) (now : N) (q f : list N) (m : msg) (e : N * N * tdata) : bool :=
  negb (tdata_eqb (snd e) (initial_td m)) || memN (m_id m) q || memN (m_id m) f ||
  match latest (m_id m) hist with       (* cached data that looks exactly like the placeholder *)
  | Some (d', t) => tdata_eqb d' (initial_td m) && N.leb now (t + ttl)
  | None => false
  end.
Fixpoint all_accounted ttl hist now q f (ms : list msg) (es : list (N * N * tdata)) : bool :=
  match ms, es with
  | m :: ms', e :: es' => accounted ttl hist now q f m e && all_accounted ttl hist now q f ms' es'
  | _, _ => true
  end.
Fixpoint walk_ok (w ttl : N) (seen : list N) (hist : list (N * tdata * N)) (evs : list bev) (outs : list bout) : bool :=
  match evs, outs with
  | [], [] => true
  | BObserve ms now :: e', OObs r :: o' =>
      match r with
      | Done es => entries_ok ttl hist now ms es &&    (* answered at once, mirrored structure, ready-only, not expired *)
                   match next_probe e' o' with
                   | Some (q, f) => all_accounted ttl hist now q f ms es
                   | None => true
                   end
      | _ => false                                     (* blocked, or internal error *)
      end && walk_ok w ttl (add_seen seen ms) hist e' o'
  | BReturn id (FOk d) now :: e', _ :: o' =>
      walk_ok w ttl seen (if sup_ready d then (id, d, now) :: hist else hist) e' o'
  | BTake _ :: e', OTake t f :: o' => t && f && walk_ok w ttl seen hist e' o'      (* only waiting messages, oldest call first *)
  | BProbe :: e', OProbe q f :: o' =>
      (match q with [] => true | _ => N.leb w (N.of_nat (length f)) end) &&
      Nat.leb (length q) (length seen) && nodupb N.eqb q && walk_ok w ttl seen hist e' o'   (* no idle worker while messages wait *)
  | _ :: e', _ :: o' => walk_ok w ttl seen hist e' o'
  | _, _ => false
  end.
Definition bg_ok (i : bg_in) (o : bg_out) : bool :=
  let '(w, ttl, evs) := i in
  walk_ok w ttl [] [] evs (fst o) && fst (snd o) && snd (snd o).
Definition bg_judge := judge bg_model bg_oeqb bg_ok (fun _ => 0%N).

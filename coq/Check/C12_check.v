(* C12_check.v — case types, model runners and executable property for the C12 correspondence:
   plugin-level ValidateObservation verdicts of the commit and the execute plugin. *)
Require Export Verif.Model.Base Verif.Model.Roles Verif.Check.RolesHist_check.
Require Import Verif.Proofs.RolesP.

(* Round context: the harness takes the verdict in every kind of round.  Of the context only the retry flag of the
   query (merkle validator) and the presence of the discovery processor can influence the verdict; the previous outcome
   (type / state), RMN signatures in the query, the RMN switch and the contracts-initialised flag must not, so the model
   ignores them and any dependence of the implementation on them shows up as a mismatch and — for role data — as a
   violated property.  Without discovery processor the discovery part is neither validated nor used by Outcome: it is
   judged as absent. *)
Definition strip_cd (disc : bool) (ob : cobs) : cobs :=
  if disc then ob else mkCobs (co_m ob) (co_t ob) (co_f ob) [] (co_fchain ob).
Definition strip_ed (disc : bool) (ob : eobs) : eobs :=
  if disc then ob
  else mkEobs (e_commit ob) (e_msgs ob) (e_keys_ok ob) (e_tokens ob) (e_costly ob) (e_nonces ob) [].

(* ---- the executable property: the verdict characterisation of C12_commit_verdict / C12_exec_verdict, evaluated on the
   implementation's verdict v.  Some field about a chain the observer is not designated for: v must be "rejected".
   Every field about a designated chain: v is "accepted" EXACTLY when the observer has a peer id, the destination is
   configured (commit), the observation is well-formed and (execute) names configured chains only.
   Until the judge-soundness pass cv_ok / ev_ok were RolesP.commit_prop_check / exec_prop_check, which in the second
   case only demanded "accepted" when those conditions hold and left the verdict FREE when they fail: an implementation
   that accepts a malformed observation (duplicate roots, nil price, overlapping reports ...), an observation while the
   destination is not configured, or an empty observation from an oracle without peer id passed the property although
   C12_commit_verdict / C12_exec_verdict say "rejected" (witnesses: JudgeSoundC12P.cv_ok_before_unsound /
   ev_ok_before_unsound).  The checks below are strictly stronger and still accept the model's own verdict
   (JudgeSoundC12P.cv_model_passes / ev_model_passes). ---- *)
Definition commit_verdict_check (g : cfg) (retry : bool) (o : N) (ob : cobs) (v : bool) : bool :=
  if is_nil (bad_fields g o (cfields g ob))
  then Bool.eqb v (known_oracle g o && dest_configured g && wf_commit retry ob)
  else negb v.
Definition exec_verdict_check (g : cfg) (o : N) (ob : eobs) (v : bool) : bool :=
  if is_nil (bad_fields g o (efields g ob))
  then Bool.eqb v (known_oracle g o && wf_exec ob && chains_known g ob)
  else negb v.

(* ---- sink C12_commit: input (cfg, (previous merkle outcome type, RMN signatures in query, RMN enabled, discovery
   processor present, contracts initialised), q.RetryRMNSignatures, observer, observation); output: accepted? ---- *)
Definition cctx := (N * bool * bool * bool * bool)%type.
Definition cctx_disc (c : cctx) : bool := let '(_, _, _, d, _) := c in d.
Definition cv_in := (cfg * cctx * bool * N * cobs)%type.
Definition cv_model (i : cv_in) : bool :=
  let '(g, c, retry, o, ob) := i in validate_commit g retry o (strip_cd (cctx_disc c) ob).
Definition cv_ok (i : cv_in) (v : bool) : bool :=
  let '(g, c, retry, o, ob) := i in commit_verdict_check g retry o (strip_cd (cctx_disc c) ob) v.
Definition cv_known (i : cv_in) : N :=
  let '(g, c, retry, o, ob) := i in known_code (bad_fields g o (cfields g (strip_cd (cctx_disc c) ob))).
Definition cv_judge := judge cv_model Bool.eqb cv_ok cv_known.

(* ---- sink C12_exec: input (cfg, (previous outcome state, discovery processor present, contracts initialised),
   observer, observation); output: accepted? ---- *)
Definition ectx := (N * bool * bool)%type.
Definition ectx_disc (c : ectx) : bool := let '(_, d, _) := c in d.
Definition ev_in := (cfg * ectx * N * eobs)%type.
Definition ev_model (i : ev_in) : bool := let '(g, c, o, ob) := i in validate_exec g o (strip_ed (ectx_disc c) ob).
Definition ev_ok (i : ev_in) (v : bool) : bool :=
  let '(g, c, o, ob) := i in exec_verdict_check g o (strip_ed (ectx_disc c) ob) v.
Definition ev_known (i : ev_in) : N :=
  let '(g, c, o, ob) := i in known_code (bad_fields g o (efields g (strip_ed (ectx_disc c) ob))).
Definition ev_judge := judge ev_model Bool.eqb ev_ok ev_known.

(* ---- sinks C12_commit_hist / C12_exec_hist: verdicts of long-lived plugins (one per oracle) on real home-chain pollers
   while the CCIPHome configuration changes between rounds.  Input: (history context, round input without the role
   configuration).  Model: the verdict on the role map read off the poller's state machine after the poll results of the
   context; property and known class: on the configuration of the most recent successful poll alone. ---- *)
Definition cvh_in := (hctx * (cctx * bool * N * cobs))%type.
Definition cvh_at (g : cfg) (x : cvh_in) : cv_in := let '(c, retry, o, ob) := snd x in (g, c, retry, o, ob).
Definition cvh_model (x : cvh_in) : bool := cv_model (cvh_at (hctx_model (fst x)) x).
Definition cvh_ok (x : cvh_in) (v : bool) : bool := cv_ok (cvh_at (hctx_spec (fst x)) x) v.
Definition cvh_known (x : cvh_in) : N := cv_known (cvh_at (hctx_spec (fst x)) x).
Definition cvh_judge := judge cvh_model Bool.eqb cvh_ok cvh_known.

Definition evh_in := (hctx * (ectx * N * eobs))%type.
Definition evh_at (g : cfg) (x : evh_in) : ev_in := let '(c, o, ob) := snd x in (g, c, o, ob).
Definition evh_model (x : evh_in) : bool := ev_model (evh_at (hctx_model (fst x)) x).
Definition evh_ok (x : evh_in) (v : bool) : bool := ev_ok (evh_at (hctx_spec (fst x)) x) v.
Definition evh_known (x : evh_in) : N := ev_known (evh_at (hctx_spec (fst x)) x).
Definition evh_judge := judge evh_model Bool.eqb evh_ok evh_known.

(* the API sink of the history parts (judge shared with the other roles property) *)
Definition api_judge := Verif.Check.RolesHist_check.api_judge.

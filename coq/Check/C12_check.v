(* C12_check.v — case types, model runners and executable property for the C12 correspondence:
   plugin-level ValidateObservation verdicts of the commit and the execute plugin. *)
Require Export Verif.Model.Base Verif.Model.Roles.
Require Import Verif.Proofs.RolesP.

(* ---- sink C12_commit: input (cfg, q.RetryRMNSignatures, observer, observation); output: accepted? ---- *)
Definition cv_in := (cfg * bool * N * cobs)%type.
Definition cv_model (i : cv_in) : bool := let '(g, retry, o, ob) := i in validate_commit g retry o ob.
Definition cv_ok (i : cv_in) (v : bool) : bool :=
  let '(g, retry, o, ob) := i in commit_prop_check g retry o ob v.
Definition cv_known (i : cv_in) : N :=
  let '(g, retry, o, ob) := i in known_code (bad_fields g o (cfields g ob)).
Definition cv_judge := judge cv_model Bool.eqb cv_ok cv_known.

(* ---- sink C12_exec: input (cfg, observer, observation); output: accepted? ---- *)
Definition ev_in := (cfg * N * eobs)%type.
Definition ev_model (i : ev_in) : bool := let '(g, o, ob) := i in validate_exec g o ob.
Definition ev_ok (i : ev_in) (v : bool) : bool := let '(g, o, ob) := i in exec_prop_check g o ob v.
Definition ev_known (i : ev_in) : N := let '(g, o, ob) := i in known_code (bad_fields g o (efields g ob)).
Definition ev_judge := judge ev_model Bool.eqb ev_ok ev_known.

(* C04 — Commit history: destination sequence numbers stay contiguous; no stale sends.
   Theorems only; proofs in Proofs/CommitSysP.v, CommitSysConsP.v, CommitSysSMP.v, CommitLiveP.v (which build on the
   C01, C02, C03 developments: CommitConsensusP.v, CommitMerkleP.v, CommitSMP.v).

   Vocabulary of the liveness part (8.-11.; Model/CommitLive.v, Proofs/CommitLiveP.v):
     round                         = (query of the leader, validated attributed observations) of one OCR round;
     sys_step / sys_run            = getOutcome = consensus (C01 model) then state machine (C03 model), one round /
                                     folded over a list of rounds from a previous outcome; cfg_of = how the RMN remote
                                     config is taken from the consensus (the correspondence runs with fun _ => empty);
     eff_count max n prev rounds   = number of rounds that are not RMN-retry rounds (C03: is_retry = building state
                                     and the query asks for a retry; such a round reproduces the previous outcome);
     same_view get aos k f v       = at least 2f+1 distinct oracles report exactly (k, v) in field [get], and all
                                     oracles reporting another value for k lie in a set of at most f oracles;
     round_live .. prev r          = what round r offers, by the state prev puts the processor in:
                                       selecting: validated observations, uint64 on-ramp numbers, the DON's same view
                                                  (at 2F+1) of f for the destination and for k, a same view (off, on) of
                                                  k's off-ramp next (among the destination readers, at f_dest) / on-ramp
                                                  latest (among the readers of k, at f_k) with off <= on, and the
                                                  interval [off, min(on, off+n-1)] is [readable];
                                       building : nothing if it is an RMN-retry round; else validated observations, the
                                                  f views, and for every READABLE interval selected for k a same view of
                                                  its root (chain, on-ramp address, interval, root) — and the RMN
                                                  bundle of the query, if there is one, is well formed and covers it;
                                       waiting  : nothing (not even consensus);
     hist_all .. P prev rounds     = P holds of every round, each taken with the outcome that precedes it;
     readable s e                  = any predicate: "the honest quorum can read chain k over [s,e]" (chains stay
                                     readable); it only links what selecting rounds promise to what building rounds owe. *)
Require Import Verif.Model.Base Verif.Model.Consensus Verif.Model.SeqRange Verif.Model.CommitMerkle
               Verif.Model.CommitConsensus Verif.Proofs.CommitConsensusP
               Verif.Model.CommitSys Verif.Proofs.CommitSysP Verif.Proofs.CommitSysConsP
               Verif.Model.CommitLive Verif.Proofs.CommitLiveP.
Require Verif.Model.CommitSM Verif.Proofs.CommitSMP Verif.Proofs.CommitSysSMP.

(* 1. The pre-transmission re-check: for EVERY report and EVERY state of the destination at that moment, an honest
      oracle's state check passes only if no chain occurs twice and every interval begins exactly at the
      destination's then-current next sequence number. (ShouldTransmitAcceptedReport returns true only if it passes:
      C16_commit_transmit_only_active.) *)
Theorem C04_transmit_starts_at_cursor : forall roots c fails,
  roots_state_ok roots (honest_next_reader c fails) = true ->
  NoDup (map rr_chain roots) /\ forall r, In r roots -> rr_start r = next_of c (rr_chain r).
Proof. exact roots_state_ok_sound. Qed.
Print Assumptions C04_transmit_starts_at_cursor.

(* reader errors at that point block transmission of every report that carries roots *)
Theorem C04_transmit_reader_failure : forall r roots c,
  roots_state_ok (r :: roots) (honest_next_reader c true) = false.
Proof. exact roots_state_reader_failure. Qed.
Print Assumptions C04_transmit_reader_failure.

(* 2. No stale sends: whatever an honest oracle agrees to transmit would be accepted by the off-ramp in the state
      it was checked against (late / reordered / duplicated transmissions are the off-ramp's business, 3.). *)
Theorem C04_no_stale_send : forall roots c fails,
  (forall r, In r roots -> (rr_start r <= rr_end r)%N) ->
  roots_state_ok roots (honest_next_reader c fails) = true ->
  exists c', apply_roots c roots = Some c'.
Proof. exact transmit_not_stale. Qed.
Print Assumptions C04_no_stale_send.

(* 3. For ANY sequence of reports reaching the off-ramp (late, reordered, repeated, Byzantine-crafted), the
      intervals committed per source chain are consecutive from the initial cursor: no gaps, overlaps or repeats. *)
Theorem C04_committed_contiguous : forall init reports,
  let d := run_lands (mkDest init []) reports in
  forall k, contiguous_from (next_of init k) (committed_for d k).
Proof. exact lands_contiguous. Qed.
Print Assumptions C04_committed_contiguous.

(* 4. Roots. An honest oracle (any reader that returns only true finalized messages — possibly fewer than asked for,
      failing, lagging) observes a root for (k,[s,e]) only if it is the true merkle root of chain k over [s,e]. *)
Theorem C04_honest_root_true : forall h zero log supported ranges reader addr k s e a r,
  reader_honest log reader ->
  (forall k s e, In (k, (s, e)) ranges -> u64 e) ->
  In (k, (s, e), a, r) (observe_roots h zero supported ranges reader addr) ->
  In (k, (s, e)) ranges /\ true_root h zero log k s e r.
Proof. exact honest_observed_root_true. Qed.
Print Assumptions C04_honest_root_true.

Theorem C04_true_root_unique : forall h zero log k s e r r',
  true_root h zero log k s e r -> true_root h zero log k s e r' -> r = r'.
Proof. exact true_root_unique. Qed.
Print Assumptions C04_true_root_unique.

(* 5. Consensus: in every round, whatever the validated observation set, with at most f_k oracles outside the honest
      set for chain k, every agreed root for k is the true root of k's messages over the agreed interval. *)
Theorem C04_agreed_root_true : forall h zero log retry roles known dest aos F c k f B,
  valid_input retry roles known dest aos ->
  get_consensus F dest aos = Ok c ->
  alookup k (c_fchain c) = Some f -> (f < 2^63)%Z ->
  NoDup B -> (length B <= Z.to_nat f)%nat ->
  (forall o ob, In (o, ob) aos -> ~ In o B -> honest_roots h zero log ob) ->
  forall ch a s e r, alookup k (c_roots c) = Some (ch, a, (s, e), r) ->
    ch = k /\ true_root h zero log k s e r.
Proof. exact agreed_root_is_true_root. Qed.
Print Assumptions C04_agreed_root_true.

(* 6. Reports: the roots of an outcome are agreed roots of that round (or, in an RMN retry round, the previous
      outcome's), so by 5. every reported root is a true root. *)
Theorem C04_report_roots_are_agreed : forall max n prev q c r,
  In r (CommitSM.o_roots (CommitSM.get_outcome max n prev q (Some c))) ->
  (CommitSM.next_state (CommitSM.o_type prev) = CommitSM.Building /\ CommitSM.q_retry q = true /\ In r (CommitSM.o_roots prev))
  \/ In r (CommitSM.c_roots c).
Proof. exact CommitSysSMP.get_outcome_roots_agreed. Qed.
Print Assumptions C04_report_roots_are_agreed.

(* 7. Liveness, the round-level step (kept; superseded by 8.-10., which supply what it left open). Once the machine is
      in the selecting state, two rounds WITH GIVEN consensus values c1, c2 produce a report covering the pending
      messages of chain k: the first selects [off, min(on, off+n-1)], the second (not an RMN retry, RMN disabled)
      generates a report containing the agreed root of k. That consensus is reached from a same-view honest quorum is
      8.; the composition with C03_recovery over whole histories from any previous outcome is 9.; that the reported
      root is the true root is 10. *)
Theorem C04_liveness_round_partial : forall max n prev q1 q2 c1 c2 k off on r,
  CommitSM.next_state (CommitSM.o_type prev) = CommitSM.Selecting ->
  NoDup (map fst (CommitSM.c_off c1)) -> (forall k m, alookup k (CommitSM.c_on c1) = Some m -> u64 m) -> (1 <= n)%N ->
  In (k, off) (CommitSM.c_off c1) -> alookup k (CommitSM.c_on c1) = Some on -> (off <= on)%N ->
  CommitSM.q_retry q2 = false -> CommitSM.q_sigs q2 = None -> In r (CommitSM.c_roots c2) ->
  let o1 := CommitSM.get_outcome max n prev q1 (Some c1) in
  let o2 := CommitSM.get_outcome max n o1 q2 (Some c2) in
  CommitSM.o_type o1 = CommitSM.T_selected /\ In (k, (off, N.min on (off + n - 1))) (CommitSM.o_ranges o1) /\
  CommitSM.o_type o2 = CommitSM.T_generated /\ In r (CommitSM.o_roots o2).
Proof. exact CommitSysSMP.select_then_build_reports. Qed.
Print Assumptions C04_liveness_round_partial.

(* 8. From a same-view honest quorum to consensus (over the C01 model). For every F, role map and validated
      attributed observation list with distinct oracles: if the DON has a same view (2F+1 reporters, at most F
      dissenters) of f for the destination and of f for chain k, the consensus computation succeeds and adopts f for
      k; and in each per-chain field — merkle root, on-ramp latest, off-ramp next — a same view v of k (2f+1 distinct
      reporters of exactly v, at most f oracles reporting anything else for k) is THE agreed value of k, f being the
      f of the chain the data is read from: f_k for roots and on-ramp numbers, f_dest for off-ramp numbers (as
      repaired by fixes/F26.patch; C01_per_chain).
      (By C01_designated the reporters are designated readers; a value other than v has at most f < 2f+1 reporters.) *)
Theorem C04_honest_quorum_consensus : forall retry roles known dest aos,
  valid_input retry roles known dest aos ->
  forall F fd k f,
  (0 <= F < 2^63)%Z -> (f < 2^63)%Z -> (fd < 2^63)%Z ->
  same_view fchain_kv aos dest F fd -> same_view fchain_kv aos k F f ->
  exists c, get_consensus F dest aos = Ok c /\
    alookup dest (c_fchain c) = Some fd /\ alookup k (c_fchain c) = Some f /\
    (forall v, same_view roots_kv aos k f v -> alookup k (c_roots c) = Some v) /\
    (forall v, same_view onramp_kv aos k f v -> alookup k (c_onramp c) = Some v) /\
    (forall v, same_view offramp_kv aos k fd v -> alookup k (c_offramp c) = Some v).
Proof. exact honest_quorum_consensus. Qed.
Print Assumptions C04_honest_quorum_consensus.

(* 9. Liveness over histories. For every configuration (max checks: a Go uint; tree size n >= 1; F; roles), EVERY
      previous outcome whatsoever (any type value, any counters, any left-over intervals) and every list of rounds in
      which each round offers round_live (same-view honest quorum where the state needs one, messages of k pending,
      selected intervals readable): once (max+2)+2 rounds that are not RMN-retry rounds have happened, there has been
      a selecting round r1 in which the quorum's view of k was (next = off, latest = on), off <= on, followed — with
      only RMN-retry rounds in between — by a round r2 whose outcome is of type "report generated" and contains a root
      of chain k over [off, min(on, off+n-1)]; r2 is at most the (max+2)+2-th non-retry round.
      The destination cursor may move between selecting rounds (an earlier report landed): off is the view of the
      selecting round that led to the report. RMN-retry rounds are not bounded (C03: they change nothing). *)
Theorem C04_liveness : forall cfg_of F dest roles known k f fd (readable : N -> N -> Prop) max n prev rs,
  u64 max -> (1 <= n)%N -> (0 <= F < 2^63)%Z -> (f < 2^63)%Z -> (fd < 2^63)%Z ->
  hist_all cfg_of F dest max n (round_live F dest roles known k f fd readable n) prev rs ->
  (max + 2 + 2 <= CommitSMP.eff_count max n prev (sys_rounds cfg_of F dest rs))%N ->
  exists pre r1 mid r2 post off on a rt,
    rs = pre ++ r1 :: mid ++ r2 :: post /\
    (CommitSMP.eff_count max n prev (sys_rounds cfg_of F dest (pre ++ r1 :: mid ++ [r2])) <= max + 2 + 2)%N /\
    CommitSM.next_state (CommitSM.o_type (sys_run cfg_of F dest max n prev pre)) = CommitSM.Selecting /\
    same_view offramp_kv (snd r1) k fd off /\ same_view onramp_kv (snd r1) k f on /\ (off <= on)%N /\
    readable off (N.min on (off + n - 1)) /\
    let o := sys_run cfg_of F dest max n prev (pre ++ r1 :: mid ++ [r2]) in
    CommitSM.o_type o = CommitSM.T_generated /\
    In (k, (off, N.min on (off + n - 1)), a, rt) (CommitSM.o_roots o).
Proof. exact liveness. Qed.
Print Assumptions C04_liveness.

(* ... and with "nothing lands meanwhile" spelled out (in every selecting round the quorum's view of k's destination
   cursor is the same number off0): the report starts exactly at off0 *)
Theorem C04_liveness_fixed_cursor : forall cfg_of F dest roles known k f fd (readable : N -> N -> Prop) max n off0 prev rs,
  u64 max -> (1 <= n)%N -> (0 <= F < 2^63)%Z -> (f < 2^63)%Z -> (fd < 2^63)%Z ->
  hist_all cfg_of F dest max n
           (round_live F dest roles known k f fd (fun s e => s = off0 /\ readable s e) n) prev rs ->
  (max + 2 + 2 <= CommitSMP.eff_count max n prev (sys_rounds cfg_of F dest rs))%N ->
  exists pre r1 mid r2 post on a rt,
    rs = pre ++ r1 :: mid ++ r2 :: post /\
    (CommitSMP.eff_count max n prev (sys_rounds cfg_of F dest (pre ++ r1 :: mid ++ [r2])) <= max + 2 + 2)%N /\
    same_view onramp_kv (snd r1) k f on /\ (off0 <= on)%N /\
    let o := sys_run cfg_of F dest max n prev (pre ++ r1 :: mid ++ [r2]) in
    CommitSM.o_type o = CommitSM.T_generated /\
    In (k, (off0, N.min on (off0 + n - 1)), a, rt) (CommitSM.o_roots o).
Proof. exact liveness_fixed_cursor. Qed.
Print Assumptions C04_liveness_fixed_cursor.

(* 10. ... and the root in that report is the true one: if in the non-retry building rounds the oracles outside a set
       of at most f are honest root observers (the hypothesis of 5.), it is the merkle root of chain k's true messages
       over [off, min(on, off+n-1)]. *)
Theorem C04_liveness_true_root : forall h zero log cfg_of F dest roles known k f fd (readable : N -> N -> Prop) max n prev rs,
  u64 max -> (1 <= n)%N -> (0 <= F < 2^63)%Z -> (f < 2^63)%Z -> (fd < 2^63)%Z ->
  hist_all cfg_of F dest max n (round_live F dest roles known k f fd readable n) prev rs ->
  hist_all cfg_of F dest max n (honest_round h zero log f) prev rs ->
  (max + 2 + 2 <= CommitSMP.eff_count max n prev (sys_rounds cfg_of F dest rs))%N ->
  exists pre r1 mid r2 post off on a rt,
    rs = pre ++ r1 :: mid ++ r2 :: post /\
    (CommitSMP.eff_count max n prev (sys_rounds cfg_of F dest (pre ++ r1 :: mid ++ [r2])) <= max + 2 + 2)%N /\
    same_view offramp_kv (snd r1) k fd off /\ same_view onramp_kv (snd r1) k f on /\ (off <= on)%N /\
    let o := sys_run cfg_of F dest max n prev (pre ++ r1 :: mid ++ [r2]) in
    CommitSM.o_type o = CommitSM.T_generated /\
    In (k, (off, N.min on (off + n - 1)), a, rt) (CommitSM.o_roots o) /\
    true_root h zero log k off (N.min on (off + n - 1)) rt.
Proof. exact liveness_true_root. Qed.
Print Assumptions C04_liveness_true_root.

(* 11. Non-vacuity and tightness. A concrete history (4 oracles, F = 1, oracle 3 Byzantine in every round; a left-over
       building state, a report for another chain, a failed transmission check, selection, an RMN-retry round, the
       report) meets every hypothesis of 9. with max = 0 and has exactly (0+2)+2 non-retry rounds; the report with the
       root of chain 1 over [10,12] is the outcome of the last of them and no earlier outcome has it: the bound is
       reached. (Proofs/CommitLiveP.v also has the same with max = 3 — reached at max+3 — and with an RMN bundle.) *)
Theorem C04_liveness_nonvacuous :
  (u64 0 /\ (1 <= 256)%N /\
   hist_all lx_cfg 1 9 0 256 (round_live 1 9 lx_roles lx_known 1 1 1 (fun _ _ => True) 256) lx_prev lx_hist /\
   CommitSMP.eff_count 0 256 lx_prev (sys_rounds lx_cfg 1 9 lx_hist) = (0 + 2 + 2)%N) /\
  (let out := fun rs => sys_run lx_cfg 1 9 0 256 lx_prev rs in
   (CommitSM.o_type (out lx_hist) = CommitSM.T_generated /\
    CommitSM.o_roots (out lx_hist) = [(1, (10, 12), 7, 300)%N]) /\
   map (fun j => (CommitSM.o_type (out (firstn j lx_hist)), CommitSM.o_roots (out (firstn j lx_hist)))) [1; 2; 3; 4]%nat =
   [ (CommitSM.T_generated, [(2, (5, 6), 7, 200)%N]); (CommitSM.T_failed, []);
     (CommitSM.T_selected, []); (CommitSM.T_selected, []) ] /\
   CommitSM.o_ranges (out [lx_A; lx_B; lx_C]) = [(1, (10, 12))%N]).
Proof. exact (conj ex_liveness_hyps ex_liveness_tight). Qed.
Print Assumptions C04_liveness_nonvacuous.

(* 12. F26, the liveness face (the safety face is C01_offramp_key_f_unfixed_refuted): BEFORE fixes/F26.patch the
       statement 9. was false. Off-ramp next numbers are destination data — only designated readers of the destination
       report them (C01_designated) — but getConsensusObservation thresholded the entry of source chain k at 2*f_k+1.
       Witness, replayed on the pre-repair getConsensusObservation + reportRangesOutcome (fixes/F26_replay_test.go):
       7 oracles, F = 2, all honest with identical views; destination 9: f = 1, readers 0..3; source 1: f = 2, readers
       0..6; messages 10..12 of chain 1 pending; every destination reader reports next = 10 (4 votes < 5). The selecting
       round meets the hypothesis of 9. (round_live) and the repaired processor selects [10, min(12, 10+n-1)]; with the
       pre-repair consensus the agreed off-ramp map never contains chain 1: from every outcome in the selecting state,
       over the history (selecting round, building round) repeated any number of times, no outcome is a generated
       report or carries a root. *)
Theorem C04_liveness_unfixed_refuted :
  exists F dest roles known k fk fd rsel rbuild hist,
    (0 <= F < 2^63)%Z /\ (fk < 2^63)%Z /\ (fd < 2^63)%Z /\
    (forall m, hist (S m) = rsel :: rbuild :: hist m) /\ hist O = [] /\
    valid_input false roles known dest (snd rsel) /\ valid_input false roles known dest (snd rbuild) /\
    wire_u64 (snd rsel) /\ fchain_view F dest k fk fd (snd rsel) /\ fchain_view F dest k fk fd (snd rbuild) /\
    same_view onramp_kv (snd rsel) k fk 12%N /\ same_view offramp_kv (snd rsel) k fd 10%N /\
    (forall o, designated roles dest o -> reported offramp_kv (snd rsel) o k 10%N) /\
    (forall o v, reported offramp_kv (snd rsel) o k v -> v = 10%N) /\ (10 <= 12)%N /\
    (forall max n prev,
       CommitSM.next_state (CommitSM.o_type prev) = CommitSM.Selecting -> (1 <= n)%N ->
       round_live F dest roles known k fk fd (fun _ _ => True) n prev rsel /\
       In (k, (10, N.min 12 (10 + n - 1)))%N (CommitSM.o_ranges (sys_step lx_cfg F dest max n prev rsel))) /\
    forall max n prev m j,
      CommitSM.next_state (CommitSM.o_type prev) = CommitSM.Selecting ->
      let o := sys_run_unfixed lx_cfg F dest max n prev (firstn j (hist m)) in
      o = prev \/ (CommitSM.o_roots o = [] /\ CommitSM.o_type o <> CommitSM.T_generated).
Proof. exact liveness_unfixed_refuted. Qed.
Print Assumptions C04_liveness_unfixed_refuted.

(* ---- the executable properties of Check/C04_check.v are the property (judge soundness) ---- *)
Require Import Verif.Model.Transmit Verif.Model.CommitSM Verif.Check.C03_check Verif.Check.C04_check
               Verif.Proofs.JudgeSoundC03P Verif.Proofs.JudgeSoundC04P.

(* sink C04_transmit. An ARBITRARY verdict that passes tr_ok: if it is "transmit" then the report satisfies the
   conclusion of C04_transmit_starts_at_cursor (1.), the oracle's destination read did not fail if the report has
   roots (C04_transmit_reader_failure), the off-ramp would accept it in the state it was checked against
   (C04_no_stale_send, 2.), and every root is the true root of its interval (the harness's ground truth; 5. + 6.). *)
Theorem C04_judge_tr_sound : forall roots c fails o,
  tr_ok (roots, c, fails) o = true ->
  let rr := map to_rroot roots in
  o = 1%N ->
  (NoDup (map rr_chain rr) /\ forall r, In r rr -> rr_start r = next_of c (rr_chain r)) /\
  (rr <> [] -> fails = false) /\
  ((forall r, In r rr -> (rr_start r <= rr_end r)%N) -> exists c', apply_roots c rr = Some c') /\
  (forall t, In t roots -> snd t = true).
Proof. exact (fun roots c fails o => tr_ok_sound (roots, c, fails) o). Qed.
Print Assumptions C04_judge_tr_sound.

(* the model's verdict passes whenever the ground-truth bits are all true (the model does not see them; that they are
   true on every report an honest oracle checks is what 5. + 6. prove of the round model under the f assumption) *)
Theorem C04_judge_tr_model_passes : forall roots c fails,
  (forall t, In t roots -> snd t = true) -> tr_ok (roots, c, fails) (tr_model (roots, c, fails)) = true.
Proof. exact tr_model_passes. Qed.
Print Assumptions C04_judge_tr_model_passes.

(* before the repair of tr_ok: "transmit" after a failed destination read passed the executable property *)
Theorem C04_judge_tr_before_unsound :
  let i := ([(5, (10, 12), true)]%N, [(5, 10)]%N, true) in
  tr_ok_before i 1 = true /\ ~ tr_P i 1%N /\ tr_ok i 1 = false /\ tr_model i = 0%N.
Proof. exact tr_ok_before_unsound. Qed.
Print Assumptions C04_judge_tr_before_unsound.

(* sink C04_state. An ARBITRARY answer of ValidateMerkleRootsState that passes st_ok: if it is "valid" then the
   conclusion of 1. holds against the scripted cursor, the reader was the honest one if there are roots, and the
   off-ramp would accept the roots (2.). *)
Theorem C04_judge_st_sound : forall roots c mode o,
  st_ok (roots, c, mode) o = true ->
  o = true ->
  (NoDup (map rr_chain roots) /\ forall r, In r roots -> rr_start r = next_of c (rr_chain r)) /\
  (roots <> [] -> mode = 0%N) /\
  ((forall r, In r roots -> (rr_start r <= rr_end r)%N) -> exists c', apply_roots c roots = Some c').
Proof. exact (fun roots c mode o => st_ok_sound (roots, c, mode) o). Qed.
Print Assumptions C04_judge_st_sound.

(* the generator draws the reader script from {0 honest, 1 error, 2 short, 3 long} *)
Theorem C04_judge_st_model_passes : forall roots c mode,
  (mode <= 3)%N -> st_ok (roots, c, mode) (st_model (roots, c, mode)) = true.
Proof. exact st_model_passes. Qed.
Print Assumptions C04_judge_st_model_passes.

(* sink C04_final. An ARBITRARY final state that passes fin_ok: every chain it lists holds intervals that are
   consecutive from the initial cursor (the statement of C04_committed_contiguous, 3., contiguous_from itself), and
   the honest oracles' outcomes never diverged. *)
Theorem C04_judge_fin_sound : forall init reports comm cur div,
  fin_ok (init, reports) (comm, cur, div) = true ->
  (forall k ivs, In (k, ivs) comm -> contiguous_from (next_of init k) ivs) /\ div = 0%N.
Proof. exact (fun init reports comm cur div => fin_ok_sound (init, reports) (comm, cur, div)). Qed.
Print Assumptions C04_judge_fin_sound.

Theorem C04_judge_fin_model_passes : forall i, fin_ok i (fin_model i) = true.
Proof. exact fin_model_passes. Qed.
Print Assumptions C04_judge_fin_model_passes.

(* sink C04_round. An ARBITRARY outcome of commit.Plugin.Outcome that passes rd_ok satisfies the C03 clauses on the
   composed round (C03_judge_step_sound: edges, waiting exits, carried cursor, retry identity, progress), the
   clause of C04_report_roots_are_agreed (6.), and the two rounds of C04_liveness_round_partial (7.), hypotheses
   verbatim, c being the agreed values of the round: a selecting round selects [off, min(on, off+n-1)] for every chain
   with pending messages; a building round that is not an RMN retry reports every agreed root in a generated report. *)
Theorem C04_judge_rd_sound : forall F dest max n prev retry aos o,
  rd_ok (F, dest, max, n, prev, retry, aos) o = true ->
  let co := round_cons F dest aos in
  round_P max prev (mkQuery retry None, co) o /\
  (forall c r, co = Some c -> In r (o_roots o) ->
     (next_state (o_type prev) = Building /\ retry = true /\ In r (o_roots prev)) \/ In r (c_roots c)) /\
  (forall c k off on, co = Some c -> next_state (o_type prev) = Selecting ->
     NoDup (map fst (c_off c)) -> (forall k m, alookup k (c_on c) = Some m -> u64 m) -> (1 <= n)%N ->
     In (k, off) (c_off c) -> alookup k (c_on c) = Some on -> (off <= on)%N ->
     o_type o = T_selected /\ In (k, (off, N.min on (off + n - 1))) (o_ranges o)) /\
  (forall c r, co = Some c -> next_state (o_type prev) = Building -> retry = false -> In r (c_roots c) ->
     o_type o = T_generated /\ In r (o_roots o)).
Proof. exact (fun F dest max n prev retry aos o => rd_ok_sound (F, dest, max, n, prev, retry, aos) o). Qed.
Print Assumptions C04_judge_rd_sound.

Theorem C04_judge_rd_model_passes : forall i, rd_ok i (rd_model i) = true.
Proof. exact rd_model_passes. Qed.
Print Assumptions C04_judge_rd_model_passes.

(* before the repair of rd_ok: a generated report carrying a root nobody agreed on passed the executable property *)
Theorem C04_judge_rd_before_unsound :
  let o := mkOutcome T_generated [] [(1, (10, 12), 7, 666)%N] [(1, 10)%N] 0 [] cfg_empty in
  rd_ok_before jx_in o = true /\ ~ rd_P jx_in o /\ rd_ok jx_in o = false.
Proof. exact rd_ok_before_unsound. Qed.
Print Assumptions C04_judge_rd_before_unsound.

(* ---- liveness (7.-10.) and the judge of sink C04_round ---- *)
(* 7. verbatim for ANY two outcomes that pass rd_ok in consecutive rounds (the second judged with the first as
      previous outcome); c1, c2 = the agreed values of the two rounds *)
Theorem C04_judge_rd_two_rounds : forall F dest max n prev retry1 aos1 aos2 o1 o2 c1 c2 k off on r,
  rd_ok (F, dest, max, n, prev, retry1, aos1) o1 = true ->
  rd_ok (F, dest, max, n, o1, false, aos2) o2 = true ->
  round_cons F dest aos1 = Some c1 -> round_cons F dest aos2 = Some c2 ->
  next_state (o_type prev) = Selecting ->
  NoDup (map fst (c_off c1)) -> (forall k m, alookup k (c_on c1) = Some m -> u64 m) -> (1 <= n)%N ->
  In (k, off) (c_off c1) -> alookup k (c_on c1) = Some on -> (off <= on)%N ->
  In r (c_roots c2) ->
  o_type o1 = T_selected /\ In (k, (off, N.min on (off + n - 1))) (o_ranges o1) /\
  o_type o2 = T_generated /\ In r (o_roots o2).
Proof. exact rd_ok_two_rounds. Qed.
Print Assumptions C04_judge_rd_two_rounds.

(* before the liveness steps were added to rd_ok: a selecting outcome that selects nothing although the oracles agree
   on pending messages 10..12 of chain 1, and the empty outcome in a building round although they agree on a root,
   passed; both are rejected now, the model's outcomes pass (hypotheses of the two theorems above satisfied) *)
Theorem C04_judge_rd_before_live_weak :
  (rd_ok_before_live lx_sel_in lx_nothing = true /\ rd_ok lx_sel_in lx_nothing = false /\ ~ rd_P lx_sel_in lx_nothing) /\
  o_ranges (rd_model lx_sel_in) = [(1, (10, 12))%N] /\ rd_ok lx_sel_in (rd_model lx_sel_in) = true /\
  (rd_ok_before_live jx_in empty_outcome = true /\ rd_ok jx_in empty_outcome = false /\ ~ rd_P jx_in empty_outcome).
Proof. exact rd_ok_before_live_weak. Qed.
Print Assumptions C04_judge_rd_before_live_weak.

Require Import Verif.Proofs.JudgeSoundC04LiveP.
(* 8. + the steps of 9., with an ARBITRARY outcome that passes rd_ok: under round_live (same-view honest quorum of
      validated observations, messages pending, interval readable) a selecting round selects the quorum's interval ... *)
Theorem C04_judge_rd_select_round : forall F dest max n prev retry aos o roles known k f fd (readable : N -> N -> Prop),
  rd_ok (F, dest, max, n, prev, retry, aos) o = true ->
  (0 <= F < 2^63)%Z -> (f < 2^63)%Z -> (fd < 2^63)%Z -> (1 <= n)%N ->
  next_state (o_type prev) = Selecting ->
  round_live F dest roles known k f fd readable n prev (mkQuery retry None, aos) ->
  exists off on,
    same_view offramp_kv aos k fd off /\ same_view onramp_kv aos k f on /\ (off <= on)%N /\
    readable off (N.min on (off + n - 1)) /\
    o_type o = T_selected /\ In (k, (off, N.min on (off + n - 1))) (o_ranges o).
Proof. exact rd_select_round. Qed.
Print Assumptions C04_judge_rd_select_round.

(* ... and a building round that is not an RMN retry reports the quorum's root of every readable selected interval *)
Theorem C04_judge_rd_build_round : forall F dest max n prev retry aos o roles known k f fd (readable : N -> N -> Prop),
  rd_ok (F, dest, max, n, prev, retry, aos) o = true ->
  (0 <= F < 2^63)%Z -> (f < 2^63)%Z -> (fd < 2^63)%Z ->
  forall s e,
  next_state (o_type prev) = Building -> retry = false ->
  round_live F dest roles known k f fd readable n prev (mkQuery retry None, aos) ->
  In (k, (s, e)) (o_ranges prev) -> readable s e ->
  exists a rt,
    valid_input false roles known dest aos /\ fchain_view F dest k f fd aos /\
    same_view roots_kv aos k f (k, a, (s, e), rt) /\
    o_type o = T_generated /\ In (k, (s, e), a, rt) (o_roots o).
Proof. exact rd_build_round. Qed.
Print Assumptions C04_judge_rd_build_round.

(* 10., the step: ... and it is the true root if the oracles outside a set of at most f are honest root observers *)
Theorem C04_judge_rd_build_round_true_root :
  forall F dest max n prev retry aos o roles known k f fd (readable : N -> N -> Prop),
  rd_ok (F, dest, max, n, prev, retry, aos) o = true ->
  (0 <= F < 2^63)%Z -> (f < 2^63)%Z -> (fd < 2^63)%Z ->
  forall h zero log s e,
  next_state (o_type prev) = Building -> retry = false ->
  round_live F dest roles known k f fd readable n prev (mkQuery retry None, aos) ->
  honest_round h zero log f prev (mkQuery retry None, aos) ->
  In (k, (s, e)) (o_ranges prev) -> readable s e ->
  exists a rt, o_type o = T_generated /\ In (k, (s, e), a, rt) (o_roots o) /\ true_root h zero log k s e rt.
Proof. exact rd_build_round_true_root. Qed.
Print Assumptions C04_judge_rd_build_round_true_root.

(* 9. for histories of JUDGED outcomes. A judged history (judged) = rounds paired with the outcome the implementation
      produced, every round passing rd_ok with the outcome that precedes it as previous outcome (each pair is one case
      of sink C04_round; the harness feeds every outcome back). The statement of C04_liveness with these outcomes in
      the place of sys_run's: live_all = hist_all along them, eff_tr = number of non-retry rounds, last_out = the
      outcome after a prefix. So: an implementation all of whose rounds pass the judge is live, with the same bound. *)
Theorem C04_judge_liveness : forall F dest max n roles known k f fd (readable : N -> N -> Prop) prev tr,
  u64 max -> (1 <= n)%N -> (0 <= F < 2^63)%Z -> (f < 2^63)%Z -> (fd < 2^63)%Z ->
  judged F dest max n prev tr ->
  live_all (round_live F dest roles known k f fd readable n) prev tr ->
  (max + 2 + 2 <= eff_tr prev tr)%N ->
  exists pre r1 o1 mid r2 o2 post off on a rt,
    tr = pre ++ (r1, o1) :: mid ++ (r2, o2) :: post /\
    (eff_tr prev (pre ++ (r1, o1) :: mid ++ [(r2, o2)]) <= max + 2 + 2)%N /\
    next_state (o_type (last_out prev pre)) = Selecting /\
    same_view offramp_kv (snd r1) k fd off /\ same_view onramp_kv (snd r1) k f on /\ (off <= on)%N /\
    readable off (N.min on (off + n - 1)) /\
    o_type o2 = T_generated /\ In (k, (off, N.min on (off + n - 1)), a, rt) (o_roots o2).
Proof. exact judged_liveness. Qed.
Print Assumptions C04_judge_liveness.

Theorem C04_judge_liveness_fixed_cursor :
  forall F dest max n roles known k f fd (readable : N -> N -> Prop) off0 prev tr,
  u64 max -> (1 <= n)%N -> (0 <= F < 2^63)%Z -> (f < 2^63)%Z -> (fd < 2^63)%Z ->
  judged F dest max n prev tr ->
  live_all (round_live F dest roles known k f fd (fun s e => s = off0 /\ readable s e) n) prev tr ->
  (max + 2 + 2 <= eff_tr prev tr)%N ->
  exists pre r1 o1 mid r2 o2 post on a rt,
    tr = pre ++ (r1, o1) :: mid ++ (r2, o2) :: post /\
    (eff_tr prev (pre ++ (r1, o1) :: mid ++ [(r2, o2)]) <= max + 2 + 2)%N /\
    same_view onramp_kv (snd r1) k f on /\ (off0 <= on)%N /\
    o_type o2 = T_generated /\ In (k, (off0, N.min on (off0 + n - 1)), a, rt) (o_roots o2).
Proof. exact judged_liveness_fixed_cursor. Qed.
Print Assumptions C04_judge_liveness_fixed_cursor.

(* 10. for histories of judged outcomes *)
Theorem C04_judge_liveness_true_root :
  forall F dest max n h zero log roles known k f fd (readable : N -> N -> Prop) prev tr,
  u64 max -> (1 <= n)%N -> (0 <= F < 2^63)%Z -> (f < 2^63)%Z -> (fd < 2^63)%Z ->
  judged F dest max n prev tr ->
  live_all (round_live F dest roles known k f fd readable n) prev tr ->
  live_all (honest_round h zero log f) prev tr ->
  (max + 2 + 2 <= eff_tr prev tr)%N ->
  exists pre r1 o1 mid r2 o2 post off on a rt,
    tr = pre ++ (r1, o1) :: mid ++ (r2, o2) :: post /\
    (eff_tr prev (pre ++ (r1, o1) :: mid ++ [(r2, o2)]) <= max + 2 + 2)%N /\
    same_view offramp_kv (snd r1) k fd off /\ same_view onramp_kv (snd r1) k f on /\ (off <= on)%N /\
    o_type o2 = T_generated /\ In (k, (off, N.min on (off + n - 1)), a, rt) (o_roots o2) /\
    true_root h zero log k off (N.min on (off + n - 1)) rt.
Proof. exact judged_liveness_true_root. Qed.
Print Assumptions C04_judge_liveness_true_root.

(* (a) for histories: the model's own history (queries without bundle) is a judged history, along which live_all and
   eff_tr are hist_all and eff_count - so C04_liveness is the instance of C04_judge_liveness at the model's outcomes *)
Theorem C04_judge_model_history_judged : forall F dest max n rs prev,
  Forall (fun r : round => q_sigs (fst r) = None) rs ->
  judged F dest max n prev (model_trace F dest max n prev rs) /\
  (forall P, hist_all lx_cfg F dest max n P prev rs <-> live_all P prev (model_trace F dest max n prev rs)) /\
  eff_tr prev (model_trace F dest max n prev rs) = CommitSMP.eff_count max n prev (sys_rounds lx_cfg F dest rs).
Proof.
  intros F dest max n rs prev H. split; [now apply model_trace_judged|].
  split; [intros P; apply model_trace_live|apply model_trace_eff].
Qed.
Print Assumptions C04_judge_model_history_judged.

(* the hypotheses of C04_judge_liveness are satisfiable: the history of C04_liveness_nonvacuous with the model's
   outcomes (max = 0: exactly (0+2)+2 non-retry rounds; the report for chain 1 is the last outcome) *)
Theorem C04_judge_liveness_nonvacuous :
  let tr := model_trace 1 9 0 256 lx_prev lx_hist in
  u64 0 /\ (1 <= 256)%N /\ judged 1 9 0 256 lx_prev tr /\
  live_all (round_live 1 9 lx_roles lx_known 1 1 1 (fun _ _ => True) 256) lx_prev tr /\
  eff_tr lx_prev tr = (0 + 2 + 2)%N /\
  map (fun ro : jround => (o_type (snd ro), o_roots (snd ro))) tr =
  [ (T_generated, [(2, (5, 6), 7, 200)%N]); (T_failed, []); (T_selected, []); (T_selected, []);
    (T_generated, [(1, (10, 12), 7, 300)%N]) ].
Proof. exact judged_liveness_hyps. Qed.
Print Assumptions C04_judge_liveness_nonvacuous.

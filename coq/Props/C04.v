(* C04 — Commit history: destination sequence numbers stay contiguous; no stale sends.
   Theorems only; proofs in Proofs/CommitSysP.v, CommitSysConsP.v, CommitSysSMP.v (which build on the C01, C02, C03
   developments: CommitConsensusP.v, CommitMerkleP.v, CommitSM.v). *)
Require Import Verif.Model.Base Verif.Model.Consensus Verif.Model.SeqRange Verif.Model.CommitMerkle
               Verif.Model.CommitConsensus Verif.Proofs.CommitConsensusP
               Verif.Model.CommitSys Verif.Proofs.CommitSysP Verif.Proofs.CommitSysConsP.
Require Verif.Model.CommitSM Verif.Proofs.CommitSysSMP.

(* 1. The pre-transmission re-check: for EVERY report and EVERY state of the destination at that moment, an honest
      oracle's state check passes only if no chain occurs twice and every interval begins exactly at the
      destination's then-current next sequence number. (ShouldTransmitAcceptedReport returns true only if it passes:
      C16_commit_transmit_only_active.) *)
Theorem C04_transmit_starts_at_cursor : forall roots c fails,
  roots_state_ok roots (honest_next_reader c fails) = true ->
  NoDup (map rr_chain roots) /\ forall r, In r roots -> rr_start r = next_of c (rr_chain r).
Proof. exact roots_state_ok_sound. Qed.
Print Assumptions C04_transmit_starts_at_cursor.

(* reader errors at that point block transmission of every report that carries roots *)
Theorem C04_transmit_reader_failure : forall r roots c,
  roots_state_ok (r :: roots) (honest_next_reader c true) = false.
Proof. exact roots_state_reader_failure. Qed.
Print Assumptions C04_transmit_reader_failure.

(* 2. No stale sends: whatever an honest oracle agrees to transmit would be accepted by the off-ramp in the state
      it was checked against (late / reordered / duplicated transmissions are the off-ramp's business, 3.). *)
Theorem C04_no_stale_send : forall roots c fails,
  (forall r, In r roots -> (rr_start r <= rr_end r)%N) ->
  roots_state_ok roots (honest_next_reader c fails) = true ->
  exists c', apply_roots c roots = Some c'.
Proof. exact transmit_not_stale. Qed.
Print Assumptions C04_no_stale_send.

(* 3. For ANY sequence of reports reaching the off-ramp (late, reordered, repeated, Byzantine-crafted), the
      intervals committed per source chain are consecutive from the initial cursor: no gaps, overlaps or repeats. *)
Theorem C04_committed_contiguous : forall init reports,
  let d := run_lands (mkDest init []) reports in
  forall k, contiguous_from (next_of init k) (committed_for d k).
Proof. exact lands_contiguous. Qed.
Print Assumptions C04_committed_contiguous.

(* 4. Roots. An honest oracle (any reader that returns only true finalized messages — possibly fewer than asked for,
      failing, lagging) observes a root for (k,[s,e]) only if it is the true merkle root of chain k over [s,e]. *)
Theorem C04_honest_root_true : forall h zero log supported ranges reader addr k s e a r,
  reader_honest log reader ->
  (forall k s e, In (k, (s, e)) ranges -> u64 e) ->
  In (k, (s, e), a, r) (observe_roots h zero supported ranges reader addr) ->
  In (k, (s, e)) ranges /\ true_root h zero log k s e r.
Proof. exact honest_observed_root_true. Qed.
Print Assumptions C04_honest_root_true.

Theorem C04_true_root_unique : forall h zero log k s e r r',
  true_root h zero log k s e r -> true_root h zero log k s e r' -> r = r'.
Proof. exact true_root_unique. Qed.
Print Assumptions C04_true_root_unique.

(* 5. Consensus: in every round, whatever the validated observation set, with at most f_k oracles outside the honest
      set for chain k, every agreed root for k is the true root of k's messages over the agreed interval. *)
Theorem C04_agreed_root_true : forall h zero log retry roles known dest aos F c k f B,
  valid_input retry roles known dest aos ->
  get_consensus F dest aos = Ok c ->
  alookup k (c_fchain c) = Some f -> (f < 2^63)%Z ->
  NoDup B -> (length B <= Z.to_nat f)%nat ->
  (forall o ob, In (o, ob) aos -> ~ In o B -> honest_roots h zero log ob) ->
  forall ch a s e r, alookup k (c_roots c) = Some (ch, a, (s, e), r) ->
    ch = k /\ true_root h zero log k s e r.
Proof. exact agreed_root_is_true_root. Qed.
Print Assumptions C04_agreed_root_true.

(* 6. Reports: the roots of an outcome are agreed roots of that round (or, in an RMN retry round, the previous
      outcome's), so by 5. every reported root is a true root. *)
Theorem C04_report_roots_are_agreed : forall max n prev q c r,
  In r (CommitSM.o_roots (CommitSM.get_outcome max n prev q (Some c))) ->
  (CommitSM.next_state (CommitSM.o_type prev) = CommitSM.Building /\ CommitSM.q_retry q = true /\ In r (CommitSM.o_roots prev))
  \/ In r (CommitSM.c_roots c).
Proof. exact CommitSysSMP.get_outcome_roots_agreed. Qed.
Print Assumptions C04_report_roots_are_agreed.

(* 7. Liveness, PARTIAL (round level only). Once the machine is in the selecting state — which by C03_recovery happens
      within max-checks+2 non-retry rounds from ANY previous outcome — two rounds with consensus produce a report
      covering the pending messages of chain k: the first selects [off, min(on, off+n-1)], the second (not an RMN
      retry, RMN disabled) generates a report containing the agreed root of k. What is NOT proved: that consensus is
      reached in those rounds; that needs honest readers to return the same (off-ramp next, on-ramp latest) view
      within a round (2f+1 agreement on an unconfirmed on-ramp number can otherwise fail indefinitely) — exercised by
      the DON-simulator histories of the harness. *)
Theorem C04_liveness_round_partial : forall max n prev q1 q2 c1 c2 k off on r,
  CommitSM.next_state (CommitSM.o_type prev) = CommitSM.Selecting ->
  NoDup (map fst (CommitSM.c_off c1)) -> (forall k m, alookup k (CommitSM.c_on c1) = Some m -> u64 m) -> (1 <= n)%N ->
  In (k, off) (CommitSM.c_off c1) -> alookup k (CommitSM.c_on c1) = Some on -> (off <= on)%N ->
  CommitSM.q_retry q2 = false -> CommitSM.q_sigs q2 = None -> In r (CommitSM.c_roots c2) ->
  let o1 := CommitSM.get_outcome max n prev q1 (Some c1) in
  let o2 := CommitSM.get_outcome max n o1 q2 (Some c2) in
  CommitSM.o_type o1 = CommitSM.T_selected /\ In (k, (off, N.min on (off + n - 1))) (CommitSM.o_ranges o1) /\
  CommitSM.o_type o2 = CommitSM.T_generated /\ In r (CommitSM.o_roots o2).
Proof. exact CommitSysSMP.select_then_build_reports. Qed.
Print Assumptions C04_liveness_round_partial.

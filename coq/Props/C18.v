(* C18 — Configuration pollers expose consistent snapshots under concurrent refresh.
   Property theorems only; each is closed by [exact] of a lemma proved in Proofs/PollersP.v.
   PARTIAL: freedom from data races and the atomicity of the write-locked state replacement under the Go memory
   model are not statements about this model; they are tested (16 reader goroutines during refresh, -race). What is
   proved: the sequential bookkeeping of both pollers, for every history of events. *)
Require Import Verif.Model.Base Verif.Model.Pollers Verif.Proofs.PollersP.

(* --- snapshots: after EVERY history (polls that succeed, fail, stop half-way through the pages; reads; Start;
       Close) the four stored views are the ones derived from one configuration, namely the one of the most recent
       successful fetch, or the empty one before the first success. Holds with either failure counter. --- *)
Theorem C18_snapshot_home : forall reset evs,
  views (prun home_fetch home_derive reset home_init evs) = home_derive (home_cfg_of evs).
Proof. exact home_snapshot. Qed.
Print Assumptions C18_snapshot_home.

(* that configuration really was fetched: a complete page sequence (full pages, then the first short page), the pages
   concatenated in order, nothing after the short page, converted with "last decodable entry per selector wins" *)
Theorem C18_snapshot_fetched : forall evs c,
  last_good home_fetch evs = Some c ->
  exists pages fulls short rest,
    In (EPoll pages) evs /\
    pages = map Some fulls ++ Some short :: rest /\
    Forall (fun l : list entry => (home_page_size <= length l)%nat) fulls /\ (length short < home_page_size)%nat /\
    c = home_convert (concat fulls ++ short) /\ ksorted c.
Proof. exact home_cfg_fetched. Qed.
Print Assumptions C18_snapshot_fetched.

Theorem C18_paging : forall psz fulls short rest acc,
  Forall (fun l : list entry => (psz <= length l)%nat) fulls -> (length short < psz)%nat ->
  home_fetch_pages psz (map Some fulls ++ Some short :: rest) acc = Ok (acc ++ concat fulls ++ short).
Proof. exact fetch_pages_ok. Qed.
Print Assumptions C18_paging.

Theorem C18_paging_partial_fails : forall psz fulls rest acc,
  Forall (fun l : list entry => (psz <= length l)%nat) fulls ->
  home_fetch_pages psz (map Some fulls ++ None :: rest) acc = Err /\
  home_fetch_pages psz (map Some fulls) acc = Err.
Proof. exact fetch_pages_fail. Qed.
Print Assumptions C18_paging_partial_fails.

Theorem C18_convert_last_wins : forall ch es,
  alookup ch (home_convert es) =
  match find (entry_for ch) (rev es) with Some e => entry_cc e | None => None end.
Proof. exact home_convert_lookup. Qed.
Print Assumptions C18_convert_last_wins.

(* what the views of one configuration say: per-chain config and f, known chains, chains per peer *)
Theorem C18_views_of_one_config : forall c, ksorted c ->
  (forall ch, get_chain_config (home_derive c) ch = alookup ch c) /\
  (forall ch, In ch (get_known_chains (home_derive c)) <-> exists cc, alookup ch c = Some cc) /\
  (forall ch, alookup ch (get_fchain (home_derive c)) =
              match alookup ch c with Some cc => Some (cc_f cc) | None => None end) /\
  (forall p ch, In ch (get_supported_chains (home_derive c) p) <->
                exists cc, alookup ch c = Some cc /\ In p (cc_nodes cc)).
Proof. exact home_views_spec. Qed.
Print Assumptions C18_views_of_one_config.

(* a failed or partial poll, and a read, leave the snapshot unchanged *)
Theorem C18_failed_poll_unchanged : forall s pages,
  home_fetch pages = Err -> views (home_step s (EPoll pages)) = views s /\ home_step s ERead = s.
Proof. exact home_failed_poll_unchanged. Qed.
Print Assumptions C18_failed_poll_unchanged.

Theorem C18_snapshot_rmn : forall evs,
  views (rmn_run evs) = match last_good rmn_fetch evs with Some v => v | None => rmn_init end.
Proof. exact rmn_snapshot. Qed.
Print Assumptions C18_snapshot_rmn.

Theorem C18_rmn_both_digests_empty : forall a c s,
  vc_digest a = 0%N -> vc_digest c = 0%N ->
  rmn_fetch (Some (a, c)) = Err /\ views (rmn_step s (EPoll (Some (a, c)))) = views s.
Proof. exact rmn_both_empty_fails. Qed.
Print Assumptions C18_rmn_both_digests_empty.

Theorem C18_rmn_digests : forall a c v,
  rmn_fetch (Some (a, c)) = Ok v -> get_digests v = (vc_digest a, vc_digest c) /\
  (vc_digest a <> 0%N \/ vc_digest c <> 0%N).
Proof. exact rmn_fetch_digests. Qed.
Print Assumptions C18_rmn_digests.

(* --- health: bad exactly when not polling or after MaxFailedPolls (10) CONSECUTIVE failed ticker polls.
       (counter is a uint: stated exactly with the wrap in C18_health_exact_*, and without it for < 2^64 events) --- *)
Theorem C18_health_home : forall evs, (N.of_nat (length evs) < two64)%N ->
  healthy (home_run evs) = running home_fetch evs && Nat.ltb (trailing_failures home_fetch evs) 10.
Proof. exact home_health. Qed.
Print Assumptions C18_health_home.

Theorem C18_health_rmn : forall evs, (N.of_nat (length evs) < two64)%N ->
  healthy (rmn_run evs) = running rmn_fetch evs && Nat.ltb (trailing_failures rmn_fetch evs) 10.
Proof. exact rmn_health. Qed.
Print Assumptions C18_health_rmn.

Theorem C18_health_exact_home : forall evs,
  healthy (home_run evs) = spec_healthy home_fetch true evs /\ ready (home_run evs) = running home_fetch evs.
Proof. exact home_health_exact. Qed.
Print Assumptions C18_health_exact_home.

Theorem C18_health_exact_rmn : forall evs,
  healthy (rmn_run evs) = spec_healthy rmn_fetch true evs /\ ready (rmn_run evs) = running rmn_fetch evs.
Proof. exact rmn_health_exact. Qed.
Print Assumptions C18_health_exact_rmn.

(* the home-chain poller as it was before the repair (F21a: the counter was never reset by a success):
   unhealthy although fewer than 10 polls failed since the last success *)
Theorem C18_health_home_unfixed_refuted :
  exists evs, running home_fetch evs = true /\ (trailing_failures home_fetch evs < 10)%nat /\
              healthy (home_run_unfixed evs) = false.
Proof. exact home_health_unfixed_refuted. Qed.
Print Assumptions C18_health_home_unfixed_refuted.

(* --- observer bitmaps --- *)
Theorem C18_bitmap : forall b j n,
  (1 <= n <= 256)%Z -> (0 <= j < n)%Z -> (0 <= b < 2 ^ n)%Z ->
  is_node_observer (Some b) j n = Ok (Z.testbit b j).
Proof. exact bitmap_spec. Qed.
Print Assumptions C18_bitmap.

Theorem C18_bitmap_refusals : forall b j n,
  ((n > 256 \/ n <= 0)%Z -> is_node_observer b j n = Err) /\
  ((1 <= n <= 256)%Z -> (j < 0 \/ j >= n)%Z -> is_node_observer b j n = Err) /\
  ((1 <= n <= 256)%Z -> (0 <= j < n)%Z -> b = None -> is_node_observer b j n = Panic) /\
  (forall z, (1 <= n <= 256)%Z -> (0 <= j < n)%Z -> b = Some z -> (2 ^ n <= z)%Z -> is_node_observer b j n = Err).
Proof. exact bitmap_refusals. Qed.
Print Assumptions C18_bitmap_refusals.

(* node id = position in the on-chain node list; observer set = the bitmap, bit for bit *)
Theorem C18_observers : forall vc hc,
  convert_one vc = Ok hc ->
  (1 <= length (vc_nodes vc) <= 256)%nat ->
  (forall ch, In ch (vc_chains vc) -> exists b, rc_bitmap ch = Some b /\ (0 <= b < 2 ^ Z.of_nat (length (vc_nodes vc)))%Z) ->
  forall j nd, nth_error (hc_nodes hc) j = Some nd ->
    hn_id nd = N.of_nat j /\
    forall x, In x (hn_chains nd) <->
              exists ch b, In ch (vc_chains vc) /\ rc_sel ch = x /\ rc_bitmap ch = Some b /\ Z.testbit b (Z.of_nat j) = true.
Proof. exact convert_one_bits. Qed.
Print Assumptions C18_observers.

Theorem C18_node_ids : forall vc hc,
  convert_one vc = Ok hc ->
  length (hc_nodes hc) = length (vc_nodes vc) /\ hc_digest hc = vc_digest vc /\ hc_off hc = vc_off vc /\
  forall j nd, nth_error (hc_nodes hc) j = Some nd ->
    hn_id nd = N.of_nat j /\
    (exists rn, nth_error (vc_nodes vc) j = Some rn /\ hn_peer nd = rn_peer rn /\ hn_key nd = rn_key rn) /\
    forall x, In x (hn_chains nd) <->
              exists ch, In ch (vc_chains vc) /\ rc_sel ch = x /\ observes ch j (Z.of_nat (length (vc_nodes vc))).
Proof. exact convert_one_spec. Qed.
Print Assumptions C18_node_ids.

(* --- close: from a started poller, Close ends polling and nothing changes afterwards, whatever follows --- *)
Theorem C18_close_home : forall evs evs', phase (home_run evs) <> 0%N ->
  home_run (evs ++ EClose :: evs') = home_run (evs ++ [EClose]) /\
  ready (home_run (evs ++ [EClose])) = false /\ views (home_run (evs ++ [EClose])) = views (home_run evs).
Proof. exact home_close_stops. Qed.
Print Assumptions C18_close_home.

Theorem C18_close_rmn : forall evs evs', phase (rmn_run evs) <> 0%N ->
  rmn_run (evs ++ EClose :: evs') = rmn_run (evs ++ [EClose]) /\
  ready (rmn_run (evs ++ [EClose])) = false /\ views (rmn_run (evs ++ [EClose])) = views (rmn_run evs).
Proof. exact rmn_close_stops. Qed.
Print Assumptions C18_close_rmn.

(* ===================================================================================================================
   Lock level ("for all interleavings ... without data races"), Model/Locks.v + Proofs/LocksP.v.
   Above, setState and a getter are single events.  Here they are what the source says they are: sequences of
   Lock / RLock / Unlock / RUnlock operations and individual field reads and writes, run by any number of goroutines
   under an arbitrary scheduler, over one sync.RWMutex (a writer excludes everybody, readers exclude writers, an
   acquisition that cannot be granted blocks).  Every Lock() draws a fresh version; a write stores the version of the
   write section it happens in; a read records which version it saw.
   The action programs of the real methods are extracted from the Go sources on every run (/verif/locks ->
   Gen/LocksGen.v) and checked in coq/GenEquiv/C18_locks_gen.v (C18_home_poller_well_locked,
   C18_rmn_poller_well_locked, C18_snapshot_all_interleavings_gen, C18_rmn_snapshot_all_interleavings_gen).
   =================================================================================================================== *)
Require Import Verif.Model.Locks Verif.Proofs.LocksP.

(* The general theorem, for all programs: if every thread runs a program that passes the syntactic check
   (label true = the strict check well_locked, label false = the lock discipline locks_ok only), then in every
   reachable state of every interleaving [locks_safe] holds:
     - no Unlock / RUnlock of an unlocked mutex;
     - no data race (never two threads about to access one field, one of them writing);
     - outside write sections all fields of a group carry ONE version (a writer replaces a group completely or not
       at all: readers can only ever find whole snapshots);
     - every strictly checked thread has, per group, seen fields of ONE version only - never a mixture;
     - when all threads have returned the mutex is free;
     - whenever the mutex is held - in particular whenever a thread waits for it - some thread can take a step and
       is not about to wait on a channel or WaitGroup (no deadlock out of the lock operations themselves). *)
Theorem C18_locks_all_interleavings : forall lay (lps : list (bool * prog)) s,
  (forall b p, In (b, p) lps -> checked b lay p = true) ->
  reachable (init (map (fun lp => (fst lp, desugar lay (snd lp))) lps)) s -> locks_safe lay s.
Proof. exact locks_programs. Qed.
Print Assumptions C18_locks_all_interleavings.

(* hypotheses met by concrete programs (a two-field writer, two readers - field by field and by struct copy -, a
   poll loop with a counter), and a complete concurrent run of writer and reader *)
Example C18_locks_nonvacuous :
  well_locked lay2 w_good = true /\ well_locked lay2 r_good = true /\ well_locked lay2 r_copy = true /\
  well_locked lay3 p_loop = true /\
  exists s, reachable (init [(true, desugar lay2 w_good); (true, desugar lay2 r_good)]) s /\
            (forall t, In t (st_ths s) -> finished t) /\
            exists t, In t (st_ths s) /\ lookup 1%N (t_obs t) = Some 1%N /\ lookup 2%N (t_obs t) = Some 1%N.
Proof. exact locks_nonvacuous. Qed.

(* Necessity, by explicit interleavings of programs that the check rejects: *)
(* (a) the writer assigns one field after Unlock: a reader sees a mixture, and the late write races *)
Theorem C18_write_after_unlock_refuted :
  locks_ok lay2 w_late = false /\
  (exists s t, reachable (init [(true, desugar lay2 w_late); (true, desugar lay2 r_good)]) s /\
               In t (st_ths s) /\ ~ obs_consistent lay2 (t_obs t)) /\
  (exists s, reachable (init [(true, desugar lay2 w_late); (true, desugar lay2 r_good)]) s /\ race s).
Proof. exact write_after_unlock_refuted. Qed.
Print Assumptions C18_write_after_unlock_refuted.

(* (b) a getter that reads without RLock races with the writer *)
Theorem C18_bare_read_refuted :
  locks_ok lay2 r_bare = false /\
  exists s, reachable (init [(true, desugar lay2 w_good); (true, desugar lay2 r_bare)]) s /\ race s.
Proof. exact bare_read_refuted. Qed.
Print Assumptions C18_bare_read_refuted.

(* (c) a getter that reads two fields of the group in two separate read sections: no race, but a mixture *)
Theorem C18_two_read_sections_refuted :
  locks_ok lay2 r_twice = true /\ well_locked lay2 r_twice = false /\
  exists s t, reachable (init [(true, desugar lay2 w_good); (true, desugar lay2 r_twice)]) s /\
              In t (st_ths s) /\ ~ obs_consistent lay2 (t_obs t).
Proof. exact two_read_sections_refuted. Qed.
Print Assumptions C18_two_read_sections_refuted.

(* (d) the writer takes the read lock: races with a reader *)
Theorem C18_rlock_writer_refuted :
  locks_ok lay2 w_rlock = false /\
  exists s, reachable (init [(true, desugar lay2 w_rlock); (true, desugar lay2 r_good)]) s /\ race s.
Proof. exact rlock_writer_refuted. Qed.
Print Assumptions C18_rlock_writer_refuted.

(* (e) an early return that keeps the read lock: a writer waits for ever and nobody can move *)
Theorem C18_leaked_lock_refuted :
  locks_ok lay2 r_leak = false /\
  exists s, reachable (init [(true, desugar lay2 r_leak); (true, desugar lay2 w_good)]) s /\
            (exists t, In t (st_ths s) /\ waiting (st_sh s) t) /\
            forall t', In t' (st_ths s) -> ~ runnable (st_sh s) t'.
Proof. exact leaked_lock_refuted. Qed.
Print Assumptions C18_leaked_lock_refuted.

(* (f) the writer replaces the group in two write sections: a reader in between sees a mixture *)
Theorem C18_split_write_refuted :
  locks_ok lay2 w_split = false /\
  exists s t, reachable (init [(true, desugar lay2 w_split); (true, desugar lay2 r_good)]) s /\
              In t (st_ths s) /\ ~ obs_consistent lay2 (t_obs t).
Proof. exact split_write_refuted. Qed.
Print Assumptions C18_split_write_refuted.

Require Import Verif.Check.C18_check Verif.Proofs.JudgeSoundC18P.
(* ---- the executable properties of Check/C18_check.v are the property (judge soundness) ---- *)
(* Per sink: the model's own output passes the executable property (the judge cannot raise code 2 on a case where the
   implementation agrees with the model), and ANY output the executable property accepts satisfies the property clause
   (hreads / hread_prop / reader_views / hconc_view / bm_prop / conv_prop / converted: Proofs/JudgeSoundC18P.v). *)

(* hseq: every read of a home-chain history answers all getters from the views of ONE configuration, the most recently
   fetched one; Ready = polling; health = the history-level health (C18_snapshot_home, C18_health_exact_home) *)
Theorem C18_judge_hseq_model_passes : forall i, hseq_ok i (hseq_model i) = true.
Proof. exact hseq_model_passes. Qed.
Print Assumptions C18_judge_hseq_model_passes.

Theorem C18_judge_hseq_sound : forall i o, hseq_ok i o = true -> Forall2 hread_prop (hreads [] i) o.
Proof. exact hseq_sound. Qed.
Print Assumptions C18_judge_hseq_sound.

(* hconc: the judge's model is the constant ([], []); every view a concurrent reader saw is a view of the initial state
   or of home_derive of ONE polled configuration, and every reader's records have a consistent reading (reader_views:
   each read resolved to a snapshot giving the view read, the four fields of a struct copy ONE snapshot, snapshot
   numbers never decreasing along the reader).  No side condition: two polls may give equal views. *)
Theorem C18_judge_hconc_model_passes : forall i, hconc_ok i (@nil hitem, @nil (list (list N))) = true.
Proof. exact hconc_model_passes. Qed.
Print Assumptions C18_judge_hconc_model_passes.

Theorem C18_judge_hconc_sound : forall i table readers,
  hconc_ok i (table, readers) = true ->
  Forall (fun it => exists v, hconc_view i v /\ hitem_is v it) table /\
  Forall (reader_views (hconc_cands i) hitem_matches table) readers.
Proof. exact hconc_sound. Qed.
Print Assumptions C18_judge_hconc_sound.

(* no false alarm: records that have a consistent reading - those of a correct implementation have the true one, the
   snapshot each read really saw - are accepted (the converse of the above; the old first-match property rejected a
   correct struct copy when two polls gave an equal view: hconc_ok_needs_distinct_views) *)
Theorem C18_judge_hconc_complete : forall i table readers,
  Forall (fun it => exists v, In v (hconc_cands i) /\ hitem_matches v it = true) table ->
  Forall (reader_views (hconc_cands i) hitem_matches table) readers ->
  hconc_ok i (table, readers) = true.
Proof. exact hconc_complete. Qed.
Print Assumptions C18_judge_hconc_complete.

(* the repair loses no detection: the old property implies the new one, and on inputs whose views are pairwise
   distinct (what the harness generates) both give the same verdict *)
Theorem C18_judge_hconc_same_on_distinct : forall i table readers,
  distinct_viewsb (hconc_cands i) hitem_matches table = true ->
  hconc_ok i (table, readers) = hconc_ok_before i (table, readers).
Proof. exact hconc_same_on_distinct. Qed.
Print Assumptions C18_judge_hconc_same_on_distinct.

Theorem C18_judge_hconc_before_false_alarm :
  hconc_ok_before [hc_es 1; hc_es 2] (hc_shared, [[[0; 1; 2; 3; 0; 1; 2; 3]]]%N) = false /\
  hconc_ok [hc_es 1; hc_es 2] (hc_shared, [[[0; 1; 2; 3; 0; 1; 2; 3]]]%N) = true /\
  distinct_viewsb (hconc_cands [hc_es 1; hc_es 2]) hitem_matches hc_shared = false /\
  hconc_ok [hc_es 1; hc_es 2] (hc_shared, [[[0; 1; 2; 3; 0; 1; 4; 3]]]%N) = false /\
  hconc_ok [hc_es 1; hc_es 2] (hc_shared, [[[0; 1; 2; 3; 0; 1; 2; 3]; [1; 1; 1; 1; 1; 1; 4; 1]]]%N) = false /\
  hconc_ok [hc_es 1; hc_es 2] (hc_shared, [[[1; 1; 1; 1; 1; 1; 4; 1]; [0; 1; 2; 3; 0; 1; 2; 3]]]%N) = true.
Proof. exact hconc_ok_needs_distinct_views. Qed.
Print Assumptions C18_judge_hconc_before_false_alarm.

(* rseq: the same for the RMN-home poller (C18_snapshot_rmn, C18_health_exact_rmn) *)
Theorem C18_judge_rseq_model_passes : forall i, rseq_ok i (rseq_model i) = true.
Proof. exact rseq_model_passes. Qed.
Print Assumptions C18_judge_rseq_model_passes.

Theorem C18_judge_rseq_sound : forall i o, rseq_ok i o = true -> Forall2 rread_prop (rreads [] i) o.
Proof. exact rseq_sound. Qed.
Print Assumptions C18_judge_rseq_sound.

Theorem C18_judge_rconc_model_passes : forall i, rconc_ok i (@nil ritem, @nil (list (list N))) = true.
Proof. exact rconc_model_passes. Qed.
Print Assumptions C18_judge_rconc_model_passes.

Theorem C18_judge_rconc_sound : forall i table readers,
  rconc_ok i (table, readers) = true ->
  Forall (fun it => exists v, rconc_view i v /\ ritem_is v it) table /\
  Forall (reader_views (rconc_cands i) ritem_matches table) readers.
Proof. exact rconc_sound. Qed.
Print Assumptions C18_judge_rconc_sound.

Theorem C18_judge_rconc_complete : forall i table readers,
  Forall (fun it => exists v, In v (rconc_cands i) /\ ritem_matches v it = true) table ->
  Forall (reader_views (rconc_cands i) ritem_matches table) readers ->
  rconc_ok i (table, readers) = true.
Proof. exact rconc_complete. Qed.
Print Assumptions C18_judge_rconc_complete.

Theorem C18_judge_rconc_same_on_distinct : forall i table readers,
  distinct_viewsb (rconc_cands i) ritem_matches table = true ->
  rconc_ok i (table, readers) = rconc_ok_before i (table, readers).
Proof. exact rconc_same_on_distinct. Qed.
Print Assumptions C18_judge_rconc_same_on_distinct.

Theorem C18_judge_rconc_before_false_alarm :
  rconc_ok_before rc_polls (rc_table, [[[0; 1; 2; 3; 5; 6; 7; 4]]]%N) = false /\
  rconc_ok rc_polls (rc_table, [[[0; 1; 2; 3; 5; 6; 7; 4]]]%N) = true /\
  distinct_viewsb (rconc_cands rc_polls) ritem_matches rc_table = false /\
  rconc_ok rc_polls (rc_table, [[[0; 1; 2; 3; 5; 6; 2; 4]]]%N) = false.
Proof. exact rconc_ok_needs_distinct_views. Qed.
Print Assumptions C18_judge_rconc_before_false_alarm.

(* bitmap: an accepted output code is bit j of a valid bitmap, and a refusal (>= 2) wherever C18_bitmap_refusals
   demands one (bm_prop = the clauses of C18_bitmap and C18_bitmap_refusals for an arbitrary output) *)
Theorem C18_judge_bm_model_passes : forall i, bm_ok i (bm_model i) = true.
Proof. exact bm_model_passes. Qed.
Print Assumptions C18_judge_bm_model_passes.

Theorem C18_judge_bm_sound : forall b j n o, bm_ok (b, j, n) o = true -> bm_prop b j n o.
Proof. exact bm_sound. Qed.
Print Assumptions C18_judge_bm_sound.

(* conv: an accepted answer holds exactly the non-empty digests, once each, and every entry satisfies the conclusion of
   C18_node_ids for the versioned config carrying its digest (conv_prop / converted); with a valid committee and valid
   bitmaps that is the conclusion of C18_observers, bit for bit *)
Theorem C18_judge_conv_model_passes : forall i, conv_ok i (conv_model i) = true.
Proof. exact conv_model_passes. Qed.
Print Assumptions C18_judge_conv_model_passes.

Theorem C18_judge_conv_sound : forall a c m, conv_ok (a, c) (Ok m) = true -> conv_prop a c m.
Proof. exact conv_sound. Qed.
Print Assumptions C18_judge_conv_sound.

Theorem C18_judge_conv_sound_bits : forall vc hc, converted vc hc ->
  (1 <= length (vc_nodes vc) <= 256)%nat ->
  (forall ch, In ch (vc_chains vc) -> exists b, rc_bitmap ch = Some b /\ (0 <= b < 2 ^ Z.of_nat (length (vc_nodes vc)))%Z) ->
  forall j nd, nth_error (hc_nodes hc) j = Some nd ->
    hn_id nd = N.of_nat j /\
    forall x, In x (hn_chains nd) <->
              exists ch b, In ch (vc_chains vc) /\ rc_sel ch = x /\ rc_bitmap ch = Some b /\ Z.testbit b (Z.of_nat j) = true.
Proof. exact converted_bits. Qed.
Print Assumptions C18_judge_conv_sound_bits.

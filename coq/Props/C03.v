(* C03 — Commit round state machine: legal transitions, bounded waiting, self-recovery.
   This file holds the property theorems only; each is closed by [exact] of a lemma proved in Proofs/. *)
Require Import Verif.Model.Base Verif.Model.SeqRange Verif.Model.CommitMerkle Verif.Model.CommitSM
               Verif.Proofs.CommitSMP.

(* Legal transitions. For EVERY previous outcome (any outcome type value, any counters), every query and every
   consensus result (None = no consensus): the pair (state before, state after) is an edge of the README diagram.
   selecting -> building (ReportIntervalsSelected) or, with the empty outcome only, selecting -> selecting;
   building -> waiting (ReportGenerated), building -> selecting (ReportEmpty / empty outcome), and
   building -> building only when the query asks for an RMN retry, the outcome then being the previous one;
   waiting -> waiting (ReportInFlight) or waiting -> selecting (transmitted / failed / empty outcome). *)
Theorem C03_edges : forall max n prev q co,
  let st := next_state (o_type prev) in
  let o := get_outcome max n prev q co in
  let st' := next_state (o_type o) in
  match st with
  | Selecting =>
      (exists c, co = Some c /\ o_type o = T_selected /\ st' = Building) \/
      (co = None /\ o = empty_outcome /\ st' = Selecting)
  | Building =>
      (q_retry q = true /\ o = prev /\ st' = Building) \/
      (q_retry q = false /\
       ((o = empty_outcome /\ st' = Selecting) \/
        (o_type o = T_empty /\ st' = Selecting) \/
        (o_type o = T_generated /\ st' = Waiting /\ co <> None)))
  | Waiting =>
      (o = empty_outcome /\ co = None /\ st' = Selecting) \/
      (o_type o = T_transmitted /\ st' = Selecting) \/
      (o_type o = T_failed /\ st' = Selecting) \/
      (o_type o = T_inflight /\ st' = Waiting)
  end.
Proof. exact edges. Qed.
Print Assumptions C03_edges.

(* the mapping outcome type -> state, including every out-of-range type value *)
Theorem C03_next_state_total : forall t,
  (t = 1%Z /\ next_state t = Building) \/
  ((t = 2%Z \/ t = 4%Z) /\ next_state t = Waiting) \/
  (t <> 1%Z /\ t <> 2%Z /\ t <> 4%Z /\ next_state t = Selecting).
Proof. exact next_state_cases. Qed.
Print Assumptions C03_next_state_total.

Theorem C03_retry_ignored_elsewhere : forall max n prev s co,
  next_state (o_type prev) <> Building ->
  get_outcome max n prev (mkQuery true s) co = get_outcome max n prev (mkQuery false s) co.
Proof. exact retry_ignored_elsewhere. Qed.
Print Assumptions C03_retry_ignored_elsewhere.

(* Leaving the waiting phase: transmitted iff an agreed current off-ramp cursor differs from a recorded one; else
   failed iff attempts+1 (uint64 arithmetic) >= max; else in flight with attempts+1 and the recorded cursors kept.
   The order of the tests is "whichever comes first". *)
Theorem C03_wait_exit : forall max n prev q c,
  next_state (o_type prev) = Waiting ->
  let o := get_outcome max n prev q (Some c) in
  let upd := exists k s cur, In (k, s) (o_off prev) /\ alookup k (c_off c) = Some cur /\ s <> cur in
  (o_type o = T_transmitted <-> upd) /\
  (o_type o = T_failed <-> ~ upd /\ (max <= add64 (o_attempts prev) 1)%N) /\
  (o_type o = T_inflight <-> ~ upd /\ (add64 (o_attempts prev) 1 < max)%N) /\
  (o_type o = T_inflight -> o_off o = o_off prev /\ o_attempts o = add64 (o_attempts prev) 1) /\
  (o_type o = T_transmitted \/ o_type o = T_failed \/ o_type o = T_inflight).
Proof. exact wait_exit. Qed.
Print Assumptions C03_wait_exit.

(* the cursors compared while waiting are those recorded when the report was built *)
Theorem C03_build_carries_cursor : forall max n prev q co,
  next_state (o_type prev) = Building ->
  o_type (get_outcome max n prev q co) = T_generated ->
  o_off (get_outcome max n prev q co) = o_off prev.
Proof. exact build_carries_cursor. Qed.
Print Assumptions C03_build_carries_cursor.

(* Self-recovery: from ANY previous outcome, for ANY sequence of rounds (queries, consensus results), once max+2
   non-retry rounds have happened the machine has been in the selecting state, and it got there after at most
   max+2 non-retry rounds. max is the configured number of checks (a Go uint). *)
Theorem C03_recovery : forall max n prev rs,
  u64 max ->
  (max + 2 <= eff_count max n prev rs)%N ->
  exists k, (k <= length rs)%nat /\
    (eff_count max n prev (firstn k rs) <= max + 2)%N /\
    next_state (o_type (run max n prev (firstn k rs))) = Selecting.
Proof. exact recovery. Qed.
Print Assumptions C03_recovery.

(* the per-round measure behind it: every non-retry round outside the selecting state strictly decreases it *)
Theorem C03_progress : forall max n prev r,
  u64 max -> is_retry prev r = false -> (0 < rounds_left max prev)%N ->
  (rounds_left max (run_step max n prev r) < rounds_left max prev)%N /\ (rounds_left max prev <= max + 2)%N.
Proof. exact progress. Qed.
Print Assumptions C03_progress.

(* An RMN-retry round reproduces the previous outcome unchanged — whatever the observations (as repaired by
   fixes/F27.patch), for any number of consecutive retry rounds. *)
Theorem C03_retry_identity : forall max n prev q co,
  next_state (o_type prev) = Building -> q_retry q = true -> get_outcome max n prev q co = prev.
Proof. exact retry_identity. Qed.
Print Assumptions C03_retry_identity.

Theorem C03_retry_rounds_identity : forall max n prev rs,
  next_state (o_type prev) = Building -> Forall (fun r : round_in => q_retry (fst r) = true) rs ->
  run max n prev rs = prev.
Proof. exact retry_rounds_identity. Qed.
Print Assumptions C03_retry_rounds_identity.

(* F27: before the repair a retry round whose (necessarily empty) observations give no consensus lost the outcome *)
Theorem C03_retry_identity_unfixed_refuted :
  exists max n prev q co,
    next_state (o_type prev) = Building /\ q_retry q = true /\ get_outcome_unfixed27 max n prev q co <> prev.
Proof. exact retry_identity_unfixed_refuted. Qed.
Print Assumptions C03_retry_identity_unfixed_refuted.

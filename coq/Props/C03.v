(* C03 — Commit round state machine: legal transitions, bounded waiting, self-recovery.
   This file holds the property theorems only; each is closed by [exact] of a lemma proved in Proofs/. *)
Require Import Verif.Model.Base Verif.Model.SeqRange Verif.Model.CommitMerkle Verif.Model.CommitSM
               Verif.Proofs.CommitSMP.

(* Legal transitions. For EVERY previous outcome (any outcome type value, any counters), every query and every
   consensus result (None = no consensus): the pair (state before, state after) is an edge of the README diagram.
   selecting -> building (ReportIntervalsSelected) or, with the empty outcome only, selecting -> selecting;
   building -> waiting (ReportGenerated), building -> selecting (ReportEmpty / empty outcome), and
   building -> building only when the query asks for an RMN retry, the outcome then being the previous one;
   waiting -> waiting (ReportInFlight) or waiting -> selecting (transmitted / failed / empty outcome). *)
Theorem C03_edges : forall max n prev q co,
  let st := next_state (o_type prev) in
  let o := get_outcome max n prev q co in
  let st' := next_state (o_type o) in
  match st with
  | Selecting =>
      (exists c, co = Some c /\ o_type o = T_selected /\ st' = Building) \/
      (co = None /\ o = empty_outcome /\ st' = Selecting)
  | Building =>
      (q_retry q = true /\ o = prev /\ st' = Building) \/
      (q_retry q = false /\
       ((o = empty_outcome /\ st' = Selecting) \/
        (o_type o = T_empty /\ st' = Selecting) \/
        (o_type o = T_generated /\ st' = Waiting /\ co <> None)))
  | Waiting =>
      (o = empty_outcome /\ co = None /\ st' = Selecting) \/
      (o_type o = T_transmitted /\ st' = Selecting) \/
      (o_type o = T_failed /\ st' = Selecting) \/
      (o_type o = T_inflight /\ st' = Waiting)
  end.
Proof. exact edges. Qed.
Print Assumptions C03_edges.

(* the mapping outcome type -> state, including every out-of-range type value *)
Theorem C03_next_state_total : forall t,
  (t = 1%Z /\ next_state t = Building) \/
  ((t = 2%Z \/ t = 4%Z) /\ next_state t = Waiting) \/
  (t <> 1%Z /\ t <> 2%Z /\ t <> 4%Z /\ next_state t = Selecting).
Proof. exact next_state_cases. Qed.
Print Assumptions C03_next_state_total.

Theorem C03_retry_ignored_elsewhere : forall max n prev s co,
  next_state (o_type prev) <> Building ->
  get_outcome max n prev (mkQuery true s) co = get_outcome max n prev (mkQuery false s) co.
Proof. exact retry_ignored_elsewhere. Qed.
Print Assumptions C03_retry_ignored_elsewhere.

(* Leaving the waiting phase: transmitted iff an agreed current off-ramp cursor differs from a recorded one; else
   failed iff attempts+1 (uint64 arithmetic) >= max; else in flight with attempts+1 and the recorded cursors kept.
   The order of the tests is "whichever comes first". *)
Theorem C03_wait_exit : forall max n prev q c,
  next_state (o_type prev) = Waiting ->
  let o := get_outcome max n prev q (Some c) in
  let upd := exists k s cur, In (k, s) (o_off prev) /\ alookup k (c_off c) = Some cur /\ s <> cur in
  (o_type o = T_transmitted <-> upd) /\
  (o_type o = T_failed <-> ~ upd /\ (max <= add64 (o_attempts prev) 1)%N) /\
  (o_type o = T_inflight <-> ~ upd /\ (add64 (o_attempts prev) 1 < max)%N) /\
  (o_type o = T_inflight -> o_off o = o_off prev /\ o_attempts o = add64 (o_attempts prev) 1) /\
  (o_type o = T_transmitted \/ o_type o = T_failed \/ o_type o = T_inflight).
Proof. exact wait_exit. Qed.
Print Assumptions C03_wait_exit.

(* the cursors compared while waiting are those recorded when the report was built *)
Theorem C03_build_carries_cursor : forall max n prev q co,
  next_state (o_type prev) = Building ->
  o_type (get_outcome max n prev q co) = T_generated ->
  o_off (get_outcome max n prev q co) = o_off prev.
Proof. exact build_carries_cursor. Qed.
Print Assumptions C03_build_carries_cursor.

(* Self-recovery: from ANY previous outcome, for ANY sequence of rounds (queries, consensus results), once max+2
   non-retry rounds have happened the machine has been in the selecting state, and it got there after at most
   max+2 non-retry rounds. max is the configured number of checks (a Go uint). *)
Theorem C03_recovery : forall max n prev rs,
  u64 max ->
  (max + 2 <= eff_count max n prev rs)%N ->
  exists k, (k <= length rs)%nat /\
    (eff_count max n prev (firstn k rs) <= max + 2)%N /\
    next_state (o_type (run max n prev (firstn k rs))) = Selecting.
Proof. exact recovery. Qed.
Print Assumptions C03_recovery.

(* the per-round measure behind it: every non-retry round outside the selecting state strictly decreases it *)
Theorem C03_progress : forall max n prev r,
  u64 max -> is_retry prev r = false -> (0 < rounds_left max prev)%N ->
  (rounds_left max (run_step max n prev r) < rounds_left max prev)%N /\ (rounds_left max prev <= max + 2)%N.
Proof. exact progress. Qed.
Print Assumptions C03_progress.

(* An RMN-retry round reproduces the previous outcome unchanged — whatever the observations (as repaired by
   fixes/F27.patch), for any number of consecutive retry rounds. *)
Theorem C03_retry_identity : forall max n prev q co,
  next_state (o_type prev) = Building -> q_retry q = true -> get_outcome max n prev q co = prev.
Proof. exact retry_identity. Qed.
Print Assumptions C03_retry_identity.

Theorem C03_retry_rounds_identity : forall max n prev rs,
  next_state (o_type prev) = Building -> Forall (fun r : round_in => q_retry (fst r) = true) rs ->
  run max n prev rs = prev.
Proof. exact retry_rounds_identity. Qed.
Print Assumptions C03_retry_rounds_identity.

(* F27: before the repair a retry round whose (necessarily empty) observations give no consensus lost the outcome *)
Theorem C03_retry_identity_unfixed_refuted :
  exists max n prev q co,
    next_state (o_type prev) = Building /\ q_retry q = true /\ get_outcome_unfixed27 max n prev q co <> prev.
Proof. exact retry_identity_unfixed_refuted. Qed.
Print Assumptions C03_retry_identity_unfixed_refuted.

(* ---- the executable properties of Check/C03_check.v are the property (judge soundness) ---- *)
Require Import Verif.Check.C03_check Verif.Proofs.JudgeSoundC03P.

(* sink C03_hist, one round. An ARBITRARY outcome o that passes step_ok satisfies, with o in the place of
   get_outcome: the clause of C03_edges (edge_P is that clause verbatim: C03_judge_clauses_are_the_theorems), of
   C03_wait_exit, of C03_build_carries_cursor, of C03_retry_identity and of C03_progress. *)
Theorem C03_judge_step_sound : forall max prev r o,
  step_ok max prev r o = true ->
  edge_P prev (fst r) (snd r) o /\
  (next_state (o_type prev) = Waiting -> forall c, snd r = Some c ->
     let upd := exists k s cur, In (k, s) (o_off prev) /\ alookup k (c_off c) = Some cur /\ s <> cur in
     (o_type o = T_transmitted <-> upd) /\
     (o_type o = T_failed <-> ~ upd /\ (max <= add64 (o_attempts prev) 1)%N) /\
     (o_type o = T_inflight <-> ~ upd /\ (add64 (o_attempts prev) 1 < max)%N) /\
     (o_type o = T_inflight -> o_off o = o_off prev /\ o_attempts o = add64 (o_attempts prev) 1) /\
     (o_type o = T_transmitted \/ o_type o = T_failed \/ o_type o = T_inflight)) /\
  (next_state (o_type prev) = Building -> o_type o = T_generated -> o_off o = o_off prev) /\
  (next_state (o_type prev) = Building -> q_retry (fst r) = true -> o = prev) /\
  (u64 max -> is_retry prev r = false -> (0 < rounds_left max prev)%N ->
   (rounds_left max o < rounds_left max prev)%N).
Proof. exact step_ok_sound. Qed.
Print Assumptions C03_judge_step_sound.

(* the clause vocabulary is that of the theorems: at the model's outcome edge_P is the statement of C03_edges, and
   on the model's own history recovery_P is the statement of C03_recovery *)
Theorem C03_judge_clauses_are_the_theorems : forall max n prev,
  (forall q co,
     edge_P prev q co (get_outcome max n prev q co) =
     (let st := next_state (o_type prev) in
      let o := get_outcome max n prev q co in
      let st' := next_state (o_type o) in
      match st with
      | Selecting =>
          (exists c, co = Some c /\ o_type o = T_selected /\ st' = Building) \/
          (co = None /\ o = empty_outcome /\ st' = Selecting)
      | Building =>
          (q_retry q = true /\ o = prev /\ st' = Building) \/
          (q_retry q = false /\
           ((o = empty_outcome /\ st' = Selecting) \/
            (o_type o = T_empty /\ st' = Selecting) \/
            (o_type o = T_generated /\ st' = Waiting /\ co <> None)))
      | Waiting =>
          (o = empty_outcome /\ co = None /\ st' = Selecting) \/
          (o_type o = T_transmitted /\ st' = Selecting) \/
          (o_type o = T_failed /\ st' = Selecting) \/
          (o_type o = T_inflight /\ st' = Waiting)
      end)) /\
  (forall rs,
     recovery_P max prev rs (hist_model (max, n, prev, rs)) <->
     ((max + 2 <= eff_count max n prev rs)%N ->
      exists k, (k <= length rs)%nat /\
        (eff_count max n prev (firstn k rs) <= max + 2)%N /\
        next_state (o_type (run max n prev (firstn k rs))) = Selecting)).
Proof. exact (fun max n prev => conj (fun q co => eq_refl) (recovery_P_at_model max n prev)). Qed.
Print Assumptions C03_judge_clauses_are_the_theorems.

(* sink C03_hist, the history. An ARBITRARY list of outcomes that passes hist_ok has one outcome per round, every
   round legal in the sense above taken with the outcome that precedes it (legal_hist), and satisfies the clause of
   C03_recovery along the implementation's own trajectory: once max+2 non-retry rounds have happened the machine has
   been in the selecting state after at most max+2 of them. *)
Theorem C03_judge_hist_sound : forall max n prev rs os,
  hist_ok (max, n, prev, rs) os = true ->
  length os = length rs /\
  legal_hist max prev rs os /\
  ((max + 2 <= eff_count_tr prev rs os)%N ->
   exists k, (k <= length rs)%nat /\
     (eff_count_tr prev (firstn k rs) (firstn k os) <= max + 2)%N /\
     next_state (o_type (final prev (firstn k os))) = Selecting).
Proof. exact (fun max n prev rs os => hist_ok_sound (max, n, prev, rs) os). Qed.
Print Assumptions C03_judge_hist_sound.

(* the model's own history passes (max is a Go uint, as in C03_recovery), round by round without any premise *)
Theorem C03_judge_hist_model_passes : forall max n prev rs,
  u64 max -> hist_ok (max, n, prev, rs) (hist_model (max, n, prev, rs)) = true.
Proof. exact hist_model_passes. Qed.
Print Assumptions C03_judge_hist_model_passes.

Theorem C03_judge_step_model_passes : forall max n prev r, step_ok max prev r (run_step max n prev r) = true.
Proof. exact step_model_passes. Qed.
Print Assumptions C03_judge_step_model_passes.

(* C14 — Price and fee updates are robust medians, sent only on heartbeat or deviation.
   This file holds the property theorems only; each is closed by [exact] of a lemma proved in Proofs/.
   big.Int = Z, time = Z nanoseconds; votes get aos k = the (oracle, value) observations of key k;
   fchain_cons get F aos = the fChain map agreed at 2F+1; agg_thr t = t for t < 2^63 (Go compares against int(t)). *)
Require Import Verif.Model.Base Verif.Model.Consensus Verif.Model.CommitConsensus Verif.Model.Prices Verif.Model.PricesHist
               Verif.Proofs.CommitConsensusP Verif.Proofs.PricesP Verif.Proofs.PricesHistP.

(* the median of >= 2f+1 values of which <= f are faulty lies between the smallest and largest honest value *)
Theorem C14_median_robust : forall (xs hs bs : list Z) (f : nat) (lo hi : Z),
  Permutation xs (hs ++ bs) -> (length bs <= f)%nat -> (2 * f + 1 <= length xs)%nat ->
  (forall h, In h hs -> lo <= h <= hi)%Z ->
  (lo <= medianZ xs <= hi)%Z.
Proof. exact median_robust. Qed.
Print Assumptions C14_median_robust.

(* element-wise for the three-component chain-fee update (exec usd, da usd, timestamp) ... *)
Theorem C14_median_robust_fee_update : forall (us hs bs : list update_t) (f : nat) (lo hi : update_t),
  Permutation us (hs ++ bs) -> (length bs <= f)%nat -> (2 * f + 1 <= length us)%nat ->
  (forall h, In h hs ->
     fst (fst lo) <= fst (fst h) <= fst (fst hi) /\ snd (fst lo) <= snd (fst h) <= snd (fst hi) /\
     snd lo <= snd h <= snd hi)%Z ->
  let m := update_agg us in
  (fst (fst lo) <= fst (fst m) <= fst (fst hi) /\ snd (fst lo) <= snd (fst m) <= snd (fst hi) /\
   snd lo <= snd m <= snd hi)%Z.
Proof. exact update_agg_robust. Qed.
Print Assumptions C14_median_robust_fee_update.

(* ... and for the two-component aggregates (timestamp, value) of fee-quoter token updates and (exec, da) fee components *)
Theorem C14_median_robust_pair : forall (us hs bs : list (Z * Z)) (f : nat) (lo hi : Z * Z),
  Permutation us (hs ++ bs) -> (length bs <= f)%nat -> (2 * f + 1 <= length us)%nat ->
  (forall h, In h hs -> fst lo <= fst h <= fst hi /\ snd lo <= snd h <= snd hi)%Z ->
  (fst lo <= medianZ (map fst us) <= fst hi /\ snd lo <= medianZ (map snd us) <= snd hi)%Z.
Proof. exact pair_agg_robust. Qed.
Print Assumptions C14_median_robust_pair.

(* GetConsensusMapAggregator (after the repair of F08): a key is aggregated iff it has a threshold and at least that
   many values were observed *)
Theorem C14_threshold : forall (T K : Type) (thr_of : K -> option N) (agg : list T -> T) (m : list (K * list T)) k v,
  In (k, v) (consensus_agg thr_of agg m) <->
  exists vals thr, In (k, vals) m /\ thr_of k = Some thr /\ (thr <= N.of_nat (length vals))%N /\ v = agg vals.
Proof. exact @consensus_agg_in. Qed.
Print Assumptions C14_threshold.

(* the function as it was: a key WITHOUT threshold is aggregated from a single value *)
Theorem C14_threshold_unfixed_refuted :
  exists (thr_of : N -> option N) (m : list (N * list Z)) k v,
    In (k, v) (consensus_agg_unfixed thr_of medianZ m) /\ thr_of k = None /\
    In (k, [v]) m /\ ~ In (k, v) (consensus_agg thr_of medianZ m).
Proof. exact consensus_agg_unfixed_refuted. Qed.
Print Assumptions C14_threshold_unfixed_refuted.

(* ... which at the chain-fee processor made one oracle's lone observation of a chain with no agreed f a reported gas price *)
Theorem C14_gas_threshold_unfixed_refuted :
  exists freq feeinfo F dest aos out k g,
    cf_outcome_unfixed freq feeinfo F dest aos = Ok out /\ In (k, g) out /\
    alookup k (fchain_cons cf_fchain F aos) = None /\
    length (votes cf_feecomp aos k) = 1%nat /\
    cf_outcome freq feeinfo F dest aos = Ok [].
Proof. exact gas_threshold_unfixed_refuted. Qed.
Print Assumptions C14_gas_threshold_unfixed_refuted.

Theorem C14_threshold_value : forall f, (0 <= f < 2 ^ 62)%Z -> agg_thr (two_f_plus_1 f) = Z.to_N (2 * f + 1).
Proof. exact agg_thr_small. Qed.
Print Assumptions C14_threshold_value.

(* every reported gas price: f_k agreed, >= 2f_k+1 fee-component and native-price observations of chain k, and
   price = (usd(da) << 112) | usd(exec) with usd(x) = median x * median native price / 1e18 *)
Theorem C14_gas_price : forall freq feeinfo F dest aos out k g,
  cf_outcome freq feeinfo F dest aos = Ok out -> In (k, g) out ->
  exists f,
    alookup k (fchain_cons cf_fchain F aos) = Some f /\
    let fcs := map snd (votes cf_feecomp aos k) in
    let nts := map snd (votes cf_native aos k) in
    (agg_thr (two_f_plus_1 f) <= N.of_nat (length fcs))%N /\
    (agg_thr (two_f_plus_1 f) <= N.of_nat (length nts))%N /\
    g = to_packed (usd_per_unit_gas (medianZ (map snd fcs)) (medianZ nts))
                  (usd_per_unit_gas (medianZ (map fst fcs)) (medianZ nts)).
Proof. exact gas_price_derivation. Qed.
Print Assumptions C14_gas_price.

(* every reported token price is the median of >= 2 f_feed + 1 observed feed prices *)
Theorem C14_token_price : forall freq tokeninfo feedchain F dest aos out t p,
  tp_outcome freq tokeninfo feedchain F dest aos = Ok out -> In (t, p) out ->
  exists ff,
    alookup feedchain (fchain_cons tp_fchain F aos) = Some ff /\
    let ps := map snd (votes tp_feed aos t) in
    (agg_thr (two_f_plus_1 ff) <= N.of_nat (length ps))%N /\ p = medianZ ps.
Proof. exact token_price_derivation. Qed.
Print Assumptions C14_token_price.

(* hence it lies between the smallest and largest honest observation when at most f_feed observers are faulty *)
Theorem C14_token_price_robust : forall freq tokeninfo feedchain F dest aos out t p ff hs bs lo hi,
  tp_outcome freq tokeninfo feedchain F dest aos = Ok out -> In (t, p) out ->
  alookup feedchain (fchain_cons tp_fchain F aos) = Some ff -> (0 <= ff < 2 ^ 62)%Z ->
  Permutation (map snd (votes tp_feed aos t)) (hs ++ bs) -> (length bs <= Z.to_nat ff)%nat ->
  (forall h, In h hs -> lo <= h <= hi)%Z ->
  (lo <= p <= hi)%Z.
Proof. exact token_price_robust. Qed.
Print Assumptions C14_token_price_robust.

(* units *)
Theorem C14_units_usd : forall fee price,
  let u := usd_per_unit_gas fee price in
  (u * 1000000000000000000 <= fee * price < (u + 1) * 1000000000000000000)%Z.
Proof. exact usd_per_unit_gas_spec. Qed.
Print Assumptions C14_units_usd.

Theorem C14_units_packing : forall da ex,
  (0 <= ex < 2 ^ 112)%Z -> (0 <= da)%Z ->
  to_packed da ex = (da * 2 ^ 112 + ex)%Z /\ from_packed (to_packed da ex) = (ex, da).
Proof. exact units_packing. Qed.
Print Assumptions C14_units_packing.

(* Deviates: integer inequality for 0 < x2 <= x1, symmetric, any change from or to zero counts *)
Theorem C14_deviates_spec : forall x1 x2 ppb,
  (0 < x2 <= x1)%Z ->
  (deviates x1 x2 ppb = true <-> (ppb + 1) * x2 <= (x1 - x2) * 1000000000)%Z.
Proof. exact deviates_spec. Qed.
Print Assumptions C14_deviates_spec.

Theorem C14_deviates_sym : forall x1 x2 ppb, deviates x1 x2 ppb = deviates x2 x1 ppb.
Proof. exact deviates_sym. Qed.
Print Assumptions C14_deviates_sym.

Theorem C14_deviates_zero : forall x ppb,
  (deviates 0 x ppb = true <-> x <> 0%Z) /\ (deviates x 0 ppb = true <-> x <> 0%Z).
Proof. exact deviates_zero. Qed.
Print Assumptions C14_deviates_zero.

(* selection: a gas price is reported iff the chain has agreed USD prices and (no agreed stored update, or the stored one is
   older than the write frequency at the median observed time, or either component deviates); strictly sorted by chain *)
Theorem C14_selection_gas : forall freq feeinfo F dest aos out,
  cf_outcome freq feeinfo F dest aos = Ok out ->
  exists c, cf_consensus F dest aos = Ok c /\
    (forall k g, In (k, g) out <->
       exists ex da, In (k, (ex, da)) (cf_usd c) /\ g = to_packed da ex /\
         (alookup k (cc_updates c) = None \/
          exists uex uda uts, alookup k (cc_updates c) = Some (uex, uda, uts) /\
            ((uts + freq < cc_ts c)%Z \/
             exists eppb dppb, alookup k feeinfo = Some (eppb, dppb) /\
               (deviates ex uex eppb = true \/ deviates da uda dppb = true)))) /\
    keys_strict out.
Proof. exact selection_gas. Qed.
Print Assumptions C14_selection_gas.

Theorem C14_selection_token : forall freq tokeninfo feedchain F dest aos out,
  tp_outcome freq tokeninfo feedchain F dest aos = Ok out ->
  (freq = 0%Z /\ out = []) \/
  (freq <> 0%Z /\ exists c, tp_consensus feedchain F dest aos = Ok c /\
     (forall t p, In (t, p) out <->
        In (t, p) (tc_feed c) /\
        (alookup t (tc_updates c) = None \/
         exists uts uval ppb, alookup t (tc_updates c) = Some (uts, uval) /\ alookup t tokeninfo = Some ppb /\
           ((uts + freq < tc_ts c)%Z \/ deviates p uval ppb = true))) /\
     keys_strict out).
Proof. exact selection_token. Qed.
Print Assumptions C14_selection_token.

(* repair of F09: a validated observation contains no null big integer (Outcome dereferences all of them) *)
Theorem C14_validated_no_null_chainfee : forall roles known dest o r,
  cf_validate roles known dest (o, r) = true ->
  (forall k ex da, In (k, (ex, da)) (cfr_feecomp r) -> exists e d, ex = Some e /\ da = Some d /\ (0 < e)%Z /\ (0 <= d)%Z) /\
  (forall k p, In (k, p) (cfr_native r) -> exists z, p = Some z /\ (0 < z)%Z) /\
  (forall k a b ts, In (k, (a, b, ts)) (cfr_updates r) -> a <> None /\ b <> None).
Proof. exact cf_validate_no_null. Qed.
Print Assumptions C14_validated_no_null_chainfee.

Theorem C14_validated_no_null_tokenprice : forall roles known feedchain dest o r,
  tp_validate roles known feedchain dest (o, r) = true ->
  NoDup (map fst (tpr_feed r)) /\
  (forall t p, In (t, p) (tpr_feed r) -> p <> None) /\
  (forall t ts v, In (t, (ts, v)) (tpr_updates r) -> v <> None).
Proof. exact tp_validate_no_null. Qed.
Print Assumptions C14_validated_no_null_tokenprice.

Theorem C14_validation_unfixed_refuted :
  (exists roles known dest o r k ts,
     cf_validate_unfixed roles known dest (o, r) = true /\ In (k, (None, None, ts)) (cfr_updates r)) /\
  (exists roles known feedchain dest o r t ts,
     tp_validate_unfixed roles known feedchain dest (o, r) = true /\ In (t, (ts, None)) (tpr_updates r)).
Proof. exact validate_unfixed_refuted. Qed.
Print Assumptions C14_validation_unfixed_refuted.

(* ================= histories: ONE long-lived processor, round k+1 is handed the Outcome value of round k ================= *)
(* cf_history cfg prev rds / tp_history cfg prev rds = the list of (verdicts, Outcome result, prices of the returned
   Outcome value) of the rounds rds run through one processor with configuration cfg, the first round being handed prev and
   every later round the returned value of the round before (Model/PricesHist.v). *)

(* round k of every history is the processor run on round k's role map and observations alone: neither the initial previous
   outcome nor anything that happened in rounds 0..k-1 occurs on the right-hand side *)
Theorem C14_history_round_gas : forall cfg prev rds k rd,
  nth_error rds k = Some rd ->
  nth_error (cf_history cfg prev rds) k = Some (cf_step cfg [] rd).
Proof. exact cf_history_round. Qed.
Print Assumptions C14_history_round_gas.

Theorem C14_history_round_token : forall cfg prev rds k rd,
  nth_error rds k = Some rd ->
  nth_error (tp_history cfg prev rds) k = Some (tp_step cfg [] rd).
Proof. exact tp_history_round. Qed.
Print Assumptions C14_history_round_token.

Theorem C14_history_prev_irrelevant : forall ccfg tcfg p1 p2 q1 q2 crds trds,
  cf_history ccfg p1 crds = cf_history ccfg p2 crds /\ tp_history tcfg q1 trds = tp_history tcfg q2 trds.
Proof. exact history_prev_irrelevant. Qed.
Print Assumptions C14_history_prev_irrelevant.

(* hence every gas price in the Outcome value of any round of any history satisfies C14_gas_price and C14_selection_gas
   over the observations accepted in THAT round *)
Theorem C14_history_gas_current : forall cfg prev rds k rd vs r out c g,
  nth_error rds k = Some rd ->
  nth_error (cf_history cfg prev rds) k = Some (vs, r, out) ->
  In (c, g) out ->
  let aos := cf_accepted cfg rd in
  r = Ok out /\
  (exists f,
     alookup c (fchain_cons cf_fchain (cfc_F cfg) aos) = Some f /\
     let fcs := map snd (votes cf_feecomp aos c) in
     let nts := map snd (votes cf_native aos c) in
     (agg_thr (two_f_plus_1 f) <= N.of_nat (length fcs))%N /\
     (agg_thr (two_f_plus_1 f) <= N.of_nat (length nts))%N /\
     g = to_packed (usd_per_unit_gas (medianZ (map snd fcs)) (medianZ nts))
                   (usd_per_unit_gas (medianZ (map fst fcs)) (medianZ nts))) /\
  (exists cns, cf_consensus (cfc_F cfg) (cfc_dest cfg) aos = Ok cns /\
     exists ex da, In (c, (ex, da)) (cf_usd cns) /\ g = to_packed da ex /\
       (alookup c (cc_updates cns) = None \/
        exists uex uda uts, alookup c (cc_updates cns) = Some (uex, uda, uts) /\
          ((uts + cfc_freq cfg < cc_ts cns)%Z \/
           exists eppb dppb, alookup c (cfc_feeinfo cfg) = Some (eppb, dppb) /\
             (deviates ex uex eppb = true \/ deviates da uda dppb = true)))).
Proof. exact cf_history_current. Qed.
Print Assumptions C14_history_gas_current.

(* ... and every token price C14_token_price and C14_selection_token ... *)
Theorem C14_history_token_current : forall cfg prev rds k rd vs r out t p,
  nth_error rds k = Some rd ->
  nth_error (tp_history cfg prev rds) k = Some (vs, r, out) ->
  In (t, p) out ->
  let aos := tp_accepted cfg rd in
  r = Ok out /\
  (exists ff,
     alookup (tpc_feedchain cfg) (fchain_cons tp_fchain (tpc_F cfg) aos) = Some ff /\
     let ps := map snd (votes tp_feed aos t) in
     (agg_thr (two_f_plus_1 ff) <= N.of_nat (length ps))%N /\ p = medianZ ps) /\
  (exists cns, tp_consensus (tpc_feedchain cfg) (tpc_F cfg) (tpc_dest cfg) aos = Ok cns /\
     In (t, p) (tc_feed cns) /\
     (alookup t (tc_updates cns) = None \/
      exists uts uval ppb, alookup t (tc_updates cns) = Some (uts, uval) /\ alookup t (tpc_tokeninfo cfg) = Some ppb /\
        ((uts + tpc_freq cfg < tc_ts cns)%Z \/ deviates p uval ppb = true))).
Proof. exact tp_history_current. Qed.
Print Assumptions C14_history_token_current.

(* ... and C14_median_robust: between the smallest and largest honest observation of THAT round *)
Theorem C14_history_token_robust : forall cfg prev rds k rd vs r out t p ff hs bs lo hi,
  nth_error rds k = Some rd ->
  nth_error (tp_history cfg prev rds) k = Some (vs, r, out) ->
  In (t, p) out ->
  let aos := tp_accepted cfg rd in
  alookup (tpc_feedchain cfg) (fchain_cons tp_fchain (tpc_F cfg) aos) = Some ff -> (0 <= ff < 2 ^ 62)%Z ->
  Permutation (map snd (votes tp_feed aos t)) (hs ++ bs) -> (length bs <= Z.to_nat ff)%nat ->
  (forall h, In h hs -> lo <= h <= hi)%Z ->
  (lo <= p <= hi)%Z.
Proof. exact tp_history_robust. Qed.
Print Assumptions C14_history_token_robust.

(* a round whose observations reach no consensus (destination f / timestamps: the error exit; no chain with agreed fee
   components: the "nothing to update" exit) hands back NO price, whatever it was handed as previous outcome *)
Theorem C14_history_no_consensus_no_gas_price : forall cfg prev rds k rd vs r out,
  nth_error rds k = Some rd ->
  nth_error (cf_history cfg prev rds) k = Some (vs, r, out) ->
  (cf_consensus (cfc_F cfg) (cfc_dest cfg) (cf_accepted cfg rd) = Err \/
   exists cns, cf_consensus (cfc_F cfg) (cfc_dest cfg) (cf_accepted cfg rd) = Ok cns /\ cc_feecomp cns = []) ->
  out = [].
Proof. exact cf_history_no_consensus_no_price. Qed.
Print Assumptions C14_history_no_consensus_no_gas_price.

Theorem C14_history_no_consensus_no_token_price : forall cfg prev rds k rd vs r out,
  nth_error rds k = Some rd ->
  nth_error (tp_history cfg prev rds) k = Some (vs, r, out) ->
  tp_consensus (tpc_feedchain cfg) (tpc_F cfg) (tpc_dest cfg) (tp_accepted cfg rd) = Err ->
  out = [].
Proof. exact tp_history_no_consensus_no_price. Qed.
Print Assumptions C14_history_no_consensus_no_token_price.

(* plugin level: the price part (ChainFeeOutcome.GasPrices, TokenPriceOutcome.TokenPrices) of the outcome of round k — which
   Reports copies into PriceUpdates — is the pair of the two processors' returned values of round k *)
Theorem C14_history_plugin_prices : forall cfg prev rds k rd gas tok,
  nth_error rds k = Some rd ->
  nth_error (pl_history cfg prev rds) k = Some (gas, tok) ->
  nth_error (cf_history (fst cfg) (fst prev) (map fst rds)) k
    = Some (cf_verdicts (fst cfg) (fst rd), cf_step_result (fst cfg) (fst rd), gas) /\
  nth_error (tp_history (snd cfg) (snd prev) (map snd rds)) k
    = Some (tp_verdicts (snd cfg) (snd rd), tp_step_result (snd cfg) (snd rd), tok).
Proof. exact history_plugin_prices. Qed.
Print Assumptions C14_history_plugin_prices.

(* the theorems above tell the code apart from a processor that hands the previous outcome back on its error and "nothing to
   update" exits: run over the three-round history of Proofs/PricesHistP.v that variant puts a gas price of a chain with
   NO fee-component observation in round 2 into round 2's Outcome value, where the model of the code has none *)
Theorem C14_history_stale_variant_refuted :
  exists cfg rds vs r out c g,
    nth_error (run_hist cf_step_stale ro_next cfg [] rds) 2 = Some (vs, r, out) /\
    In (c, g) out /\ r = Err /\
    (forall rd, nth_error rds 2 = Some rd -> votes cf_feecomp (cf_accepted cfg rd) c = []) /\
    nth_error (cf_history cfg [] rds) 2 = Some (vs, Err, []).
Proof. exact cf_history_stale_refuted. Qed.
Print Assumptions C14_history_stale_variant_refuted.

(* non-vacuity: a concrete history (first round reports a price, the next two, handed that price, report none; a non-empty
   initial previous outcome) meets the hypotheses of the history theorems *)
Theorem C14_history_nonvacuous :
  cf_history ex_cf_cfg [(7%N, 1%Z)] [ex_cf_round1; ex_cf_round2; ex_cf_round3]
  = [ ([true; true; true; true], Ok [(5%N, to_packed 2000000000 60000000000000)], [(5%N, to_packed 2000000000 60000000000000)]);
      ([true; true; true; true], Ok [], []);
      ([true; true; true; true], Err, []) ] /\
  tp_history ex_tp_cfg [(17%N, 1%Z)] [ex_tp_round1; ex_tp_round2]
  = [ ([true; true; true; true], Ok [(17%N, 1002%Z)], [(17%N, 1002%Z)]);
      ([true; true; true; true], Ok [], []) ].
Proof. split; [exact ex_cf_history|exact ex_tp_history]. Qed.
Print Assumptions C14_history_nonvacuous.

Require Import Verif.Check.C01_check Verif.Check.C14_check Verif.Proofs.JudgeSoundC14P.
(* ---- the executable properties of Check/C14_check.v are the property (judge soundness) ---- *)
(* For every sink: the model's own output passes the executable property x_ok of its judge (so code 2 is never raised on
   a case where the code agrees with the model), and ANY output that passes x_ok satisfies the Prop-level clause.
   cf_input_wf / tp_input_wf / pplug_input_wf (Proofs/JudgeSoundC14P.v): every Go map of an observation has each key once
   and every observed f candidate is below 2^62 (spec: trusted); oracle ids distinct = libocr's one observation per oracle. *)

(* dev: C14_deviates_sym, C14_deviates_zero, C14_deviates_spec (in both operand orders) on the two answers of the code *)
Theorem C14_judge_dev_model_passes : forall i, dev_ok i (dev_model i) = true.
Proof. exact dev_model_passes. Qed.
Print Assumptions C14_judge_dev_model_passes.

Theorem C14_judge_dev_sound : forall x1 x2 ppb o,
  dev_ok (x1, x2, ppb) o = true ->
  fst o = snd o /\
  (x1 = 0%Z \/ x2 = 0%Z -> (fst o = true <-> x1 <> x2)) /\
  ((0 < x2 <= x1)%Z -> (fst o = true <-> (ppb + 1) * x2 <= (x1 - x2) * 1000000000)%Z) /\
  ((0 < x1 <= x2)%Z -> (fst o = true <-> (ppb + 1) * x1 <= (x2 - x1) * 1000000000)%Z).
Proof. exact dev_sound. Qed.
Print Assumptions C14_judge_dev_sound.

(* usd: C14_units_usd; the bounds determine the answer *)
Theorem C14_judge_usd_model_passes : forall i, usd_ok i (usd_model i) = true.
Proof. exact usd_model_passes. Qed.
Print Assumptions C14_judge_usd_model_passes.

Theorem C14_judge_usd_sound : forall i o,
  usd_ok i o = true ->
  (o * 1000000000000000000 <= fst i * snd i < (o + 1) * 1000000000000000000)%Z /\ o = usd_per_unit_gas (fst i) (snd i).
Proof. exact usd_sound. Qed.
Print Assumptions C14_judge_usd_sound.

(* pack: C14_units_packing on (ToPackedFee, FromPackedFee of it); operands out of range are not judged *)
Theorem C14_judge_pack_model_passes : forall i, pack_ok i (pack_model i) = true.
Proof. exact pack_model_passes. Qed.
Print Assumptions C14_judge_pack_model_passes.

Theorem C14_judge_pack_sound : forall da ex o,
  pack_ok (da, ex) o = true ->
  (0 <= ex < 2 ^ 112)%Z -> (0 <= da)%Z ->
  fst o = (da * 2 ^ 112 + ex)%Z /\ snd o = (ex, da) /\ fst o = to_packed da ex /\ snd o = from_packed (fst o).
Proof. exact pack_sound. Qed.
Print Assumptions C14_judge_pack_sound.

(* med: C14_median_robust for any accepted value: bracketed by the honest observations, and an observed value ... *)
Theorem C14_judge_med_model_passes : forall l, med_ok l (med_model l) = true.
Proof. exact med_model_passes. Qed.
Print Assumptions C14_judge_med_model_passes.

Theorem C14_judge_med_sound : forall (xs hs bs : list Z) (o : Z) (f : nat) (lo hi : Z),
  med_ok xs o = true ->
  Permutation xs (hs ++ bs) -> (length bs <= f)%nat -> (2 * f + 1 <= length xs)%nat ->
  (forall h, In h hs -> lo <= h <= hi)%Z ->
  (lo <= o <= hi)%Z /\ In o xs.
Proof. exact med_sound. Qed.
Print Assumptions C14_judge_med_sound.

(* ... in fact the rank test of the check pins the value: element len/2 of the sorted observations *)
Theorem C14_judge_med_sound_value : forall l o, l <> [] -> med_ok l o = true -> o = medianZ l.
Proof. exact med_ok_eq. Qed.
Print Assumptions C14_judge_med_sound_value.

(* cf: chainfee ValidateObservation + Outcome *)
Theorem C14_judge_cf_model_passes : forall freq feeinfo F dest roles known aos,
  NoDup (map fst aos) -> cf_input_wf aos ->
  cf_ok (freq, feeinfo, F, dest, roles, known, aos) (cf_model (freq, feeinfo, F, dest, roles, known, aos)) = true.
Proof. exact cf_model_passes. Qed.
Print Assumptions C14_judge_cf_model_passes.

(* an accepted output: one verdict per observation, distinct oracles, every accepted observation satisfies
   C14_validated_no_null_chainfee, and the result IS the model's Outcome over the observations that output accepted *)
Theorem C14_judge_cf_sound : forall freq feeinfo F dest roles known aos o,
  cf_input_wf aos ->
  cf_ok (freq, feeinfo, F, dest, roles, known, aos) o = true ->
  let accr := select (fst o) aos in
  let acc := map (fun ao => (fst ao, cf_clean (snd ao))) accr in
  length (fst o) = length aos /\ NoDup (map fst aos) /\
  (forall ao, In ao accr -> cf_no_null (snd ao)) /\
  snd o = cf_outcome freq feeinfo F dest acc /\
  ((exists out, snd o = Ok out /\ keys_strict out) \/ snd o = Err).
Proof. exact cf_sound. Qed.
Print Assumptions C14_judge_cf_sound.

(* hence C14_gas_price (medians of >= 2f_k+1 observations, packed USD prices) ... *)
Theorem C14_judge_cf_sound_gas_price : forall freq feeinfo F dest roles known aos o out k g,
  cf_input_wf aos ->
  cf_ok (freq, feeinfo, F, dest, roles, known, aos) o = true ->
  snd o = Ok out -> In (k, g) out ->
  let acc := map (fun ao => (fst ao, cf_clean (snd ao))) (select (fst o) aos) in
  exists f,
    alookup k (fchain_cons cf_fchain F acc) = Some f /\
    let fcs := map snd (votes cf_feecomp acc k) in
    let nts := map snd (votes cf_native acc k) in
    (agg_thr (two_f_plus_1 f) <= N.of_nat (length fcs))%N /\
    (agg_thr (two_f_plus_1 f) <= N.of_nat (length nts))%N /\
    g = to_packed (usd_per_unit_gas (medianZ (map snd fcs)) (medianZ nts))
                  (usd_per_unit_gas (medianZ (map fst fcs)) (medianZ nts)).
Proof. exact cf_sound_gas_price. Qed.
Print Assumptions C14_judge_cf_sound_gas_price.

(* ... and C14_selection_gas (reported iff agreed USD prices and no stored update / heartbeat / deviation; sorted) of the
   implementation's prices *)
Theorem C14_judge_cf_sound_selection : forall freq feeinfo F dest roles known aos o out,
  cf_input_wf aos ->
  cf_ok (freq, feeinfo, F, dest, roles, known, aos) o = true ->
  snd o = Ok out ->
  let acc := map (fun ao => (fst ao, cf_clean (snd ao))) (select (fst o) aos) in
  exists c, cf_consensus F dest acc = Ok c /\
    (forall k g, In (k, g) out <->
       exists ex da, In (k, (ex, da)) (cf_usd c) /\ g = to_packed da ex /\
         (alookup k (cc_updates c) = None \/
          exists uex uda uts, alookup k (cc_updates c) = Some (uex, uda, uts) /\
            ((uts + freq < cc_ts c)%Z \/
             exists eppb dppb, alookup k feeinfo = Some (eppb, dppb) /\
               (deviates ex uex eppb = true \/ deviates da uda dppb = true)))) /\
    keys_strict out.
Proof. exact cf_sound_selection. Qed.
Print Assumptions C14_judge_cf_sound_selection.

(* the check as it was: (1) demanded da * 2^112 + ex where the code and C14_gas_price have to_packed da ex, and so rejected
   the model's own output when the agreed execution price reaches 2^112 (a false alarm in waiting);
   (2) let an accepted observation with a negative execution fee pass (C14_validated_no_null_chainfee: 0 < e) *)
Theorem C14_judge_cf_before_false_alarm :
  cf_model fa_cf_in = ([true; true; true; true], Ok [(5%N, (2 ^ 120)%Z)]) /\
  cf_ok_before fa_cf_in (cf_model fa_cf_in) = false /\
  cf_ok fa_cf_in (cf_model fa_cf_in) = true.
Proof. exact cf_ok_before_false_alarm. Qed.
Print Assumptions C14_judge_cf_before_false_alarm.

Theorem C14_judge_cf_before_weak :
  cf_ok_before wk_cf_in ([true; true; true; true], Ok []) = true /\
  ~ cf_no_null (mkCfRaw [(5%N, (Some (-5), Some 1)%Z)] [] [] [(9%N, 1%Z)] 100%Z) /\
  cf_ok wk_cf_in ([true; true; true; true], Ok []) = false.
Proof. exact cf_ok_before_weak. Qed.
Print Assumptions C14_judge_cf_before_weak.

(* tp: tokenprice ValidateObservation + Outcome *)
Theorem C14_judge_tp_model_passes : forall freq tokeninfo feedchain F dest roles known aos,
  NoDup (map fst aos) -> tp_input_wf aos ->
  tp_ok (freq, tokeninfo, feedchain, F, dest, roles, known, aos)
        (tp_model (freq, tokeninfo, feedchain, F, dest, roles, known, aos)) = true.
Proof. exact tp_model_passes. Qed.
Print Assumptions C14_judge_tp_model_passes.

Theorem C14_judge_tp_sound : forall freq tokeninfo feedchain F dest roles known aos o,
  tp_input_wf aos ->
  tp_ok (freq, tokeninfo, feedchain, F, dest, roles, known, aos) o = true ->
  let accr := select (fst o) aos in
  let acc := map (fun ao => (fst ao, tp_clean (snd ao))) accr in
  length (fst o) = length aos /\ NoDup (map fst aos) /\
  (forall ao, In ao accr -> tp_no_null (snd ao)) /\
  snd o = tp_outcome freq tokeninfo feedchain F dest acc /\
  ((exists out, snd o = Ok out /\ keys_strict out) \/ snd o = Err).
Proof. exact tp_sound. Qed.
Print Assumptions C14_judge_tp_sound.

(* hence C14_token_price ... *)
Theorem C14_judge_tp_sound_token_price : forall freq tokeninfo feedchain F dest roles known aos o out t p,
  tp_input_wf aos ->
  tp_ok (freq, tokeninfo, feedchain, F, dest, roles, known, aos) o = true ->
  snd o = Ok out -> In (t, p) out ->
  let acc := map (fun ao => (fst ao, tp_clean (snd ao))) (select (fst o) aos) in
  exists ff,
    alookup feedchain (fchain_cons tp_fchain F acc) = Some ff /\
    let ps := map snd (votes tp_feed acc t) in
    (agg_thr (two_f_plus_1 ff) <= N.of_nat (length ps))%N /\ p = medianZ ps.
Proof. exact tp_sound_token_price. Qed.
Print Assumptions C14_judge_tp_sound_token_price.

(* ... C14_token_price_robust (between the honest observations) ... *)
Theorem C14_judge_tp_sound_robust : forall freq tokeninfo feedchain F dest roles known aos o out t p ff hs bs lo hi,
  tp_input_wf aos ->
  tp_ok (freq, tokeninfo, feedchain, F, dest, roles, known, aos) o = true ->
  snd o = Ok out -> In (t, p) out ->
  let acc := map (fun ao => (fst ao, tp_clean (snd ao))) (select (fst o) aos) in
  alookup feedchain (fchain_cons tp_fchain F acc) = Some ff -> (0 <= ff < 2 ^ 62)%Z ->
  Permutation (map snd (votes tp_feed acc t)) (hs ++ bs) -> (length bs <= Z.to_nat ff)%nat ->
  (forall h, In h hs -> lo <= h <= hi)%Z ->
  (lo <= p <= hi)%Z.
Proof. exact tp_sound_robust. Qed.
Print Assumptions C14_judge_tp_sound_robust.

(* ... and C14_selection_token of the implementation's prices *)
Theorem C14_judge_tp_sound_selection : forall freq tokeninfo feedchain F dest roles known aos o out,
  tp_input_wf aos ->
  tp_ok (freq, tokeninfo, feedchain, F, dest, roles, known, aos) o = true ->
  snd o = Ok out ->
  let acc := map (fun ao => (fst ao, tp_clean (snd ao))) (select (fst o) aos) in
  (freq = 0%Z /\ out = []) \/
  (freq <> 0%Z /\ exists c, tp_consensus feedchain F dest acc = Ok c /\
     (forall t p, In (t, p) out <->
        In (t, p) (tc_feed c) /\
        (alookup t (tc_updates c) = None \/
         exists uts uval ppb, alookup t (tc_updates c) = Some (uts, uval) /\ alookup t tokeninfo = Some ppb /\
           ((uts + freq < tc_ts c)%Z \/ deviates p uval ppb = true))) /\
     keys_strict out).
Proof. exact tp_sound_selection. Qed.
Print Assumptions C14_judge_tp_sound_selection.

(* pplug: commit.Plugin ValidateObservation + Outcome + Reports: an accepted output is the model's, verdicts included *)
Theorem C14_judge_pplug_model_passes : forall gfreq feeinfo tfreq tokeninfo feedchain F dest roles known aos,
  NoDup (map fst aos) -> pplug_input_wf aos ->
  pplug_ok (gfreq, feeinfo, tfreq, tokeninfo, feedchain, F, dest, roles, known, aos)
           (pplug_model (gfreq, feeinfo, tfreq, tokeninfo, feedchain, F, dest, roles, known, aos)) = true.
Proof. exact pplug_model_passes. Qed.
Print Assumptions C14_judge_pplug_model_passes.

Theorem C14_judge_pplug_sound : forall gfreq feeinfo tfreq tokeninfo feedchain F dest roles known aos o,
  pplug_input_wf aos ->
  pplug_ok (gfreq, feeinfo, tfreq, tokeninfo, feedchain, F, dest, roles, known, aos) o = true ->
  o = pplug_model (gfreq, feeinfo, tfreq, tokeninfo, feedchain, F, dest, roles, known, aos).
Proof. exact pplug_sound. Qed.
Print Assumptions C14_judge_pplug_sound.

(* the report carries exactly the outcome's prices, sorted, each satisfying C14_gas_price / C14_token_price over the
   observations the plugin validated *)
Theorem C14_judge_pplug_sound_report : forall gfreq feeinfo tfreq tokeninfo feedchain F dest roles known aos vs gas tok rgas rtok,
  pplug_input_wf aos ->
  pplug_ok (gfreq, feeinfo, tfreq, tokeninfo, feedchain, F, dest, roles, known, aos) (vs, Ok (gas, tok, (rgas, rtok))) = true ->
  let acc := select vs aos in
  let cacc := map (fun ao : N * pplug_obs => (fst ao, cf_clean (fst (fst (snd ao))))) acc in
  let tacc := map (fun ao : N * pplug_obs => (fst ao, tp_clean (snd (fst (snd ao))))) acc in
  rgas = gas /\ rtok = tok /\ keys_strict gas /\ keys_strict tok /\
  (forall k g, In (k, g) rgas ->
     exists f,
       alookup k (fchain_cons cf_fchain F cacc) = Some f /\
       let fcs := map snd (votes cf_feecomp cacc k) in
       let nts := map snd (votes cf_native cacc k) in
       (agg_thr (two_f_plus_1 f) <= N.of_nat (length fcs))%N /\
       (agg_thr (two_f_plus_1 f) <= N.of_nat (length nts))%N /\
       g = to_packed (usd_per_unit_gas (medianZ (map snd fcs)) (medianZ nts))
                     (usd_per_unit_gas (medianZ (map fst fcs)) (medianZ nts))) /\
  (forall t p, In (t, p) rtok ->
     exists ff,
       alookup feedchain (fchain_cons tp_fchain F tacc) = Some ff /\
       let ps := map snd (votes tp_feed tacc t) in
       (agg_thr (two_f_plus_1 ff) <= N.of_nat (length ps))%N /\ p = medianZ ps).
Proof. exact pplug_sound_report. Qed.
Print Assumptions C14_judge_pplug_sound_report.

(* cfh / tph: an accepted round output IS the memoryless step function of C14_history_round_gas / _token on this round's role
   map and observations, for EVERY previous outcome (the one handed in does not occur) *)
Theorem C14_judge_cfh_model_passes : forall prev freq feeinfo F dest roles known aos,
  NoDup (map fst aos) -> cf_input_wf aos ->
  cfh_ok (prev, (freq, feeinfo, F, dest, roles, known, aos)) (cfh_model (prev, (freq, feeinfo, F, dest, roles, known, aos))) = true.
Proof. exact cfh_model_passes. Qed.
Print Assumptions C14_judge_cfh_model_passes.

Theorem C14_judge_cfh_sound : forall prev prev' freq feeinfo F dest roles known aos o,
  cf_input_wf aos ->
  cfh_ok (prev, (freq, feeinfo, F, dest, roles, known, aos)) o = true ->
  o = cf_step (mkCfCfg freq feeinfo F dest) prev' (mkCfRound roles known aos).
Proof. exact cfh_sound. Qed.
Print Assumptions C14_judge_cfh_sound.

(* hence the clauses of C14_history_gas_current for every price the round hands on *)
Theorem C14_judge_cfh_sound_current : forall prev freq feeinfo F dest roles known aos vs r car c g,
  cf_input_wf aos ->
  cfh_ok (prev, (freq, feeinfo, F, dest, roles, known, aos)) (vs, r, car) = true ->
  In (c, g) car ->
  let cfg := mkCfCfg freq feeinfo F dest in
  let acc := cf_accepted cfg (mkCfRound roles known aos) in
  r = Ok car /\
  (exists f,
     alookup c (fchain_cons cf_fchain F acc) = Some f /\
     let fcs := map snd (votes cf_feecomp acc c) in
     let nts := map snd (votes cf_native acc c) in
     (agg_thr (two_f_plus_1 f) <= N.of_nat (length fcs))%N /\
     (agg_thr (two_f_plus_1 f) <= N.of_nat (length nts))%N /\
     g = to_packed (usd_per_unit_gas (medianZ (map snd fcs)) (medianZ nts))
                   (usd_per_unit_gas (medianZ (map fst fcs)) (medianZ nts))).
Proof. exact cfh_sound_current. Qed.
Print Assumptions C14_judge_cfh_sound_current.

Theorem C14_judge_tph_model_passes : forall prev freq tokeninfo feedchain F dest roles known aos,
  NoDup (map fst aos) -> tp_input_wf aos ->
  tph_ok (prev, (freq, tokeninfo, feedchain, F, dest, roles, known, aos))
         (tph_model (prev, (freq, tokeninfo, feedchain, F, dest, roles, known, aos))) = true.
Proof. exact tph_model_passes. Qed.
Print Assumptions C14_judge_tph_model_passes.

Theorem C14_judge_tph_sound : forall prev prev' freq tokeninfo feedchain F dest roles known aos o,
  tp_input_wf aos ->
  tph_ok (prev, (freq, tokeninfo, feedchain, F, dest, roles, known, aos)) o = true ->
  o = tp_step (mkTpCfg freq tokeninfo feedchain F dest) prev' (mkTpRound roles known aos).
Proof. exact tph_sound. Qed.
Print Assumptions C14_judge_tph_sound.

Theorem C14_judge_tph_sound_current : forall prev freq tokeninfo feedchain F dest roles known aos vs r car t p,
  tp_input_wf aos ->
  tph_ok (prev, (freq, tokeninfo, feedchain, F, dest, roles, known, aos)) (vs, r, car) = true ->
  In (t, p) car ->
  let cfg := mkTpCfg freq tokeninfo feedchain F dest in
  let acc := tp_accepted cfg (mkTpRound roles known aos) in
  r = Ok car /\
  (exists ff,
     alookup feedchain (fchain_cons tp_fchain F acc) = Some ff /\
     let ps := map snd (votes tp_feed acc t) in
     (agg_thr (two_f_plus_1 ff) <= N.of_nat (length ps))%N /\ p = medianZ ps).
Proof. exact tph_sound_current. Qed.
Print Assumptions C14_judge_tph_sound_current.

(* pplugh: the plugin round judged as in pplug; the previous plugin outcome handed in does not occur *)
Theorem C14_judge_pplugh_model_passes : forall prev gfreq feeinfo tfreq tokeninfo feedchain F dest roles known aos,
  NoDup (map fst aos) -> pplug_input_wf aos ->
  pplugh_ok (prev, (gfreq, feeinfo, tfreq, tokeninfo, feedchain, F, dest, roles, known, aos))
            (pplugh_model (prev, (gfreq, feeinfo, tfreq, tokeninfo, feedchain, F, dest, roles, known, aos))) = true.
Proof. exact pplugh_model_passes. Qed.
Print Assumptions C14_judge_pplugh_model_passes.

Theorem C14_judge_pplugh_sound : forall prev prev' gfreq feeinfo tfreq tokeninfo feedchain F dest roles known aos o,
  pplug_input_wf aos ->
  pplugh_ok (prev, (gfreq, feeinfo, tfreq, tokeninfo, feedchain, F, dest, roles, known, aos)) o = true ->
  o = pplugh_model (prev', (gfreq, feeinfo, tfreq, tokeninfo, feedchain, F, dest, roles, known, aos)).
Proof. exact pplugh_sound. Qed.
Print Assumptions C14_judge_pplugh_sound.

(* ---- the order clause "prices are listed in key order" on the implementation's own lists, sink by sink ----
   Every executable property above tests `strictly_asc (map fst _)` on each price list of the output, so the clause holds
   for ANY output that passes, with NO premise on the input (the value clauses need cf_input_wf / tp_input_wf).
   Key order = N.lt on the model keys: chain selectors for gas prices (Go: ChainSel <, uint64), token ids for token prices
   (Go: TokenID <, string order; the harness's fixed-width hex ids make it the numeric order - spec 'trusted').
   For the model's own output the clause is part of C14_selection_gas / C14_selection_token (keys_strict out). *)
Require Import Verif.Proofs.JudgeSoundC14OrderP.
From Coq Require Import Sorting.Sorted.

(* sorted by key: earlier entry, strictly smaller key (hence no key twice) *)
Theorem C14_order_meaning : forall l : prices,
  StronglySorted (fun a b : N * Z => (fst a < fst b)%N) l ->
  NoDup (map fst l) /\
  forall i j a b, (i < j)%nat -> nth_error l i = Some a -> nth_error l j = Some b -> (fst a < fst b)%N.
Proof. exact (fun l H => conj (by_key_nodup l H) (by_key_positions l H)). Qed.
Print Assumptions C14_order_meaning.

Theorem C14_judge_cf_sound_order : forall freq feeinfo F dest roles known aos o out,
  cf_ok (freq, feeinfo, F, dest, roles, known, aos) o = true -> snd o = Ok out ->
  StronglySorted (fun a b : N * Z => (fst a < fst b)%N) out.
Proof. exact cf_sound_order. Qed.
Print Assumptions C14_judge_cf_sound_order.

Theorem C14_judge_tp_sound_order : forall freq tokeninfo feedchain F dest roles known aos o out,
  tp_ok (freq, tokeninfo, feedchain, F, dest, roles, known, aos) o = true -> snd o = Ok out ->
  StronglySorted (fun a b : N * Z => (fst a < fst b)%N) out.
Proof. exact tp_sound_order. Qed.
Print Assumptions C14_judge_tp_sound_order.

(* plugin: an output that passes is Ok (gas, tok, (report gas, report tok)) with report lists = outcome lists, both sorted *)
Theorem C14_judge_pplug_sound_order : forall gfreq feeinfo tfreq tokeninfo feedchain F dest roles known aos o,
  pplug_ok (gfreq, feeinfo, tfreq, tokeninfo, feedchain, F, dest, roles, known, aos) o = true ->
  exists gas tok, snd o = Ok (gas, tok, (gas, tok)) /\
    StronglySorted (fun a b : N * Z => (fst a < fst b)%N) gas /\
    StronglySorted (fun a b : N * Z => (fst a < fst b)%N) tok.
Proof. exact pplug_sound_order. Qed.
Print Assumptions C14_judge_pplug_sound_order.

Theorem C14_judge_pplugh_sound_order : forall prev gfreq feeinfo tfreq tokeninfo feedchain F dest roles known aos o,
  pplugh_ok (prev, (gfreq, feeinfo, tfreq, tokeninfo, feedchain, F, dest, roles, known, aos)) o = true ->
  exists gas tok, snd o = Ok (gas, tok, (gas, tok)) /\
    StronglySorted (fun a b : N * Z => (fst a < fst b)%N) gas /\
    StronglySorted (fun a b : N * Z => (fst a < fst b)%N) tok.
Proof. exact pplugh_sound_order. Qed.
Print Assumptions C14_judge_pplugh_sound_order.

(* history rounds: the prices carried to the next round and the Outcome result *)
Theorem C14_judge_cfh_sound_order : forall prev freq feeinfo F dest roles known aos vs r car,
  cfh_ok (prev, (freq, feeinfo, F, dest, roles, known, aos)) (vs, r, car) = true ->
  StronglySorted (fun a b : N * Z => (fst a < fst b)%N) car /\
  forall out, r = Ok out -> StronglySorted (fun a b : N * Z => (fst a < fst b)%N) out.
Proof. exact cfh_sound_order. Qed.
Print Assumptions C14_judge_cfh_sound_order.

Theorem C14_judge_tph_sound_order : forall prev freq tokeninfo feedchain F dest roles known aos vs r car,
  tph_ok (prev, (freq, tokeninfo, feedchain, F, dest, roles, known, aos)) (vs, r, car) = true ->
  StronglySorted (fun a b : N * Z => (fst a < fst b)%N) car /\
  forall out, r = Ok out -> StronglySorted (fun a b : N * Z => (fst a < fst b)%N) out.
Proof. exact tph_sound_order. Qed.
Print Assumptions C14_judge_tph_sound_order.

(* hypotheses satisfiable with two keys per list (the observations list the larger key first); the same prices in the
   other order are rejected by every sink, in the report lists as well as in the outcome / carried lists *)
Theorem C14_judge_order_examples :
  (cf_ok ord_cf_in (ord_vs, Ok [ord_g5; ord_g6]) = true /\ cf_ok ord_cf_in (ord_vs, Ok [ord_g6; ord_g5]) = false) /\
  (tp_ok ord_tp_in (ord_vs, Ok [(17%N, 1003%Z); (18%N, 79%Z)]) = true /\
   tp_ok ord_tp_in (ord_vs, Ok [(18%N, 79%Z); (17%N, 1003%Z)]) = false) /\
  (let g := [ord_g5; ord_g6] in let t := [(17%N, 1003%Z); (18%N, 79%Z)] in
   pplug_ok ord_pplug_in (ord_vs, pp_out g t g t) = true /\
   pplug_ok ord_pplug_in (ord_vs, pp_out g t (rev g) t) = false /\
   pplug_ok ord_pplug_in (ord_vs, pp_out g t g (rev t)) = false /\
   pplug_ok ord_pplug_in (ord_vs, pp_out (rev g) (rev t) (rev g) (rev t)) = false /\
   pplugh_ok ([(7%N, 1%Z)], [(99%N, 5%Z)], ord_pplug_in) (ord_vs, pp_out g t g t) = true) /\
  (cfh_ok ([(7%N, 1%Z)], ord_cf_in) (hist_o ord_vs (Ok [ord_g5; ord_g6]) [ord_g5; ord_g6]) = true /\
   cfh_ok ([(7%N, 1%Z)], ord_cf_in) (hist_o ord_vs (Ok [ord_g5; ord_g6]) [ord_g6; ord_g5]) = false) /\
  (tph_ok ([(99%N, 5%Z)], ord_tp_in) (hist_o ord_vs (Ok [(17%N, 1003%Z); (18%N, 79%Z)]) [(17%N, 1003%Z); (18%N, 79%Z)]) = true /\
   tph_ok ([(99%N, 5%Z)], ord_tp_in) (hist_o ord_vs (Ok [(17%N, 1003%Z); (18%N, 79%Z)]) [(18%N, 79%Z); (17%N, 1003%Z)]) = false).
Proof. exact (conj cf_order_ex (conj tp_order_ex (conj pplug_order_ex (conj cfh_order_ex tph_order_ex)))). Qed.
Print Assumptions C14_judge_order_examples.

(* C19 — Background token-data fetching never blocks a round and yields only ready data.
   Property theorems only; each is closed by [exact] of a lemma proved in Proofs/BgObserverP.v.
   The model is the REPAIRED observer (F22a: the new-message signal is handed over by a detached sender;
   F22b: cache get treats an expired entry as absent); the two _unfixed_refuted theorems are about the code as it was.
   PARTIAL: real time and the Go scheduler are not in the model. "Returns immediately" is the statement that the
   Observe transition needs no other transition; "eventually fetched" is stated as: the wake-up signal of a waiting
   message is never lost and, while the observer is open, a worker step towards taking the oldest message is always
   enabled (fairness of the scheduler and returning fetches are assumed, not proved). *)
Require Import Verif.Model.Base Verif.Model.BgObserver Verif.Proofs.BgObserverP.

(* every state reachable from a freshly built observer with W workers, under any schedule of events *)
Theorem C19_reachable_invariant : forall ttl chk W evs, binv W (bstate ttl chk true (binit W) evs).
Proof. exact reach_inv. Qed.
Print Assumptions C19_reachable_invariant.

(* shape: one entry per message asked for, keyed alike, in any reachable state; one slot per token — for the
   placeholders always, for cached data provided the underlying observer answered with one slot per token *)
Theorem C19_shape : forall W st ms now,
  binv W st ->
  exists st' res, observe true true st ms now = (st', Done res) /\
    map key_of_ent res = map key_of_msg ms /\ length res = length ms /\
    ((forall m d exp, In m ms -> alookup (m_id m) (cache st) = Some (d, exp) -> length d = length (m_sup m)) ->
     Forall2 (fun m e => length (snd e) = length (m_sup m)) ms res).
Proof. exact observe_shape. Qed.
Print Assumptions C19_shape.

(* ready-only and not-expired: an entry is the not-ready placeholder, or cached data all of whose supported tokens
   are ready and whose expiry time has not passed *)
Theorem C19_ready_only_not_expired : forall W st ms now,
  binv W st ->
  exists st' res, observe true true st ms now = (st', Done res) /\
    Forall2 (fun m e => snd e = initial_td m \/
                        exists exp, alookup (m_id m) (cache st) = Some (snd e, exp) /\
                                    sup_ready (snd e) = true /\ (now <= exp)%N) ms res.
Proof. exact observe_ready_fresh. Qed.
Print Assumptions C19_ready_only_not_expired.

(* cached data was stored by a fetch that returned it, ready, with expiry = return time + ttl *)
Theorem C19_cache_provenance : forall ttl chk evs st,
  (forall id d exp, In (id, (d, exp)) (cache st) -> False) ->
  forall id d exp, In (id, (d, exp)) (cache (bstate ttl chk true st evs)) ->
  exists now, In (BReturn id (FOk d) now) evs /\ sup_ready d = true /\ exp = (now + ttl)%N.
Proof. exact cache_provenance. Qed.
Print Assumptions C19_cache_provenance.

(* non-blocking: in every reachable state — all workers fetching, after Close, any batch size — Observe completes
   as one step, with an answer, and leaves a reachable state *)
Theorem C19_nonblocking : forall chk W st ms now,
  binv W st ->
  exists st' res, observe chk true st ms now = (st', Done res) /\ binv W st' /\ cache st' = cache st /\
                  Forall2 (ent_ok chk st now) ms res.
Proof. exact observe_answers. Qed.
Print Assumptions C19_nonblocking.

Theorem C19_nonblocking_unfixed_refuted :
  exists W ms now, snd (observe true false (binit W) ms now) = Blocked.
Proof. exact nonblocking_unfixed_refuted. Qed.
Print Assumptions C19_nonblocking_unfixed_refuted.

Theorem C19_not_expired_unfixed_refuted :
  exists ttl W evs ms now d exp,
    snd (observe false true (bstate ttl false true (binit W) evs) ms now) = Done [(10, 1, d)]%N /\
    alookup 1%N (cache (bstate ttl false true (binit W) evs)) = Some (d, exp) /\ (exp < now)%N /\ d <> initial_td wit_m1.
Proof. exact not_expired_unfixed_refuted. Qed.
Print Assumptions C19_not_expired_unfixed_refuted.

(* queue: the id set is exactly the set of waiting messages, no message waits twice, one pending signal per waiting
   message while open; asking again for a waiting message changes neither queue nor signals *)
Theorem C19_queue_inv : forall W st, binv W st ->
  NoDup (map qid (queue st)) /\ (forall id, In id (ids st) <-> In id (map qid (queue st))) /\
  (closed st = false -> signals st = N.of_nat (length (queue st))).
Proof. exact queue_inv. Qed.
Print Assumptions C19_queue_inv.

Theorem C19_waiting_not_requeued : forall chk st m now,
  In (m_id m) (ids st) -> cache_get chk now (cache st) (m_id m) = None ->
  queue (fst (observe chk true st [m] now)) = queue st /\ signals (fst (observe chk true st [m] now)) = signals st.
Proof. exact waiting_not_requeued. Qed.
Print Assumptions C19_waiting_not_requeued.

(* eventual fetch (partial, see header): the oldest waiting message can be taken whenever a worker is idle ... *)
Theorem C19_eventual_take_partial : forall ttl chk W st m ep q,
  binv W st -> closed st = false -> queue st = (m, ep) :: q -> (0 < idle st)%N ->
  let st' := fst (bstep ttl chk true st (BTake (m_id m))) in
  queue st' = q /\ inflight st' = inflight st ++ [m_id m] /\
  exists f, snd (bstep ttl chk true st (BTake (m_id m))) = OTake true f.
Proof. exact take_progress. Qed.
Print Assumptions C19_eventual_take_partial.

(* ... and when none is idle a fetch is running whose return frees a worker without touching the queue *)
Theorem C19_eventual_worker_partial : forall ttl chk W st,
  binv W st -> closed st = false -> (0 < W)%N -> idle st = 0%N ->
  inflight st <> [] /\
  forall id r now, In id (inflight st) ->
    idle (fst (bstep ttl chk true st (BReturn id r now))) = (idle st + 1)%N /\
    queue (fst (bstep ttl chk true st (BReturn id r now))) = queue st.
Proof. exact eventual_worker. Qed.
Print Assumptions C19_eventual_worker_partial.

(* close: stays closed; stopped workers never come back; once the running fetches have returned, every worker and
   every pending signal sender has an exit step and nothing is left afterwards *)
Theorem C19_close : forall ttl chk W st,
  binv W st -> closed st = true -> inflight st = [] ->
  let st' := bstate ttl chk true st (repeat BExit (N.to_nat (idle st)) ++ repeat BSenderExit (N.to_nat (signals st))) in
  stopped st' = W /\ idle st' = 0%N /\ inflight st' = [] /\ signals st' = 0%N.
Proof. exact close_stops_everything. Qed.
Print Assumptions C19_close.

Theorem C19_closed_forever : forall ttl chk st e,
  (closed st = true -> closed (fst (bstep ttl chk true st e)) = true) /\
  (stopped st <= stopped (fst (bstep ttl chk true st e)))%N.
Proof. exact closed_and_stopped. Qed.
Print Assumptions C19_closed_forever.

(* safety form of "every message asked for is eventually fetched": in every reachable state, once Observe has
   answered - and after any worker pick-ups that follow - every message asked for is served from the cache, or waits
   in the queue, or is being fetched; it is never silently dropped. (The correspondence check evaluates the same
   clause on the implementation: `accounted` in Check/C19_check.v, against the queue / gate contents it reads.) *)
Theorem C19_asked_is_accounted : forall ttl chk W st ms now takes,
  binv W st ->
  let st1 := fst (observe chk true st ms now) in
  let st2 := bstate ttl chk true st1 (map BTake takes) in
  forall m, In m ms ->
    (exists d, cache_get chk now (cache st) (m_id m) = Some d) \/
    In (m_id m) (map qid (queue st2)) \/ In (m_id m) (inflight st2).
Proof. exact asked_is_accounted. Qed.
Print Assumptions C19_asked_is_accounted.

(* ===================================================================================================================
   Lock level (Model/Locks.v + Proofs/LocksP.v; see Props/C18.v for the semantics).  msgQueue {msgs, msgIDs} and
   inMemTokenDataCache {inMemTokenData, expiresAt} are each one group under one RWMutex; their methods' action
   programs are extracted from the Go sources on every run and checked in coq/GenEquiv/C19_locks_gen.v
   (C19_msg_queue_well_locked, C19_token_cache_well_locked, C19_queue_all_interleavings_gen,
   C19_cache_all_interleavings_gen): the id set and the queue change together or not at all, cache value and expiry
   likewise, no access without the lock, and no channel operation, WaitGroup wait or goroutine start while the
   mutex is held.
   =================================================================================================================== *)
Require Import Verif.Model.Locks Verif.Proofs.LocksP.

(* the general theorem instantiated for an extracted object: any number of threads, each running one of its methods
   (the methods listed in [ex] are checked for the lock discipline only), in every interleaving *)
Theorem C19_locks_all_interleavings : forall ex o lps s,
  well_locked_except ex o = true ->
  (forall lp, In lp lps -> In lp (threads_of ex o)) ->
  reachable (init lps) s -> locks_safe (o_layout o) s.
Proof. exact locks_object. Qed.
Print Assumptions C19_locks_all_interleavings.

(* msgQueue.enqueue as it is: membership is asked in a read section (containsMsg), the append happens in a later
   write section.  Lock discipline fine; not a consistent reader: with a second producer in between, the thread
   decides on a stale id set and appends to a newer queue (the message can be queued twice).  Harmless only as long
   as one goroutine at a time calls Observe (the OCR3 plugin does), which is why C19_waiting_not_requeued above is
   stated for the sequential event model. *)
Theorem C19_enqueue_check_then_act_refuted :
  locks_ok lay2 q_enq = true /\ well_locked lay2 q_enq = false /\
  exists s t, reachable (init [(true, desugar lay2 q_enq); (true, desugar lay2 q_enq)]) s /\
              In t (st_ths s) /\ ~ obs_consistent lay2 (t_obs t).
Proof. exact check_then_act_refuted. Qed.
Print Assumptions C19_enqueue_check_then_act_refuted.

Require Import Verif.Check.C19_check Verif.Proofs.JudgeSoundC19P.
(* ---- the executable properties of Check/C19_check.v are the property (judge soundness) ---- *)
(* walk_prop strict vw w ttl [] evs outs (Proofs/JudgeSoundC19P.v) says, for the k-th event of a schedule and the k-th
   recorded observation: an Observe is answered (never Blocked; an error only under the composite and only for
   unexpired fetched data with another slot count), with one entry per message, keyed alike, showing the placeholder
   or data that an EARLIER fetch of that message returned, all supported tokens ready, not older than ttl
   (C19_nonblocking, C19_shape, C19_ready_only_not_expired, C19_cache_provenance); if pick-ups and a probe follow, every
   message asked for was served, or waits, or is being fetched (C19_asked_is_accounted); a pick-up took a waiting message
   in FIFO order (C19_eventual_take_partial); a probe finds no idle worker next to a waiting message, no message
   waiting twice and no more waiting messages than distinct ids asked for (C19_queue_inv). *)

(* bg: the model follows every schedule that sched_ok accepts - stored fetch results belong to running fetches, recorded
   pick-ups are possible in FIFO order, probes are taken when no worker idles next to a waiting message, running fetches
   return after Close - and then its own observations pass bg_ok *)
Theorem C19_judge_bg_model_passes : forall w ttl evs,
  sched_ok w ttl (binit w) evs = true -> bg_ok (w, ttl, evs) (bg_model (w, ttl, evs)) = true.
Proof. exact bg_model_passes. Qed.
Print Assumptions C19_judge_bg_model_passes.

Theorem C19_judge_bg_sound : forall w ttl evs o,
  bg_ok (w, ttl, evs) o = true ->
  walk_prop true (fun _ d => d) w ttl [] evs (fst o) /\ fst (snd o) = true /\ snd (snd o) = true.
Proof. exact bg_sound. Qed.
Print Assumptions C19_judge_bg_sound.

(* comp: the same through the composite observer's merge view *)
Theorem C19_judge_comp_model_passes : forall w ttl evs,
  sched_ok w ttl (binit w) evs = true -> comp_ok (w, ttl, evs) (comp_model (w, ttl, evs)) = true.
Proof. exact comp_model_passes. Qed.
Print Assumptions C19_judge_comp_model_passes.

Theorem C19_judge_comp_sound : forall w ttl evs o,
  comp_ok (w, ttl, evs) o = true ->
  walk_prop false comp_view w ttl [] evs (fst (fst o)) /\
  fst (snd (fst o)) = true /\ snd (snd (fst o)) = true /\ snd o = true.
Proof. exact comp_sound. Qed.
Print Assumptions C19_judge_comp_sound.

(* ctor / plugin: the executable property is equality with the model's output *)
Theorem C19_judge_ctor_model_passes : forall i, ctor_ok i (ctor_model i) = true.
Proof. exact ctor_model_passes. Qed.
Print Assumptions C19_judge_ctor_model_passes.

Theorem C19_judge_ctor_sound : forall wk e c t o, ctor_ok (wk, e, c, t) o = true ->
  (wk = 0%N -> o = (false, 0, 0, 0, 0, 0, 0)%N) /\ (wk <> 0%N -> o = (true, wk, wk + 1, e, c, t, 0)%N).
Proof. exact ctor_sound_cfg. Qed.
Print Assumptions C19_judge_ctor_sound.

Theorem C19_judge_plug_model_passes : forall i, plug_ok i (plug_model i) = true.
Proof. exact plug_model_passes. Qed.
Print Assumptions C19_judge_plug_model_passes.

Theorem C19_judge_plug_sound : forall wk ms ds o1 o2 n c l,
  plug_ok (wk, ms, ds) (o1, o2, n, c, l) = true -> length ds = length ms ->
  exists es1 es2,
    o1 = OObs (Done es1) /\ o2 = OObs (Done es2) /\
    Forall2 (fun md e => e = (m_chain (fst md), m_seq (fst md), comp_view (fst md) (initial_td (fst md)))) (combine ms ds) es1 /\
    Forall2 (fun md e => e = (m_chain (fst md), m_seq (fst md),
                              comp_view (fst md) (if sup_ready (snd md) then snd md else initial_td (fst md)))) (combine ms ds) es2 /\
    n = N.of_nat (length ms) /\ c = true /\ l = true.
Proof. exact plug_sound_round. Qed.
Print Assumptions C19_judge_plug_sound.

(* the first answer prescribed by plug_model is the composite model's answer to one Observe on a fresh observer *)
Theorem C19_judge_plug_first_is_comp : forall wk ttl ms ds now, length ds = length ms ->
  fst (fst (comp_model (wk, ttl, [BObserve ms now]))) = [OObs (Done (plug_entries ms ds false))].
Proof. exact plug_first_is_comp. Qed.
Print Assumptions C19_judge_plug_first_is_comp.

(* C08 — Execute reports hold only provable, pending, ready, in-order messages in limits.
   This file holds the property theorems only; each is closed by [exact] of a lemma proved in Proofs/.
   Model: Model/Merkle.v (merklemulti), Model/ExecReport.v (execute/report, selectReport).  The internal hash, the
   message hasher, the codec size and the gas estimator are universally quantified oracles. *)
Require Import Verif.Model.Base Verif.Model.Merkle Verif.Model.ExecReport.
Require Import Verif.Proofs.MerkleP Verif.Proofs.ExecReportP.
From Coq Require Import Sorting.Sorted.

(* "the report's proof hashes and flag bits let an independent verifier recompute exactly that committed root":
   the multiproof theorem of merklemulti, for every tree with at most 256 leaves (the verifier's own limit) and every
   non-empty ascending index set, under the one hypothesis that the internal hash is commutative. *)
Theorem C08_multiproof : forall (H : Type) (hash : H -> H -> H) (zero : H),
  (forall a b : H, hash a b = hash b a) ->
  forall (leaves : list H) (idxs : list nat),
  length leaves <= max_leaves -> ascn idxs -> idxs <> [] -> (forall i, In i idxs -> i < length leaves) ->
  exists (t : tree) (ps : list H) (fl : list bool),
    new_tree hash zero leaves = Ok t /\ prove t idxs = Ok (ps, fl) /\
    verify hash (vals zero leaves idxs) ps fl = Ok (troot zero t) /\
    troot zero t = mroot hash zero leaves.
Proof. exact @multiproof. Qed.
Print Assumptions C08_multiproof.

(* without commutativity the statement is false (an even index proved alone) *)
Theorem C08_multiproof_needs_commutativity :
  exists (h : N -> N -> N) (leaves : list N) (idxs : list nat) (t : tree) (ps : list N) (fl : list bool),
    ascn idxs /\ new_tree h 0%N leaves = Ok t /\ prove t idxs = Ok (ps, fl) /\
    verify h (vals 0%N leaves idxs) ps fl <> Ok (troot 0%N t).
Proof. exact multiproof_needs_commutativity. Qed.
Print Assumptions C08_multiproof_needs_commutativity.

(* Everything one Add can do.  Either nothing is appended and the commit data and budgets are unchanged, or exactly
   one chain report is appended which (membership) consists of the messages at a non-empty ascending index set of
   this commit report, whose recomputed merkle root equals the committed root, with the proof produced for exactly
   those indices; (eligibility) every index is not executed, not too costly, has ready token data, and
   OffchainTokenData is the byte projection of the token data at the same indices; (limits) the report fits the
   remaining size and gas budgets, which are charged; (bookkeeping) the commit data returned is the old one with the
   new sequence numbers marked executed. *)
Theorem C08_add : forall (hash : N -> N -> N) (zero : N) (leaf_hash : msg -> option N)
    (enc_size : creport -> option N) (tree_gas : N -> N) (nonces : nmap) (max_size max_gas : N)
    (st : bstate) (cd : cdata) (st' : bstate) (cd' : cdata),
  add hash zero leaf_hash enc_size tree_gas nonces max_size max_gas st cd = Ok (st', cd') ->
  b_reports st' = b_reports st /\ cd' = cd /\ b_size st' = b_size st /\ b_gas st' = b_gas st \/
  (exists (idxs : list nat) (r : creport) (sz : N),
     b_reports st' = b_reports st ++ [r] /\
     cd' = mark_executed r cd /\
     idxs <> [] /\ asc idxs /\
     (forall i : nat, In i idxs -> i < length (c_msgs cd) /\ eligible cd i) /\
     report_for hash zero leaf_hash cd idxs r /\
     enc_size r = Some sz /\
     fits max_size max_gas st sz (report_gas tree_gas r) /\
     b_size st' = add64 (b_size st) sz /\ b_gas st' = add64 (b_gas st) (report_gas tree_gas r)).
Proof. exact add_spec. Qed.
Print Assumptions C08_add.

(* "commit data whose messages do not reproduce its committed root produces no report" *)
Theorem C08_bad_root_no_report : forall (hash : N -> N -> N) (zero : N) (leaf_hash : msg -> option N)
    (enc_size : creport -> option N) (tree_gas : N -> N) (nonces : nmap) (max_size max_gas : N)
    (st : bstate) (cd : cdata) (st' : bstate) (cd' : cdata),
  (forall t : tree, construct_tree hash zero leaf_hash cd = Ok t -> troot zero t <> c_root cd) ->
  add hash zero leaf_hash enc_size tree_gas nonces max_size max_gas st cd = Ok (st', cd') ->
  b_reports st' = b_reports st /\ cd' = cd.
Proof. exact add_bad_root. Qed.
Print Assumptions C08_bad_root_no_report.

(* the appended chain report, handed to VerifyComputeRoot the way the destination does it (leaf = hash of each
   included message, flags = the first |leaves|+|proofs|-1 bits of ProofFlagBits), yields the committed root *)
Theorem C08_provable : forall (hash : N -> N -> N) (zero : N) (leaf_hash : msg -> option N)
    (enc_size : creport -> option N) (tree_gas : N -> N) (nonces : nmap) (max_size max_gas : N)
    (st : bstate) (cd : cdata) (st' : bstate) (cd' : cdata) (r : creport) (hs : list N),
  (forall a b : N, hash a b = hash b a) ->
  length (c_msgs cd) <= 256 ->
  add hash zero leaf_hash enc_size tree_gas nonces max_size max_gas st cd = Ok (st', cd') ->
  b_reports st' = b_reports st ++ [r] ->
  Forall2 (fun (m : msg) (h : N) => leaf_hash m = Some h) (r_msgs r) hs ->
  verify hash hs (r_proofs r) (flags_to_bools (r_flags r) (length hs + length (r_proofs r) - 1)) = Ok (c_root cd).
Proof. exact add_provable. Qed.
Print Assumptions C08_provable.

(* executed bookkeeping: old ∪ included sequence numbers, sorted; nothing else changes *)
Theorem C08_mark : forall (r : creport) (cd : cdata),
  let cd' := mark_executed r cd in
  c_exec cd' = sortN (c_exec cd ++ map m_seq (r_msgs r)) /\
  StronglySorted N.le (c_exec cd') /\
  (forall s : N, In s (c_exec cd') <-> In s (c_exec cd) \/ (exists m : msg, In m (r_msgs r) /\ m_seq m = s)) /\
  c_src cd' = c_src cd /\ c_root cd' = c_root cd /\ c_start cd' = c_start cd /\ c_end cd' = c_end cd /\
  c_msgs cd' = c_msgs cd /\ c_costly cd' = c_costly cd /\ c_td cd' = c_td cd.
Proof. exact mark_executed_spec. Qed.
Print Assumptions C08_mark.

(* limits, as an invariant of the builder: the accumulated size and gas are the exact (unwrapped) sums over the
   reports appended so far and never exceed the configured maxima, for every codec and estimator.
   (Gas of one report is the code's own uint64 sum [report_gas].) *)
Theorem C08_limits_invariant : forall (hash : N -> N -> N) (zero : N) (leaf_hash : msg -> option N)
    (enc_size : creport -> option N) (tree_gas : N -> N) (nonces : nmap) (max_size max_gas : N)
    (st : bstate) (cd : cdata) (st' : bstate) (cd' : cdata),
  (max_size < two64)%N -> (max_gas < two64)%N ->
  budget_inv enc_size tree_gas max_size max_gas st ->
  add hash zero leaf_hash enc_size tree_gas nonces max_size max_gas st cd = Ok (st', cd') ->
  budget_inv enc_size tree_gas max_size max_gas st'.
Proof. exact add_budget. Qed.
Print Assumptions C08_limits_invariant.

(* the whole outcome (selectReport): every chain report is a good report of one of the pending commit reports, and
   the totals stay within the batch gas and encoded-size limits *)
Theorem C08_outcome : forall (hash : N -> N -> N) (zero : N) (leaf_hash : msg -> option N)
    (enc_size : creport -> option N) (tree_gas : N -> N) (nonces : nmap) (max_size max_gas : N)
    (cds : list cdata) (reports : list creport) (pend : list cdata),
  select_report hash zero leaf_hash enc_size tree_gas nonces max_size max_gas cds = Ok (reports, pend) ->
  Forall (fun r : creport => exists cd : cdata, In cd cds /\ good_report hash zero leaf_hash cd r) reports /\
  ((max_size < two64)%N -> (max_gas < two64)%N ->
   (total_size enc_size reports <= max_size)%N /\ (total_gas tree_gas reports <= max_gas)%N).
Proof. exact select_report_spec. Qed.
Print Assumptions C08_outcome.

(* Full-strength nonce clause:
     forall ... , add ... = Ok (st', cd') -> nonce_run_reports nonces [] (build st') <> None.
   Still false of the code (F14, fallback half): the size fallback drops a message after the nonce chain was
   fixed and keeps its successor.  (The repo's own Test_Builder_Build/skip_over_one_large_messages asserts exactly
   this behaviour, which is why this half is recorded and not repaired.) *)
Theorem C08_nonce_order_refuted :
  exists hash zero leaf enc tg nonces max_size max_gas cd st' cd' r,
    c_costly cd = [] /\
    add hash zero leaf enc tg nonces max_size max_gas b_init cd = Ok (st', cd') /\
    build st' = [r] /\ map m_nonce (r_msgs r) = [1; 3]%N /\
    nlookup (c_src cd) 77 nonces = Some 0%N /\
    nonce_run_reports nonces [] (build st') = None.
Proof. exact nonce_order_refuted_fallback. Qed.
Print Assumptions C08_nonce_order_refuted.

(* Before repair F14a (too-costly test after the nonce check, model functions *_unfixed) the clause failed in a second
   way: a too-costly message advanced the expected nonce and its successor was reported. *)
Theorem C08_nonce_order_costly_unfixed_refuted :
  exists hash zero leaf enc tg nonces max_size max_gas cd st' cd' r,
    add_unfixed hash zero leaf enc tg nonces max_size max_gas b_init cd = Ok (st', cd') /\
    build st' = [r] /\ map m_nonce (r_msgs r) = [1; 3]%N /\
    nlookup (c_src cd) 77 nonces = Some 0%N /\
    nonce_run_reports nonces [] (build st') = None.
Proof. exact nonce_order_costly_unfixed_refuted. Qed.
Print Assumptions C08_nonce_order_costly_unfixed_refuted.

(* Outside the recorded class (the size / gas fallback drops no ready sequenced message; in particular whenever the
   all-ready report fits): for every (chain, sender) the sequenced messages a chain report holds carry the expectation
   in force — initially on-chain nonce + 1 — and its successors, in order, and the expectation afterwards is the next
   one; senders without an on-chain nonce get no sequenced message.  Costly, executed and not-ready messages no
   longer matter: they do not advance the expectation (repair F14a). *)
Theorem C08_nonce_order_except_known : forall (hash : N -> N -> N) (zero : N) (leaf_hash : msg -> option N)
    (enc_size : creport -> option N) (tree_gas : N -> N) (nonces : nmap) (max_size max_gas : N)
    (st : bstate) (cd : cdata) (st' : bstate) (cd' : cdata) (c s : N) (rmsgs : list msg),
  add hash zero leaf_hash enc_size tree_gas nonces max_size max_gas st cd = Ok (st', cd') ->
  fallback_drop hash zero leaf_hash enc_size tree_gas nonces max_size max_gas st cd = false ->
  (forall new : list creport, b_reports st' = b_reports st ++ new -> rmsgs = concat (map r_msgs new)) ->
  let mine := filter (key c s cd) rmsgs in
  match eff nonces c s (b_exp st) with
  | Some e => map m_nonce mine = iota64 e (length mine) /\
              eff nonces c s (b_exp st') = Some (iter64 e (length mine))
  | None => mine = [] /\ eff nonces c s (b_exp st') = None
  end.
Proof. exact add_nonce_order. Qed.
Print Assumptions C08_nonce_order_except_known.

(* ===================== System level (Model/ExecSys.v, Proofs/ExecSysP.v; vocabulary: see Props/C07.v) =====================
   C08_report_sound_cycle = C08_provable composed with C07 across the cycle: for every cycle of three rounds, every
   chain report r of the Filter round's execute report, handed to VerifyComputeRoot the way the destination does it
   (leaves = hashes of the included messages, flags = the first |leaves|+|proofs|-1 bits of ProofFlagBits), yields
   exactly the root of a commit report x that >= f_dest + 1 distinct oracles reported identically in the GetCommitReports
   round under the key of r's source chain, which x names (after the repairs of F75).  Hypotheses: the internal hash is
   commutative and no pending commit report has more than 256 messages (the verifier's own limit). *)
Require Import Verif.Model.Consensus Verif.Model.ExecSys Verif.Proofs.ExecSysP.
Theorem C08_report_sound_cycle :
  forall (hash : N -> N -> N) (zero : N) (leaf_hash : msg -> option N) (enc_size : creport -> option N)
         (tree_gas : N -> N) (max_size max_gas : N) (nonce_key : EM.nonce_t -> N)
         (sup : N -> list N) (bigF : Z) (dest : N) (fc1 fc2 fc3 : list (N * Z))
         (prev o1 o2 o3 : outcome) (aos1 aos2 aos3 : list sao),
  NoDup (map fst aos1) -> NoDup (map fst aos2) -> NoDup (map fst aos3) ->
  sys_validated sup dest fc1 aos1 -> sys_validated sup dest fc2 aos2 -> sys_validated sup dest fc3 aos3 ->
  key_functional aos1 -> key_functional aos2 ->
  exec_round hash zero leaf_hash enc_size tree_gas max_size max_gas nonce_key bigF dest fc1 prev aos1 = Ok o1 ->
  o_state o1 = 2%N ->
  exec_round hash zero leaf_hash enc_size tree_gas max_size max_gas nonce_key bigF dest fc2 o1 aos2 = Ok o2 ->
  exec_round hash zero leaf_hash enc_size tree_gas max_size max_gas nonce_key bigF dest fc3 o2 aos3 = Ok o3 ->
  forall (r : creport) (hs : list N),
  (forall a b : N, hash a b = hash b a) ->
  (forall cd, In cd (o_pending o2) -> length (c_msgs cd) <= 256) ->
  In r (o_report o3) -> Forall2 (fun (mm : msg) (h : N) => leaf_hash mm = Some h) (r_msgs r) hs ->
  exists (x : xcommit),
    quorum (xcommits_of (r_src r)) (f_plus_1 (EM.f_dest dest fc1)) aos1 x /\ c_src (xc_cd x) = r_src r /\
    verify hash hs (r_proofs r) (flags_to_bools (r_flags r) (length hs + length (r_proofs r) - 1))
      = Ok (c_root (xc_cd x)).
Proof. exact cycle_report_sound. Qed.
Print Assumptions C08_report_sound_cycle.

Require Import Verif.Check.C08_check Verif.Proofs.JudgeSoundC08P.
(* ---- the executable properties of Check/C08_check.v are the property (judge soundness) ---- *)
(* Vocabulary (Proofs/JudgeSoundC08P.v): [judged_report g h cd r] = r names cd's chain, cd reproduces its committed root,
   r's messages are the messages of cd at a non-empty ascending set of eligible indices with the token data of the
   same indices, and r handed to VerifyComputeRoot the way the destination does it yields cd's committed root
   ([provable], the conclusion of C08_provable); [step_prop] = one Add result against its commit data (C08_add, C08_mark);
   [ugas] / [utotal_gas] = the gas of a report / of all reports added up WITHOUT uint64 wrap. *)

(* sink C08_mm, (a): the model's Prove / Root / VerifyComputeRoot answers pass mm_ok for every input *)
Theorem C08_judge_mm_model_passes : forall i : mm_in, mm_ok i (mm_model i) = true.
Proof. exact mm_model_passes. Qed.
Print Assumptions C08_judge_mm_model_passes.

(* sink C08_mm, (b): an arbitrary (Prove result, Root, VerifyComputeRoot result) that passes mm_ok satisfies the
   conclusion of C08_multiproof about its own root *)
Theorem C08_judge_mm_sound : forall (leaves : list N) (idxs : list nat) (vl vp : list N) (vf : list bool)
    (pr : res (list N * list bool)) (root : N) (vr : res N),
  mm_ok (leaves, idxs, (vl, vp, vf)) (pr, root, vr) = true ->
  length leaves <= max_leaves -> ascn idxs -> idxs <> [] -> (forall k, In k idxs -> k < length leaves) ->
  exists ps fl, pr = Ok (ps, fl) /\ verify ahash (vals mm_zero leaves idxs) ps fl = Ok root /\
    (vl = vals mm_zero leaves idxs -> vp = ps -> vf = fl -> vr = Ok root).
Proof. intros leaves idxs vl vp vf pr root vr H. exact (mm_sound _ _ H). Qed.
Print Assumptions C08_judge_mm_sound.

(* sink C08_sel, (a) *)
Theorem C08_judge_sel_model_passes : forall i : sel_in, sel_ok i (sel_model i) = true.
Proof. exact sel_model_passes. Qed.
Print Assumptions C08_judge_sel_model_passes.

(* sink C08_sel, (b): pending entries are input positions in strictly ascending order; an entry of a report without
   messages shows its executed count untouched, one of a report with messages has fewer executed entries than
   messages; every report without messages is pending; the builder was only handed reports that have messages *)
Theorem C08_judge_sel_sound : forall (i : sel_in) (n : N) (pend : list (N * N)) (calls : list N),
  sel_ok i (Ok (n, pend, calls)) = true ->
  StronglySorted N.lt (map fst pend) /\
  (forall p e, In (p, e) pend -> exists nm ne, nth_error (snd i) (N.to_nat p) = Some (nm, ne) /\
                                   (nm = 0%N -> e = ne) /\ (nm <> 0%N -> (e < nm)%N)) /\
  (forall k ne, nth_error (snd i) k = Some (0%N, ne) -> In (N.of_nat k, ne) pend) /\
  (forall p, In p calls -> exists nm ne, nth_error (snd i) (N.to_nat p) = Some (nm, ne) /\ nm <> 0%N).
Proof. intros i n pend calls H. exact (sel_sound i _ H). Qed.
Print Assumptions C08_judge_sel_sound.

(* sink C08_sel: an answer that is neither a result nor an error never passes *)
Theorem C08_judge_sel_sound_crash : forall i : sel_in, sel_ok i Panic = false /\ sel_ok i Spin = false.
Proof. intros i. split; reflexivity. Qed.
Print Assumptions C08_judge_sel_sound_crash.

(* sink C08_add_0, first pass, (a): on well-formed input (limits are uint64 values, at most 256 messages per commit
   report, the unwrapped gas of one commit report below 2^64) the model's run passes add_ok *)
Theorem C08_judge_add_model_passes : forall (g : cfg) (cds : list cdata),
  (g_max_size g < two64)%N -> (g_max_gas g < two64)%N ->
  (forall cd, In cd cds -> length (c_msgs cd) <= 256 /\
     (usum (c_msgs cd) + g_tga g + g_tgb g * N.of_nat (length (c_msgs cd)) < two64)%N) ->
  add_ok (g, cds) (add_model (g, cds)) = true.
Proof. intros g cds H1 H2 H3. apply add_model_passes. split; [exact H1|]. split; [exact H2|exact H3]. Qed.
Print Assumptions C08_judge_add_model_passes.

(* sink C08_add_0, first pass, (b): for an arbitrary (per-Add results, Build()) that passes add_ok: Build() is exactly
   the reports appended, in order; the k-th Add result satisfies step_prop against the k-th commit report (nothing
   appended and the commit data unchanged, or one judged report appended that the implementation's own verifier
   accepted and exactly its sequence numbers marked executed); and the limits hold for the unwrapped sums *)
Theorem C08_judge_add_sound : forall (g : cfg) (cds : list cdata) (outs : list add_out) (built : list creport),
  add_ok (g, cds) (outs, built) = true ->
  let h := thash (mk_htable (g_table g)) in
  built = appended outs /\ length outs <= length cds /\
  (forall k x, nth_error outs k = Some x -> exists cd, nth_error cds k = Some cd /\ step_prop g h cd x) /\
  Forall (fun r => exists cd, In cd cds /\ judged_report g h cd r) built /\
  (total_size (codec_size g) built <= g_max_size g)%N /\
  (total_gas (tgas g) built <= utotal_gas g built)%N /\ (utotal_gas g built <= g_max_gas g)%N.
Proof. intros g cds outs built H. exact (add_sound (g, cds) (outs, built) H). Qed.
Print Assumptions C08_judge_add_sound.

(* the same in the words of C08_outcome and C08_provable: every report of Build() re-verifies to the committed root of
   one of the commit reports, and the code's own totals are inside the limits *)
Theorem C08_judge_add_sound_provable_limits : forall (g : cfg) (cds : list cdata) (outs : list add_out) (built : list creport),
  add_ok (g, cds) (outs, built) = true ->
  let h := thash (mk_htable (g_table g)) in
  (forall r, In r built -> exists cd, In cd cds /\ r_src r = c_src cd /\
     forall hs, Forall2 (fun m x => lhash m = Some x) (r_msgs r) hs ->
       verify h hs (r_proofs r) (flags_to_bools (r_flags r) (length hs + length (r_proofs r) - 1)) = Ok (c_root cd)) /\
  (total_size (codec_size g) built <= g_max_size g)%N /\ (total_gas (tgas g) built <= g_max_gas g)%N.
Proof.
  intros g cds outs built H. destruct (add_sound_outcome (g, cds) (outs, built) H) as [H1 [H2 H3]]. cbv zeta in *.
  cbn [fst snd] in *. split; [|split; assumption].
  intros r Hr. rewrite Forall_forall in H1. destruct (H1 r Hr) as [cd [Hc [Hs [_ [_ Hp]]]]]. exists cd. auto.
Qed.
Print Assumptions C08_judge_add_sound_provable_limits.

(* sink C08_add_0, second pass (the nonce clause, masked by the recorded class F14), (a): outside the class the model's
   reports pass; this is the full-strength nonce clause, proved for the whole run outside the class *)
Theorem C08_judge_add_nonce_model_passes : forall (g : cfg) (cds : list cdata),
  add_known (g, cds) = 0%N ->
  (forall c s v, nlookup c s (g_nonces g) = Some v -> (v < two64)%N) ->
  (forall cd, In cd cds -> Forall (fun m => (m_nonce m < two64)%N) (c_msgs cd)) ->
  add_nonce_ok (g, cds) (add_model (g, cds)) = true.
Proof. intros g cds Hk H1 H2. apply add_nonce_model_passes; [exact Hk|split; assumption]. Qed.
Print Assumptions C08_judge_add_nonce_model_passes.

(* ... (b): on uint64 nonces, reports that pass the nonce clause are in the specification's nonce order *)
Theorem C08_judge_add_nonce_sound : forall (g : cfg) (cds : list cdata) (outs : list add_out) (built : list creport),
  add_nonce_ok (g, cds) (outs, built) = true ->
  (forall c s v, nlookup c s (g_nonces g) = Some v -> (v < two64)%N) ->
  (forall r, In r built -> Forall (fun m => (m_nonce m < two64)%N) (r_msgs r)) ->
  nonce_run_reports (g_nonces g) [] built <> None.
Proof. intros g cds outs built H H1 H2. exact (add_nonce_sound (g, cds) (outs, built) H H1 H2). Qed.
Print Assumptions C08_judge_add_nonce_sound.

(* sink C08_out, first pass, (b): every chain report of a decoded outcome that passes out_ok is a judged report of one
   of the pending commit reports, the totals are inside maxReportLength and the BatchGasLimit, every pending entry
   shown is an input commit report (unchanged, or with its chain report's sequence numbers marked) that is not
   finished, and every input commit report is accounted for *)
Theorem C08_judge_out_sound : forall (i : out_in) (rs : list creport) (pend : list cdata),
  out_ok i (Ok (rs, pend)) = true ->
  let g := out_cfg i in let h := thash (mk_htable (g_table g)) in
  Forall (fun r => exists cd, In cd (snd i) /\ judged_report g h cd r) rs /\
  (total_size (codec_size g) rs <= plugin_max_report)%N /\
  (total_gas (tgas g) rs <= utotal_gas g rs)%N /\ (utotal_gas g rs <= g_max_gas g)%N /\
  (forall x, In x pend -> pending_entry g h (snd i) rs x) /\
  (forall cd, In cd (snd i) -> accounted g h rs pend cd).
Proof. intros i rs pend H. exact (out_sound i _ H). Qed.
Print Assumptions C08_judge_out_sound.

(* sink C08_out, second pass, (b) *)
Theorem C08_judge_out_nonce_sound : forall (i : out_in) (rs : list creport) (pend : list cdata),
  out_nonce_ok i (Ok (rs, pend)) = true ->
  (forall c s v, nlookup c s (g_nonces (out_cfg i)) = Some v -> (v < two64)%N) ->
  (forall r, In r rs -> Forall (fun m => (m_nonce m < two64)%N) (r_msgs r)) ->
  nonce_run_reports (g_nonces (out_cfg i)) [] rs <> None.
Proof. intros i rs pend H. exact (out_nonce_sound i _ H). Qed.
Print Assumptions C08_judge_out_nonce_sound.

(* sink C08_out, first pass, (a): on well-formed input (BatchGasLimit a uint64 value; at most 256 messages per pending
   commit report and gas that cannot wrap; two commit reports of one source chain share no message; the pending commit
   reports come ordered by source chain, as the previous outcome's encoding leaves them) the model's outcome passes *)
Theorem C08_judge_out_model_passes : forall i : out_in,
  (g_max_gas (out_cfg i) < two64)%N ->
  (forall cd, In cd (snd i) -> length (c_msgs cd) <= 256 /\
     (usum (c_msgs cd) + g_tga (out_cfg i) + g_tgb (out_cfg i) * N.of_nat (length (c_msgs cd)) < two64)%N) ->
  ForallOrdPairs (fun a b => c_src a = c_src b -> forall m, In m (c_msgs a) -> ~ In m (c_msgs b)) (snd i) ->
  StronglySorted (fun a b => (c_src a <= c_src b)%N) (snd i) ->
  out_ok i (out_model i) = true.
Proof. intros i H1 H2 H3 H4. apply out_model_passes. split; [exact H1|]. split; [exact H2|]. split; [exact H3|exact H4]. Qed.
Print Assumptions C08_judge_out_model_passes.

(* sink C08_out, second pass, (a): outside the recorded class the model's outcome passes the nonce clause *)
Theorem C08_judge_out_nonce_model_passes : forall i : out_in,
  out_known i = 0%N -> out_wf i ->
  (forall c s v, nlookup c s (g_nonces (out_cfg i)) = Some v -> (v < two64)%N) ->
  (forall cd, In cd (snd i) -> Forall (fun m => (m_nonce m < two64)%N) (c_msgs cd)) ->
  out_nonce_ok i (out_model i) = true.
Proof. intros i Hk Hwf H1 H2. apply out_nonce_model_passes; [exact Hk|exact Hwf|split; assumption]. Qed.
Print Assumptions C08_judge_out_nonce_model_passes.

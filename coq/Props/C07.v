(* C07 — Execute consensus needs f+1 distinct observers per item.
   This file holds the property theorems only; each is closed by [exact] of a lemma proved in Proofs/ExecMergeP.v.

   Reading guide.  [aos] is the list of attributed observations handed to Outcome: pairs (oracle id, observation),
   oracle ids distinct (libocr), each observation a well-formed Go map structure that passed
   Plugin.ValidateObservation (with the local home-chain view [fchain]) for its oracle ([validated sup dest fchain aos], [sup o] = the chains oracle o may read,
   [dest] = the destination chain).
   [supported_by f thr aos x] says: there is a duplicate-free list rs of at least thr oracles which is EXACTLY the
   set of oracles whose observation contains the item x among [f observation] (the items that observation files
   into the validator in question).  Item identity is the implementation's (see Model/ExecMerge.v).
   "One vote per oracle and item" is the clause [NoDup (f ob)] for every observation. *)
Require Import Verif.Model.Base Verif.Model.Consensus Verif.Model.ExecMerge Verif.Proofs.ExecMergeP.

(* A merged commit report of chain k was reported identically, under key k, by >= f_k+1 distinct oracles. *)
Theorem C07_commit : forall sup dest fchain aos r k l x,
  NoDup (map fst aos) -> validated sup dest fchain aos ->
  merge_commits fchain aos = Ok r -> In (k, l) r -> In x l ->
  exists f, In (k, f) fchain /\ supported_by (commits_at k) (f_plus_1 f) aos x /\
            (forall o ob, In (o, ob) aos -> NoDup (commits_at k ob)).
Proof. exact merge_commits_sound. Qed.
Print Assumptions C07_commit.

(* A merged message of chain k was reported identically, under chain key k, by >= f_k+1 distinct oracles
   (holds after the repair of F13a: validateMessageKeys). *)
Theorem C07_message : forall sup dest fchain aos r k l x,
  NoDup (map fst aos) -> validated sup dest fchain aos ->
  merge_msgs fchain aos = Ok r -> In (k, l) r -> In x l ->
  exists f, In (k, f) fchain /\ supported_by (msgs_at k) (f_plus_1 f) aos x /\
            (forall o ob, In (o, ob) aos -> NoDup (msgs_at k ob)).
Proof. exact merge_msgs_sound. Qed.
Print Assumptions C07_message.

(* With the validation as it was before the repair one oracle reaches the threshold alone (F13a). *)
Theorem C07_message_unfixed_refuted :
  exists sup dest fchain aos r k l x f,
    NoDup (map fst aos) /\ validated_unfixed sup dest fchain aos /\
    merge_msgs fchain aos = Ok r /\ In (k, l) r /\ In x l /\ In (k, f) fchain /\
    (N.of_nat (length (supporters msg_eqb (msgs_at k) x aos)) < f_plus_1 f)%N.
Proof. exact merge_msgs_unfixed_refuted. Qed.
Print Assumptions C07_message_unfixed_refuted.

(* A READY token-data slot i of message (c, s) in the merged result was reported identically, at that slot,
   by >= f_c+1 distinct oracles; an observation has at most one value per slot. (No validation needed.) *)
Theorem C07_token : forall fchain aos r c sl s slots i t,
  NoDup (map fst aos) ->
  merge_tokens fchain aos = Ok r -> In (c, sl) r -> In (s, slots) sl ->
  nth_error slots i = Some t -> t_ready t = true ->
  exists f, alookup c fchain = Some f /\ supported_by (tok_at c s i) (f_plus_1 f) aos t.
Proof. exact merge_tokens_sound. Qed.
Print Assumptions C07_token.

(* A merged (source, sender, nonce) triple was reported by >= f_dest+1 distinct oracles. *)
Theorem C07_nonce : forall sup dest fchain fdest aos x,
  NoDup (map fst aos) -> validated sup dest fchain aos ->
  In x (merge_nonces fdest aos) ->
  supported_by nonce_triples (f_plus_1 fdest) aos x /\
  (forall o ob, In (o, ob) aos -> NoDup (nonce_triples ob)).
Proof. exact merge_nonces_sound. Qed.
Print Assumptions C07_nonce.

(* A merged costly-message id is listed by >= f_dest+1 distinct oracles, however often each lists it
   (holds after the repair of F13c). *)
Theorem C07_costly : forall fdest aos x,
  NoDup (map fst aos) -> In x (merge_costly fdest aos) ->
  exists rs, NoDup rs /\ (fdest + 1 <= Z.of_nat (length rs))%Z /\
             forall o, In o rs <-> exists ob, In (o, ob) aos /\ In x (o_costly ob).
Proof. exact merge_costly_sound. Qed.
Print Assumptions C07_costly.

Theorem C07_costly_unfixed_refuted :
  exists fdest aos x,
    NoDup (map fst aos) /\ In x (merge_costly_unfixed fdest aos) /\
    (Z.of_nat (length (supporters N.eqb o_costly x aos)) < fdest + 1)%Z.
Proof. exact merge_costly_unfixed_refuted. Qed.
Print Assumptions C07_costly_unfixed_refuted.

(* ---- "items lacking support are ignored without blocking the others" ----
   After the repair of F13d (validateObservedChains) the full statement holds: for all validated aos,
   getConsensusObservation succeeds when |aos| >= F ... *)
Theorem C07_non_blocking : forall sup bigF dest fchain aos,
  validated sup dest fchain aos -> (bigF <= Z.of_nat (length aos))%Z ->
  exists cs ms ts,
    merge_commits fchain aos = Ok cs /\ merge_msgs fchain aos = Ok ms /\ merge_tokens fchain aos = Ok ts /\
    get_consensus bigF dest fchain aos =
      Ok (mkMerged cs ms ts (merge_costly (f_dest dest fchain) aos) (merge_nonces (f_dest dest fchain) aos)).
Proof. exact get_consensus_ok. Qed.
Print Assumptions C07_non_blocking.

(* Before that repair one accepted observation with an unknown chain key made the merge fail for everybody: *)
Theorem C07_non_blocking_unfixed_refuted :
  exists sup bigF dest fchain aos a,
    NoDup (map fst (a :: aos)) /\ validated_nochains sup dest (a :: aos) /\
    is_ok (get_consensus bigF dest fchain aos) = true /\
    get_consensus bigF dest fchain (a :: aos) = Err.
Proof. exact non_blocking_unfixed_refuted. Qed.
Print Assumptions C07_non_blocking_unfixed_refuted.

(* ... and every item with enough distinct reporters is delivered, whatever the other observations hold. *)
Theorem C07_commit_complete : forall sup dest fchain aos k f x rs,
  NoDup (map fst aos) -> validated sup dest fchain aos ->
  In (k, f) fchain ->
  NoDup rs -> rs <> [] -> (forall o, In o rs -> exists ob, In (o, ob) aos /\ In x (commits_at k ob)) ->
  (f_plus_1 f <= N.of_nat (length rs))%N ->
  exists r l, merge_commits fchain aos = Ok r /\ In (k, l) r /\ In x l.
Proof. exact merge_commits_complete. Qed.
Print Assumptions C07_commit_complete.

Theorem C07_message_complete : forall sup dest fchain aos k f x rs,
  NoDup (map fst aos) -> validated sup dest fchain aos ->
  In (k, f) fchain ->
  NoDup rs -> rs <> [] -> (forall o, In o rs -> exists ob, In (o, ob) aos /\ In x (msgs_at k ob)) ->
  (f_plus_1 f <= N.of_nat (length rs))%N ->
  exists r l, merge_msgs fchain aos = Ok r /\ In (k, l) r /\ In x l.
Proof. exact merge_msgs_complete. Qed.
Print Assumptions C07_message_complete.

Theorem C07_nonce_complete : forall sup dest fchain fdest aos x rs,
  NoDup (map fst aos) -> validated sup dest fchain aos ->
  NoDup rs -> rs <> [] -> (forall o, In o rs -> exists ob, In (o, ob) aos /\ In x (nonce_triples ob)) ->
  (f_plus_1 fdest <= N.of_nat (length rs))%N ->
  In x (merge_nonces fdest aos).
Proof. exact merge_nonces_complete. Qed.
Print Assumptions C07_nonce_complete.

Theorem C07_costly_complete : forall fdest aos x rs,
  NoDup (map fst aos) ->
  NoDup rs -> rs <> [] -> (forall o, In o rs -> exists ob, In (o, ob) aos /\ In x (o_costly ob)) ->
  (fdest + 1 <= Z.of_nat (length rs))%Z ->
  In x (merge_costly fdest aos).
Proof. exact merge_costly_complete. Qed.
Print Assumptions C07_costly_complete.

(* a token slot whose value has f+1 agreeing reporters and no rival at the threshold is delivered with that value *)
Theorem C07_token_slot_complete : forall thr c s i aos t,
  (0 < thr)%N ->
  (thr <= N.of_nat (length (supporters tok_eqb (tok_at c s i) t aos)))%N ->
  (forall t', (thr <= N.of_nat (length (supporters tok_eqb (tok_at c s i) t' aos)))%N -> t' = t) ->
  tok_slot thr c s aos i = t.
Proof. exact tok_slot_consensus. Qed.
Print Assumptions C07_token_slot_complete.

(* Token data is NOT non-blocking (F13e, recorded): one oracle claiming one more token slot for a message makes the
   merged token data of that message not ready, although the extra slot has a single reporter. *)
Theorem C07_token_non_blocking_refuted :
  exists fchain aos a c s,
    NoDup (map fst (a :: aos)) /\
    slots_ready (merge_tokens fchain aos) c s = true /\
    slots_ready (merge_tokens fchain (a :: aos)) c s = false /\
    N.of_nat (length (supporters tok_eqb (tok_at c s 1) (mkTok true 4) (a :: aos))) = 1%N.
Proof. exact token_non_blocking_refuted. Qed.
Print Assumptions C07_token_non_blocking_refuted.

(* C07_threshold_chain (observation F13b, not a theorem): commit reports are read from the destination chain but
   merge_commits uses the threshold of the SOURCE key k ([In (k, f) fchain] above), and nonces / costly ids use
   [f_dest dest fchain], which is 0 (one reporter suffices) when fChain has no entry for the destination. *)

(* C07 — Execute consensus needs f+1 distinct observers per item.
   This file holds the property theorems only; each is closed by [exact] of a lemma proved in Proofs/ExecMergeP.v.

   Reading guide.  [aos] is the list of attributed observations handed to Outcome: pairs (oracle id, observation),
   oracle ids distinct (libocr), each observation a well-formed Go map structure that passed
   Plugin.ValidateObservation (with the local home-chain view [fchain]) for its oracle ([validated sup dest fchain aos], [sup o] = the chains oracle o may read,
   [dest] = the destination chain).
   [supported_by f thr aos x] says: there is a duplicate-free list rs of at least thr oracles which is EXACTLY the
   set of oracles whose observation contains the item x among [f observation] (the items that observation files
   into the validator in question).  Item identity is the implementation's (see Model/ExecMerge.v).
   "One vote per oracle and item" is the clause [NoDup (f ob)] for every observation. *)
Require Import Verif.Model.Base Verif.Model.Consensus Verif.Model.ExecMerge Verif.Proofs.ExecMergeP.

(* A merged commit report under chain key k is a report OF chain k (validateCommitReportKeys) and was reported
   identically, under key k, by >= f_dest+1 distinct oracles: commit reports are destination data and are counted at
   the destination's f (holds after the repair of F75). *)
Theorem C07_commit : forall sup dest fchain aos r k l x,
  NoDup (map fst aos) -> validated sup dest fchain aos ->
  merge_commits dest fchain aos = Ok r -> In (k, l) r -> In x l ->
  In k (keys fchain) /\ c_src x = k /\
  supported_by (commits_at k) (f_plus_1 (f_dest dest fchain)) aos x /\
  (forall o ob, In (o, ob) aos -> NoDup (commits_at k ob)).
Proof. exact merge_commits_sound. Qed.
Print Assumptions C07_commit.

(* Before the repair (F75) the threshold was that of the chain key the report was filed under and the key was not tied
   to the report's SourceChain: two oracles that do not read chain 2 (f = 1) - fewer than f_dest + 1 = 3 - got a report
   of chain 1 agreed under key 2.  The repaired merge agrees nothing there and the repaired validation refuses the
   observations. *)
Theorem C07_commit_unfixed_refuted :
  exists sup dest fchain aos r k l x,
    NoDup (map fst aos) /\ validated_nokeys sup dest fchain aos /\
    (forall o ob, In (o, ob) aos -> ~ In k (sup o)) /\
    merge_commits_unfixed fchain aos = Ok r /\ In (k, l) r /\ In x l /\ c_src x <> k /\
    (N.of_nat (length (supporters commit_eqb (commits_at k) x aos)) < f_plus_1 (f_dest dest fchain))%N /\
    merge_commits dest fchain aos = Ok [] /\
    forallb (fun a => validate (sup (fst a)) dest fchain (snd a)) aos = false.
Proof. exact merge_commits_unfixed_refuted. Qed.
Print Assumptions C07_commit_unfixed_refuted.

(* A merged message of chain k was reported identically, under chain key k, by >= f_k+1 distinct oracles
   (holds after the repair of F13a: validateMessageKeys). *)
Theorem C07_message : forall sup dest fchain aos r k l x,
  NoDup (map fst aos) -> validated sup dest fchain aos ->
  merge_msgs fchain aos = Ok r -> In (k, l) r -> In x l ->
  exists f, In (k, f) fchain /\ supported_by (msgs_at k) (f_plus_1 f) aos x /\
            (forall o ob, In (o, ob) aos -> NoDup (msgs_at k ob)).
Proof. exact merge_msgs_sound. Qed.
Print Assumptions C07_message.

(* With the validation as it was before the repair one oracle reaches the threshold alone (F13a). *)
Theorem C07_message_unfixed_refuted :
  exists sup dest fchain aos r k l x f,
    NoDup (map fst aos) /\ validated_unfixed sup dest fchain aos /\
    merge_msgs fchain aos = Ok r /\ In (k, l) r /\ In x l /\ In (k, f) fchain /\
    (N.of_nat (length (supporters msg_eqb (msgs_at k) x aos)) < f_plus_1 f)%N.
Proof. exact merge_msgs_unfixed_refuted. Qed.
Print Assumptions C07_message_unfixed_refuted.

(* A READY token-data slot i of message (c, s) in the merged result was reported identically, at that slot,
   by >= f_c+1 distinct oracles; an observation has at most one value per slot. (No validation needed.) *)
Theorem C07_token : forall fchain aos r c sl s slots i t,
  NoDup (map fst aos) ->
  merge_tokens fchain aos = Ok r -> In (c, sl) r -> In (s, slots) sl ->
  nth_error slots i = Some t -> t_ready t = true ->
  exists f, alookup c fchain = Some f /\ supported_by (tok_at c s i) (f_plus_1 f) aos t.
Proof. exact merge_tokens_sound. Qed.
Print Assumptions C07_token.

(* A merged (source, sender, nonce) triple was reported by >= f_dest+1 distinct oracles. *)
Theorem C07_nonce : forall sup dest fchain fdest aos x,
  NoDup (map fst aos) -> validated sup dest fchain aos ->
  In x (merge_nonces fdest aos) ->
  supported_by nonce_triples (f_plus_1 fdest) aos x /\
  (forall o ob, In (o, ob) aos -> NoDup (nonce_triples ob)).
Proof. exact merge_nonces_sound. Qed.
Print Assumptions C07_nonce.

(* A merged costly-message id is listed by >= f_dest+1 distinct oracles, however often each lists it
   (holds after the repair of F13c). *)
Theorem C07_costly : forall fdest aos x,
  NoDup (map fst aos) -> In x (merge_costly fdest aos) ->
  exists rs, NoDup rs /\ (fdest + 1 <= Z.of_nat (length rs))%Z /\
             forall o, In o rs <-> exists ob, In (o, ob) aos /\ In x (o_costly ob).
Proof. exact merge_costly_sound. Qed.
Print Assumptions C07_costly.

Theorem C07_costly_unfixed_refuted :
  exists fdest aos x,
    NoDup (map fst aos) /\ In x (merge_costly_unfixed fdest aos) /\
    (Z.of_nat (length (supporters N.eqb o_costly x aos)) < fdest + 1)%Z.
Proof. exact merge_costly_unfixed_refuted. Qed.
Print Assumptions C07_costly_unfixed_refuted.

(* ---- "items lacking support are ignored without blocking the others" ----
   After the repair of F13d (validateObservedChains) the full statement holds: for all validated aos,
   getConsensusObservation succeeds when |aos| >= F ... *)
Theorem C07_non_blocking : forall sup bigF dest fchain aos,
  validated sup dest fchain aos -> (bigF <= Z.of_nat (length aos))%Z ->
  exists cs ms ts,
    merge_commits dest fchain aos = Ok cs /\ merge_msgs fchain aos = Ok ms /\ merge_tokens fchain aos = Ok ts /\
    get_consensus bigF dest fchain aos =
      Ok (mkMerged cs ms ts (merge_costly (f_dest dest fchain) aos) (merge_nonces (f_dest dest fchain) aos)).
Proof. exact get_consensus_ok. Qed.
Print Assumptions C07_non_blocking.

(* Before that repair one accepted observation with an unknown chain key made the merge fail for everybody: *)
Theorem C07_non_blocking_unfixed_refuted :
  exists sup bigF dest fchain aos a,
    NoDup (map fst (a :: aos)) /\ validated_nochains sup dest (a :: aos) /\
    is_ok (get_consensus bigF dest fchain aos) = true /\
    get_consensus bigF dest fchain (a :: aos) = Err.
Proof. exact non_blocking_unfixed_refuted. Qed.
Print Assumptions C07_non_blocking_unfixed_refuted.

(* ... and every item with enough distinct reporters is delivered, whatever the other observations hold. *)
Theorem C07_commit_complete : forall sup dest fchain aos k x rs,
  NoDup (map fst aos) -> validated sup dest fchain aos ->
  In k (keys fchain) ->
  NoDup rs -> rs <> [] -> (forall o, In o rs -> exists ob, In (o, ob) aos /\ In x (commits_at k ob)) ->
  (f_plus_1 (f_dest dest fchain) <= N.of_nat (length rs))%N ->
  exists r l, merge_commits dest fchain aos = Ok r /\ In (k, l) r /\ In x l.
Proof. exact merge_commits_complete. Qed.
Print Assumptions C07_commit_complete.

Theorem C07_message_complete : forall sup dest fchain aos k f x rs,
  NoDup (map fst aos) -> validated sup dest fchain aos ->
  In (k, f) fchain ->
  NoDup rs -> rs <> [] -> (forall o, In o rs -> exists ob, In (o, ob) aos /\ In x (msgs_at k ob)) ->
  (f_plus_1 f <= N.of_nat (length rs))%N ->
  exists r l, merge_msgs fchain aos = Ok r /\ In (k, l) r /\ In x l.
Proof. exact merge_msgs_complete. Qed.
Print Assumptions C07_message_complete.

Theorem C07_nonce_complete : forall sup dest fchain fdest aos x rs,
  NoDup (map fst aos) -> validated sup dest fchain aos ->
  NoDup rs -> rs <> [] -> (forall o, In o rs -> exists ob, In (o, ob) aos /\ In x (nonce_triples ob)) ->
  (f_plus_1 fdest <= N.of_nat (length rs))%N ->
  In x (merge_nonces fdest aos).
Proof. exact merge_nonces_complete. Qed.
Print Assumptions C07_nonce_complete.

Theorem C07_costly_complete : forall fdest aos x rs,
  NoDup (map fst aos) ->
  NoDup rs -> rs <> [] -> (forall o, In o rs -> exists ob, In (o, ob) aos /\ In x (o_costly ob)) ->
  (fdest + 1 <= Z.of_nat (length rs))%Z ->
  In x (merge_costly fdest aos).
Proof. exact merge_costly_complete. Qed.
Print Assumptions C07_costly_complete.

(* a token slot whose value has f+1 agreeing reporters and no rival at the threshold is delivered with that value *)
Theorem C07_token_slot_complete : forall thr c s i aos t,
  (0 < thr)%N ->
  (thr <= N.of_nat (length (supporters tok_eqb (tok_at c s i) t aos)))%N ->
  (forall t', (thr <= N.of_nat (length (supporters tok_eqb (tok_at c s i) t' aos)))%N -> t' = t) ->
  tok_slot thr c s aos i = t.
Proof. exact tok_slot_consensus. Qed.
Print Assumptions C07_token_slot_complete.

(* Token data is NOT non-blocking (F13e, recorded): one oracle claiming one more token slot for a message makes the
   merged token data of that message not ready, although the extra slot has a single reporter. *)
Theorem C07_token_non_blocking_refuted :
  exists fchain aos a c s,
    NoDup (map fst (a :: aos)) /\
    slots_ready (merge_tokens fchain aos) c s = true /\
    slots_ready (merge_tokens fchain (a :: aos)) c s = false /\
    N.of_nat (length (supporters tok_eqb (tok_at c s 1) (mkTok true 4) (a :: aos))) = 1%N.
Proof. exact token_non_blocking_refuted. Qed.
Print Assumptions C07_token_non_blocking_refuted.

(* C07_threshold_chain: commit reports, nonces and costly ids are destination data and use [f_dest dest fchain] (commit
   reports since the repair of F75, which was observation F13b), which is 0 (one reporter suffices) when fChain has no
   entry for the destination; messages and token data use the f of their source chain key. *)

(* ===================== System level: one whole cycle of one DON (Model/ExecSys.v, Proofs/ExecSysP.v) =====================
   [exec_round] is Plugin.Outcome composed from the models of C07 (merges), C08 (report builder) and the state
   machine; a cycle is three successful rounds GetCommitReports -> GetMessages -> Filter.  Observations carry full
   items ([xcommit] = id, timestamp, commit data; [xmsg] = id, message); [quorum items thr aos x]: there is a
   duplicate-free list of at least thr oracles which is EXACTLY the set of oracles whose observation holds the full
   item x among [items observation].  [sys_validated]: every observation is a well-formed map structure that passed
   Plugin.ValidateObservation; [key_functional]: two observed items with the same id (sha3 of the rendering) are the
   same item.  hash / zero / leaf_hash / enc_size / tree_gas / limits: the oracles of the report builder (C08). *)
Require Import Verif.Model.Merkle Verif.Model.ExecReport Verif.Model.ExecSys Verif.Proofs.ExecSysP.
Require Verif.Proofs.ExecReportP.

(* C07_used_needs_quorum_cycle.  For EVERY cycle (any builder oracles, any F, any fChain maps - one per round -, any
   validated observation lists of distinct oracles, any previous outcome): if message mm is in a chain report r of the
   execute report produced by the Filter round, then
   (i)   its commit report x (root, interval, source chain, executed list, timestamp: the full item) was reported
         identically by >= f_dest + 1 distinct oracles in the GetCommitReports round, under the key of its own source
         chain - commit reports are destination data and are agreed at the destination's f (repairs of F75; before
         them: at the f of whatever chain key the report was filed under, C09_cycle_liveness_poisoned_unfixed_refuted);
         the chain report was built from exactly that pending report, carried unchanged through the GetMessages outcome,
         and the message lies in its interval;
   (c)   mm is not executed according to that agreed commit report;
   (ii)  the message xm (full content, id) was reported identically by >= f_k + 1 distinct oracles under its own source
         chain key k in the GetMessages round;
   (iii) the token data used for it is ready and is either token data the agreed commit data already carried or the
         merged entry of a sequence number s of the report's interval, each slot reported by >= f_k + 1 oracles at
         (k, s, slot) - the builder compares list lengths only; that s is mm's own sequence number is
         C07_token_data_cycle below;
         fewer than f_dest + 1 oracles flagged it too costly (C07_not_costly_cycle);
   (iv)  if mm is sequenced, its sender's on-chain nonce handed to the builder was reported by >= f_dest + 1 distinct
         oracles in the Filter round. *)
Theorem C07_used_needs_quorum_cycle :
  forall (hash : N -> N -> N) (zero : N) (leaf_hash : ExecReport.msg -> option N) (enc_size : creport -> option N)
         (tree_gas : N -> N) (max_size max_gas : N) (nonce_key : EM.nonce_t -> N)
         (sup : N -> list N) (bigF : Z) (dest : N) (fc1 fc2 fc3 : list (N * Z))
         (prev o1 o2 o3 : outcome) (aos1 aos2 aos3 : list sao),
  NoDup (map fst aos1) -> NoDup (map fst aos2) -> NoDup (map fst aos3) ->
  sys_validated sup dest fc1 aos1 -> sys_validated sup dest fc2 aos2 -> sys_validated sup dest fc3 aos3 ->
  key_functional aos1 -> key_functional aos2 ->
  exec_round hash zero leaf_hash enc_size tree_gas max_size max_gas nonce_key bigF dest fc1 prev aos1 = Ok o1 ->
  o_state o1 = 2%N ->
  exec_round hash zero leaf_hash enc_size tree_gas max_size max_gas nonce_key bigF dest fc2 o1 aos2 = Ok o2 ->
  exec_round hash zero leaf_hash enc_size tree_gas max_size max_gas nonce_key bigF dest fc3 o2 aos3 = Ok o3 ->
  forall (r : creport) (mm : ExecReport.msg), In r (o_report o3) -> In mm (r_msgs r) ->
    ExecReport.m_src mm = r_src r /\
    exists (x : xcommit) (cd2 : cdata) (xm : xmsg) (fk : Z) (i p : nat) (td : tokdata),
      quorum (xcommits_of (r_src r)) (f_plus_1 (EM.f_dest dest fc1)) aos1 x /\
      c_src (xc_cd x) = r_src r /\
      PS.in_range (c_start (xc_cd x)) (c_end (xc_cd x)) (ExecReport.m_seq mm) = true /\
      In (xc_cd x) (o_pending o1) /\
      In cd2 (o_pending o2) /\ ExecReportP.good_report hash zero leaf_hash cd2 r /\
      c_src cd2 = c_src (xc_cd x) /\ ExecReport.c_root cd2 = ExecReport.c_root (xc_cd x) /\
      c_start cd2 = c_start (xc_cd x) /\ c_end cd2 = c_end (xc_cd x) /\
      ExecReport.c_exec cd2 = ExecReport.c_exec (xc_cd x) /\
      memN (ExecReport.m_seq mm) (ExecReport.c_exec (xc_cd x)) = false /\
      xm_msg xm = mm /\ In (r_src r, fk) fc2 /\ quorum (xmsgs_of (r_src r)) (f_plus_1 fk) aos2 xm /\
      nth_error (c_msgs cd2) i = Some mm /\ nth_error (c_td cd2) i = Some td /\
      nth_error (r_msgs r) p = Some mm /\ nth_error (r_td r) p = Some (td_bytes td) /\ td_ready td = true /\
      length (c_td cd2) = length (c_msgs cd2) /\
      (In td (c_td (xc_cd x)) \/
       exists s slots, PS.in_range (c_start (xc_cd x)) (c_end (xc_cd x)) s = true /\ td = to_td slots /\
         forall n t, nth_error slots n = Some t ->
           EM.t_ready t = true /\
           exists f, alookup (r_src r) fc2 = Some f /\ quorum (xtok_of (r_src r) s n) (f_plus_1 f) aos2 t) /\
      ~ In (ExecReport.m_id mm) (EM.merge_costly (EM.f_dest dest fc2) (to_aos aos2)) /\
      (m_nonce mm = 0%N \/
       exists v, quorum xnonces_of (f_plus_1 (EM.f_dest dest fc3)) aos3 (r_src r, m_sender mm, v)).
Proof. exact cycle_message. Qed.
Print Assumptions C07_used_needs_quorum_cycle.

(* (iii), exact: when the pending reports agreed in the GetCommitReports round carry no token data (no honest oracle
   observes commit data with token data: getPendingExecutedReports never fills MessageTokenData) and their interval
   bounds are uint64 values, the token data used for mm is the merged entry of mm's OWN sequence number - by counting:
   ConstructMerkleTree demands one message per sequence number of the interval, the builder demands as many token data
   entries as messages - and each of its slots was reported, ready, by >= f_k + 1 distinct oracles at (k, seq, slot). *)
Theorem C07_token_data_cycle :
  forall (hash : N -> N -> N) (zero : N) (leaf_hash : ExecReport.msg -> option N) (enc_size : creport -> option N)
         (tree_gas : N -> N) (max_size max_gas : N) (nonce_key : EM.nonce_t -> N)
         (bigF : Z) (dest : N) (fc1 fc2 fc3 : list (N * Z)) (prev o1 o2 o3 : outcome) (aos1 aos2 aos3 : list sao),
  NoDup (map fst aos2) ->
  exec_round hash zero leaf_hash enc_size tree_gas max_size max_gas nonce_key bigF dest fc1 prev aos1 = Ok o1 ->
  exec_round hash zero leaf_hash enc_size tree_gas max_size max_gas nonce_key bigF dest fc2 o1 aos2 = Ok o2 ->
  exec_round hash zero leaf_hash enc_size tree_gas max_size max_gas nonce_key bigF dest fc3 o2 aos3 = Ok o3 ->
  forall (r : creport) (mm : ExecReport.msg), In r (o_report o3) -> In mm (r_msgs r) ->
  (forall cd, In cd (o_pending o1) -> c_td cd = [] /\ (c_start cd < two64)%N /\ (c_end cd < two64)%N) ->
  exists p slots,
    nth_error (r_msgs r) p = Some mm /\ nth_error (r_td r) p = Some (td_bytes (to_td slots)) /\
    forall n t, nth_error slots n = Some t ->
      EM.t_ready t = true /\
      exists f, alookup (r_src r) fc2 = Some f /\
                quorum (xtok_of (r_src r) (ExecReport.m_seq mm) n) (f_plus_1 f) aos2 t.
Proof.
  intros hash zero leaf_hash enc_size tree_gas max_size max_gas nonce_key bigF dest fc1 fc2 fc3 prev o1 o2 o3 aos1 aos2 aos3
         ND2 R1 R2 R3 r mm.
  exact (cycle_token_data hash zero leaf_hash enc_size tree_gas max_size max_gas nonce_key bigF dest fc2 fc3 o1 o2 o3
           aos2 aos3 ND2 R2 R3 r mm).
Qed.
Print Assumptions C07_token_data_cycle.

(* not flagged too costly by f_dest + 1: every set of distinct oracles that list the message's id in the GetMessages
   round has at most f_dest members *)
Theorem C07_not_costly_cycle :
  forall (hash : N -> N -> N) (zero : N) (leaf_hash : ExecReport.msg -> option N) (enc_size : creport -> option N)
         (tree_gas : N -> N) (max_size max_gas : N) (nonce_key : EM.nonce_t -> N)
         (sup : N -> list N) (bigF : Z) (dest : N) (fc1 fc2 fc3 : list (N * Z))
         (prev o1 o2 o3 : outcome) (aos1 aos2 aos3 : list sao),
  NoDup (map fst aos1) -> NoDup (map fst aos2) -> NoDup (map fst aos3) ->
  sys_validated sup dest fc1 aos1 -> sys_validated sup dest fc2 aos2 -> sys_validated sup dest fc3 aos3 ->
  key_functional aos1 -> key_functional aos2 ->
  exec_round hash zero leaf_hash enc_size tree_gas max_size max_gas nonce_key bigF dest fc1 prev aos1 = Ok o1 ->
  o_state o1 = 2%N ->
  exec_round hash zero leaf_hash enc_size tree_gas max_size max_gas nonce_key bigF dest fc2 o1 aos2 = Ok o2 ->
  exec_round hash zero leaf_hash enc_size tree_gas max_size max_gas nonce_key bigF dest fc3 o2 aos3 = Ok o3 ->
  forall (r : creport) (mm : ExecReport.msg) (rs : list N), In r (o_report o3) -> In mm (r_msgs r) ->
  NoDup rs -> rs <> [] ->
  (forall o, In o rs -> exists ob, In (o, ob) aos2 /\ In (ExecReport.m_id mm) (so_costly ob)) ->
  (Z.of_nat (length rs) < EM.f_dest dest fc2 + 1)%Z.
Proof. exact cycle_not_costly. Qed.
Print Assumptions C07_not_costly_cycle.

(* non-vacuity: a concrete cycle of four oracles (oracle 3 deviating in every round: another executed list, a variant
   of message 5 and repeated costly flags, another nonce) on which every hypothesis above holds and whose report
   holds both messages of the commit report *)
Theorem C07_cycle_nonvacuous :
  NoDup (map fst SysEx.aos1) /\ NoDup (map fst SysEx.aos2) /\ NoDup (map fst SysEx.aos3) /\
  sys_validated SysEx.sup 9 SysEx.fc SysEx.aos1 /\ sys_validated SysEx.sup 9 SysEx.fc SysEx.aos2 /\
  sys_validated SysEx.sup 9 SysEx.fc SysEx.aos3 /\
  key_functional SysEx.aos1 /\ key_functional SysEx.aos2 /\
  SysEx.Round 1 9%N SysEx.fc out_init SysEx.aos1 = Ok SysEx.o1 /\ o_state SysEx.o1 = 2%N /\
  SysEx.Round 1 9%N SysEx.fc SysEx.o1 SysEx.aos2 = Ok SysEx.o2 /\
  SysEx.Round 1 9%N SysEx.fc SysEx.o2 SysEx.aos3 = Ok SysEx.o3 /\
  map (fun r => map ExecReport.m_seq (r_msgs r)) (o_report SysEx.o3) = [[5; 6]]%N /\
  (forall cd, In cd (o_pending SysEx.o1) -> c_td cd = [] /\ (c_start cd < two64)%N /\ (c_end cd < two64)%N) /\
  (forall cd, In cd (o_pending SysEx.o2) -> length (c_msgs cd) <= 256).
Proof. exact SysEx.cycle_example. Qed.
Print Assumptions C07_cycle_nonvacuous.

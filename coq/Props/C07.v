(* C07 — Execute consensus needs f+1 distinct observers per item.
   This file holds the property theorems only; each is closed by [exact] of a lemma proved in Proofs/ExecMergeP.v.

   Reading guide.  [aos] is the list of attributed observations handed to Outcome: pairs (oracle id, observation),
   oracle ids distinct (libocr), each observation a well-formed Go map structure that passed
   Plugin.ValidateObservation (with the local home-chain view [fchain]) for its oracle ([validated sup dest fchain aos], [sup o] = the chains oracle o may read,
   [dest] = the destination chain).
   [supported_by f thr aos x] says: there is a duplicate-free list rs of at least thr oracles which is EXACTLY the
   set of oracles whose observation contains the item x among [f observation] (the items that observation files
   into the validator in question).  Item identity is the implementation's (see Model/ExecMerge.v).
   "One vote per oracle and item" is the clause [NoDup (f ob)] for every observation. *)
Require Import Verif.Model.Base Verif.Model.Consensus Verif.Model.ExecMerge Verif.Proofs.ExecMergeP.

(* A merged commit report under chain key k is a report OF chain k (validateCommitReportKeys) and was reported
   identically, under key k, by >= f_dest+1 distinct oracles: commit reports are destination data and are counted at
   the destination's f (holds after the repair of F75). *)
Theorem C07_commit : forall sup dest fchain aos r k l x,
  NoDup (map fst aos) -> validated sup dest fchain aos ->
  merge_commits dest fchain aos = Ok r -> In (k, l) r -> In x l ->
  In k (keys fchain) /\ c_src x = k /\
  supported_by (commits_at k) (f_plus_1 (f_dest dest fchain)) aos x /\
  (forall o ob, In (o, ob) aos -> NoDup (commits_at k ob)).
Proof. exact merge_commits_sound. Qed.
Print Assumptions C07_commit.

(* Before the repair (F75) the threshold was that of the chain key the report was filed under and the key was not tied
   to the report's SourceChain: two oracles that do not read chain 2 (f = 1) - fewer than f_dest + 1 = 3 - got a report
   of chain 1 agreed under key 2.  The repaired merge agrees nothing there and the repaired validation refuses the
   observations. *)
Theorem C07_commit_unfixed_refuted :
  exists sup dest fchain aos r k l x,
    NoDup (map fst aos) /\ validated_nokeys sup dest fchain aos /\
    (forall o ob, In (o, ob) aos -> ~ In k (sup o)) /\
    merge_commits_unfixed fchain aos = Ok r /\ In (k, l) r /\ In x l /\ c_src x <> k /\
    (N.of_nat (length (supporters commit_eqb (commits_at k) x aos)) < f_plus_1 (f_dest dest fchain))%N /\
    merge_commits dest fchain aos = Ok [] /\
    forallb (fun a => validate (sup (fst a)) dest fchain (snd a)) aos = false.
Proof. exact merge_commits_unfixed_refuted. Qed.
Print Assumptions C07_commit_unfixed_refuted.

(* A merged message of chain k was reported identically, under chain key k, by >= f_k+1 distinct oracles
   (holds after the repair of F13a: validateMessageKeys). *)
Theorem C07_message : forall sup dest fchain aos r k l x,
  NoDup (map fst aos) -> validated sup dest fchain aos ->
  merge_msgs fchain aos = Ok r -> In (k, l) r -> In x l ->
  exists f, In (k, f) fchain /\ supported_by (msgs_at k) (f_plus_1 f) aos x /\
            (forall o ob, In (o, ob) aos -> NoDup (msgs_at k ob)).
Proof. exact merge_msgs_sound. Qed.
Print Assumptions C07_message.

(* With the validation as it was before the repair one oracle reaches the threshold alone (F13a). *)
Theorem C07_message_unfixed_refuted :
  exists sup dest fchain aos r k l x f,
    NoDup (map fst aos) /\ validated_unfixed sup dest fchain aos /\
    merge_msgs fchain aos = Ok r /\ In (k, l) r /\ In x l /\ In (k, f) fchain /\
    (N.of_nat (length (supporters msg_eqb (msgs_at k) x aos)) < f_plus_1 f)%N.
Proof. exact merge_msgs_unfixed_refuted. Qed.
Print Assumptions C07_message_unfixed_refuted.

(* A READY token-data slot i of message (c, s) in the merged result was reported identically, at that slot,
   by >= f_c+1 distinct oracles; an observation has at most one value per slot. (No validation needed.) *)
Theorem C07_token : forall fchain aos r c sl s slots i t,
  NoDup (map fst aos) ->
  merge_tokens fchain aos = Ok r -> In (c, sl) r -> In (s, slots) sl ->
  nth_error slots i = Some t -> t_ready t = true ->
  exists f, alookup c fchain = Some f /\ supported_by (tok_at c s i) (f_plus_1 f) aos t.
Proof. exact merge_tokens_sound. Qed.
Print Assumptions C07_token.

(* A merged (source, sender, nonce) triple was reported by >= f_dest+1 distinct oracles. *)
Theorem C07_nonce : forall sup dest fchain fdest aos x,
  NoDup (map fst aos) -> validated sup dest fchain aos ->
  In x (merge_nonces fdest aos) ->
  supported_by nonce_triples (f_plus_1 fdest) aos x /\
  (forall o ob, In (o, ob) aos -> NoDup (nonce_triples ob)).
Proof. exact merge_nonces_sound. Qed.
Print Assumptions C07_nonce.

(* A merged costly-message id is listed by >= f_dest+1 distinct oracles, however often each lists it
   (holds after the repair of F13c). *)
Theorem C07_costly : forall fdest aos x,
  NoDup (map fst aos) -> In x (merge_costly fdest aos) ->
  exists rs, NoDup rs /\ (fdest + 1 <= Z.of_nat (length rs))%Z /\
             forall o, In o rs <-> exists ob, In (o, ob) aos /\ In x (o_costly ob).
Proof. exact merge_costly_sound. Qed.
Print Assumptions C07_costly.

Theorem C07_costly_unfixed_refuted :
  exists fdest aos x,
    NoDup (map fst aos) /\ In x (merge_costly_unfixed fdest aos) /\
    (Z.of_nat (length (supporters N.eqb o_costly x aos)) < fdest + 1)%Z.
Proof. exact merge_costly_unfixed_refuted. Qed.
Print Assumptions C07_costly_unfixed_refuted.

(* ---- "items lacking support are ignored without blocking the others" ----
   After the repair of F13d (validateObservedChains) the full statement holds: for all validated aos,
   getConsensusObservation succeeds when |aos| >= F ... *)
Theorem C07_non_blocking : forall sup bigF dest fchain aos,
  validated sup dest fchain aos -> (bigF <= Z.of_nat (length aos))%Z ->
  exists cs ms ts,
    merge_commits dest fchain aos = Ok cs /\ merge_msgs fchain aos = Ok ms /\ merge_tokens fchain aos = Ok ts /\
    get_consensus bigF dest fchain aos =
      Ok (mkMerged cs ms ts (merge_costly (f_dest dest fchain) aos) (merge_nonces (f_dest dest fchain) aos)).
Proof. exact get_consensus_ok. Qed.
Print Assumptions C07_non_blocking.

(* Before that repair one accepted observation with an unknown chain key made the merge fail for everybody: *)
Theorem C07_non_blocking_unfixed_refuted :
  exists sup bigF dest fchain aos a,
    NoDup (map fst (a :: aos)) /\ validated_nochains sup dest (a :: aos) /\
    is_ok (get_consensus bigF dest fchain aos) = true /\
    get_consensus bigF dest fchain (a :: aos) = Err.
Proof. exact non_blocking_unfixed_refuted. Qed.
Print Assumptions C07_non_blocking_unfixed_refuted.

(* ... and every item with enough distinct reporters is delivered, whatever the other observations hold. *)
Theorem C07_commit_complete : forall sup dest fchain aos k x rs,
  NoDup (map fst aos) -> validated sup dest fchain aos ->
  In k (keys fchain) ->
  NoDup rs -> rs <> [] -> (forall o, In o rs -> exists ob, In (o, ob) aos /\ In x (commits_at k ob)) ->
  (f_plus_1 (f_dest dest fchain) <= N.of_nat (length rs))%N ->
  exists r l, merge_commits dest fchain aos = Ok r /\ In (k, l) r /\ In x l.
Proof. exact merge_commits_complete. Qed.
Print Assumptions C07_commit_complete.

Theorem C07_message_complete : forall sup dest fchain aos k f x rs,
  NoDup (map fst aos) -> validated sup dest fchain aos ->
  In (k, f) fchain ->
  NoDup rs -> rs <> [] -> (forall o, In o rs -> exists ob, In (o, ob) aos /\ In x (msgs_at k ob)) ->
  (f_plus_1 f <= N.of_nat (length rs))%N ->
  exists r l, merge_msgs fchain aos = Ok r /\ In (k, l) r /\ In x l.
Proof. exact merge_msgs_complete. Qed.
Print Assumptions C07_message_complete.

Theorem C07_nonce_complete : forall sup dest fchain fdest aos x rs,
  NoDup (map fst aos) -> validated sup dest fchain aos ->
  NoDup rs -> rs <> [] -> (forall o, In o rs -> exists ob, In (o, ob) aos /\ In x (nonce_triples ob)) ->
  (f_plus_1 fdest <= N.of_nat (length rs))%N ->
  In x (merge_nonces fdest aos).
Proof. exact merge_nonces_complete. Qed.
Print Assumptions C07_nonce_complete.

Theorem C07_costly_complete : forall fdest aos x rs,
  NoDup (map fst aos) ->
  NoDup rs -> rs <> [] -> (forall o, In o rs -> exists ob, In (o, ob) aos /\ In x (o_costly ob)) ->
  (fdest + 1 <= Z.of_nat (length rs))%Z ->
  In x (merge_costly fdest aos).
Proof. exact merge_costly_complete. Qed.
Print Assumptions C07_costly_complete.

(* a token slot whose value has f+1 agreeing reporters and no rival at the threshold is delivered with that value *)
Theorem C07_token_slot_complete : forall thr c s i aos t,
  (0 < thr)%N ->
  (thr <= N.of_nat (length (supporters tok_eqb (tok_at c s i) t aos)))%N ->
  (forall t', (thr <= N.of_nat (length (supporters tok_eqb (tok_at c s i) t' aos)))%N -> t' = t) ->
  tok_slot thr c s aos i = t.
Proof. exact tok_slot_consensus. Qed.
Print Assumptions C07_token_slot_complete.

(* Token data is NOT non-blocking (F13e, recorded): one oracle claiming one more token slot for a message makes the
   merged token data of that message not ready, although the extra slot has a single reporter. *)
Theorem C07_token_non_blocking_refuted :
  exists fchain aos a c s,
    NoDup (map fst (a :: aos)) /\
    slots_ready (merge_tokens fchain aos) c s = true /\
    slots_ready (merge_tokens fchain (a :: aos)) c s = false /\
    N.of_nat (length (supporters tok_eqb (tok_at c s 1) (mkTok true 4) (a :: aos))) = 1%N.
Proof. exact token_non_blocking_refuted. Qed.
Print Assumptions C07_token_non_blocking_refuted.

(* C07_threshold_chain: commit reports, nonces and costly ids are destination data and use [f_dest dest fchain] (commit
   reports since the repair of F75, which was observation F13b), which is 0 (one reporter suffices) when fChain has no
   entry for the destination; messages and token data use the f of their source chain key. *)

(* ===================== System level: one whole cycle of one DON (Model/ExecSys.v, Proofs/ExecSysP.v) =====================
   [exec_round] is Plugin.Outcome composed from the models of C07 (merges), C08 (report builder) and the state
   machine; a cycle is three successful rounds GetCommitReports -> GetMessages -> Filter.  Observations carry full
   items ([xcommit] = id, timestamp, commit data; [xmsg] = id, message); [quorum items thr aos x]: there is a
   duplicate-free list of at least thr oracles which is EXACTLY the set of oracles whose observation holds the full
   item x among [items observation].  [sys_validated]: every observation is a well-formed map structure that passed
   Plugin.ValidateObservation; [key_functional]: two observed items with the same id (sha3 of the rendering) are the
   same item.  hash / zero / leaf_hash / enc_size / tree_gas / limits: the oracles of the report builder (C08). *)
Require Import Verif.Model.Merkle Verif.Model.ExecReport Verif.Model.ExecSys Verif.Proofs.ExecSysP.
Require Verif.Proofs.ExecReportP.

(* C07_used_needs_quorum_cycle.  For EVERY cycle (any builder oracles, any F, any fChain maps - one per round -, any
   validated observation lists of distinct oracles, any previous outcome): if message mm is in a chain report r of the
   execute report produced by the Filter round, then
   (i)   its commit report x (root, interval, source chain, executed list, timestamp: the full item) was reported
         identically by >= f_dest + 1 distinct oracles in the GetCommitReports round, under the key of its own source
         chain - commit reports are destination data and are agreed at the destination's f (repairs of F75; before
         them: at the f of whatever chain key the report was filed under, C09_cycle_liveness_poisoned_unfixed_refuted);
         the chain report was built from exactly that pending report, carried unchanged through the GetMessages outcome,
         and the message lies in its interval;
   (c)   mm is not executed according to that agreed commit report;
   (ii)  the message xm (full content, id) was reported identically by >= f_k + 1 distinct oracles under its own source
         chain key k in the GetMessages round;
   (iii) the token data used for it is ready and is either token data the agreed commit data already carried or the
         merged entry of a sequence number s of the report's interval, each slot reported by >= f_k + 1 oracles at
         (k, s, slot) - the builder compares list lengths only; that s is mm's own sequence number is
         C07_token_data_cycle below;
         fewer than f_dest + 1 oracles flagged it too costly (C07_not_costly_cycle);
   (iv)  if mm is sequenced, its sender's on-chain nonce handed to the builder was reported by >= f_dest + 1 distinct
         oracles in the Filter round. *)
Theorem C07_used_needs_quorum_cycle :
  forall (hash : N -> N -> N) (zero : N) (leaf_hash : ExecReport.msg -> option N) (enc_size : creport -> option N)
         (tree_gas : N -> N) (max_size max_gas : N) (nonce_key : EM.nonce_t -> N)
         (sup : N -> list N) (bigF : Z) (dest : N) (fc1 fc2 fc3 : list (N * Z))
         (prev o1 o2 o3 : outcome) (aos1 aos2 aos3 : list sao),
  NoDup (map fst aos1) -> NoDup (map fst aos2) -> NoDup (map fst aos3) ->
  sys_validated sup dest fc1 aos1 -> sys_validated sup dest fc2 aos2 -> sys_validated sup dest fc3 aos3 ->
  key_functional aos1 -> key_functional aos2 ->
  exec_round hash zero leaf_hash enc_size tree_gas max_size max_gas nonce_key bigF dest fc1 prev aos1 = Ok o1 ->
  o_state o1 = 2%N ->
  exec_round hash zero leaf_hash enc_size tree_gas max_size max_gas nonce_key bigF dest fc2 o1 aos2 = Ok o2 ->
  exec_round hash zero leaf_hash enc_size tree_gas max_size max_gas nonce_key bigF dest fc3 o2 aos3 = Ok o3 ->
  forall (r : creport) (mm : ExecReport.msg), In r (o_report o3) -> In mm (r_msgs r) ->
    ExecReport.m_src mm = r_src r /\
    exists (x : xcommit) (cd2 : cdata) (xm : xmsg) (fk : Z) (i p : nat) (td : tokdata),
      quorum (xcommits_of (r_src r)) (f_plus_1 (EM.f_dest dest fc1)) aos1 x /\
      c_src (xc_cd x) = r_src r /\
      PS.in_range (c_start (xc_cd x)) (c_end (xc_cd x)) (ExecReport.m_seq mm) = true /\
      In (xc_cd x) (o_pending o1) /\
      In cd2 (o_pending o2) /\ ExecReportP.good_report hash zero leaf_hash cd2 r /\
      c_src cd2 = c_src (xc_cd x) /\ ExecReport.c_root cd2 = ExecReport.c_root (xc_cd x) /\
      c_start cd2 = c_start (xc_cd x) /\ c_end cd2 = c_end (xc_cd x) /\
      ExecReport.c_exec cd2 = ExecReport.c_exec (xc_cd x) /\
      memN (ExecReport.m_seq mm) (ExecReport.c_exec (xc_cd x)) = false /\
      xm_msg xm = mm /\ In (r_src r, fk) fc2 /\ quorum (xmsgs_of (r_src r)) (f_plus_1 fk) aos2 xm /\
      nth_error (c_msgs cd2) i = Some mm /\ nth_error (c_td cd2) i = Some td /\
      nth_error (r_msgs r) p = Some mm /\ nth_error (r_td r) p = Some (td_bytes td) /\ td_ready td = true /\
      length (c_td cd2) = length (c_msgs cd2) /\
      (In td (c_td (xc_cd x)) \/
       exists s slots, PS.in_range (c_start (xc_cd x)) (c_end (xc_cd x)) s = true /\ td = to_td slots /\
         forall n t, nth_error slots n = Some t ->
           EM.t_ready t = true /\
           exists f, alookup (r_src r) fc2 = Some f /\ quorum (xtok_of (r_src r) s n) (f_plus_1 f) aos2 t) /\
      ~ In (ExecReport.m_id mm) (EM.merge_costly (EM.f_dest dest fc2) (to_aos aos2)) /\
      (m_nonce mm = 0%N \/
       exists v, quorum xnonces_of (f_plus_1 (EM.f_dest dest fc3)) aos3 (r_src r, m_sender mm, v)).
Proof. exact cycle_message. Qed.
Print Assumptions C07_used_needs_quorum_cycle.

(* (iii), exact: when the pending reports agreed in the GetCommitReports round carry no token data (no honest oracle
   observes commit data with token data: getPendingExecutedReports never fills MessageTokenData) and their interval
   bounds are uint64 values, the token data used for mm is the merged entry of mm's OWN sequence number - by counting:
   ConstructMerkleTree demands one message per sequence number of the interval, the builder demands as many token data
   entries as messages - and each of its slots was reported, ready, by >= f_k + 1 distinct oracles at (k, seq, slot). *)
Theorem C07_token_data_cycle :
  forall (hash : N -> N -> N) (zero : N) (leaf_hash : ExecReport.msg -> option N) (enc_size : creport -> option N)
         (tree_gas : N -> N) (max_size max_gas : N) (nonce_key : EM.nonce_t -> N)
         (bigF : Z) (dest : N) (fc1 fc2 fc3 : list (N * Z)) (prev o1 o2 o3 : outcome) (aos1 aos2 aos3 : list sao),
  NoDup (map fst aos2) ->
  exec_round hash zero leaf_hash enc_size tree_gas max_size max_gas nonce_key bigF dest fc1 prev aos1 = Ok o1 ->
  exec_round hash zero leaf_hash enc_size tree_gas max_size max_gas nonce_key bigF dest fc2 o1 aos2 = Ok o2 ->
  exec_round hash zero leaf_hash enc_size tree_gas max_size max_gas nonce_key bigF dest fc3 o2 aos3 = Ok o3 ->
  forall (r : creport) (mm : ExecReport.msg), In r (o_report o3) -> In mm (r_msgs r) ->
  (forall cd, In cd (o_pending o1) -> c_td cd = [] /\ (c_start cd < two64)%N /\ (c_end cd < two64)%N) ->
  exists p slots,
    nth_error (r_msgs r) p = Some mm /\ nth_error (r_td r) p = Some (td_bytes (to_td slots)) /\
    forall n t, nth_error slots n = Some t ->
      EM.t_ready t = true /\
      exists f, alookup (r_src r) fc2 = Some f /\
                quorum (xtok_of (r_src r) (ExecReport.m_seq mm) n) (f_plus_1 f) aos2 t.
Proof.
  intros hash zero leaf_hash enc_size tree_gas max_size max_gas nonce_key bigF dest fc1 fc2 fc3 prev o1 o2 o3 aos1 aos2 aos3
         ND2 R1 R2 R3 r mm.
  exact (cycle_token_data hash zero leaf_hash enc_size tree_gas max_size max_gas nonce_key bigF dest fc2 fc3 o1 o2 o3
           aos2 aos3 ND2 R2 R3 r mm).
Qed.
Print Assumptions C07_token_data_cycle.

(* not flagged too costly by f_dest + 1: every set of distinct oracles that list the message's id in the GetMessages
   round has at most f_dest members *)
Theorem C07_not_costly_cycle :
  forall (hash : N -> N -> N) (zero : N) (leaf_hash : ExecReport.msg -> option N) (enc_size : creport -> option N)
         (tree_gas : N -> N) (max_size max_gas : N) (nonce_key : EM.nonce_t -> N)
         (sup : N -> list N) (bigF : Z) (dest : N) (fc1 fc2 fc3 : list (N * Z))
         (prev o1 o2 o3 : outcome) (aos1 aos2 aos3 : list sao),
  NoDup (map fst aos1) -> NoDup (map fst aos2) -> NoDup (map fst aos3) ->
  sys_validated sup dest fc1 aos1 -> sys_validated sup dest fc2 aos2 -> sys_validated sup dest fc3 aos3 ->
  key_functional aos1 -> key_functional aos2 ->
  exec_round hash zero leaf_hash enc_size tree_gas max_size max_gas nonce_key bigF dest fc1 prev aos1 = Ok o1 ->
  o_state o1 = 2%N ->
  exec_round hash zero leaf_hash enc_size tree_gas max_size max_gas nonce_key bigF dest fc2 o1 aos2 = Ok o2 ->
  exec_round hash zero leaf_hash enc_size tree_gas max_size max_gas nonce_key bigF dest fc3 o2 aos3 = Ok o3 ->
  forall (r : creport) (mm : ExecReport.msg) (rs : list N), In r (o_report o3) -> In mm (r_msgs r) ->
  NoDup rs -> rs <> [] ->
  (forall o, In o rs -> exists ob, In (o, ob) aos2 /\ In (ExecReport.m_id mm) (so_costly ob)) ->
  (Z.of_nat (length rs) < EM.f_dest dest fc2 + 1)%Z.
Proof. exact cycle_not_costly. Qed.
Print Assumptions C07_not_costly_cycle.

(* non-vacuity: a concrete cycle of four oracles (oracle 3 deviating in every round: another executed list, a variant
   of message 5 and repeated costly flags, another nonce) on which every hypothesis above holds and whose report
   holds both messages of the commit report *)
Theorem C07_cycle_nonvacuous :
  NoDup (map fst SysEx.aos1) /\ NoDup (map fst SysEx.aos2) /\ NoDup (map fst SysEx.aos3) /\
  sys_validated SysEx.sup 9 SysEx.fc SysEx.aos1 /\ sys_validated SysEx.sup 9 SysEx.fc SysEx.aos2 /\
  sys_validated SysEx.sup 9 SysEx.fc SysEx.aos3 /\
  key_functional SysEx.aos1 /\ key_functional SysEx.aos2 /\
  SysEx.Round 1 9%N SysEx.fc out_init SysEx.aos1 = Ok SysEx.o1 /\ o_state SysEx.o1 = 2%N /\
  SysEx.Round 1 9%N SysEx.fc SysEx.o1 SysEx.aos2 = Ok SysEx.o2 /\
  SysEx.Round 1 9%N SysEx.fc SysEx.o2 SysEx.aos3 = Ok SysEx.o3 /\
  map (fun r => map ExecReport.m_seq (r_msgs r)) (o_report SysEx.o3) = [[5; 6]]%N /\
  (forall cd, In cd (o_pending SysEx.o1) -> c_td cd = [] /\ (c_start cd < two64)%N /\ (c_end cd < two64)%N) /\
  (forall cd, In cd (o_pending SysEx.o2) -> length (c_msgs cd) <= 256).
Proof. exact SysEx.cycle_example. Qed.
Print Assumptions C07_cycle_nonvacuous.

Require Verif.Check.C07_check Verif.Check.ExecSys_check Verif.Check.C08_check.
Require Verif.Proofs.JudgeSoundC07P Verif.Proofs.JudgeSoundExecSysP.
(* ---- the executable properties of Check/C07_check.v are the property (judge soundness) ---- *)
(* The judges evaluate [c07_ok] / [c07o_ok] / the quorum test / [sys_safe] + [sys_live] on the IMPLEMENTATION's output.
   [..._sound]: an output that passes satisfies the clauses above, stated on the observations the implementation
   accepted ([accepted vals aos]); [..._model_passes]: every output the comparison accepts as the model's passes (no
   property code without a mismatch code).  Item types: EM = Model/ExecMerge. *)
Module C07K := Verif.Check.C07_check.
Module SysK := Verif.Check.ExecSys_check.
Module JS7 := Verif.Proofs.JudgeSoundC07P.
Module JSX := Verif.Proofs.JudgeSoundExecSysP.

(* sink C07_merge, (a): on well-formed Go maps (unique keys, also in the token maps and in fChain) outside the recorded
   class F13e, whatever the comparison accepts as the model's answer passes the executable property *)
Theorem C07_judge_merge_model_passes :
  forall (bigF : Z) (dest : N) (fchain : list (N * Z)) (aos : list (N * list N * EM.obs)) (o : C07K.c07_out),
  (forall o' sup ob, In (o', sup, ob) aos ->
     EMP.wf_obs ob /\ (NoDup (EM.keys (EM.o_tokens ob)) /\ forall c l, In (c, l) (EM.o_tokens ob) -> NoDup (EM.keys l))) ->
  NoDup (EM.keys fchain) ->
  C07K.c07_known (bigF, dest, fchain, aos) = 0%N ->
  C07K.c07_oeqb (C07K.c07_model (bigF, dest, fchain, aos)) o = true ->
  C07K.c07_ok (bigF, dest, fchain, aos) o = true.
Proof. exact JS7.c07_model_equiv_passes. Qed.
Print Assumptions C07_judge_merge_model_passes.

(* sink C07_merge, (b), commit reports: C07_commit and C07_commit_complete for an arbitrary output that passes *)
Theorem C07_judge_merge_sound_commit :
  forall (bigF : Z) (dest : N) (fchain : list (N * Z)) (aos : list (N * list N * EM.obs)) (vals : list bool)
         (cs : list (N * list EM.commit)) (ms : list (N * list (N * EM.msg))) (ts : list (N * list (N * list EM.tok)))
         (ks : list N) (ns : list EM.nonce_t),
  NoDup (map (fun a => fst (fst a)) aos) ->
  C07K.c07_ok (bigF, dest, fchain, aos) (vals, Ok (cs, ms, ts, ks, ns)) = true ->
  (forall k l x, In (k, l) cs -> In x l ->
     In k (EM.keys fchain) /\ EM.c_src x = k /\
     EMP.supported_by (EMP.commits_at k) (f_plus_1 (EM.f_dest dest fchain)) (C07K.accepted vals aos) x) /\
  (forall k l, In (k, l) cs -> l <> [] /\ NoDup l) /\
  (forall k x rs, In k (EM.keys fchain) -> NoDup rs -> rs <> [] ->
     (forall o, In o rs -> exists ob, In (o, ob) (C07K.accepted vals aos) /\ In x (EMP.commits_at k ob)) ->
     (f_plus_1 (EM.f_dest dest fchain) <= N.of_nat (length rs))%N ->
     exists l, In (k, l) cs /\ In x l).
Proof. exact JS7.c07_sound_commit. Qed.
Print Assumptions C07_judge_merge_sound_commit.

(* messages: C07_message; of C07_message_complete what Go's map leaves observable (the sequence number is a key) *)
Theorem C07_judge_merge_sound_message :
  forall (bigF : Z) (dest : N) (fchain : list (N * Z)) (aos : list (N * list N * EM.obs)) (vals : list bool)
         (cs : list (N * list EM.commit)) (ms : list (N * list (N * EM.msg))) (ts : list (N * list (N * list EM.tok)))
         (ks : list N) (ns : list EM.nonce_t),
  NoDup (map (fun a => fst (fst a)) aos) ->
  C07K.c07_ok (bigF, dest, fchain, aos) (vals, Ok (cs, ms, ts, ks, ns)) = true ->
  (forall k l s m, In (k, l) ms -> In (s, m) l ->
     exists f, alookup k fchain = Some f /\ In (k, f) fchain /\ s = EM.m_seq m /\
               EMP.supported_by (EMP.msgs_at k) (f_plus_1 f) (C07K.accepted vals aos) m) /\
  (forall k l, In (k, l) ms -> NoDup (map fst l)) /\
  (forall k f x rs, In (k, f) fchain -> NoDup rs -> rs <> [] ->
     (forall o, In o rs -> exists ob, In (o, ob) (C07K.accepted vals aos) /\ In x (EMP.msgs_at k ob)) ->
     (f_plus_1 f <= N.of_nat (length rs))%N ->
     exists l m', In (k, l) ms /\ In (EM.m_seq x, m') l).
Proof. exact JS7.c07_sound_message. Qed.
Print Assumptions C07_judge_merge_sound_message.

(* token data: C07_token; the slot-index clause (refuted in general by C07_token_non_blocking_refuted: recorded class
   F13e); C07_token_slot_complete *)
Theorem C07_judge_merge_sound_token :
  forall (bigF : Z) (dest : N) (fchain : list (N * Z)) (aos : list (N * list N * EM.obs)) (vals : list bool)
         (cs : list (N * list EM.commit)) (ms : list (N * list (N * EM.msg))) (ts : list (N * list (N * list EM.tok)))
         (ks : list N) (ns : list EM.nonce_t),
  NoDup (map (fun a => fst (fst a)) aos) ->
  C07K.c07_ok (bigF, dest, fchain, aos) (vals, Ok (cs, ms, ts, ks, ns)) = true ->
  forall c sl s slots i t, In (c, sl) ts -> In (s, slots) sl -> nth_error slots i = Some t ->
    exists f, alookup c fchain = Some f /\
      (EM.t_ready t = true -> EMP.supported_by (EMP.tok_at c s i) (f_plus_1 f) (C07K.accepted vals aos) t) /\
      ((f_plus_1 f <= C07K.support (fun _ _ : unit => true) (C07K.has_slot c s i) tt (C07K.accepted vals aos))%N \/
       (C07K.support (fun _ _ : unit => true) (C07K.has_slot c s 0) tt (C07K.accepted vals aos) < f_plus_1 f)%N) /\
      (forall t', (0 < f_plus_1 f)%N ->
         (f_plus_1 f <= N.of_nat (length (EMP.supporters EM.tok_eqb (EMP.tok_at c s i) t' (C07K.accepted vals aos))))%N ->
         (forall t'', (f_plus_1 f <= N.of_nat (length (EMP.supporters EM.tok_eqb (EMP.tok_at c s i) t'' (C07K.accepted vals aos))))%N ->
                      t'' = t') ->
         t = t').
Proof. exact JS7.c07_sound_token. Qed.
Print Assumptions C07_judge_merge_sound_token.

(* nonces: C07_nonce; of C07_nonce_complete what Go's map leaves observable (the (source, sender) key is present) *)
Theorem C07_judge_merge_sound_nonce :
  forall (bigF : Z) (dest : N) (fchain : list (N * Z)) (aos : list (N * list N * EM.obs)) (vals : list bool)
         (cs : list (N * list EM.commit)) (ms : list (N * list (N * EM.msg))) (ts : list (N * list (N * list EM.tok)))
         (ks : list N) (ns : list EM.nonce_t),
  NoDup (map (fun a => fst (fst a)) aos) ->
  C07K.c07_ok (bigF, dest, fchain, aos) (vals, Ok (cs, ms, ts, ks, ns)) = true ->
  NoDup (map fst ns) /\
  (forall x, In x ns -> EMP.supported_by EM.nonce_triples (f_plus_1 (EM.f_dest dest fchain)) (C07K.accepted vals aos) x) /\
  (forall x rs, NoDup rs -> rs <> [] ->
     (forall o, In o rs -> exists ob, In (o, ob) (C07K.accepted vals aos) /\ In x (EM.nonce_triples ob)) ->
     (f_plus_1 (EM.f_dest dest fchain) <= N.of_nat (length rs))%N -> exists v, In (fst x, v) ns).
Proof. exact JS7.c07_sound_nonce. Qed.
Print Assumptions C07_judge_merge_sound_nonce.

(* costly ids: C07_costly and C07_costly_complete *)
Theorem C07_judge_merge_sound_costly :
  forall (bigF : Z) (dest : N) (fchain : list (N * Z)) (aos : list (N * list N * EM.obs)) (vals : list bool)
         (cs : list (N * list EM.commit)) (ms : list (N * list (N * EM.msg))) (ts : list (N * list (N * list EM.tok)))
         (ks : list N) (ns : list EM.nonce_t),
  NoDup (map (fun a => fst (fst a)) aos) ->
  C07K.c07_ok (bigF, dest, fchain, aos) (vals, Ok (cs, ms, ts, ks, ns)) = true ->
  NoDup ks /\
  (forall x, In x ks ->
     exists rs, NoDup rs /\ (EM.f_dest dest fchain + 1 <= Z.of_nat (length rs))%Z /\
                forall o, In o rs <-> exists ob, In (o, ob) (C07K.accepted vals aos) /\ In x (EM.o_costly ob)) /\
  (forall x rs, NoDup rs -> rs <> [] ->
     (forall o, In o rs -> exists ob, In (o, ob) (C07K.accepted vals aos) /\ In x (EM.o_costly ob)) ->
     (EM.f_dest dest fchain + 1 <= Z.of_nat (length rs))%Z -> In x ks).
Proof. exact JS7.c07_sound_costly. Qed.
Print Assumptions C07_judge_merge_sound_costly.

(* C07_non_blocking: the merge refuses exactly when fewer than F observations were accepted, and never panics *)
Theorem C07_judge_merge_sound_nonblocking :
  forall (bigF : Z) (dest : N) (fchain : list (N * Z)) (aos : list (N * list N * EM.obs)) (vals : list bool)
         (r : res C07K.mout),
  C07K.c07_ok (bigF, dest, fchain, aos) (vals, r) = true ->
  match r with
  | Ok _ => (bigF <= Z.of_nat (length (C07K.accepted vals aos)))%Z
  | Err => (Z.of_nat (length (C07K.accepted vals aos)) < bigF)%Z
  | _ => False
  end.
Proof. exact JS7.c07_sound_nonblocking. Qed.
Print Assumptions C07_judge_merge_sound_nonblocking.

(* sink C07_outcome (Plugin.Outcome, phases GetCommitReports / GetMessages), (a) *)
Theorem C07_judge_outcome_model_passes :
  forall (phase : N) (bigF : Z) (dest : N) (fchain : list (N * Z)) (aos : list (N * list N * EM.obs)) (o : C07K.c07o_out),
  (forall o' sup ob, In (o', sup, ob) aos ->
     EMP.wf_obs ob /\ (NoDup (EM.keys (EM.o_tokens ob)) /\ forall c l, In (c, l) (EM.o_tokens ob) -> NoDup (EM.keys l))) ->
  NoDup (EM.keys fchain) ->
  C07K.c07o_oeqb (C07K.c07o_model (phase, bigF, dest, fchain, aos)) o = true ->
  C07K.c07o_ok (phase, bigF, dest, fchain, aos) o = true.
Proof. exact JS7.c07o_model_equiv_passes. Qed.
Print Assumptions C07_judge_outcome_model_passes.

(* sink C07_outcome, (b): a flattened pending report has f_dest+1 distinct reporters under the key of its own source
   chain; an agreed report ([all_agreed]: reported under a configured key by f_dest+1 observations, see
   JudgeSoundC07P.all_agreed_in) is present iff no other agreed report conflicts with it (repair of F76); the messages of
   the GetMessages phase as in C07_judge_merge_sound_message *)
Theorem C07_judge_outcome_sound :
  forall (phase : N) (bigF : Z) (dest : N) (fchain : list (N * Z)) (aos : list (N * list N * EM.obs)) (vals : list bool)
         (r : res (list EM.commit * list (N * list (N * EM.msg)))),
  NoDup (map (fun a => fst (fst a)) aos) ->
  C07K.c07o_ok (phase, bigF, dest, fchain, aos) (vals, r) = true ->
  match r with
  | Ok (cs, ms) =>
      (bigF <= Z.of_nat (length (C07K.accepted vals aos)))%Z /\
      (if N.eqb phase 1 then
         ms = [] /\
         (forall x, In x cs ->
            In (EM.c_src x) (EM.keys fchain) /\
            EMP.supported_by (EMP.commits_at (EM.c_src x)) (f_plus_1 (EM.f_dest dest fchain)) (C07K.accepted vals aos) x) /\
         (forall x, In x (C07K.all_agreed dest fchain (C07K.accepted vals aos)) ->
            (length (filter (C07K.c_conflicts x) (C07K.all_agreed dest fchain (C07K.accepted vals aos))) <= 1 -> In x cs) /\
            (1 < length (filter (C07K.c_conflicts x) (C07K.all_agreed dest fchain (C07K.accepted vals aos))) -> ~ In x cs))
       else
         cs = [] /\
         (forall k l s m, In (k, l) ms -> In (s, m) l ->
            exists f, alookup k fchain = Some f /\ In (k, f) fchain /\ s = EM.m_seq m /\
                      EMP.supported_by (EMP.msgs_at k) (f_plus_1 f) (C07K.accepted vals aos) m) /\
         (forall k l, In (k, l) ms -> NoDup (map fst l)) /\
         (forall k f x rs, In (k, f) fchain -> NoDup rs -> rs <> [] ->
            (forall o, In o rs -> exists ob, In (o, ob) (C07K.accepted vals aos) /\ In x (EMP.msgs_at k ob)) ->
            (f_plus_1 f <= N.of_nat (length rs))%N ->
            exists l m', In (k, l) ms /\ In (EM.m_seq x, m') l))
  | Err => (Z.of_nat (length (C07K.accepted vals aos)) < bigF)%Z
  | _ => False
  end.
Proof. exact JS7.c07o_sound. Qed.
Print Assumptions C07_judge_outcome_sound.

(* sink C07_quorum: the judge's test is "answer = model" *)
Theorem C07_judge_quorum_model_passes :
  forall i : N * Z * N, N.eqb (C07K.quorum_model i) (C07K.quorum_model i) = true.
Proof. exact JS7.quorum_model_passes. Qed.
Print Assumptions C07_judge_quorum_model_passes.

(* Plugin.ObservationQuorum says "reached" (1) exactly from F+1 observations on *)
Theorem C07_judge_quorum_sound :
  forall (x : N) (bigF : Z) (cnt o : N),
  N.eqb (C07K.quorum_model (x, bigF, cnt)) o = true ->
  (o = 1%N <-> (bigF + 1 <= Z.of_N cnt)%Z) /\ (o = 0%N \/ o = 1%N).
Proof. exact JS7.quorum_sound. Qed.
Print Assumptions C07_judge_quorum_sound.

(* ---- sinks ExecSys_cycle_* (sys_judge; sys_judge_noclass in C09): Check/ExecSys_check.v ---- *)
(* (b) C07_used_needs_quorum_cycle, C07_token_data_cycle and C07_not_costly_cycle for an arbitrary implementation history
   that passes [sys_safe]: for EVERY three successful rounds GetCommitReports (outcome xa, state 2) -> GetMessages (xb,
   state 3) -> Filter (xc) of the history, with failed rounds before and between them, and every message mm of a chain
   report r of xc: the clauses (i) (incl. the interval), carried, (b) the report's proof recomputes the agreed root,
   (c), (ii), (iii), not-costly, (iv) - stated with [quorum] on the observations the implementation accepted in the
   three rounds (aos1, aos2, aos3), h = the harness's keccak table.
   (iii): the token bytes at mm's position were reported, ready, slot by slot, by f_k + 1 oracles at mm's OWN sequence
   number (the exact form of C07_token_data_cycle) - the only alternative whenever the agreed commit data x carried no
   token data - or, when x did carry token data, they are an entry x carried or the agreed entry of some sequence number
   of x's interval (the two alternatives of C07_used_needs_quorum_cycle).  Before the repair of the executable test
   (C07_judge_sys_tokens_before_false_alarm below) the exact form was demanded unconditionally. *)
Theorem C07_judge_sys_sound :
  forall (g : SysK.scfg) (prev : outcome) (rs : list SysK.sround_in) (o : SysK.sys_out),
  SysK.sys_safe (g, prev, rs) o = true ->
  forall (pre : list SysK.sround_in) (ra : SysK.sround_in) (e1 : list SysK.sround_in) (rb : SysK.sround_in)
         (e2 : list SysK.sround_in) (rc : SysK.sround_in) (post : list SysK.sround_in)
         (opre : SysK.sys_out) (va : list bool) (xa : outcome) (oe1 : SysK.sys_out) (vb : list bool) (xb : outcome)
         (oe2 : SysK.sys_out) (vc : list bool) (xc : outcome) (opost : SysK.sys_out),
    rs = pre ++ ra :: e1 ++ rb :: e2 ++ rc :: post ->
    o = opre ++ (va, Ok xa) :: oe1 ++ (vb, Ok xb) :: oe2 ++ (vc, Ok xc) :: opost ->
    length pre = length opre -> length e1 = length oe1 -> length e2 = length oe2 ->
    (forall vo, In vo oe1 -> snd vo = Err) -> (forall vo, In vo oe2 -> snd vo = Err) ->
    PS.exec_next (o_state (fold_left (fun acc (vo : SysK.sround_out) => match snd vo with Ok x => x | _ => acc end) opre prev))
      = Ok 2%N ->
    o_state xa = 2%N -> o_state xb = 3%N ->
    NoDup (map (fun a => fst (fst a)) (snd ra)) -> NoDup (map (fun a => fst (fst a)) (snd rb)) ->
    NoDup (map (fun a => fst (fst a)) (snd rc)) ->
    let h := Verif.Check.C08_check.thash (Verif.Check.C08_check.mk_htable (SysK.s_table g)) in
    let dest := SysK.s_dest g in
    let fc1 := fst ra in let fc2 := fst rb in let fc3 := fst rc in
    let aos1 := SysK.accepted va (snd ra) in
    let aos2 := SysK.accepted vb (snd rb) in
    let aos3 := SysK.accepted vc (snd rc) in
    Forall2 (fun a b => c_src a = c_src b /\ ExecReport.c_root a = ExecReport.c_root b /\ c_start a = c_start b /\
                        c_end a = c_end b /\ ExecReport.c_exec a = ExecReport.c_exec b) (o_pending xa) (o_pending xb) /\
    forall (r : creport) (mm : ExecReport.msg), In r (o_report xc) -> In mm (r_msgs r) ->
      (ExecReport.m_src mm = r_src r /\
       exists (x : xcommit) (cd2 : cdata) (xm : xmsg) (fk : Z),
         quorum (xcommits_of (r_src r)) (f_plus_1 (EM.f_dest dest fc1)) aos1 x /\
         In (r_src r) (EM.keys fc1) /\ c_src (xc_cd x) = r_src r /\ In (xc_cd x) (o_pending xa) /\
         In cd2 (o_pending xb) /\ c_src cd2 = c_src (xc_cd x) /\ ExecReport.c_root cd2 = ExecReport.c_root (xc_cd x) /\
         c_start cd2 = c_start (xc_cd x) /\ c_end cd2 = c_end (xc_cd x) /\
         ExecReport.c_exec cd2 = ExecReport.c_exec (xc_cd x) /\
         In mm (c_msgs cd2) /\
         verify h (map ExecReport.m_id (r_msgs r)) (r_proofs r)
                (flags_to_bools (r_flags r) (length (r_msgs r) + length (r_proofs r) - 1))
           = Ok (ExecReport.c_root (xc_cd x)) /\
         memN (ExecReport.m_seq mm) (ExecReport.c_exec (xc_cd x)) = false /\
         PS.in_range (c_start (xc_cd x)) (c_end (xc_cd x)) (ExecReport.m_seq mm) = true /\
         xm_msg xm = mm /\ In (r_src r, fk) fc2 /\ quorum (xmsgs_of (r_src r)) (f_plus_1 fk) aos2 xm /\
         length (r_msgs r) = length (r_td r) /\
         (forall p, nth_error (r_msgs r) p = Some mm ->
            exists bytes, nth_error (r_td r) p = Some bytes /\
              ((exists f, alookup (r_src r) fc2 = Some f /\
                  forall n d, nth_error bytes n = Some d ->
                    quorum (xtok_of (r_src r) (ExecReport.m_seq mm) n) (f_plus_1 f) aos2 (EM.mkTok true d)) \/
               (c_td (xc_cd x) <> [] /\
                ((exists td, In td (c_td (xc_cd x)) /\ td_ready td = true /\ td_bytes td = bytes) \/
                 exists s', PS.in_range (c_start (xc_cd x)) (c_end (xc_cd x)) s' = true /\
                   exists f, alookup (r_src r) fc2 = Some f /\
                     forall n d, nth_error bytes n = Some d ->
                       quorum (xtok_of (r_src r) s' n) (f_plus_1 f) aos2 (EM.mkTok true d))))) /\
         (forall rs', NoDup rs' ->
            (forall o', In o' rs' -> exists ob, In (o', ob) aos2 /\ In (ExecReport.m_id mm) (so_costly ob)) ->
            (Z.of_nat (length rs') < EM.f_dest dest fc2 + 1)%Z)) /\
      (m_nonce mm = 0%N \/
       exists v, quorum xnonces_of (f_plus_1 (EM.f_dest dest fc3)) aos3 (r_src r, m_sender mm, v)).
Proof. exact JSX.sys_safe_cycle_sound. Qed.
Print Assumptions C07_judge_sys_sound.

(* [sys_safe], ground truth of the harness's world (judged when at most f oracles deviate): nothing the destination shows
   as executed is in any report of the history *)
Theorem C07_judge_sys_sound_noreexec :
  forall (g : SysK.scfg) (prev : outcome) (rs : list SysK.sround_in) (o : SysK.sys_out),
  SysK.sys_safe (g, prev, rs) o = true -> SysK.s_live g = true ->
  forall (vals : list bool) (x : outcome) (r : creport) (m : ExecReport.msg),
    In (vals, Ok x) o -> In r (o_report x) -> In m (r_msgs r) ->
    ~ In (r_src r, ExecReport.m_seq m) (SysK.s_executed g).
Proof. exact JSX.sys_safe_noreexec_sound. Qed.
Print Assumptions C07_judge_sys_sound_noreexec.

(* [sys_live] (second pass of sys_judge, masked only by the recorded class 2 = F13e), ground truth: every eligible pending
   message of the world is in the report of a Filter outcome of the history *)
Theorem C07_judge_sys_sound_live :
  forall (i : SysK.sys_in) (o : SysK.sys_out),
  SysK.sys_live i o = true -> SysK.s_live (fst (fst i)) = true -> SysK.s_expect (fst (fst i)) <> [] ->
  exists (vals : list bool) (x : outcome), In (vals, Ok x) o /\ o_state x = 4%N /\
    forall c s, In (c, s) (SysK.s_expect (fst (fst i))) ->
      exists r m, In r (o_report x) /\ r_src r = c /\ In m (r_msgs r) /\ ExecReport.m_seq m = s.
Proof. exact JSX.sys_live_sound. Qed.
Print Assumptions C07_judge_sys_sound_live.

(* sys_judge_noclass (used by C09, which does not own class 2): outside that class its liveness test is [sys_live] *)
Theorem C07_judge_sys_noclass_sound :
  forall (i : SysK.sys_in) (o : SysK.sys_out),
  (if N.eqb (SysK.sys_known i) 0 then SysK.sys_live i o else true) = true -> SysK.sys_known i = 0%N ->
  SysK.sys_live i o = true.
Proof. exact JSX.sys_live_noclass_sound. Qed.
Print Assumptions C07_judge_sys_noclass_sound.

(* (a), partial - the f+1 clause tests: in a cycle of the MODEL (hypotheses of C07_used_needs_quorum_cycle and of
   C07_token_data_cycle; fChain a Go map with f >= 0) every message of the Filter report passes the boolean tests of
   (i), (c) + interval, (ii), (iii) in the exact form, not-costly and (iv) that [sys_safe] evaluates.  Kept for the converse
   lemmas it rests on; SUPERSEDED by C07_judge_sys_model_passes at the end of this file, which proves (a) for the whole walk
   of [sys_safe] (wiring, positions, nonce order, histories) without the hypothesis on token data. *)
Theorem C07_judge_sys_model_passes_partial :
  forall (hash : N -> N -> N) (zero : N) (leaf_hash : ExecReport.msg -> option N) (enc_size : creport -> option N)
         (tree_gas : N -> N) (max_size max_gas : N) (nonce_key : EM.nonce_t -> N)
         (sup : N -> list N) (bigF : Z) (dest : N) (fc1 fc2 fc3 : list (N * Z))
         (prev o1 o2 o3 : outcome) (aos1 aos2 aos3 : list sao),
  NoDup (map fst aos1) -> NoDup (map fst aos2) -> NoDup (map fst aos3) ->
  sys_validated sup dest fc1 aos1 -> sys_validated sup dest fc2 aos2 -> sys_validated sup dest fc3 aos3 ->
  key_functional aos1 -> key_functional aos2 ->
  exec_round hash zero leaf_hash enc_size tree_gas max_size max_gas nonce_key bigF dest fc1 prev aos1 = Ok o1 ->
  o_state o1 = 2%N ->
  exec_round hash zero leaf_hash enc_size tree_gas max_size max_gas nonce_key bigF dest fc2 o1 aos2 = Ok o2 ->
  exec_round hash zero leaf_hash enc_size tree_gas max_size max_gas nonce_key bigF dest fc3 o2 aos3 = Ok o3 ->
  NoDup (EM.keys fc2) -> (0 < f_plus_1 (EM.f_dest dest fc1))%N -> (forall k f, In (k, f) fc2 -> (0 < f_plus_1 f)%N) ->
  (0 <= EM.f_dest dest fc2)%Z ->
  (forall cd, In cd (o_pending o1) -> c_td cd = [] /\ (c_start cd < two64)%N /\ (c_end cd < two64)%N) ->
  forall (r : creport) (mm : ExecReport.msg), In r (o_report o3) -> In mm (r_msgs r) ->
  exists cd1 cd2,
    In cd1 (o_pending o1) /\ In cd2 (o_pending o2) /\ SysK.core_eqb cd1 cd2 = true /\
    SysK.commit_agreed dest fc1 aos1 cd1 = true /\
    negb (memN (ExecReport.m_seq mm) (ExecReport.c_exec cd1)) &&
      PS.in_range (c_start cd1) (c_end cd1) (ExecReport.m_seq mm) = true /\
    N.eqb (ExecReport.m_src mm) (r_src r) = true /\
    SysK.msg_agreed fc2 aos2 (r_src r) mm = true /\
    (exists p bytes, nth_error (r_msgs r) p = Some mm /\ nth_error (r_td r) p = Some bytes /\
                     SysK.tokens_agreed fc2 aos2 (r_src r) (ExecReport.m_seq mm) bytes = true) /\
    SysK.not_costly (EM.f_dest dest fc2) aos2 (ExecReport.m_id mm) = true /\
    (m_nonce mm = 0%N \/
     exists v, SysK.nonce_agreed (EM.f_dest dest fc3) aos3 (r_src r, m_sender mm, v) = true).
Proof. exact JSX.model_clause_tests. Qed.
Print Assumptions C07_judge_sys_model_passes_partial.

(* non-vacuity and (a) on a concrete case: the model's history of a cycle of four oracles (oracle 3 deviating in every
   round) passes both judges completely, and its Filter round reports messages 5 and 6 *)
Theorem C07_judge_sys_model_passes_example :
  SysK.sys_safe JSX.SysCase.i (SysK.sys_model JSX.SysCase.i) = true /\
  SysK.sys_live JSX.SysCase.i (SysK.sys_model JSX.SysCase.i) = true /\
  JSX.sys_live_noclass JSX.SysCase.i (SysK.sys_model JSX.SysCase.i) = true /\ SysK.sys_known JSX.SysCase.i = 0%N /\
  SysK.sys_judge [(JSX.SysCase.i, SysK.sys_model JSX.SysCase.i)] = [] /\
  SysK.sys_judge_noclass [(JSX.SysCase.i, SysK.sys_model JSX.SysCase.i)] = [] /\
  map (fun vo => match snd vo with
                 | Ok o => map (fun r => map ExecReport.m_seq (r_msgs r)) (o_report o)
                 | _ => []
                 end) (SysK.sys_model JSX.SysCase.i) = [[]; []; [[5; 6]]]%N.
Proof. exact JSX.SysCase.sys_case_passes. Qed.
Print Assumptions C07_judge_sys_model_passes_example.

(* ---- (a) for sys_safe IN GENERAL, and the decision on the flagged token test ---- *)
Require Verif.Proofs.JudgeSoundExecSysAP.
Module JSXA := Verif.Proofs.JudgeSoundExecSysAP.

(* (a), general: for EVERY case whose cycle starts with a GetCommitReports round (previous outcome Unknown, Initialized
   or a Filter outcome: how the harness cuts its histories into cases) and whose rounds are well formed - distinct
   oracle ids; fChain a Go map (unique keys) with 0 <= f < 2^32; the observations the validation accepts are decoded Go
   maps (unique keys at every level), their item ids determine the items (the id is the sha3 of the item's rendering),
   the intervals of observed commit reports are uint64 pairs spanning at most 256 sequence numbers (the verifier's
   limit, C08_provable), observed nonces are uint64 values: all facts about Go values the harness prints - and that lies
   outside the recorded class F14 of C08 (JSXA.sys_drop: some Filter round of the model's run drops a ready sequenced
   message in the size / gas fallback, the class in which C08_nonce_order is refuted), the model's own history
   [sys_model i] passes the whole walk of [sys_safe]: carried, owns / reverify against C08's builder, (i) with the
   interval, (c), (ii), (iii), not-costly, positions in the report, and nonces_walk incl. its order clause ("first
   sequenced message carries the agreed nonce + 1, later ones larger") over histories of any length with failed rounds
   anywhere.  Hence on the model's own history [sys_safe] IS its ground-truth clause [noreexec_ok] - a statement about
   the harness's world (s_executed), not about the model: C07_judge_sys_ground_truth_open. *)
Theorem C07_judge_sys_model_passes :
  forall (g : SysK.scfg) (prev : outcome) (rs : list SysK.sround_in),
  PS.exec_next (o_state prev) = Ok 2%N ->
  Forall (fun r : SysK.sround_in =>
     NoDup (map (fun a => fst (fst a)) (snd r)) /\
     (NoDup (EM.keys (fst r)) /\ forall k f, In (k, f) (fst r) -> (0 <= f < 4294967296)%Z) /\
     ((forall o ob, In (o, ob) (SysK.accepted (SysK.verdicts g r) (snd r)) -> EMP.wf_obs (to_obs ob)) /\
      key_functional (SysK.accepted (SysK.verdicts g r) (snd r)) /\
      (forall o ob k x, In (o, ob) (SysK.accepted (SysK.verdicts g r) (snd r)) -> In x (xcommits_of k ob) ->
         (c_start (xc_cd x) < two64)%N /\ (c_end (xc_cd x) < two64)%N /\ (c_end (xc_cd x) - c_start (xc_cd x) < 256)%N) /\
      (forall o ob t, In (o, ob) (SysK.accepted (SysK.verdicts g r) (snd r)) -> In t (xnonces_of ob) ->
         (snd t < two64)%N))) rs ->
  JSXA.sys_drop (g, prev, rs) = false ->
  SysK.walk g (Verif.Check.C08_check.thash (Verif.Check.C08_check.mk_htable (SysK.s_table g))) prev None None rs
            (SysK.sys_model (g, prev, rs)) = true /\
  SysK.sys_safe (g, prev, rs) (SysK.sys_model (g, prev, rs)) = SysK.noreexec_ok g (SysK.sys_model (g, prev, rs)).
Proof.
  exact (fun g prev rs H1 H2 H3 =>
           conj (JSXA.sys_walk_model_passes g prev rs (conj H1 H2) H3) (JSXA.sys_safe_model (g, prev, rs) (conj H1 H2) H3)).
Qed.
Print Assumptions C07_judge_sys_model_passes.

(* the premises are decidable on a case (JSXA.sys_wfb), hold on two concrete cycles (one deviating oracle per round;
   agreed commit data that carry token data), which are outside the class and pass *)
Theorem C07_judge_sys_model_passes_nonvacuous :
  (forall i, JSXA.sys_wfb i = true -> JSXA.sys_wf i) /\
  JSXA.sys_wf JSX.SysCase.i /\ JSXA.sys_drop JSX.SysCase.i = false /\
  SysK.sys_safe JSX.SysCase.i (SysK.sys_model JSX.SysCase.i) = true /\
  JSXA.sys_wf JSX.TokCase.i /\ JSXA.sys_drop JSX.TokCase.i = false /\
  SysK.sys_safe JSX.TokCase.i (SysK.sys_model JSX.TokCase.i) = true.
Proof. exact (conj JSXA.sys_wfb_sound JSXA.sys_wf_examples). Qed.
Print Assumptions C07_judge_sys_model_passes_nonvacuous.

(* DECISION on the flagged test [tokens_agreed] (clause (iii) in the exact form of C07_token_data_cycle, applied
   unconditionally): the model's own output CAN fail it.  JSX.TokCase.i satisfies every premise of
   C07_judge_sys_model_passes (previous theorem); f + 1 = 2 oracles report commit data that already carry token data
   [(ready, 9)], the model's Filter round reports message 5 with token bytes [9] - carried by the agreed commit data,
   as C07_used_needs_quorum_cycle allows, reported by nobody in the GetMessages round.  The judge as it was
   (JSX.sys_safe_before) rejects the model's history, the repaired one (tokens_ok: the exact test, or - only when the
   agreed commit data carry token data - an entry they carried / the agreed entry of a sequence number of their
   interval) accepts it, and both judges return no code.  Today's generator cannot reach such a cycle (whenever its
   "with-messages" version of a report gets f_dest + 1 votes so does the plain version, and dropConflictingReports drops
   both): a counting property of its classes, not a structural guarantee. *)
Theorem C07_judge_sys_tokens_before_false_alarm :
  JSX.sys_safe_before JSX.TokCase.i (SysK.sys_model JSX.TokCase.i) = false /\
  SysK.sys_safe JSX.TokCase.i (SysK.sys_model JSX.TokCase.i) = true /\
  SysK.sys_judge [(JSX.TokCase.i, SysK.sys_model JSX.TokCase.i)] = [] /\
  SysK.sys_judge_noclass [(JSX.TokCase.i, SysK.sys_model JSX.TokCase.i)] = [] /\
  map (fun vo => match snd vo with
                 | Ok o => map (fun r => (map ExecReport.m_seq (r_msgs r), r_td r)) (o_report o)
                 | _ => []
                 end) (SysK.sys_model JSX.TokCase.i) = [[]; []; [([5; 6], [[9]; []])]]%N /\
  JSX.tokens_agreed_before SysEx.fc JSX.TokCase.aos2 1 5 [9%N] = false /\
  SysK.tokens_ok SysEx.fc JSX.TokCase.aos2 (xc_cd JSX.TokCase.xt) 1 5 [9%N] = true /\
  In [(true, 9%N)] (c_td (xc_cd JSX.TokCase.xt)).
Proof. exact JSX.TokCase.tokens_agreed_before_false_alarm. Qed.
Print Assumptions C07_judge_sys_tokens_before_false_alarm.

(* (a) for the whole of [sys_safe], under the one assumption on the harness's world that its ground-truth clause needs:
   whenever the case claims ground truth (s_live = true), in every round a commit report that f_dest + 1 accepted
   observations agree on lists, as executed, every sequence number of its interval that the world shows as executed
   (s_executed) - i.e. at least one of any f_dest + 1 agreeing oracles read the destination's current state.  Then the
   model's own history passes sys_safe (premises otherwise as in C07_judge_sys_model_passes). *)
Theorem C07_judge_sys_safe_model_passes_world :
  forall (g : SysK.scfg) (prev : outcome) (rs : list SysK.sround_in),
  PS.exec_next (o_state prev) = Ok 2%N ->
  Forall (fun r : SysK.sround_in =>
     NoDup (map (fun a => fst (fst a)) (snd r)) /\
     (NoDup (EM.keys (fst r)) /\ forall k f, In (k, f) (fst r) -> (0 <= f < 4294967296)%Z) /\
     ((forall o ob, In (o, ob) (SysK.accepted (SysK.verdicts g r) (snd r)) -> EMP.wf_obs (to_obs ob)) /\
      key_functional (SysK.accepted (SysK.verdicts g r) (snd r)) /\
      (forall o ob k x, In (o, ob) (SysK.accepted (SysK.verdicts g r) (snd r)) -> In x (xcommits_of k ob) ->
         (c_start (xc_cd x) < two64)%N /\ (c_end (xc_cd x) < two64)%N /\ (c_end (xc_cd x) - c_start (xc_cd x) < 256)%N) /\
      (forall o ob t, In (o, ob) (SysK.accepted (SysK.verdicts g r) (snd r)) -> In t (xnonces_of ob) ->
         (snd t < two64)%N))) rs ->
  JSXA.sys_drop (g, prev, rs) = false ->
  (SysK.s_live g = true ->
   Forall (fun r : SysK.sround_in =>
     forall k x s,
       quorum (xcommits_of k) (f_plus_1 (EM.f_dest (SysK.s_dest g) (fst r))) (SysK.accepted (SysK.verdicts g r) (snd r)) x ->
       c_src (xc_cd x) = k -> PS.in_range (c_start (xc_cd x)) (c_end (xc_cd x)) s = true ->
       In (k, s) (SysK.s_executed g) -> memN s (ExecReport.c_exec (xc_cd x)) = true) rs) ->
  SysK.sys_safe (g, prev, rs) (SysK.sys_model (g, prev, rs)) = true.
Proof. exact (fun g prev rs H1 H2 => JSXA.sys_safe_model_world g prev rs (conj H1 H2)). Qed.
Print Assumptions C07_judge_sys_safe_model_passes_world.

(* its hypotheses are satisfiable with a non-empty world: message (1, 5) executed, all four oracles report the commit
   report with 5 in its executed list, the model's Filter round reports message 6 alone, sys_safe and sys_live pass *)
Theorem C07_judge_sys_safe_model_passes_world_example :
  JSXA.sys_wf JSXA.ExecCase.i /\ JSXA.sys_drop JSXA.ExecCase.i = false /\ SysK.s_live JSXA.ExecCase.gx = true /\
  SysK.s_executed JSXA.ExecCase.gx = [(1, 5)]%N /\ Forall (JSXA.round_world JSXA.ExecCase.gx) JSXA.ExecCase.rounds /\
  SysK.sys_safe JSXA.ExecCase.i (SysK.sys_model JSXA.ExecCase.i) = true /\
  SysK.sys_live JSXA.ExecCase.i (SysK.sys_model JSXA.ExecCase.i) = true /\
  map (fun vo => match snd vo with
                 | Ok o => map (fun r => map ExecReport.m_seq (r_msgs r)) (o_report o)
                 | _ => []
                 end) (SysK.sys_model JSXA.ExecCase.i) = [[]; []; [[6]]]%N.
Proof. exact JSXA.ExecCase.sys_safe_world_example. Qed.
Print Assumptions C07_judge_sys_safe_model_passes_world_example.

(* the two ground-truth clauses [noreexec_ok] (in sys_safe) and [sys_live] are NOT theorems about the model: they
   compare the history with s_executed / s_expect, free fields of the case that hold what the harness's world shows.
   On the rounds of SysCase (all premises of C07_judge_sys_model_passes hold, the walk passes) a world that shows
   message (1, 5) as executed makes the model's own history fail noreexec_ok, and a world that expects a message (1, 7)
   nobody observed makes it fail sys_live.  To prove them one must assume of the world: every (c, s) of s_executed is
   listed as executed by every commit report covering s that f_dest + 1 accepted observations agree on (with it noreexec_ok
   is proved: C07_judge_sys_safe_model_passes_world above), and, for sys_live, the hypotheses of C09_cycle_liveness for
   every message of s_expect (f + 1 honest oracles with one view of the commit report, its messages, their token data and
   nonces, outside F13e / F14; the report provable and within the limits) - not proved here: that theorem speaks about one
   message of one cycle, sys_live about the last Filter outcome of a history. *)
Theorem C07_judge_sys_ground_truth_open :
  JSXA.sys_wf JSXA.WorldCase.i_exec /\ JSXA.sys_drop JSXA.WorldCase.i_exec = false /\
  SysK.walk JSXA.WorldCase.g_exec JSX.SysCase.hh out_init None None JSXA.WorldCase.rounds
            (SysK.sys_model JSXA.WorldCase.i_exec) = true /\
  SysK.noreexec_ok JSXA.WorldCase.g_exec (SysK.sys_model JSXA.WorldCase.i_exec) = false /\
  SysK.sys_safe JSXA.WorldCase.i_exec (SysK.sys_model JSXA.WorldCase.i_exec) = false /\
  JSXA.sys_wf JSXA.WorldCase.i_more /\ JSXA.sys_drop JSXA.WorldCase.i_more = false /\
  SysK.sys_safe JSXA.WorldCase.i_more (SysK.sys_model JSXA.WorldCase.i_more) = true /\
  SysK.sys_live JSXA.WorldCase.i_more (SysK.sys_model JSXA.WorldCase.i_more) = false.
Proof. exact JSXA.WorldCase.ground_truth_not_about_the_model. Qed.
Print Assumptions C07_judge_sys_ground_truth_open.

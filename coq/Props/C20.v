(* C20 — Wire encodings round-trip and are canonical.
   Property theorems only; each is closed by [exact] of a lemma proved in Proofs/CodecP.v. *)
Require Import Verif.Model.Base Verif.Model.Codec Verif.Proofs.CodecP.

(* ---------------- leaves: text level ---------------- *)
(* hex: every byte string, any length (empty included) *)
Theorem C20_hex_roundtrip : forall bs, bytes_ok bs -> hex_dec (hex_enc bs) = Some bs.
Proof. exact hex_roundtrip. Qed.
Print Assumptions C20_hex_roundtrip.

(* Bytes / UnknownAddress (addresses, data, extra args): content survives; nil comes back empty *)
Theorem C20_bytes_roundtrip : forall b,
  bytes_ok (bytes_content b) -> bytes_dec (bytes_enc b) = Some (bytes_content b).
Proof. exact bytes_roundtrip. Qed.
Print Assumptions C20_bytes_roundtrip.

Theorem C20_bytes_string_roundtrip : forall b,
  bytes_ok (bytes_content b) -> bytes_from_string (bytes_string b) = Some (bytes_content b).
Proof. exact bytes_string_roundtrip. Qed.
Print Assumptions C20_bytes_string_roundtrip.

(* any token the decoder accepts (upper-case digits ...) re-encodes to a token that decodes to the same value *)
Theorem C20_bytes_idempotent : forall tok l, bytes_dec tok = Some l -> bytes_dec (bytes_enc (Some l)) = Some l.
Proof. exact bytes_idempotent. Qed.
Print Assumptions C20_bytes_idempotent.

(* Bytes32 (roots, message ids, digests): exact, whatever the receiver held before *)
Theorem C20_bytes32_roundtrip : forall prev b,
  bytes_ok b -> length b = length prev -> bytes32_dec prev (bytes32_enc b) = Some b.
Proof. exact bytes32_roundtrip. Qed.
Print Assumptions C20_bytes32_roundtrip.

(* the lenient Bytes32 decoder (no prefix check; short, long, unquoted tokens accepted) is idempotent *)
Theorem C20_bytes32_idempotent : forall prev tok v,
  bytes_ok prev -> bytes32_dec prev tok = Some v -> bytes32_dec prev (bytes32_enc v) = Some v.
Proof. exact bytes32_idempotent. Qed.
Print Assumptions C20_bytes32_idempotent.

(* sequence numbers, selectors, counters (number form, `,string` form, map-key form): 0 .. max exact *)
Theorem C20_uint_roundtrip : forall maxv n, (n <= maxv)%N -> uint_parse maxv (dec_enc n) = Some n.
Proof. exact uint_roundtrip. Qed.
Print Assumptions C20_uint_roundtrip.

Theorem C20_uint_dec_roundtrip : forall maxv prev n, (n <= maxv)%N -> uint_dec maxv prev (dec_enc n) = Some n.
Proof. exact uint_dec_roundtrip. Qed.
Print Assumptions C20_uint_dec_roundtrip.

(* accepted foreign forms ("007", "null") re-encode canonically *)
Theorem C20_uint_dec_idempotent : forall maxv prev s n,
  (prev <= maxv)%N -> uint_dec maxv prev s = Some n -> uint_dec maxv prev (dec_enc n) = Some n.
Proof. exact uint_dec_idempotent. Qed.
Print Assumptions C20_uint_dec_idempotent.

Theorem C20_int_roundtrip : forall prev z,
  (min_int64 <= z <= max_int64)%Z -> int_dec prev (int_enc z) = Some z.
Proof. exact int_roundtrip. Qed.
Print Assumptions C20_int_roundtrip.

(* BigInt: nil, zero, negative and arbitrarily large integers *)
Theorem C20_bigint_roundtrip : forall b, bigint_dec None (bigint_enc b) = Some b.
Proof. exact bigint_roundtrip. Qed.
Print Assumptions C20_bigint_roundtrip.

Theorem C20_bigint_overwrites : forall prev z, bigint_dec prev (bigint_enc (Some z)) = Some (Some z).
Proof. exact bigint_roundtrip_some. Qed.
Print Assumptions C20_bigint_overwrites.

Theorem C20_bigint_idempotent : forall tok b,
  bigint_dec None tok = Some b -> bigint_dec None (bigint_enc b) = Some b.
Proof. exact bigint_idempotent. Qed.
Print Assumptions C20_bigint_idempotent.

Theorem C20_bigptr_roundtrip : forall b, bigptr_dec (bigptr_enc b) = Some b.
Proof. exact bigptr_roundtrip. Qed.
Print Assumptions C20_bigptr_roundtrip.

(* ---------------- structures ---------------- *)
(* every Go type built from the modelled kinds (structs, slices, arrays, maps, pointers over the leaves above) whose
   member names are distinct up to case: decode (encode v) = norm v, for every well-typed v, where norm changes
   nothing but nil Bytes -> empty Bytes *)
Theorem C20_struct_roundtrip : forall t v,
  wf_ty t = true -> wt t v = true -> dec t (zero t) (enc t v) = Some (norm t v).
Proof. exact (fun t v Hwf Hwt => struct_roundtrip_all t Hwf v Hwt). Qed.
Print Assumptions C20_struct_roundtrip.

(* the decoded value re-encodes to the same tree, and decoding that gives the same value again *)
Theorem C20_struct_reencode : forall t v,
  wf_ty t = true -> wt t v = true ->
  exists v', dec t (zero t) (enc t v) = Some v' /\ enc t v' = enc t v /\
             dec t (zero t) (enc t v') = Some v'.
Proof. exact struct_reencode. Qed.
Print Assumptions C20_struct_reencode.

Theorem C20_norm_keeps_consensus_leaves : forall v,
  (forall m, norm (TUint m) v = v) /\ (forall m, norm (TUintS m) v = v) /\ norm TInt v = v /\
  norm TBytes32 v = v /\ norm TBigInt v = v /\ norm TBigPtr v = v /\ norm TString v = v /\
  norm TBool v = v /\ (forall z, norm (TOpaque z) v = v).
Proof. exact norm_leaves. Qed.
Print Assumptions C20_norm_keeps_consensus_leaves.

(* ---------------- canonical order ---------------- *)
(* commit: merkleroot.Outcome.Sort — any two arrangements of the same items (one per chain) sort identically *)
Theorem C20_canonical_commit : forall (P Q R : Type) (o o' : mr_lists P Q R),
  NoDup (map fst (mr_ranges o)) -> NoDup (map fst (mr_roots o)) -> NoDup (map fst (mr_offramp o)) ->
  Permutation (mr_ranges o) (mr_ranges o') -> Permutation (mr_roots o) (mr_roots o') ->
  Permutation (mr_offramp o) (mr_offramp o') ->
  mr_sort o = mr_sort o'.
Proof. exact @mr_sort_canonical. Qed.
Print Assumptions C20_canonical_commit.

(* execute: newSortedOutcome — pending commit data by (source, start), chain reports by source *)
Theorem C20_canonical_exec_commits : forall (P : Type) (l l' : list (N * N * P)),
  Forall cd_bounded l -> NoDup (map fst l) -> Permutation l l' ->
  exec_sort_commits l = exec_sort_commits l'.
Proof. exact @exec_sort_commits_canonical. Qed.
Print Assumptions C20_canonical_exec_commits.

Theorem C20_canonical_exec_reports : forall (P : Type) (l l' : list (N * P)),
  NoDup (map fst l) -> Permutation l l' -> exec_sort_reports l = exec_sort_reports l'.
Proof. exact @exec_sort_reports_canonical. Qed.
Print Assumptions C20_canonical_exec_reports.

(* sorting twice changes nothing (encode after decode keeps the order) *)
Theorem C20_sort_idempotent : forall (P : Type) (l : list (N * P)),
  NoDup (map fst l) -> sort_by_chain (sort_by_chain l) = sort_by_chain l.
Proof. exact @sort_by_chain_idem. Qed.
Print Assumptions C20_sort_idempotent.

(* The statement "equal outcomes have equal bytes" without the unique-key hypothesis is false: items sharing a sort
   key keep their input order (finding F29; register entry F17 is the outcome-construction side of it).
   Full statement (refuted):  forall l l', Permutation l l' -> exec_sort_commits l = exec_sort_commits l'. *)
Theorem C20_canonical_dupkey_refuted :
  exists l l' : list (N * N * N), Permutation l l' /\ exec_sort_commits l <> exec_sort_commits l'.
Proof. exact sort_dupkey_not_canonical. Qed.
Print Assumptions C20_canonical_dupkey_refuted.

(* C20 — Wire encodings round-trip and are canonical.
   Property theorems only; each is closed by [exact] of a lemma proved in Proofs/CodecP.v or Proofs/JsonTextP.v. *)
Require Import Verif.Model.Base Verif.Model.Codec Verif.Proofs.CodecP.
Require Import Verif.Model.JsonText Verif.Proofs.JsonTextP.

(* ---------------- leaves: text level ---------------- *)
(* hex: every byte string, any length (empty included) *)
Theorem C20_hex_roundtrip : forall bs, bytes_ok bs -> hex_dec (hex_enc bs) = Some bs.
Proof. exact hex_roundtrip. Qed.
Print Assumptions C20_hex_roundtrip.

(* Bytes / UnknownAddress (addresses, data, extra args): content survives; nil comes back empty *)
Theorem C20_bytes_roundtrip : forall b,
  bytes_ok (bytes_content b) -> bytes_dec (bytes_enc b) = Some (bytes_content b).
Proof. exact bytes_roundtrip. Qed.
Print Assumptions C20_bytes_roundtrip.

Theorem C20_bytes_string_roundtrip : forall b,
  bytes_ok (bytes_content b) -> bytes_from_string (bytes_string b) = Some (bytes_content b).
Proof. exact bytes_string_roundtrip. Qed.
Print Assumptions C20_bytes_string_roundtrip.

(* any token the decoder accepts (upper-case digits ...) re-encodes to a token that decodes to the same value *)
Theorem C20_bytes_idempotent : forall tok l, bytes_dec tok = Some l -> bytes_dec (bytes_enc (Some l)) = Some l.
Proof. exact bytes_idempotent. Qed.
Print Assumptions C20_bytes_idempotent.

(* Bytes32 (roots, message ids, digests): exact, whatever the receiver held before *)
Theorem C20_bytes32_roundtrip : forall prev b,
  bytes_ok b -> length b = length prev -> bytes32_dec prev (bytes32_enc b) = Some b.
Proof. exact bytes32_roundtrip. Qed.
Print Assumptions C20_bytes32_roundtrip.

(* the lenient Bytes32 decoder (no prefix check; short, long, unquoted tokens accepted) is idempotent *)
Theorem C20_bytes32_idempotent : forall prev tok v,
  bytes_ok prev -> bytes32_dec prev tok = Some v -> bytes32_dec prev (bytes32_enc v) = Some v.
Proof. exact bytes32_idempotent. Qed.
Print Assumptions C20_bytes32_idempotent.

(* sequence numbers, selectors, counters (number form, `,string` form, map-key form): 0 .. max exact *)
Theorem C20_uint_roundtrip : forall maxv n, (n <= maxv)%N -> uint_parse maxv (dec_enc n) = Some n.
Proof. exact uint_roundtrip. Qed.
Print Assumptions C20_uint_roundtrip.

Theorem C20_uint_dec_roundtrip : forall maxv prev n, (n <= maxv)%N -> uint_dec maxv prev (dec_enc n) = Some n.
Proof. exact uint_dec_roundtrip. Qed.
Print Assumptions C20_uint_dec_roundtrip.

(* accepted foreign forms ("007", "null") re-encode canonically *)
Theorem C20_uint_dec_idempotent : forall maxv prev s n,
  (prev <= maxv)%N -> uint_dec maxv prev s = Some n -> uint_dec maxv prev (dec_enc n) = Some n.
Proof. exact uint_dec_idempotent. Qed.
Print Assumptions C20_uint_dec_idempotent.

Theorem C20_int_roundtrip : forall prev z,
  (min_int64 <= z <= max_int64)%Z -> int_dec prev (int_enc z) = Some z.
Proof. exact int_roundtrip. Qed.
Print Assumptions C20_int_roundtrip.

(* BigInt: nil, zero, negative and arbitrarily large integers *)
Theorem C20_bigint_roundtrip : forall b, bigint_dec None (bigint_enc b) = Some b.
Proof. exact bigint_roundtrip. Qed.
Print Assumptions C20_bigint_roundtrip.

Theorem C20_bigint_overwrites : forall prev z, bigint_dec prev (bigint_enc (Some z)) = Some (Some z).
Proof. exact bigint_roundtrip_some. Qed.
Print Assumptions C20_bigint_overwrites.

Theorem C20_bigint_idempotent : forall tok b,
  bigint_dec None tok = Some b -> bigint_dec None (bigint_enc b) = Some b.
Proof. exact bigint_idempotent. Qed.
Print Assumptions C20_bigint_idempotent.

Theorem C20_bigptr_roundtrip : forall b, bigptr_dec (bigptr_enc b) = Some b.
Proof. exact bigptr_roundtrip. Qed.
Print Assumptions C20_bigptr_roundtrip.

(* ---------------- structures ---------------- *)
(* every Go type built from the modelled kinds (structs, slices, arrays, maps, pointers over the leaves above) whose
   member names are distinct up to case: decode (encode v) = norm v, for every well-typed v, where norm changes
   nothing but nil Bytes -> empty Bytes *)
Theorem C20_struct_roundtrip : forall t v,
  wf_ty t = true -> wt t v = true -> dec t (zero t) (enc t v) = Some (norm t v).
Proof. exact (fun t v Hwf Hwt => struct_roundtrip_all t Hwf v Hwt). Qed.
Print Assumptions C20_struct_roundtrip.

(* the decoded value re-encodes to the same tree, and decoding that gives the same value again *)
Theorem C20_struct_reencode : forall t v,
  wf_ty t = true -> wt t v = true ->
  exists v', dec t (zero t) (enc t v) = Some v' /\ enc t v' = enc t v /\
             dec t (zero t) (enc t v') = Some v'.
Proof. exact struct_reencode. Qed.
Print Assumptions C20_struct_reencode.

Theorem C20_norm_keeps_consensus_leaves : forall v,
  (forall m, norm (TUint m) v = v) /\ (forall m, norm (TUintS m) v = v) /\ norm TInt v = v /\
  norm TBytes32 v = v /\ norm TBigInt v = v /\ norm TBigPtr v = v /\ norm TString v = v /\
  norm TBool v = v /\ (forall z, norm (TOpaque z) v = v).
Proof. exact norm_leaves. Qed.
Print Assumptions C20_norm_keeps_consensus_leaves.

(* ---------------- JSON text layer: the bytes themselves ---------------- *)
(* print = the bytes json.Marshal emits for a tree; parse = json.Unmarshal's scanner and unquoting, with fuel.
   wf_json: strings and member names ASCII, number tokens complete, at most 10000 containers nested. *)
(* every tree of the modelled subset is recovered exactly from its bytes; continuation form: the value is read off
   the front of any input whose remainder cannot prolong a number token, at any depth, with any sufficient fuel *)
Theorem C20_text_parse_print_rest : forall j d fuel rest,
  wf_at d j = true -> num_stop rest = true -> (length (print j ++ rest) <= fuel)%nat ->
  parse_value fuel d (print j ++ rest) = Some (j, rest).
Proof. exact parse_value_print. Qed.
Print Assumptions C20_text_parse_print_rest.

Theorem C20_text_parse_print : forall j, wf_json j = true -> parse (print j) = Some j.
Proof. exact parse_print. Qed.
Print Assumptions C20_text_parse_print.

(* the parser only yields trees of the subset ... *)
Theorem C20_text_parse_wf : forall s j, parse s = Some j -> wf_json j = true.
Proof. exact parse_wf. Qed.
Print Assumptions C20_text_parse_wf.

(* ... hence decoding then encoding any accepted byte string (white space, \/ \u0041 escapes, upper-case hex,
   duplicate members) is idempotent at the text level *)
Theorem C20_text_print_parse_idem : forall s j, parse s = Some j -> parse (print j) = Some j.
Proof. exact print_parse_idem. Qed.
Print Assumptions C20_text_print_parse_idem.

(* the fuel parse supplies (the length of the input) always suffices: any two fuels not below the length agree,
   so no input is rejected for lack of fuel *)
Theorem C20_text_fuel_suffices : forall f1 f2 d s,
  (length s <= f1)%nat -> (length s <= f2)%nat -> parse_value f1 d s = parse_value f2 d s.
Proof. exact parse_value_fuel. Qed.
Print Assumptions C20_text_fuel_suffices.

(* canonical bytes: two trees with the same bytes are the same tree *)
Theorem C20_text_print_injective : forall j j',
  wf_json j = true -> wf_json j' = true -> print j = print j' -> j = j'.
Proof. exact print_inj. Qed.
Print Assumptions C20_text_print_injective.

(* white space around the top-level value is ignored *)
Theorem C20_text_ws_ignored : forall j pre post,
  wf_json j = true -> forallb is_ws pre = true -> forallb is_ws post = true ->
  parse (pre ++ print j ++ post) = Some j.
Proof. exact parse_ws_around. Qed.
Print Assumptions C20_text_ws_ignored.

(* ---------------- wire types at byte level: text layer composed with the structure level ---------------- *)
(* encode_text t v = print (enc t v);  decode_text t s = parse s then dec t (zero t) *)
(* what the encoder produces from a well-typed value whose free texts (strings, string map keys, member names,
   opaque leaf tokens) are ASCII lies in the modelled subset: decimal tokens of 0 .. max and of negative numbers
   are complete number tokens without leading zeros, hex strings are ASCII *)
Theorem C20_wire_enc_in_subset : forall t v,
  wt t v = true -> txt_ok t v = true -> (ty_depth t <= max_depth)%N -> wf_json (enc t v) = true.
Proof. exact enc_wf_json. Qed.
Print Assumptions C20_wire_enc_in_subset.

(* byte-level version of C20_struct_roundtrip *)
Theorem C20_wire_roundtrip : forall t v,
  wf_ty t = true -> wt t v = true -> wf_json (enc t v) = true ->
  decode_text t (encode_text t v) = Some (norm t v).
Proof. exact text_roundtrip. Qed.
Print Assumptions C20_wire_roundtrip.

Theorem C20_wire_roundtrip_val : forall t v,
  wf_ty t = true -> wt t v = true -> txt_ok t v = true -> (ty_depth t <= max_depth)%N ->
  decode_text t (encode_text t v) = Some (norm t v).
Proof. exact text_roundtrip_val. Qed.
Print Assumptions C20_wire_roundtrip_val.

(* byte-level version of C20_struct_reencode: the decoded value re-encodes to the same bytes *)
Theorem C20_wire_reencode : forall t v,
  wf_ty t = true -> wt t v = true -> wf_json (enc t v) = true ->
  exists v', decode_text t (encode_text t v) = Some v' /\ encode_text t v' = encode_text t v /\
             decode_text t (encode_text t v') = Some v'.
Proof. exact text_reencode. Qed.
Print Assumptions C20_wire_reencode.

(* accepted foreign bytes: the encoding of what they decode to is a fixed point of decode-then-encode *)
Theorem C20_wire_idempotent : forall t s v,
  wf_ty t = true -> decode_text t s = Some v -> wt t v = true -> wf_json (enc t v) = true ->
  exists v', decode_text t (encode_text t v) = Some v' /\ encode_text t v' = encode_text t v.
Proof. exact text_idempotent. Qed.
Print Assumptions C20_wire_idempotent.

(* the model decoder, on ANY tree of the subset and whatever well-typed value the receiver held, yields a well-typed
   value.  [ty_ok t] (Proofs/CodecDecP.v) is a fact of the Go type descriptor alone: the zero token of every opaque
   leaf is a scalar token of the subset and member names are ASCII.  Both side conditions are necessary
   (CodecDecP.dec_wt_needs_ty_ok, dec_wt_needs_subset) *)
Require Import Verif.Proofs.CodecDecP.
Theorem C20_decode_well_typed : forall t prev j v,
  ty_ok t = true -> wt t prev = true -> wf_json j = true -> dec t prev j = Some v -> wt t v = true.
Proof. exact dec_wt. Qed.
Print Assumptions C20_decode_well_typed.

(* EVERY byte string the decoder accepts gives a well-typed value whose texts and whose own encoding lie in the
   modelled subset, so C20_wire_roundtrip / C20_wire_reencode apply to it *)
Theorem C20_wire_decode_in_subset : forall t s v,
  ty_ok t = true -> (ty_depth t <= max_depth)%N -> decode_text t s = Some v ->
  wt t v = true /\ txt_ok t v = true /\ wf_json (enc t v) = true.
Proof. exact decode_text_wt. Qed.
Print Assumptions C20_wire_decode_in_subset.

(* C20_wire_idempotent for every accepted byte string, no side condition on the accepted value: decoding what the
   decoded value encodes to gives the value back (up to a nil Bytes coming back empty) and re-encoding gives the same
   bytes *)
Theorem C20_wire_idempotent_all : forall t s v,
  wf_ty t = true -> ty_ok t = true -> (ty_depth t <= max_depth)%N -> decode_text t s = Some v ->
  decode_text t (encode_text t v) = Some (norm t v) /\ encode_text t (norm t v) = encode_text t v.
Proof. exact text_idempotent_all. Qed.
Print Assumptions C20_wire_idempotent_all.

(* ---------------- canonical order ---------------- *)
(* commit: merkleroot.Outcome.Sort — any two arrangements of the same items (one per chain) sort identically *)
Theorem C20_canonical_commit : forall (P Q R : Type) (o o' : mr_lists P Q R),
  NoDup (map fst (mr_ranges o)) -> NoDup (map fst (mr_roots o)) -> NoDup (map fst (mr_offramp o)) ->
  Permutation (mr_ranges o) (mr_ranges o') -> Permutation (mr_roots o) (mr_roots o') ->
  Permutation (mr_offramp o) (mr_offramp o') ->
  mr_sort o = mr_sort o'.
Proof. exact @mr_sort_canonical. Qed.
Print Assumptions C20_canonical_commit.

(* execute: newSortedOutcome — pending commit data by (source, start), chain reports by source *)
Theorem C20_canonical_exec_commits : forall (P : Type) (l l' : list (N * N * P)),
  Forall cd_bounded l -> NoDup (map fst l) -> Permutation l l' ->
  exec_sort_commits l = exec_sort_commits l'.
Proof. exact @exec_sort_commits_canonical. Qed.
Print Assumptions C20_canonical_exec_commits.

Theorem C20_canonical_exec_reports : forall (P : Type) (l l' : list (N * P)),
  NoDup (map fst l) -> Permutation l l' -> exec_sort_reports l = exec_sort_reports l'.
Proof. exact @exec_sort_reports_canonical. Qed.
Print Assumptions C20_canonical_exec_reports.

(* sorting twice changes nothing (encode after decode keeps the order) *)
Theorem C20_sort_idempotent : forall (P : Type) (l : list (N * P)),
  NoDup (map fst l) -> sort_by_chain (sort_by_chain l) = sort_by_chain l.
Proof. exact @sort_by_chain_idem. Qed.
Print Assumptions C20_sort_idempotent.

(* The statement "equal outcomes have equal bytes" without the unique-key hypothesis is false: items sharing a sort
   key keep their input order (finding F29; register entry F17 is the outcome-construction side of it).
   Full statement (refuted):  forall l l', Permutation l l' -> exec_sort_commits l = exec_sort_commits l'. *)
Theorem C20_canonical_dupkey_refuted :
  exists l l' : list (N * N * N), Permutation l l' /\ exec_sort_commits l <> exec_sort_commits l'.
Proof. exact sort_dupkey_not_canonical. Qed.
Print Assumptions C20_canonical_dupkey_refuted.

(* ---- the executable properties of Check/C20_check.v are the property (judge soundness) ---- *)
Require Import Verif.Check.C20_check Verif.Proofs.JudgeSoundC20P.

(* sink leaf: the custom marshalers.  [leaf_spec] (Proofs/JudgeSoundC20P.v) lists, per kind of call, the round-trip
   clause above with the implementation's own answer in place of the model's (decoders: the accepted value re-encodes
   to a token that decodes to it again; encoders: the emitted text decodes to the value encoded). *)
Theorem C20_judge_leaf_model_passes : forall i, leaf_pre i -> leaf_ok i (leaf_model i) = true.
Proof. exact leaf_model_passes. Qed.
Print Assumptions C20_judge_leaf_model_passes.

Theorem C20_judge_leaf_sound : forall i o, leaf_ok i o = true -> leaf_spec i o.
Proof. exact leaf_sound. Qed.
Print Assumptions C20_judge_leaf_sound.

(* two instances of leaf_spec spelled out: MarshalJSON of Bytes, UnmarshalJSON of Bytes32 *)
Theorem C20_judge_leaf_sound_bytes_enc : forall b t,
  leaf_ok (LBytesEnc b) (OText t) = true -> bytes_dec t = Some (bytes_content b).
Proof. exact (fun b t => leaf_sound (LBytesEnc b) (OText t)). Qed.
Print Assumptions C20_judge_leaf_sound_bytes_enc.

Theorem C20_judge_leaf_sound_b32_dec : forall prev tok n l,
  leaf_ok (LB32Dec prev tok) (OBytes n l) = true ->
  length l = length prev /\ bytes_ok l /\ bytes32_dec prev (bytes32_enc l) = Some l.
Proof. exact (fun prev tok n l => leaf_sound (LB32Dec prev tok) (OBytes n l)). Qed.
Print Assumptions C20_judge_leaf_sound_b32_dec.

(* sinks struct_commit / struct_exec: Encode / Decode of the wire types at byte level *)
Theorem C20_judge_struct_model_passes : forall t v,
  wf_ty t = true -> wt t v = true -> wf_json (enc t v) = true ->
  struct_ok (t, v, None) (struct_model (t, v, None)) = true.
Proof. exact struct_model_passes_honest. Qed.
Print Assumptions C20_judge_struct_model_passes.

Theorem C20_judge_struct_foreign_model_passes : forall t v fb,
  wf_ty t = true ->
  (forall v', decode_text t fb = Some v' -> wt t v' = true /\ wf_json (enc t v') = true) ->
  struct_ok (t, v, Some fb) (struct_model (t, v, Some fb)) = true.
Proof. exact struct_model_passes_foreign. Qed.
Print Assumptions C20_judge_struct_foreign_model_passes.

(* the premise of C20_judge_struct_foreign_model_passes discharged (C20_wire_decode_in_subset): on foreign bytes the
   model's own answer passes struct_ok for every byte string, under conditions on the type descriptor alone *)
Theorem C20_judge_struct_foreign_model_passes_all : forall t v fb,
  wf_ty t = true -> ty_ok t = true -> (ty_depth t <= max_depth)%N ->
  struct_ok (t, v, Some fb) (struct_model (t, v, Some fb)) = true.
Proof. exact struct_model_passes_foreign_all. Qed.
Print Assumptions C20_judge_struct_foreign_model_passes_all.

(* honest and foreign cases at once; for honest cases the value is well typed with ASCII texts *)
Theorem C20_judge_struct_model_passes_all : forall t v f,
  wf_ty t = true -> ty_ok t = true -> (ty_depth t <= max_depth)%N ->
  (f = None -> wt t v = true /\ txt_ok t v = true) ->
  struct_ok (t, v, f) (struct_model (t, v, f)) = true.
Proof. exact struct_model_passes_all. Qed.
Print Assumptions C20_judge_struct_model_passes_all.

(* honest value: C20_wire_roundtrip with the implementation's bytes b and the implementation's decoded value d;
   accepted foreign bytes: C20_wire_idempotent on the implementation's decoded value *)
Theorem C20_judge_struct_sound : forall t v f b d fl,
  struct_ok (t, v, f) (b, d, fl) = true ->
  wf_ty t = true /\
  match f with
  | None => wt t v = true /\ wf_json (enc t v) = true /\ fl = true /\
            d = Some (norm t v) /\ decode_text t b = Some (norm t v)
  | Some _ => forall v', d = Some v' ->
            wt t v' = true /\ wf_json (enc t v') = true /\ fl = true /\
            b = encode_text t v' /\ decode_text t b = Some (norm t v')
  end.
Proof. exact (fun t v f b d fl => struct_sound (t, v, f) (b, d, fl)). Qed.
Print Assumptions C20_judge_struct_sound.

(* sink jprint: encoding/json's bytes for a tree of the subset parse back to the tree *)
Theorem C20_judge_jprint_model_passes : forall j, wf_json j = true -> jprint_ok j (jprint_model j) = true.
Proof. exact jprint_model_passes. Qed.
Print Assumptions C20_judge_jprint_model_passes.

Theorem C20_judge_jprint_sound : forall j b, jprint_ok j b = true -> wf_json j = true /\ parse b = Some j.
Proof. exact jprint_sound. Qed.
Print Assumptions C20_judge_jprint_sound.

(* sink jparse: the tree encoding/json built lies in the subset and print-then-parse gives it back *)
Theorem C20_judge_jparse_model_passes : forall i, jparse_ok i (jparse_model i) = true.
Proof. exact jparse_model_passes. Qed.
Print Assumptions C20_judge_jparse_model_passes.

Theorem C20_judge_jparse_sound : forall i j,
  jparse_ok i (PTree (Some j)) = true -> wf_json j = true /\ parse (print j) = Some j.
Proof. exact jparse_sound. Qed.
Print Assumptions C20_judge_jparse_sound.

(* sinks sort_commit / sort_exec: canonical order; (a) outside the recorded class F29 (a sort key twice) *)
Theorem C20_judge_sort_model_passes : forall i,
  sort_known i = 0%N -> sort_same_items i -> sort_ok i (sort_model i) = true.
Proof. exact sort_model_passes. Qed.
Print Assumptions C20_judge_sort_model_passes.

Theorem C20_judge_sort_sound : forall i o, sort_ok i o = true ->
  match i, o with
  | SCommit _ _, SOCommit oa ob same => same = true /\ oa = ob
  | SExec _ _ _ _, SOExec oc oc' orr orr' same => same = true /\ oc = oc' /\ orr = orr'
  | _, _ => False
  end.
Proof. exact sort_sound. Qed.
Print Assumptions C20_judge_sort_sound.

(* C20 — Wire encodings round-trip and are canonical.
   Property theorems only; each is closed by [exact] of a lemma proved in Proofs/CodecP.v or Proofs/JsonTextP.v. *)
Require Import Verif.Model.Base Verif.Model.Codec Verif.Proofs.CodecP.
Require Import Verif.Model.JsonText Verif.Proofs.JsonTextP.

(* ---------------- leaves: text level ---------------- *)
(* hex: every byte string, any length (empty included) *)
Theorem C20_hex_roundtrip : forall bs, bytes_ok bs -> hex_dec (hex_enc bs) = Some bs.
Proof. exact hex_roundtrip. Qed.
Print Assumptions C20_hex_roundtrip.

(* Bytes / UnknownAddress (addresses, data, extra args): content survives; nil comes back empty *)
Theorem C20_bytes_roundtrip : forall b,
  bytes_ok (bytes_content b) -> bytes_dec (bytes_enc b) = Some (bytes_content b).
Proof. exact bytes_roundtrip. Qed.
Print Assumptions C20_bytes_roundtrip.

Theorem C20_bytes_string_roundtrip : forall b,
  bytes_ok (bytes_content b) -> bytes_from_string (bytes_string b) = Some (bytes_content b).
Proof. exact bytes_string_roundtrip. Qed.
Print Assumptions C20_bytes_string_roundtrip.

(* any token the decoder accepts (upper-case digits ...) re-encodes to a token that decodes to the same value *)
Theorem C20_bytes_idempotent : forall tok l, bytes_dec tok = Some l -> bytes_dec (bytes_enc (Some l)) = Some l.
Proof. exact bytes_idempotent. Qed.
Print Assumptions C20_bytes_idempotent.

(* Bytes32 (roots, message ids, digests): exact, whatever the receiver held before *)
Theorem C20_bytes32_roundtrip : forall prev b,
  bytes_ok b -> length b = length prev -> bytes32_dec prev (bytes32_enc b) = Some b.
Proof. exact bytes32_roundtrip. Qed.
Print Assumptions C20_bytes32_roundtrip.

(* the lenient Bytes32 decoder (no prefix check; short, long, unquoted tokens accepted) is idempotent *)
Theorem C20_bytes32_idempotent : forall prev tok v,
  bytes_ok prev -> bytes32_dec prev tok = Some v -> bytes32_dec prev (bytes32_enc v) = Some v.
Proof. exact bytes32_idempotent. Qed.
Print Assumptions C20_bytes32_idempotent.

(* sequence numbers, selectors, counters (number form, `,string` form, map-key form): 0 .. max exact *)
Theorem C20_uint_roundtrip : forall maxv n, (n <= maxv)%N -> uint_parse maxv (dec_enc n) = Some n.
Proof. exact uint_roundtrip. Qed.
Print Assumptions C20_uint_roundtrip.

Theorem C20_uint_dec_roundtrip : forall maxv prev n, (n <= maxv)%N -> uint_dec maxv prev (dec_enc n) = Some n.
Proof. exact uint_dec_roundtrip. Qed.
Print Assumptions C20_uint_dec_roundtrip.

(* accepted foreign forms ("007", "null") re-encode canonically *)
Theorem C20_uint_dec_idempotent : forall maxv prev s n,
  (prev <= maxv)%N -> uint_dec maxv prev s = Some n -> uint_dec maxv prev (dec_enc n) = Some n.
Proof. exact uint_dec_idempotent. Qed.
Print Assumptions C20_uint_dec_idempotent.

Theorem C20_int_roundtrip : forall prev z,
  (min_int64 <= z <= max_int64)%Z -> int_dec prev (int_enc z) = Some z.
Proof. exact int_roundtrip. Qed.
Print Assumptions C20_int_roundtrip.

(* BigInt: nil, zero, negative and arbitrarily large integers *)
Theorem C20_bigint_roundtrip : forall b, bigint_dec None (bigint_enc b) = Some b.
Proof. exact bigint_roundtrip. Qed.
Print Assumptions C20_bigint_roundtrip.

Theorem C20_bigint_overwrites : forall prev z, bigint_dec prev (bigint_enc (Some z)) = Some (Some z).
Proof. exact bigint_roundtrip_some. Qed.
Print Assumptions C20_bigint_overwrites.

Theorem C20_bigint_idempotent : forall tok b,
  bigint_dec None tok = Some b -> bigint_dec None (bigint_enc b) = Some b.
Proof. exact bigint_idempotent. Qed.
Print Assumptions C20_bigint_idempotent.

Theorem C20_bigptr_roundtrip : forall b, bigptr_dec (bigptr_enc b) = Some b.
Proof. exact bigptr_roundtrip. Qed.
Print Assumptions C20_bigptr_roundtrip.

(* ---------------- structures ---------------- *)
(* every Go type built from the modelled kinds (structs, slices, arrays, maps, pointers over the leaves above) whose
   member names are distinct up to case: decode (encode v) = norm v, for every well-typed v, where norm changes
   nothing but nil Bytes -> empty Bytes *)
Theorem C20_struct_roundtrip : forall t v,
  wf_ty t = true -> wt t v = true -> dec t (zero t) (enc t v) = Some (norm t v).
Proof. exact (fun t v Hwf Hwt => struct_roundtrip_all t Hwf v Hwt). Qed.
Print Assumptions C20_struct_roundtrip.

(* the decoded value re-encodes to the same tree, and decoding that gives the same value again *)
Theorem C20_struct_reencode : forall t v,
  wf_ty t = true -> wt t v = true ->
  exists v', dec t (zero t) (enc t v) = Some v' /\ enc t v' = enc t v /\
             dec t (zero t) (enc t v') = Some v'.
Proof. exact struct_reencode. Qed.
Print Assumptions C20_struct_reencode.

Theorem C20_norm_keeps_consensus_leaves : forall v,
  (forall m, norm (TUint m) v = v) /\ (forall m, norm (TUintS m) v = v) /\ norm TInt v = v /\
  norm TBytes32 v = v /\ norm TBigInt v = v /\ norm TBigPtr v = v /\ norm TString v = v /\
  norm TBool v = v /\ (forall z, norm (TOpaque z) v = v).
Proof. exact norm_leaves. Qed.
Print Assumptions C20_norm_keeps_consensus_leaves.

(* ---------------- JSON text layer: the bytes themselves ---------------- *)
(* print = the bytes json.Marshal emits for a tree; parse = json.Unmarshal's scanner and unquoting, with fuel.
   wf_json: strings and member names ASCII, number tokens complete, at most 10000 containers nested. *)
(* every tree of the modelled subset is recovered exactly from its bytes; continuation form: the value is read off
   the front of any input whose remainder cannot prolong a number token, at any depth, with any sufficient fuel *)
Theorem C20_text_parse_print_rest : forall j d fuel rest,
  wf_at d j = true -> num_stop rest = true -> (length (print j ++ rest) <= fuel)%nat ->
  parse_value fuel d (print j ++ rest) = Some (j, rest).
Proof. exact parse_value_print. Qed.
Print Assumptions C20_text_parse_print_rest.

Theorem C20_text_parse_print : forall j, wf_json j = true -> parse (print j) = Some j.
Proof. exact parse_print. Qed.
Print Assumptions C20_text_parse_print.

(* the parser only yields trees of the subset ... *)
Theorem C20_text_parse_wf : forall s j, parse s = Some j -> wf_json j = true.
Proof. exact parse_wf. Qed.
Print Assumptions C20_text_parse_wf.

(* ... hence decoding then encoding any accepted byte string (white space, \/ \u0041 escapes, upper-case hex,
   duplicate members) is idempotent at the text level *)
Theorem C20_text_print_parse_idem : forall s j, parse s = Some j -> parse (print j) = Some j.
Proof. exact print_parse_idem. Qed.
Print Assumptions C20_text_print_parse_idem.

(* the fuel parse supplies (the length of the input) always suffices: any two fuels not below the length agree,
   so no input is rejected for lack of fuel *)
Theorem C20_text_fuel_suffices : forall f1 f2 d s,
  (length s <= f1)%nat -> (length s <= f2)%nat -> parse_value f1 d s = parse_value f2 d s.
Proof. exact parse_value_fuel. Qed.
Print Assumptions C20_text_fuel_suffices.

(* canonical bytes: two trees with the same bytes are the same tree *)
Theorem C20_text_print_injective : forall j j',
  wf_json j = true -> wf_json j' = true -> print j = print j' -> j = j'.
Proof. exact print_inj. Qed.
Print Assumptions C20_text_print_injective.

(* white space around the top-level value is ignored *)
Theorem C20_text_ws_ignored : forall j pre post,
  wf_json j = true -> forallb is_ws pre = true -> forallb is_ws post = true ->
  parse (pre ++ print j ++ post) = Some j.
Proof. exact parse_ws_around. Qed.
Print Assumptions C20_text_ws_ignored.

(* ---------------- wire types at byte level: text layer composed with the structure level ---------------- *)
(* encode_text t v = print (enc t v);  decode_text t s = parse s then dec t (zero t) *)
(* what the encoder produces from a well-typed value whose free texts (strings, string map keys, member names,
   opaque leaf tokens) are ASCII lies in the modelled subset: decimal tokens of 0 .. max and of negative numbers
   are complete number tokens without leading zeros, hex strings are ASCII *)
Theorem C20_wire_enc_in_subset : forall t v,
  wt t v = true -> txt_ok t v = true -> (ty_depth t <= max_depth)%N -> wf_json (enc t v) = true.
Proof. exact enc_wf_json. Qed.
Print Assumptions C20_wire_enc_in_subset.

(* byte-level version of C20_struct_roundtrip *)
Theorem C20_wire_roundtrip : forall t v,
  wf_ty t = true -> wt t v = true -> wf_json (enc t v) = true ->
  decode_text t (encode_text t v) = Some (norm t v).
Proof. exact text_roundtrip. Qed.
Print Assumptions C20_wire_roundtrip.

Theorem C20_wire_roundtrip_val : forall t v,
  wf_ty t = true -> wt t v = true -> txt_ok t v = true -> (ty_depth t <= max_depth)%N ->
  decode_text t (encode_text t v) = Some (norm t v).
Proof. exact text_roundtrip_val. Qed.
Print Assumptions C20_wire_roundtrip_val.

(* byte-level version of C20_struct_reencode: the decoded value re-encodes to the same bytes *)
Theorem C20_wire_reencode : forall t v,
  wf_ty t = true -> wt t v = true -> wf_json (enc t v) = true ->
  exists v', decode_text t (encode_text t v) = Some v' /\ encode_text t v' = encode_text t v /\
             decode_text t (encode_text t v') = Some v'.
Proof. exact text_reencode. Qed.
Print Assumptions C20_wire_reencode.

(* accepted foreign bytes: the encoding of what they decode to is a fixed point of decode-then-encode *)
Theorem C20_wire_idempotent : forall t s v,
  wf_ty t = true -> decode_text t s = Some v -> wt t v = true -> wf_json (enc t v) = true ->
  exists v', decode_text t (encode_text t v) = Some v' /\ encode_text t v' = encode_text t v.
Proof. exact text_idempotent. Qed.
Print Assumptions C20_wire_idempotent.

(* ---------------- canonical order ---------------- *)
(* commit: merkleroot.Outcome.Sort — any two arrangements of the same items (one per chain) sort identically *)
Theorem C20_canonical_commit : forall (P Q R : Type) (o o' : mr_lists P Q R),
  NoDup (map fst (mr_ranges o)) -> NoDup (map fst (mr_roots o)) -> NoDup (map fst (mr_offramp o)) ->
  Permutation (mr_ranges o) (mr_ranges o') -> Permutation (mr_roots o) (mr_roots o') ->
  Permutation (mr_offramp o) (mr_offramp o') ->
  mr_sort o = mr_sort o'.
Proof. exact @mr_sort_canonical. Qed.
Print Assumptions C20_canonical_commit.

(* execute: newSortedOutcome — pending commit data by (source, start), chain reports by source *)
Theorem C20_canonical_exec_commits : forall (P : Type) (l l' : list (N * N * P)),
  Forall cd_bounded l -> NoDup (map fst l) -> Permutation l l' ->
  exec_sort_commits l = exec_sort_commits l'.
Proof. exact @exec_sort_commits_canonical. Qed.
Print Assumptions C20_canonical_exec_commits.

Theorem C20_canonical_exec_reports : forall (P : Type) (l l' : list (N * P)),
  NoDup (map fst l) -> Permutation l l' -> exec_sort_reports l = exec_sort_reports l'.
Proof. exact @exec_sort_reports_canonical. Qed.
Print Assumptions C20_canonical_exec_reports.

(* sorting twice changes nothing (encode after decode keeps the order) *)
Theorem C20_sort_idempotent : forall (P : Type) (l : list (N * P)),
  NoDup (map fst l) -> sort_by_chain (sort_by_chain l) = sort_by_chain l.
Proof. exact @sort_by_chain_idem. Qed.
Print Assumptions C20_sort_idempotent.

(* The statement "equal outcomes have equal bytes" without the unique-key hypothesis is false: items sharing a sort
   key keep their input order (finding F29; register entry F17 is the outcome-construction side of it).
   Full statement (refuted):  forall l l', Permutation l l' -> exec_sort_commits l = exec_sort_commits l'. *)
Theorem C20_canonical_dupkey_refuted :
  exists l l' : list (N * N * N), Permutation l l' /\ exec_sort_commits l <> exec_sort_commits l'.
Proof. exact sort_dupkey_not_canonical. Qed.
Print Assumptions C20_canonical_dupkey_refuted.

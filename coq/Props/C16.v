(* C16 — Only the active instance and destination writers transmit, on an agreed schedule.
   This file holds the property theorems only; each is closed by [exact] of a lemma proved in Proofs/. *)
Require Import Verif.Model.Base Verif.Model.Transmit Verif.Proofs.TransmitP.
From Coq Require Import Sorting.Sorted.

(* The schedule does not depend on the order in which the oracle ids are enumerated (Go map order). *)
Theorem C16_schedule_order : forall sup order order' mult,
  Permutation order order' -> schedule sup order mult = schedule sup order' mult.
Proof. exact schedule_order_indep. Qed.
Print Assumptions C16_schedule_order.

(* Exactly the destination writers, each once, ascending, delays mult*(i+1). *)
Theorem C16_schedule_members : forall sup order mult t d,
  NoDup order ->
  schedule sup order mult = Some (t, d) ->
  Permutation t (writers sup order) /\ NoDup t /\ StronglySorted N.le t /\
  (forall o, In o t <-> In o order /\ sup o = 1%N) /\
  length d = length t /\
  (forall k, (k < length t)%nat -> nth k d 0%Z = (mult * (Z.of_nat k + 1))%Z).
Proof. exact schedule_members. Qed.
Print Assumptions C16_schedule_members.

Theorem C16_delays_increasing : forall mult n k,
  (0 < mult)%Z -> (S k < n)%nat ->
  (0 < nth k (delays mult n) 0 < nth (S k) (delays mult n) 0)%Z.
Proof. exact delays_increasing. Qed.
Print Assumptions C16_delays_increasing.

(* Report generation fails exactly when a lookup fails or no oracle can write the destination. *)
Theorem C16_schedule_error_iff : forall sup order mult,
  schedule sup order mult = None <-> (has_err sup order = true \/ writers sup order = []).
Proof. exact schedule_none_iff. Qed.
Print Assumptions C16_schedule_error_iff.

(* The function as it was before the repair (iteration in map order) is order dependent. *)
Theorem C16_schedule_unsorted_refuted :
  exists sup order order' mult,
    Permutation order order' /\ schedule_unsorted sup order mult <> schedule_unsorted sup order' mult.
Proof. exact schedule_unsorted_refuted. Qed.
Print Assumptions C16_schedule_unsorted_refuted.

Theorem C16_candidate_commit : forall my d r, commit_should_transmit my (Some my) d r = Ok false.
Proof. exact candidate_never_transmits_commit. Qed.
Print Assumptions C16_candidate_commit.

Theorem C16_commit_transmit_only_active : forall my cand d r,
  commit_should_transmit my cand d r = Ok true ->
  exists c, cand = Some c /\ c <> my /\ d = true /\ r = true.
Proof. exact commit_transmit_true_inv. Qed.
Print Assumptions C16_commit_transmit_only_active.

Theorem C16_exec_transmit_only_active_writer : forall w my cand d,
  exec_should_transmit w my cand d = Ok true ->
  w = Some true /\ exists c, cand = Some c /\ c <> my /\ d = true.
Proof. exact exec_transmit_true_inv. Qed.
Print Assumptions C16_exec_transmit_only_active_writer.

Theorem C16_empty_commit_report_not_accepted : forall d curse info rmn f,
  commit_should_accept d 0 0 0 0 curse info rmn f <> Ok true.
Proof. exact empty_commit_report_not_accepted. Qed.
Print Assumptions C16_empty_commit_report_not_accepted.

Theorem C16_empty_exec_report_not_accepted : forall n d curse,
  exec_should_accept n d 0 curse <> Ok true.
Proof. exact empty_exec_report_not_accepted. Qed.
Print Assumptions C16_empty_exec_report_not_accepted.

(* C16 — Only the active instance and destination writers transmit, on an agreed schedule.
   This file holds the property theorems only; each is closed by [exact] of a lemma proved in Proofs/. *)
Require Import Verif.Model.Base Verif.Model.Transmit Verif.Proofs.TransmitP.
From Coq Require Import Sorting.Sorted.

(* The schedule does not depend on the order in which the oracle ids are enumerated (Go map order). *)
Theorem C16_schedule_order : forall sup order order' mult,
  Permutation order order' -> schedule sup order mult = schedule sup order' mult.
Proof. exact schedule_order_indep. Qed.
Print Assumptions C16_schedule_order.

(* Exactly the destination writers, each once, ascending, delays mult*(i+1). *)
Theorem C16_schedule_members : forall sup order mult t d,
  NoDup order ->
  schedule sup order mult = Some (t, d) ->
  Permutation t (writers sup order) /\ NoDup t /\ StronglySorted N.le t /\
  (forall o, In o t <-> In o order /\ sup o = 1%N) /\
  length d = length t /\
  (forall k, (k < length t)%nat -> nth k d 0%Z = (mult * (Z.of_nat k + 1))%Z).
Proof. exact schedule_members. Qed.
Print Assumptions C16_schedule_members.

Theorem C16_delays_increasing : forall mult n k,
  (0 < mult)%Z -> (S k < n)%nat ->
  (0 < nth k (delays mult n) 0 < nth (S k) (delays mult n) 0)%Z.
Proof. exact delays_increasing. Qed.
Print Assumptions C16_delays_increasing.

(* Report generation fails exactly when a lookup fails or no oracle can write the destination. *)
Theorem C16_schedule_error_iff : forall sup order mult,
  schedule sup order mult = None <-> (has_err sup order = true \/ writers sup order = []).
Proof. exact schedule_none_iff. Qed.
Print Assumptions C16_schedule_error_iff.

(* The function as it was before the repair (iteration in map order) is order dependent. *)
Theorem C16_schedule_unsorted_refuted :
  exists sup order order' mult,
    Permutation order order' /\ schedule_unsorted sup order mult <> schedule_unsorted sup order' mult.
Proof. exact schedule_unsorted_refuted. Qed.
Print Assumptions C16_schedule_unsorted_refuted.

Theorem C16_candidate_commit : forall my d r, commit_should_transmit my (Some my) d r = Ok false.
Proof. exact candidate_never_transmits_commit. Qed.
Print Assumptions C16_candidate_commit.

Theorem C16_commit_transmit_only_active : forall my cand d r,
  commit_should_transmit my cand d r = Ok true ->
  exists c, cand = Some c /\ c <> my /\ d = true /\ r = true.
Proof. exact commit_transmit_true_inv. Qed.
Print Assumptions C16_commit_transmit_only_active.

Theorem C16_exec_transmit_only_active_writer : forall w my cand d,
  exec_should_transmit w my cand d = Ok true ->
  w = Some true /\ exists c, cand = Some c /\ c <> my /\ d = true.
Proof. exact exec_transmit_true_inv. Qed.
Print Assumptions C16_exec_transmit_only_active_writer.

Theorem C16_empty_commit_report_not_accepted : forall d curse info rmn f,
  commit_should_accept d 0 0 0 0 curse info rmn f <> Ok true.
Proof. exact empty_commit_report_not_accepted. Qed.
Print Assumptions C16_empty_commit_report_not_accepted.

Theorem C16_empty_exec_report_not_accepted : forall n d curse,
  exec_should_accept n d 0 curse <> Ok true.
Proof. exact empty_exec_report_not_accepted. Qed.
Print Assumptions C16_empty_exec_report_not_accepted.

(* ---- the executable properties of Check/C16_check.v are the property (judge soundness) ---- *)
Require Import Verif.Check.C16_check Verif.Proofs.JudgeSoundC16P.

(* sink sched. One call: on unique oracle ids the executable clause set holds of exactly one answer, the schedule. *)
Theorem C16_judge_sched_call_iff : forall items mult o,
  NoDup (map fst items) ->
  (sched_ok1 items mult o = true <-> o = schedule (sup_of items) (map fst items) mult).
Proof. exact sched_ok1_iff. Qed.
Print Assumptions C16_judge_sched_call_iff.

(* ... hence an arbitrary answer that passes satisfies the clauses of C16_schedule_members / C16_schedule_error_iff *)
Theorem C16_judge_sched_call_sound : forall items mult o,
  NoDup (map fst items) -> sched_ok1 items mult o = true ->
  let sup := sup_of items in let order := map fst items in
  match o with
  | None => has_err sup order = true \/ writers sup order = []
  | Some (t, d) =>
      has_err sup order = false /\
      Permutation t (writers sup order) /\ NoDup t /\ StronglySorted N.lt t /\
      (forall x, In x t <-> In x order /\ sup x = 1%N) /\
      length d = length t /\
      (forall k, (k < length t)%nat -> nth k d 0%Z = (mult * (Z.of_nat k + 1))%Z)
  end.
Proof. exact sched_ok1_sound. Qed.
Print Assumptions C16_judge_sched_call_sound.

(* the case of the sink: the same id -> answer table enumerated in two orders *)
Theorem C16_judge_sched_model_passes : forall a b mult,
  NoDup (map fst a) -> Permutation a b -> sched_ok (a, b, mult) (sched_model (a, b, mult)) = true.
Proof. exact (fun a b mult => sched_model_passes (a, b, mult)). Qed.
Print Assumptions C16_judge_sched_model_passes.

Theorem C16_judge_sched_sound : forall a b mult o,
  NoDup (map fst a) -> NoDup (map fst b) -> sched_ok (a, b, mult) o = true ->
  fst o = schedule (sup_of a) (map fst a) mult /\ snd o = schedule (sup_of b) (map fst b) mult /\ fst o = snd o.
Proof. exact (fun a b mult => sched_sound (a, b, mult)). Qed.
Print Assumptions C16_judge_sched_sound.

(* sink rep (Plugin.Reports of both plugins; also judged under C10 as rep_roles) *)
Theorem C16_judge_rep_model_passes : forall plugin items empty mult,
  NoDup (map fst items) -> rep_ok (plugin, items, empty, mult) (rep_model (plugin, items, empty, mult)) = true.
Proof. exact (fun p it e m => rep_model_passes (p, it, e, m)). Qed.
Print Assumptions C16_judge_rep_model_passes.

(* one answer per input (oracles agree), a report carries exactly the schedule, an error only when the theorems allow *)
Theorem C16_judge_rep_sound : forall plugin items empty mult o,
  NoDup (map fst items) -> rep_ok (plugin, items, empty, mult) o = true ->
  exists r, o = [r] /\
    match r with
    | Ok None => plugin = 0%N /\ empty = true
    | Ok (Some s) => schedule (sup_of items) (map fst items) mult = Some s
    | Err => (plugin = 0%N /\ empty = true) \/ schedule (sup_of items) (map fst items) mult = None
    | _ => False
    end.
Proof. exact (fun p it e m => rep_sound (p, it, e, m)). Qed.
Print Assumptions C16_judge_rep_sound.

(* sink gate: the accept / transmit callbacks *)
Theorem C16_judge_gate_model_passes : forall g, gate_ok g (gate_model g) = true.
Proof. exact gate_model_passes. Qed.
Print Assumptions C16_judge_gate_model_passes.

Theorem C16_judge_gate_sound : forall g o, gate_ok g o = true -> o = 1%N ->
  match g with
  | GCommitT my cand d r => exists c, cand = Some c /\ c <> my /\ d = true /\ r = true
  | GExecT w my cand d => w = Some true /\ exists c, cand = Some c /\ c <> my /\ d = true
  | GCommitA d r t g s c i rmn f => commit_report_empty r t g s = false
  | GExecA n d cr c => cr <> 0%N
  end.
Proof. exact gate_sound. Qed.
Print Assumptions C16_judge_gate_sound.

(* C05 — Only RMN-blessed roots are reported when RMN is enabled.
   This file holds the property theorems only; each is closed by [exact] of a lemma proved in Proofs/. *)
Require Import Verif.Model.Base Verif.Proofs.BaseP Verif.Model.SeqRange Verif.Model.CommitMerkle Verif.Model.CommitSM
               Verif.Model.Transmit Verif.Model.CommitRmnGate Verif.Proofs.CommitSMP Verif.Proofs.CommitRmnGateP
               Verif.Model.C05Life Verif.Proofs.C05LifeP.

(* RMN enabled, building round, no retry announced: an observation is produced only with a bundle whose parts all
   parse, a non-empty RMN remote config in the PREVIOUS outcome, and a positive answer of the signature oracle on
   exactly (report version, destination, RMN remote address, off-ramp, config digest, the bundle's lane updates)
   against that config's signers. For every crypto oracle, every query, every configuration. *)
Theorem C05_observe_requires_bundle : forall verify_sigs st cfg_e d dest init chain_known offramp q,
  st = Building -> q_retry q = false ->
  observation verify_sigs true st cfg_e d dest init chain_known offramp q = Ok tt ->
  exists b sigs lanes off,
    q_sigs q = Some b /\ cfg_e = false /\ init <> 2%N /\ chain_known = true /\ offramp = Some off /\
    parse_sigs (b_sigs b) = Some sigs /\ parse_lanes (b_lanes b) = Some lanes /\
    verify_sigs (sigs, (cd_version d, dest, cd_contract d, off, cd_digest d, lanes), cd_signers d) = true.
Proof. exact observe_requires_bundle. Qed.
Print Assumptions C05_observe_requires_bundle.

(* a bundle in any other round is refused *)
Theorem C05_no_bundle_elsewhere : forall verify_sigs st cfg_e d dest init chain_known offramp q,
  st <> Building -> q_sigs q <> None ->
  observation verify_sigs true st cfg_e d dest init chain_known offramp q = Err.
Proof. exact no_bundle_elsewhere. Qed.
Print Assumptions C05_no_bundle_elsewhere.

(* a building round without a bundle is refused unless a retry is announced *)
Theorem C05_building_without_bundle : forall verify_sigs st cfg_e d dest init chain_known offramp q,
  st = Building -> q_sigs q = None ->
  observation verify_sigs true st cfg_e d dest init chain_known offramp q = Ok tt -> q_retry q = true.
Proof. exact building_without_bundle. Qed.
Print Assumptions C05_building_without_bundle.

(* the only situations in which an observation is made without consulting the signature oracle *)
Theorem C05_unverified_observation_cases : forall enabled st cfg_e d dest init chain_known offramp q,
  verify_args enabled st cfg_e d dest init chain_known offramp q = Ok None ->
  enabled = false \/ (st <> Building /\ q_sigs q = None) \/ (st = Building /\ q_retry q = true).
Proof. exact unverified_observation_cases. Qed.
Print Assumptions C05_unverified_observation_cases.

(* RMN disabled: the query does not influence Observation (stated because the quantifier includes it) *)
Theorem C05_disabled_ignores_query : forall verify_sigs st cfg_e d dest init chain_known offramp q,
  observation verify_sigs false st cfg_e d dest init chain_known offramp q = Ok tt.
Proof. exact disabled_ignores_query. Qed.
Print Assumptions C05_disabled_ignores_query.

(* The signed-root filter: with a bundle the reported roots are exactly the agreed roots equal to a lane update of
   the bundle on chain, interval, on-ramp address and root; signatures are the bundle's and present only with
   roots; a malformed bundle gives the empty outcome. *)
Theorem C05_roots_signed : forall q c prev b,
  q_sigs q = Some b ->
  let o := build_report q c prev in
  (o = empty_outcome /\ (parse_sigs (b_sigs b) = None \/ parse_lanes (b_lanes b) = None)) \/
  (exists sigs lanes,
     parse_sigs (b_sigs b) = Some sigs /\ parse_lanes (b_lanes b) = Some lanes /\
     (forall r, In r (o_roots o) <-> In r (c_roots c) /\ In r lanes) /\
     (o_roots o <> [] -> o_sigs o = sigs /\ o_type o = T_generated) /\
     (o_roots o = [] -> o_sigs o = [] /\ o_type o = T_empty)).
Proof. exact roots_signed. Qed.
Print Assumptions C05_roots_signed.

Theorem C05_reported_roots_sorted : forall q c prev,
  NoDup (map root_chain (c_roots c)) ->
  KSorted root_chain (o_roots (build_report q c prev)) /\ NoDup (map root_chain (o_roots (build_report q c prev))).
Proof. exact reported_roots_sorted. Qed.
Print Assumptions C05_reported_roots_sorted.

(* Composition (what the leader cannot do): in a building round without retry, if an oracle's Observation succeeded
   on the leader's query, every root Outcome reports on that query is an agreed root equal to a lane update of the
   bundle whose signatures the oracle verified against the previous outcome's RMN config. *)
Theorem C05_reported_roots_verified : forall verify_sigs prev cfg_e d dest init chain_known offramp q c max n,
  next_state (o_type prev) = Building -> q_retry q = false ->
  observation verify_sigs true (next_state (o_type prev)) cfg_e d dest init chain_known offramp q = Ok tt ->
  let o := get_outcome max n prev q (Some c) in
  exists sigs lanes off,
    verify_sigs (sigs, (cd_version d, dest, cd_contract d, off, cd_digest d, lanes), cd_signers d) = true /\
    (forall r, In r (o_roots o) -> In r (c_roots c) /\ In r lanes) /\
    (o_roots o <> [] -> o_sigs o = sigs).
Proof. exact reported_roots_verified. Qed.
Print Assumptions C05_reported_roots_verified.

(* A report never carries RMN signatures without roots: invariant of every outcome written by the state machine
   (as repaired by fixes/F11.patch), over any run, and its consequence for Reports. *)
Theorem C05_no_sigs_without_roots : forall max n rs prev,
  sigs_imply_roots prev -> sigs_imply_roots (run max n prev rs).
Proof. exact run_no_sigs_without_roots. Qed.
Print Assumptions C05_no_sigs_without_roots.

Theorem C05_report_no_sigs_without_roots : forall o tp gp roots sigs f,
  sigs_imply_roots o -> report_of o tp gp = Some (roots, sigs, f) -> sigs <> [] -> roots <> [].
Proof. exact report_no_sigs_without_roots. Qed.
Print Assumptions C05_report_no_sigs_without_roots.

(* F11: the unrepaired buildReport emitted signatures without roots *)
Theorem C05_no_sigs_without_roots_unfixed_refuted :
  exists q c prev, ~ sigs_imply_roots (build_report_unfixed11 q c prev) /\
     exists roots sigs f, report_of (build_report_unfixed11 q c prev) 0 0 = Some (roots, sigs, f) /\ roots = [] /\ sigs <> [].
Proof. exact no_sigs_without_roots_unfixed_refuted. Qed.
Print Assumptions C05_no_sigs_without_roots_unfixed_refuted.

(* F10: the unrepaired buildReport crashed on a nil part of the bundle; the repaired one returns the empty outcome *)
Theorem C05_bundle_nil_unfixed_panics :
  exists q c prev, build_report_unfixed10 q c prev = Panic /\ build_report q c prev = empty_outcome.
Proof. exact build_report_unfixed10_panics. Qed.
Print Assumptions C05_bundle_nil_unfixed_panics.

(* Acceptance: with RMN enabled a report carrying roots is accepted only with at least F_rmn+1 signatures — for
   every F (as repaired by fixes/F28.patch). *)
Theorem C05_accept_gate : forall d roots tp gp sigs curse info rmn f,
  commit_should_accept d roots tp gp sigs curse info rmn f = Ok true ->
  rmn = true -> roots <> 0%N -> (f + 1 <= sigs)%N.
Proof. exact accept_gate. Qed.
Print Assumptions C05_accept_gate.

(* F28: the gate as it was let a root-carrying, signature-less report pass for RemoteF >= 2^63-1 ... *)
Theorem C05_accept_gate_unfixed_refuted :
  exists roots sigs f, roots <> 0%N /\ ~ (f + 1 <= sigs)%N /\ rmn_gate_rejects_unfixed true roots sigs f = false.
Proof. exact accept_gate_unfixed_refuted. Qed.
Print Assumptions C05_accept_gate_unfixed_refuted.

(* ... and was equal to the repaired gate below that bound *)
Theorem C05_accept_gate_unfixed_except_known : forall rmn roots sigs f,
  (f < 9223372036854775807)%N -> (sigs < 9223372036854775808)%N ->
  rmn_gate_rejects_unfixed rmn roots sigs f = rmn_gate_rejects rmn roots sigs f.
Proof. exact accept_gate_unfixed_except_known. Qed.
Print Assumptions C05_accept_gate_unfixed_except_known.

(* ---------- the round as a chain: Query -> Observation -> ValidateObservation -> Outcome ---------- *)

(* An announced retry in a building round is inert in every step: nothing is observed, only empty observations are
   valid, the outcome is the previous outcome. Hence a bundle that rides on a retry query (which is not verified)
   can never put a root or a signature into an outcome. *)
Theorem C05_retry_round_inert : forall max n prev q w co,
  next_state (o_type prev) = Building -> q_retry q = true ->
  get_observation Building q w = obs_empty /\
  (forall o, validate_retry q o = true -> obs_is_empty o = true) /\
  get_outcome max n prev q co = prev.
Proof. exact retry_round_inert. Qed.
Print Assumptions C05_retry_round_inert.

(* what Processor.Observation returns next to an error (and commit.Plugin.Observation then encodes) is empty *)
Theorem C05_refused_observation_empty : forall verify_sigs enabled st cfg_e d dest init known offramp q w,
  fst (observation_full verify_sigs enabled st cfg_e d dest init known offramp q w) <> Ok tt ->
  snd (observation_full verify_sigs enabled st cfg_e d dest init known offramp q w) = obs_empty.
Proof. exact refused_observation_empty. Qed.
Print Assumptions C05_refused_observation_empty.

(* merkle roots are observed only in a building round without retry, for the previous outcome's selected ranges *)
Theorem C05_roots_observed_only_when_building : forall st q w,
  ob_roots (get_observation st q w) <> [] ->
  st = Building /\ q_retry q = false /\ ob_roots (get_observation st q w) = w_roots w.
Proof. exact roots_observed_only_when_building. Qed.
Print Assumptions C05_roots_observed_only_when_building.

(* the honest leader's query: a bundle only from the controller, asked for exactly the previous outcome's ranges
   with the bound on-ramp addresses; rmn.ErrTimeout becomes the retry query without bundle; otherwise empty *)
Theorem C05_honest_query : forall enabled st cfg_e init offramp ranges onramp ctrl q reqs,
  query_model enabled st cfg_e init offramp ranges onramp ctrl = (Ok q, reqs) ->
  (q = mkQuery false None /\ reqs = None /\ (enabled = false \/ st <> Building)) \/
  (enabled = true /\ st = Building /\ cfg_e = false /\ query_requests ranges onramp = reqs /\ reqs <> None /\
   ((exists b, ctrl = CtrlSigs b /\ q = mkQuery false (Some b)) \/ (ctrl = CtrlTimeout /\ q = mkQuery true None))).
Proof. exact query_model_cases. Qed.
Print Assumptions C05_honest_query.

(* ---------- the Processor as a long-lived object: histories of rounds (Model/C05Life.v) ----------
   One honest oracle keeps ONE Processor over any list of rounds; between the rounds the environment (RMN remote
   config agreed and on chain, RMNHome node set, addresses, the leader's query) is arbitrary. [detail_of] maps the
   (interned) RMN remote config of an outcome to its content; [verify_sigs] is any crypto oracle. *)

(* the history is a chain: round k's previous outcome is round k-1's outcome (the initial one for the first round) *)
Theorem C05_life_history_chained : forall verify_sigs detail_of enabled max n dest rs s,
  (forall ev, nth_error (htrace verify_sigs detail_of enabled max n dest s rs) 0 = Some ev -> ev_prev ev = fst s) /\
  (forall k ev1 ev2, nth_error (htrace verify_sigs detail_of enabled max n dest s rs) k = Some ev1 ->
                     nth_error (htrace verify_sigs detail_of enabled max n dest s rs) (S k) = Some ev2 ->
                     ev_prev ev2 = ev_out ev1).
Proof. exact htrace_chained. Qed.
Print Assumptions C05_life_history_chained.

(* Over every history, in every round in which the crypto oracle is consulted: the round is a building round without
   retry, and the call is expected_call on the RMN config of THAT round's previous outcome - its signer addresses are
   that config's Signers, the report carries that config's report version, contract address and digest, the lane
   updates and signatures are the bundle's. The initial state, the controller connection and every earlier round
   (in particular every RMN config agreed earlier) do not occur in the statement. *)
Theorem C05_life_verified_against_agreed_config : forall verify_sigs detail_of enabled max n dest s rs ev c,
  In ev (htrace verify_sigs detail_of enabled max n dest s rs) -> ev_call ev = Some c ->
  let d := detail_of (o_cfg (ev_prev ev)) in
  next_state (o_type (ev_prev ev)) = Building /\ cfg_is_empty (o_cfg (ev_prev ev)) = false /\ enabled = true /\
  q_retry (ev_q ev) = false /\
  exists b offa, q_sigs (ev_q ev) = Some b /\ e_off (ev_env ev) = Some offa /\
                 expected_call d dest offa b = Some c /\ snd c = cd_signers d.
Proof. exact life_call_is_prev_cfg. Qed.
Print Assumptions C05_life_verified_against_agreed_config.

(* Over every history, RMN enabled: a round that writes a NEW outcome carrying roots is a building round without
   retry whose bundle the crypto oracle accepted against the signer set (and report fields) of that round's previous
   outcome; every reported root is one of the verified lane updates, the signatures are the verified ones, and the
   RMN config of the report (its F_rmn) is the previous outcome's. Premise quorum_sound: in a round whose query
   this honest oracle refused, the observations reach no consensus (libocr quorum, see the spec's trusted list). *)
Theorem C05_life_roots_need_verified_bundle : forall verify_sigs detail_of enabled max n dest s rs ev,
  enabled = true -> In ev (htrace verify_sigs detail_of enabled max n dest s rs) -> quorum_sound ev ->
  ev_out ev <> ev_prev ev -> o_roots (ev_out ev) <> [] ->
  let d := detail_of (o_cfg (ev_prev ev)) in
  next_state (o_type (ev_prev ev)) = Building /\ q_retry (ev_q ev) = false /\
  exists sigs lanes off,
    verify_sigs (sigs, (cd_version d, dest, cd_contract d, off, cd_digest d, lanes), cd_signers d) = true /\
    (forall r, In r (o_roots (ev_out ev)) -> In r lanes) /\ o_sigs (ev_out ev) = sigs /\
    o_cfg (ev_out ev) = o_cfg (ev_prev ev).
Proof. exact life_roots_need_verified_bundle. Qed.
Print Assumptions C05_life_roots_need_verified_bundle.

(* No dependence on earlier rounds: two instances that reached the same previous outcome through ANY two histories
   from ANY two initial states behave alike in the next round - same crypto call, result, observation, outcome -
   when the controller initialisation does not fail in it; and whenever both consult the crypto oracle (also with
   failing initialisations) they consult it with the same call. *)
Theorem C05_life_round_memoryless : forall verify_sigs detail_of enabled max n dest s1 s2 rs1 rs2 r,
  fst (hfinal verify_sigs detail_of enabled max n dest s1 rs1) = fst (hfinal verify_sigs detail_of enabled max n dest s2 rs2) ->
  e_ifail (h_env r) = 0%N ->
  fst (hstep verify_sigs detail_of enabled max n dest (hfinal verify_sigs detail_of enabled max n dest s1 rs1) r) =
  fst (hstep verify_sigs detail_of enabled max n dest (hfinal verify_sigs detail_of enabled max n dest s2 rs2) r).
Proof. exact life_round_memoryless. Qed.
Print Assumptions C05_life_round_memoryless.

Theorem C05_life_call_memoryless : forall verify_sigs detail_of enabled max n dest s1 s2 rs1 rs2 r c1 c2,
  fst (hfinal verify_sigs detail_of enabled max n dest s1 rs1) = fst (hfinal verify_sigs detail_of enabled max n dest s2 rs2) ->
  ev_call (fst (hstep verify_sigs detail_of enabled max n dest (hfinal verify_sigs detail_of enabled max n dest s1 rs1) r)) = Some c1 ->
  ev_call (fst (hstep verify_sigs detail_of enabled max n dest (hfinal verify_sigs detail_of enabled max n dest s2 rs2) r)) = Some c2 ->
  c1 = c2.
Proof. exact life_call_memoryless. Qed.
Print Assumptions C05_life_call_memoryless.

Require Import Verif.Check.C03_check Verif.Check.C05_check Verif.Proofs.JudgeSoundC05P.
(* ---- the executable properties of Check/C05_check.v are the property (judge soundness) ---- *)
(* Per judge: x_model_passes = the model's own output passes the executable property x_ok (no latent false alarm),
   x_sound = an ARBITRARY implementation output that passes x_ok satisfies the clauses of the theorems above. *)
(* gate (ShouldAcceptAttestedReport): C05_accept_gate on the implementation's accept code *)
Theorem C05_judge_gate5_model_passes : forall i, gate5_ok i (gate5_model i) = true.
Proof. exact gate5_model_passes. Qed.
Print Assumptions C05_judge_gate5_model_passes.

Theorem C05_judge_gate5_sound : forall r s f rmn gp c,
  gate5_ok (r, s, f, rmn, gp) c = true ->
  c <> 2%N /\
  (c = 1%N -> rmn = true -> r <> 0%N -> (f + 1 <= s)%N) /\
  (c = 1%N -> commit_report_empty r 0 gp s = false).
Proof. exact gate5_sound. Qed.
Print Assumptions C05_judge_gate5_sound.

(* report / replife (Reports + ShouldAcceptAttestedReport): what is emitted, RemoteF = F of the outcome's config, C05_accept_gate *)
Theorem C05_judge_rep5_model_passes : forall i, rep5_ok i (rep5_model i) = true.
Proof. exact rep5_model_passes. Qed.
Print Assumptions C05_judge_rep5_model_passes.

Theorem C05_judge_rep5_sound : forall ty nr ns f gp rmn o,
  rep5_ok (ty, nr, ns, f, gp, rmn) o = true ->
  (o = None -> nr = 0%N /\ ns = 0%N /\ gp = 0%N) /\
  (forall r s rf c, o = Some (r, s, rf, c) ->
     r = nr /\ s = ns /\ c <> 2%N /\
     rf = (if Z.eqb ty T_generated then f else 0%N) /\
     (c = 1%N -> rmn = true -> r <> 0%N -> (rf + 1 <= s)%N)).
Proof. exact rep5_sound. Qed.
Print Assumptions C05_judge_rep5_sound.

(* build (Outcome in the building state): C05_roots_signed (iff), C05_reported_roots_sorted (order clause, below) and the invariant of C05_no_sigs_without_roots on the implementation's outcome; premise of model_passes: the previous outcome satisfies the invariant *)
Theorem C05_judge_build_model_passes : forall max n prev q co,
  sigs_imply_roots prev -> build_ok (max, n, prev, q, co) (build_model (max, n, prev, q, co)) = true.
Proof. exact build_model_passes. Qed.
Print Assumptions C05_judge_build_model_passes.

Theorem C05_judge_build_sound : forall max n prev q co o,
  build_ok (max, n, prev, q, co) o = true ->
  sigs_imply_roots o /\
  forall c b, next_state (o_type prev) = Building -> q_retry q = false -> co = Some c -> q_sigs q = Some b ->
    (o = empty_outcome /\ (parse_sigs (b_sigs b) = None \/ parse_lanes (b_lanes b) = None)) \/
    (exists sigs lanes,
       parse_sigs (b_sigs b) = Some sigs /\ parse_lanes (b_lanes b) = Some lanes /\
       (forall r, In r (o_roots o) <-> In r (c_roots c) /\ In r lanes) /\
       (o_roots o <> [] -> o_sigs o = sigs /\ o_type o = T_generated) /\
       (o_roots o = [] -> o_sigs o = [] /\ o_type o = T_empty)).
Proof. exact build_sound. Qed.
Print Assumptions C05_judge_build_sound.

(* build, order of the reported roots: C05_reported_roots_sorted with the implementation's outcome in the place of
   build_report's - build_ok demands the reported roots strictly ascending by chain selector whenever the agreed roots
   have one root per chain (with or without bundle).  The model's outcome passes by C05_reported_roots_sorted
   (C05_judge_build_model_passes, premises unchanged). *)
Theorem C05_judge_build_sound_order : forall max n prev q co o c,
  build_ok (max, n, prev, q, co) o = true ->
  next_state (o_type prev) = Building -> q_retry q = false -> co = Some c ->
  NoDup (map root_chain (c_roots c)) ->
  KSorted root_chain (o_roots o) /\ NoDup (map root_chain (o_roots o)).
Proof. exact build_sound_order. Qed.
Print Assumptions C05_judge_build_sound_order.

(* the property before the order clause accepted roots reported in descending chain order and a chain reported twice;
   the strengthened one rejects both and accepts the model's outcome (hypotheses of the theorem above satisfied:
   building round, no retry, agreed roots of chains 7 and 8) *)
Theorem C05_judge_build_before_weak :
  let c := mkCons [(7, (10, 12), 5, 99); (8, (1, 2), 6, 98)]%N [] [] cfg_empty in
  let q := mkQuery false (Some (mkBundle [SigOk 1; SigOk 2] [LaneOk 7 10 12 5 99; LaneOk 8 1 2 6 98]%N)) in
  let prev := mkOutcome T_selected [] [] [] 0 [] (4, 1)%N in
  let out rs := mkOutcome T_generated [] rs [] 0 [1; 2]%N (4, 1)%N in
  let r7 := (7, (10, 12), 5, 99)%N in let r8 := (8, (1, 2), 6, 98)%N in
  build_ok_before (3, 256, prev, q, Some c)%N (out [r8; r7]) = true /\
  build_ok (3, 256, prev, q, Some c)%N (out [r8; r7]) = false /\
  ~ KSorted root_chain (o_roots (out [r8; r7])) /\
  build_ok_before (3, 256, prev, q, Some c)%N (out [r7; r7; r8]) = true /\
  build_ok (3, 256, prev, q, Some c)%N (out [r7; r7; r8]) = false /\
  build_ok (3, 256, prev, q, Some c)%N (out [r7; r8]) = true /\
  build_model (3, 256, prev, q, Some c)%N = out [r7; r8].
Proof. exact build_ok_before_weak. Qed.
Print Assumptions C05_judge_build_before_weak.

(* obs (Observation with a recording crypto oracle): C05_observe_requires_bundle (without init <> 2, chain_known), C05_no_bundle_elsewhere, C05_refused_observation_empty, C05_roots_observed_only_when_building, C05_retry_round_inert on the implementation's answer *)
Theorem C05_judge_obs_model_passes : forall i, obs_ok i (obs_model i) = true.
Proof. exact obs_model_passes. Qed.
Print Assumptions C05_judge_obs_model_passes.

Theorem C05_judge_obs_sound : forall enabled ty cfg_e d dest init known off q ans w code call ob,
  obs_ok (enabled, ty, cfg_e, d, dest, init, known, off, q, ans, w) (code, call, ob) = true ->
  let st := next_state ty in
  code <> 2%N /\
  (code = 1%N -> obs_is_empty ob = true) /\
  (st = Building -> q_retry q = true -> obs_is_empty ob = true) /\
  (ob_roots ob <> [] -> st = Building /\ q_retry q = false) /\
  (enabled = true -> ob_roots ob <> [] -> exists c, call = Some c /\ ans = true) /\
  (enabled = true -> st = Building -> q_retry q = false -> code = 0%N ->
     exists b sigs lanes offa,
       q_sigs q = Some b /\ cfg_e = false /\ off = Some offa /\
       parse_sigs (b_sigs b) = Some sigs /\ parse_lanes (b_lanes b) = Some lanes /\
       call = Some (sigs, (cd_version d, dest, cd_contract d, offa, cd_digest d, lanes), cd_signers d) /\
       ans = true) /\
  (enabled = true -> st <> Building -> q_sigs q <> None -> code = 1%N) /\
  (forall c, call = Some c -> ans = false -> code = 1%N).
Proof. exact obs_sound. Qed.
Print Assumptions C05_judge_obs_sound.

(* chain (one round Query -> Observation -> ValidateObservation -> Outcome): C05_honest_query, the observation theorems, C05_reported_roots_verified, C05_retry_round_inert on the implementation's round; premises of model_passes: quorum soundness of the case and the invariant of the previous outcome *)
Theorem C05_judge_chain_model_passes : forall i,
  chain_quorum_sound i -> sigs_imply_roots (chain_prev i) -> chain_ok i (chain_model i) = true.
Proof. exact chain_model_passes. Qed.
Print Assumptions C05_judge_chain_model_passes.

Theorem C05_judge_chain_sound : forall enabled max n prev d dest offr onr lead ans rs won woff wcfg wf co lc lq lreq rest,
  chain_ok (enabled, max, n, prev, d, dest, offr, onr, lead, ans, rs, won, woff, wcfg, wf, co) ((lc, lq, lreq), rest) = true ->
  let st := next_state (o_type prev) in
  lc <> 2%N /\
  (forall ctrl q, lead = LHonest ctrl -> lq = Some q ->
     (q = mkQuery false None /\ lreq = None) \/
     (enabled = true /\ st = Building /\
      query_requests (o_ranges prev) (fun k => alookup k onr) = lreq /\ lreq <> None /\
      ((exists b, ctrl = CtrlSigs b /\ q = mkQuery false (Some b)) \/ (ctrl = CtrlTimeout /\ q = mkQuery true None)))) /\
  (forall q, lq = Some q ->
     exists oc call ob valid out, rest = Some ((oc, call, ob, true), valid, out) /\
       oc <> 2%N /\
       (oc = 1%N -> obs_is_empty ob = true) /\
       (st = Building -> q_retry q = true -> obs_is_empty ob = true) /\
       (ob_roots ob <> [] -> st = Building /\ q_retry q = false) /\
       (enabled = true -> ob_roots ob <> [] -> exists c, call = Some c /\ ans = true) /\
       (forall cl, call = Some cl ->
          exists b offa sigs lanes,
            q_sigs q = Some b /\ offr = Some offa /\
            parse_sigs (b_sigs b) = Some sigs /\ parse_lanes (b_lanes b) = Some lanes /\
            cl = (sigs, (cd_version d, dest, cd_contract d, offa, cd_digest d, lanes), cd_signers d)) /\
       (forall oo, out = Some oo ->
          (enabled = true -> st = Building -> oo <> prev -> o_roots oo <> [] ->
             exists sigs lanes off,
               call = Some (sigs, (cd_version d, dest, cd_contract d, off, cd_digest d, lanes), cd_signers d) /\
               ans = true /\ (forall r, In r (o_roots oo) -> In r lanes) /\ o_sigs oo = sigs) /\
          (st = Building -> q_retry q = true -> oo = prev) /\
          sigs_imply_roots oo)).
Proof. exact chain_sound. Qed.
Print Assumptions C05_judge_chain_sound.

(* life (long-lived processors, per round): C05_life_verified_against_agreed_config and C05_life_roots_need_verified_bundle with verify_sigs := toy_verify tab on the implementation's round; premises of model_passes: four oracles, the invariant of the previous outcome, quorum soundness of the case *)
Theorem C05_judge_life_model_passes : forall i,
  length (life_conn i) = 4%nat -> sigs_imply_roots (life_prev i) -> life_quorum_sound i ->
  life_ok i (life_model i) = true.
Proof. exact life_model_passes. Qed.
Print Assumptions C05_judge_life_model_passes.

Theorem C05_judge_life_sound : forall enabled max n prev d dest offr onr lead rs won woff wcfg wf co lidx conn ifail nodes tab
                          lc lq lreq linit rest conn2,
  life_ok (enabled, max, n, prev, d, dest, offr, onr, lead, rs, won, woff, wcfg, wf, co, (lidx, conn, ifail, nodes, tab))
          ((lc, lq, lreq, linit), rest, conn2) = true ->
  let st := next_state (o_type prev) in
  let cfg_e := cfg_is_empty (o_cfg prev) in
  lc <> 2%N /\
  (forall dg nd, linit = Some (dg, nd) -> enabled = true /\ cfg_e = false /\ dg = cd_digest d /\ nd = nodes) /\
  Forall2 (fun c c' => c' = c \/ (enabled = true /\ cfg_e = false /\ c' = cd_digest d)) conn conn2 /\
  (forall ctrl q, lead = LHonest ctrl -> lq = Some q ->
     (q = mkQuery false None /\ lreq = None) \/
     (enabled = true /\ st = Building /\
      exists reqs, lreq = Some (reqs, o_cfg prev) /\
                   query_requests (o_ranges prev) (fun k => alookup k onr) = Some reqs /\
      ((exists b, ctrl = CtrlSigs b /\ q = mkQuery false (Some b)) \/ (ctrl = CtrlTimeout /\ q = mkQuery true None)))) /\
  (forall q, lq = Some q ->
     exists outs valid out, rest = Some (outs, valid, out) /\ length outs = 4%nat /\
       (forall oc call ob ic, In (oc, call, ob, ic) outs ->
          oc <> 2%N /\
          (forall dg nd, ic = Some (dg, nd) -> enabled = true /\ cfg_e = false /\ dg = cd_digest d /\ nd = nodes) /\
          (oc = 1%N -> obs_is_empty ob = true) /\
          (st = Building -> q_retry q = true -> obs_is_empty ob = true) /\
          (ob_roots ob <> [] -> st = Building /\ q_retry q = false) /\
          (forall c, call = Some c ->
             exists b offa, q_sigs q = Some b /\ offr = Some offa /\ expected_call d dest offa b = Some c) /\
          (enabled = true -> ob_roots ob <> [] -> exists c, call = Some c /\ toy_verify tab c = true) /\
          (enabled = true -> st = Building -> q_retry q = false -> oc = 0%N ->
             cfg_e = false /\ exists c, call = Some c /\ toy_verify tab c = true) /\
          (enabled = true -> st <> Building -> q_sigs q <> None -> oc = 1%N) /\
          (forall c, call = Some c -> toy_verify tab c = false -> oc = 1%N) /\
          (st = Selecting -> oc = 0%N -> ob_cfg ob = wcfg)) /\
       (forall oo, out = Some oo ->
          (enabled = true -> st = Building -> oo <> prev -> o_roots oo <> [] ->
             exists sigs lanes off,
               toy_verify tab (sigs, (cd_version d, dest, cd_contract d, off, cd_digest d, lanes), cd_signers d) = true /\
               (forall r, In r (o_roots oo) -> In r lanes) /\ o_sigs oo = sigs /\
               (3 <= life_ok_count outs)%N) /\
          (st = Building -> oo <> prev -> o_roots oo <> [] -> o_cfg oo = o_cfg prev) /\
          (st = Building -> q_retry q = true -> oo = prev) /\
          sigs_imply_roots oo)).
Proof. exact life_sound. Qed.
Print Assumptions C05_judge_life_sound.

(* chain_ok as it was (chain_ok_before) accepted a round whose bundle was verified against another signer list and
   other report fields than the agreed config's: the clause of C05_reported_roots_verified fails of it. Repaired in
   Check/C05_check.v (the recorded call must be the expected call); the repaired chain_ok rejects the witness. *)
Theorem C05_judge_chain_before_unsound :
  chain_ok_before w_in (w_out true) = true /\
  ~ (exists sigs lanes off,
       Some (w_call true) = Some (sigs, (cd_version w_detail, 900%N, cd_contract w_detail, off, cd_digest w_detail, lanes),
                                  cd_signers w_detail)) /\
  chain_ok w_in (w_out true) = false /\ chain_ok w_in (w_out false) = true.
Proof. exact (conj (proj1 chain_ok_before_unsound) (conj (proj2 chain_ok_before_unsound) chain_ok_rejects_witness)). Qed.
Print Assumptions C05_judge_chain_before_unsound.

(* C02 — Commit intervals start at off-ramp next, are bounded; roots cover them exactly.
   This file holds the property theorems only; each is closed by [exact] of a lemma proved in Proofs/. *)
Require Import Verif.Model.Base Verif.Proofs.BaseP Verif.Model.SeqRange Verif.Proofs.SeqRangeP
               Verif.Model.CommitMerkle Verif.Proofs.CommitMerkleP
               Verif.Model.CommitSM Verif.Model.C02Hist Verif.Proofs.C02HistP.

(* ---------- SeqNumRange.Limit (as repaired by fixes/F02.patch) ---------- *)

(* On every well-formed uint64 range and every n >= 1 the result is [s, min(e, s+n-1)]; the right-hand side is
   computed in unbounded arithmetic, i.e. no wrap-around can occur anywhere in the function. *)
Theorem C02_limit : forall s e n,
  (s <= e)%N -> u64 e -> (1 <= n)%N -> limit s e n = (s, N.min e (s + n - 1)).
Proof. exact limit_spec. Qed.
Print Assumptions C02_limit.

Theorem C02_limit_bounds : forall s e n,
  (s <= e)%N -> u64 e -> (1 <= n)%N ->
  let r := limit s e n in
  fst r = s /\ (s <= snd r <= e)%N /\ (range_size r <= n)%N /\
  ((range_size (s, e) <= n)%N -> r = (s, e)) /\
  ((n < range_size (s, e))%N -> range_size r = n).
Proof. exact limit_bounds. Qed.
Print Assumptions C02_limit_bounds.

(* F02: the function as it was returned the full uint64 range untruncated ... *)
Theorem C02_limit_unfixed_full_range_refuted :
  exists s e n, (s <= e)%N /\ u64 e /\ (1 <= n)%N /\ limit_unfixed s e n <> (s, N.min e (s + n - 1)).
Proof. exact limit_unfixed_full_range_refuted. Qed.
Print Assumptions C02_limit_unfixed_full_range_refuted.

(* ... and was right on every other input. *)
Theorem C02_limit_unfixed_except_known : forall s e n,
  (s <= e)%N -> u64 e -> (1 <= n)%N -> ~ (s = 0%N /\ e = max64) ->
  limit_unfixed s e n = (s, N.min e (s + n - 1)).
Proof. exact limit_unfixed_except_known. Qed.
Print Assumptions C02_limit_unfixed_except_known.

(* ---------- interval selection (reportRangesOutcome) ---------- *)

(* For all agreed maps (unique keys), all uint64 values and n >= 1: the selected list holds exactly the
   intervals [off k, min(on k, off k + n - 1)] of the chains k with both values agreed and off k <= on k;
   sorted by chain, no chain twice, every interval non-empty and of size <= n; the carried off-ramp cursor is
   exactly the agreed off-ramp map restricted to chains with an agreed on-ramp value, sorted, no chain twice. *)
Theorem C02_ranges : forall on off n rs os,
  NoDup (map fst off) ->
  (forall k m, alookup k on = Some m -> u64 m) ->
  (1 <= n)%N ->
  report_ranges on off n = (rs, os) ->
  (forall k a b, In (k, (a, b)) rs <->
     exists m, In (k, a) off /\ alookup k on = Some m /\ (a <= m)%N /\ b = N.min m (a + n - 1)) /\
  KSorted fst rs /\ NoDup (map fst rs) /\
  (forall k a b, In (k, (a, b)) rs -> (a <= b)%N /\ (range_size (a, b) <= n)%N) /\
  (forall k o, In (k, o) os <-> In (k, o) off /\ alookup k on <> None) /\
  KSorted fst os /\ NoDup (map fst os).
Proof. exact report_ranges_exact. Qed.
Print Assumptions C02_ranges.

(* omitted when nothing is pending (on < off), or when either value is not agreed *)
Theorem C02_ranges_omitted : forall on off n rs os k,
  NoDup (map fst off) -> (forall k m, alookup k on = Some m -> u64 m) -> (1 <= n)%N ->
  report_ranges on off n = (rs, os) ->
  (forall o m, In (k, o) off -> alookup k on = Some m -> (m < o)%N) \/ alookup k on = None \/ ~ In k (map fst off) ->
  ~ In k (map fst rs).
Proof. exact report_ranges_omitted. Qed.
Print Assumptions C02_ranges_omitted.

(* the selection does not depend on the iteration order of the two Go maps *)
Theorem C02_ranges_order : forall on on' off off' n,
  NoDup (map fst off) -> NoDup (map fst on) ->
  Permutation off off' -> Permutation on on' ->
  report_ranges on off n = report_ranges on' off' n.
Proof. exact report_ranges_order_indep. Qed.
Print Assumptions C02_ranges_order.

(* with the unrepaired Limit the size bound failed for off = 0, on = 2^64-1 *)
Theorem C02_ranges_unfixed_refuted :
  exists on off n rs os,
    NoDup (map fst off) /\ (forall k m, alookup k on = Some m -> u64 m) /\ (1 <= n)%N /\
    report_ranges_unfixed on off n = (rs, os) /\
    exists k a b, In (k, (a, b)) rs /\ ~ (range_size (a, b) <= n)%N.
Proof. exact report_ranges_unfixed_refuted. Qed.
Print Assumptions C02_ranges_unfixed_refuted.

(* ---------- root observation (ObserveMerkleRoots as repaired by fixes/F01.patch) ---------- *)

(* For every reader answer: a root is reported for (k,[s,e]) if and only if the answer holds exactly the
   sequence numbers s..e once each (complete_read: sorted by sequence number they are s, s+1, ..., e), the hasher
   answered for each of them, the on-ramp address is bound, and the root is the merkle root over the hashes in
   sequence order; chain, interval and address are copied unchanged. *)
Theorem C02_root_exact : forall h zero k s e ms addr k' s' e' a r,
  u64 e ->
  (observe_one h zero k s e (Some ms) addr = Some (k', (s', e'), a, r) <->
   k' = k /\ s' = s /\ e' = e /\ addr = Some a /\
   exists hs, complete_read ms s e hs /\ mroot h zero hs = Some r).
Proof. exact observe_one_iff. Qed.
Print Assumptions C02_root_exact.

(* complete_read means: every sequence number of [s,e] occurs exactly once, every other number never *)
Theorem C02_root_exact_counts : forall ms s e hs,
  complete_read ms s e hs ->
  forall q, length (filter (fun m => N.eqb (m_seq m) q) ms) = if (N.leb s q && N.leb q e)%bool then 1%nat else 0%nat.
Proof. exact complete_read_counts. Qed.
Print Assumptions C02_root_exact_counts.

(* the whole observation: every reported root belongs to a requested interval of a supported chain, the reader's
   answer for it was a complete read, and the address is the one bound for that chain *)
Theorem C02_roots_sound : forall h zero supported ranges reader addr k s e a r,
  (forall k s e, In (k, (s, e)) ranges -> u64 e) ->
  In (k, (s, e), a, r) (observe_roots h zero supported ranges reader addr) ->
  exists sup ms hs,
    supported = Some sup /\ In k sup /\ In (k, (s, e)) ranges /\
    reader k (s, e) = Some ms /\ addr k = Some a /\
    complete_read ms s e hs /\ mroot h zero hs = Some r.
Proof. exact observe_roots_sound. Qed.
Print Assumptions C02_roots_sound.

(* the root is a function of the set of messages read, not of the order in which the reader lists them *)
Theorem C02_root_order : forall h zero k s e ms ms' addr r,
  u64 e -> Permutation ms ms' ->
  observe_one h zero k s e (Some ms) addr = Some r ->
  observe_one h zero k s e (Some ms') addr = Some r.
Proof. exact observe_one_order_indep. Qed.
Print Assumptions C02_root_order.

(* a tree is always built from a non-empty leaf list (the model's recursion bound is sufficient) *)
Theorem C02_mroot_total : forall h zero l, l <> [] -> exists r, mroot h zero l = Some r.
Proof. exact mroot_some. Qed.
Print Assumptions C02_mroot_total.

(* F01: before the repair a consecutive prefix of the interval produced a root for the whole interval *)
Theorem C02_root_exact_unfixed_refuted :
  exists h zero k s e ms addr r,
    u64 e /\ observe_one_unfixed h zero k s e (Some ms) addr = Some r /\ ~ (exists hs, complete_read ms s e hs).
Proof. exact observe_one_unfixed_refuted. Qed.
Print Assumptions C02_root_exact_unfixed_refuted.

(* F01b (recorded, not repaired): the source chain named in the message header is not compared with the chain
   queried, so "all from that source chain" does not follow from the code ... *)
Theorem C02_root_wrong_chain_refuted :
  exists h zero k s e ms addr r,
    u64 e /\ observe_one h zero k s e (Some ms) addr = Some r /\ ~ Forall (fun m => m_src m = k) ms.
Proof. exact observe_one_wrong_chain_refuted. Qed.
Print Assumptions C02_root_wrong_chain_refuted.

(* ... the full root clause holds outside that class. *)
Theorem C02_root_exact_except_known : forall h zero k s e ms addr k' s' e' a r,
  u64 e ->
  Forall (fun m => m_src m = k) ms ->
  observe_one h zero k s e (Some ms) addr = Some (k', (s', e'), a, r) ->
  k' = k /\ s' = s /\ e' = e /\ addr = Some a /\
  Forall (fun m => m_src m = k) ms /\
  (forall q, length (filter (fun m => N.eqb (m_seq m) q) ms) = if (N.leb s q && N.leb q e)%bool then 1%nat else 0%nat) /\
  exists hs, map m_hash (sort_by seq_le ms) = map Some hs /\
             map m_seq (sort_by seq_le ms) = iotaN s (length ms) /\
             mroot h zero hs = Some r.
Proof. exact observe_one_exact_except_known. Qed.
Print Assumptions C02_root_exact_except_known.

(* ---------- histories of rounds (one long-lived Processor; the previous outcome is whatever the history left) ---------- *)

(* For EVERY history of rounds from EVERY first outcome: if the history ends in the selecting state, the next round
   writes exactly report_ranges of ITS OWN agreed maps, with the type and the empty fields of a fresh selection. No
   field of the previous outcome (carried cursor, recorded intervals, roots, attempts, RMN config) and no earlier
   round enters. *)
Theorem C02_hist_selection_exact : forall max n prev0 rs q c,
  next_state (o_type (run max n prev0 rs)) = Selecting ->
  let o := run max n prev0 (rs ++ [(q, Some c)]) in
  (o_ranges o, o_off o) = report_ranges (c_on c) (c_off c) n /\
  o_type o = T_selected /\ o_roots o = [] /\ o_attempts o = 0%N /\ o_sigs o = [].
Proof. exact hist_selection_exact. Qed.
Print Assumptions C02_hist_selection_exact.

(* The selection is a function of the round's agreed maps only: two arbitrary histories (other first outcome, other
   rounds, other attempt limit, other query) that end in the selecting state give the same outcome for the same
   consensus observation. *)
Theorem C02_hist_selection_indep : forall max max' n prev0 prev0' rs rs' q q' c,
  next_state (o_type (run max n prev0 rs)) = Selecting ->
  next_state (o_type (run max' n prev0' rs')) = Selecting ->
  run max n prev0 (rs ++ [(q, Some c)]) = run max' n prev0' (rs' ++ [(q', Some c)]).
Proof. exact hist_selection_indep. Qed.
Print Assumptions C02_hist_selection_indep.

(* The interval clause of C02 at history level: after any history, chain k gets [a,b] iff a is THIS round's agreed
   off-ramp next of k, this round agrees on an on-ramp latest m >= a and b = min(m, a+n-1); a chain lacking either
   agreed number in this round gets no interval whatever earlier outcomes carried for it; no chain twice; the carried
   cursor is this round's agreed off-ramp map restricted to chains with an agreed on-ramp number. *)
Theorem C02_hist_selection_characterised : forall max n prev0 rs q c,
  next_state (o_type (run max n prev0 rs)) = Selecting ->
  NoDup (map fst (c_off c)) -> (forall k m, alookup k (c_on c) = Some m -> u64 m) -> (1 <= n)%N ->
  let o := run max n prev0 (rs ++ [(q, Some c)]) in
  (forall k a b, In (k, (a, b)) (o_ranges o) <->
     exists m, In (k, a) (c_off c) /\ alookup k (c_on c) = Some m /\ (a <= m)%N /\ b = N.min m (a + n - 1)) /\
  (forall k, (alookup k (c_on c) = None \/ ~ In k (map fst (c_off c))) -> ~ In k (map fst (o_ranges o))) /\
  NoDup (map fst (o_ranges o)) /\
  (forall k v, In (k, v) (o_off o) <-> In (k, v) (c_off c) /\ alookup k (c_on c) <> None).
Proof. exact hist_selection_characterised. Qed.
Print Assumptions C02_hist_selection_characterised.

(* Invariant of every history that is not handed a ReportIntervalsSelected outcome from outside: whenever the outcome
   sends the next round to the building state, its intervals and cursor are those a round OF THIS HISTORY selected from
   its own agreed maps (retry rounds keep them unchanged). *)
Theorem C02_hist_ranges_provenance : forall max n prev0 rs,
  o_type prev0 <> T_selected ->
  let o := run max n prev0 rs in
  o_type o = T_selected ->
  exists q c, In (q, Some c) rs /\ (o_ranges o, o_off o) = report_ranges (c_on c) (c_off c) n.
Proof. exact hist_ranges_provenance. Qed.
Print Assumptions C02_hist_ranges_provenance.

(* Processor.getObservation: merkle roots are observed only in a non-retry building round, only for an interval the
   previous outcome recorded, from a complete read in THIS round's reader answer with THIS round's address binding
   and chain support. *)
Theorem C02_hist_observation_roots : forall h zero supported known sd curse next expected reader addr fch prev retry k s e a r,
  (forall k s e, In (k, (s, e)) (o_ranges prev) -> u64 e) ->
  In (k, (s, e), a, r)
     (ob_roots (get_observation h zero supported known sd curse next expected reader addr fch prev retry)) ->
  next_state (o_type prev) = Building /\ retry = false /\
  exists sup ms hs,
    supported = Some sup /\ In k sup /\ In (k, (s, e)) (o_ranges prev) /\
    reader k (s, e) = Some ms /\ addr k = Some a /\ complete_read ms s e hs /\ mroot h zero hs = Some r.
Proof. exact observation_roots_sound. Qed.
Print Assumptions C02_hist_observation_roots.

(* Composition over histories: a root observed after any history (not started in the building state) is the root of
   an interval that a round of that history selected from its agreed maps, read completely in the observing round. *)
Theorem C02_hist_roots_for_selected : forall h zero max n prev0 rs supported known sd curse next expected reader addr fch retry k s e a r,
  o_type prev0 <> T_selected ->
  let prev := run max n prev0 rs in
  (forall k s e, In (k, (s, e)) (o_ranges prev) -> u64 e) ->
  In (k, (s, e), a, r)
     (ob_roots (get_observation h zero supported known sd curse next expected reader addr fch prev retry)) ->
  exists q c ms hs,
    In (q, Some c) rs /\ In (k, (s, e)) (fst (report_ranges (c_on c) (c_off c) n)) /\
    reader k (s, e) = Some ms /\ complete_read ms s e hs /\ mroot h zero hs = Some r /\ addr k = Some a.
Proof. exact hist_roots_for_selected. Qed.
Print Assumptions C02_hist_roots_for_selected.

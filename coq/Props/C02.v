(* C02 — Commit intervals start at off-ramp next, are bounded; roots cover them exactly.
   This file holds the property theorems only; each is closed by [exact] of a lemma proved in Proofs/. *)
Require Import Verif.Model.Base Verif.Proofs.BaseP Verif.Model.SeqRange Verif.Proofs.SeqRangeP
               Verif.Model.CommitMerkle Verif.Proofs.CommitMerkleP
               Verif.Model.CommitSM Verif.Model.C02Hist Verif.Proofs.C02HistP.

(* ---------- SeqNumRange.Limit (as repaired by fixes/F02.patch) ---------- *)

(* On every well-formed uint64 range and every n >= 1 the result is [s, min(e, s+n-1)]; the right-hand side is
   computed in unbounded arithmetic, i.e. no wrap-around can occur anywhere in the function. *)
Theorem C02_limit : forall s e n,
  (s <= e)%N -> u64 e -> (1 <= n)%N -> limit s e n = (s, N.min e (s + n - 1)).
Proof. exact limit_spec. Qed.
Print Assumptions C02_limit.

Theorem C02_limit_bounds : forall s e n,
  (s <= e)%N -> u64 e -> (1 <= n)%N ->
  let r := limit s e n in
  fst r = s /\ (s <= snd r <= e)%N /\ (range_size r <= n)%N /\
  ((range_size (s, e) <= n)%N -> r = (s, e)) /\
  ((n < range_size (s, e))%N -> range_size r = n).
Proof. exact limit_bounds. Qed.
Print Assumptions C02_limit_bounds.

(* F02: the function as it was returned the full uint64 range untruncated ... *)
Theorem C02_limit_unfixed_full_range_refuted :
  exists s e n, (s <= e)%N /\ u64 e /\ (1 <= n)%N /\ limit_unfixed s e n <> (s, N.min e (s + n - 1)).
Proof. exact limit_unfixed_full_range_refuted. Qed.
Print Assumptions C02_limit_unfixed_full_range_refuted.

(* ... and was right on every other input. *)
Theorem C02_limit_unfixed_except_known : forall s e n,
  (s <= e)%N -> u64 e -> (1 <= n)%N -> ~ (s = 0%N /\ e = max64) ->
  limit_unfixed s e n = (s, N.min e (s + n - 1)).
Proof. exact limit_unfixed_except_known. Qed.
Print Assumptions C02_limit_unfixed_except_known.

(* ---------- interval selection (reportRangesOutcome) ---------- *)

(* For all agreed maps (unique keys), all uint64 values and n >= 1: the selected list holds exactly the
   intervals [off k, min(on k, off k + n - 1)] of the chains k with both values agreed and off k <= on k;
   sorted by chain, no chain twice, every interval non-empty and of size <= n; the carried off-ramp cursor is
   exactly the agreed off-ramp map restricted to chains with an agreed on-ramp value, sorted, no chain twice. *)
Theorem C02_ranges : forall on off n rs os,
  NoDup (map fst off) ->
  (forall k m, alookup k on = Some m -> u64 m) ->
  (1 <= n)%N ->
  report_ranges on off n = (rs, os) ->
  (forall k a b, In (k, (a, b)) rs <->
     exists m, In (k, a) off /\ alookup k on = Some m /\ (a <= m)%N /\ b = N.min m (a + n - 1)) /\
  KSorted fst rs /\ NoDup (map fst rs) /\
  (forall k a b, In (k, (a, b)) rs -> (a <= b)%N /\ (range_size (a, b) <= n)%N) /\
  (forall k o, In (k, o) os <-> In (k, o) off /\ alookup k on <> None) /\
  KSorted fst os /\ NoDup (map fst os).
Proof. exact report_ranges_exact. Qed.
Print Assumptions C02_ranges.

(* omitted when nothing is pending (on < off), or when either value is not agreed *)
Theorem C02_ranges_omitted : forall on off n rs os k,
  NoDup (map fst off) -> (forall k m, alookup k on = Some m -> u64 m) -> (1 <= n)%N ->
  report_ranges on off n = (rs, os) ->
  (forall o m, In (k, o) off -> alookup k on = Some m -> (m < o)%N) \/ alookup k on = None \/ ~ In k (map fst off) ->
  ~ In k (map fst rs).
Proof. exact report_ranges_omitted. Qed.
Print Assumptions C02_ranges_omitted.

(* the selection does not depend on the iteration order of the two Go maps *)
Theorem C02_ranges_order : forall on on' off off' n,
  NoDup (map fst off) -> NoDup (map fst on) ->
  Permutation off off' -> Permutation on on' ->
  report_ranges on off n = report_ranges on' off' n.
Proof. exact report_ranges_order_indep. Qed.
Print Assumptions C02_ranges_order.

(* with the unrepaired Limit the size bound failed for off = 0, on = 2^64-1 *)
Theorem C02_ranges_unfixed_refuted :
  exists on off n rs os,
    NoDup (map fst off) /\ (forall k m, alookup k on = Some m -> u64 m) /\ (1 <= n)%N /\
    report_ranges_unfixed on off n = (rs, os) /\
    exists k a b, In (k, (a, b)) rs /\ ~ (range_size (a, b) <= n)%N.
Proof. exact report_ranges_unfixed_refuted. Qed.
Print Assumptions C02_ranges_unfixed_refuted.

(* ---------- root observation (ObserveMerkleRoots as repaired by fixes/F01.patch) ---------- *)

(* For every reader answer: a root is reported for (k,[s,e]) if and only if the answer holds exactly the
   sequence numbers s..e once each (complete_read: sorted by sequence number they are s, s+1, ..., e), the hasher
   answered for each of them, the on-ramp address is bound, and the root is the merkle root over the hashes in
   sequence order; chain, interval and address are copied unchanged. *)
Theorem C02_root_exact : forall h zero k s e ms addr k' s' e' a r,
  u64 e ->
  (observe_one h zero k s e (Some ms) addr = Some (k', (s', e'), a, r) <->
   k' = k /\ s' = s /\ e' = e /\ addr = Some a /\
   exists hs, complete_read ms s e hs /\ mroot h zero hs = Some r).
Proof. exact observe_one_iff. Qed.
Print Assumptions C02_root_exact.

(* complete_read means: every sequence number of [s,e] occurs exactly once, every other number never *)
Theorem C02_root_exact_counts : forall ms s e hs,
  complete_read ms s e hs ->
  forall q, length (filter (fun m => N.eqb (m_seq m) q) ms) = if (N.leb s q && N.leb q e)%bool then 1%nat else 0%nat.
Proof. exact complete_read_counts. Qed.
Print Assumptions C02_root_exact_counts.

(* the whole observation: every reported root belongs to a requested interval of a supported chain, the reader's
   answer for it was a complete read, and the address is the one bound for that chain *)
Theorem C02_roots_sound : forall h zero supported ranges reader addr k s e a r,
  (forall k s e, In (k, (s, e)) ranges -> u64 e) ->
  In (k, (s, e), a, r) (observe_roots h zero supported ranges reader addr) ->
  exists sup ms hs,
    supported = Some sup /\ In k sup /\ In (k, (s, e)) ranges /\
    reader k (s, e) = Some ms /\ addr k = Some a /\
    complete_read ms s e hs /\ mroot h zero hs = Some r.
Proof. exact observe_roots_sound. Qed.
Print Assumptions C02_roots_sound.

(* the root is a function of the set of messages read, not of the order in which the reader lists them *)
Theorem C02_root_order : forall h zero k s e ms ms' addr r,
  u64 e -> Permutation ms ms' ->
  observe_one h zero k s e (Some ms) addr = Some r ->
  observe_one h zero k s e (Some ms') addr = Some r.
Proof. exact observe_one_order_indep. Qed.
Print Assumptions C02_root_order.

(* a tree is always built from a non-empty leaf list (the model's recursion bound is sufficient) *)
Theorem C02_mroot_total : forall h zero l, l <> [] -> exists r, mroot h zero l = Some r.
Proof. exact mroot_some. Qed.
Print Assumptions C02_mroot_total.

(* F01: before the repair a consecutive prefix of the interval produced a root for the whole interval *)
Theorem C02_root_exact_unfixed_refuted :
  exists h zero k s e ms addr r,
    u64 e /\ observe_one_unfixed h zero k s e (Some ms) addr = Some r /\ ~ (exists hs, complete_read ms s e hs).
Proof. exact observe_one_unfixed_refuted. Qed.
Print Assumptions C02_root_exact_unfixed_refuted.

(* F01b (recorded, not repaired): the source chain named in the message header is not compared with the chain
   queried, so "all from that source chain" does not follow from the code ... *)
Theorem C02_root_wrong_chain_refuted :
  exists h zero k s e ms addr r,
    u64 e /\ observe_one h zero k s e (Some ms) addr = Some r /\ ~ Forall (fun m => m_src m = k) ms.
Proof. exact observe_one_wrong_chain_refuted. Qed.
Print Assumptions C02_root_wrong_chain_refuted.

(* ... the full root clause holds outside that class. *)
Theorem C02_root_exact_except_known : forall h zero k s e ms addr k' s' e' a r,
  u64 e ->
  Forall (fun m => m_src m = k) ms ->
  observe_one h zero k s e (Some ms) addr = Some (k', (s', e'), a, r) ->
  k' = k /\ s' = s /\ e' = e /\ addr = Some a /\
  Forall (fun m => m_src m = k) ms /\
  (forall q, length (filter (fun m => N.eqb (m_seq m) q) ms) = if (N.leb s q && N.leb q e)%bool then 1%nat else 0%nat) /\
  exists hs, map m_hash (sort_by seq_le ms) = map Some hs /\
             map m_seq (sort_by seq_le ms) = iotaN s (length ms) /\
             mroot h zero hs = Some r.
Proof. exact observe_one_exact_except_known. Qed.
Print Assumptions C02_root_exact_except_known.

(* ---------- histories of rounds (one long-lived Processor; the previous outcome is whatever the history left) ---------- *)

(* For EVERY history of rounds from EVERY first outcome: if the history ends in the selecting state, the next round
   writes exactly report_ranges of ITS OWN agreed maps, with the type and the empty fields of a fresh selection. No
   field of the previous outcome (carried cursor, recorded intervals, roots, attempts, RMN config) and no earlier
   round enters. *)
Theorem C02_hist_selection_exact : forall max n prev0 rs q c,
  next_state (o_type (run max n prev0 rs)) = Selecting ->
  let o := run max n prev0 (rs ++ [(q, Some c)]) in
  (o_ranges o, o_off o) = report_ranges (c_on c) (c_off c) n /\
  o_type o = T_selected /\ o_roots o = [] /\ o_attempts o = 0%N /\ o_sigs o = [].
Proof. exact hist_selection_exact. Qed.
Print Assumptions C02_hist_selection_exact.

(* The selection is a function of the round's agreed maps only: two arbitrary histories (other first outcome, other
   rounds, other attempt limit, other query) that end in the selecting state give the same outcome for the same
   consensus observation. *)
Theorem C02_hist_selection_indep : forall max max' n prev0 prev0' rs rs' q q' c,
  next_state (o_type (run max n prev0 rs)) = Selecting ->
  next_state (o_type (run max' n prev0' rs')) = Selecting ->
  run max n prev0 (rs ++ [(q, Some c)]) = run max' n prev0' (rs' ++ [(q', Some c)]).
Proof. exact hist_selection_indep. Qed.
Print Assumptions C02_hist_selection_indep.

(* The interval clause of C02 at history level: after any history, chain k gets [a,b] iff a is THIS round's agreed
   off-ramp next of k, this round agrees on an on-ramp latest m >= a and b = min(m, a+n-1); a chain lacking either
   agreed number in this round gets no interval whatever earlier outcomes carried for it; no chain twice; the carried
   cursor is this round's agreed off-ramp map restricted to chains with an agreed on-ramp number. *)
Theorem C02_hist_selection_characterised : forall max n prev0 rs q c,
  next_state (o_type (run max n prev0 rs)) = Selecting ->
  NoDup (map fst (c_off c)) -> (forall k m, alookup k (c_on c) = Some m -> u64 m) -> (1 <= n)%N ->
  let o := run max n prev0 (rs ++ [(q, Some c)]) in
  (forall k a b, In (k, (a, b)) (o_ranges o) <->
     exists m, In (k, a) (c_off c) /\ alookup k (c_on c) = Some m /\ (a <= m)%N /\ b = N.min m (a + n - 1)) /\
  (forall k, (alookup k (c_on c) = None \/ ~ In k (map fst (c_off c))) -> ~ In k (map fst (o_ranges o))) /\
  NoDup (map fst (o_ranges o)) /\
  (forall k v, In (k, v) (o_off o) <-> In (k, v) (c_off c) /\ alookup k (c_on c) <> None).
Proof. exact hist_selection_characterised. Qed.
Print Assumptions C02_hist_selection_characterised.

(* Invariant of every history that is not handed a ReportIntervalsSelected outcome from outside: whenever the outcome
   sends the next round to the building state, its intervals and cursor are those a round OF THIS HISTORY selected from
   its own agreed maps (retry rounds keep them unchanged). *)
Theorem C02_hist_ranges_provenance : forall max n prev0 rs,
  o_type prev0 <> T_selected ->
  let o := run max n prev0 rs in
  o_type o = T_selected ->
  exists q c, In (q, Some c) rs /\ (o_ranges o, o_off o) = report_ranges (c_on c) (c_off c) n.
Proof. exact hist_ranges_provenance. Qed.
Print Assumptions C02_hist_ranges_provenance.

(* Processor.getObservation: merkle roots are observed only in a non-retry building round, only for an interval the
   previous outcome recorded, from a complete read in THIS round's reader answer with THIS round's address binding
   and chain support. *)
Theorem C02_hist_observation_roots : forall h zero supported known sd curse next expected reader addr fch prev retry k s e a r,
  (forall k s e, In (k, (s, e)) (o_ranges prev) -> u64 e) ->
  In (k, (s, e), a, r)
     (ob_roots (get_observation h zero supported known sd curse next expected reader addr fch prev retry)) ->
  next_state (o_type prev) = Building /\ retry = false /\
  exists sup ms hs,
    supported = Some sup /\ In k sup /\ In (k, (s, e)) (o_ranges prev) /\
    reader k (s, e) = Some ms /\ addr k = Some a /\ complete_read ms s e hs /\ mroot h zero hs = Some r.
Proof. exact observation_roots_sound. Qed.
Print Assumptions C02_hist_observation_roots.

(* Composition over histories: a root observed after any history (not started in the building state) is the root of
   an interval that a round of that history selected from its agreed maps, read completely in the observing round. *)
Theorem C02_hist_roots_for_selected : forall h zero max n prev0 rs supported known sd curse next expected reader addr fch retry k s e a r,
  o_type prev0 <> T_selected ->
  let prev := run max n prev0 rs in
  (forall k s e, In (k, (s, e)) (o_ranges prev) -> u64 e) ->
  In (k, (s, e), a, r)
     (ob_roots (get_observation h zero supported known sd curse next expected reader addr fch prev retry)) ->
  exists q c ms hs,
    In (q, Some c) rs /\ In (k, (s, e)) (fst (report_ranges (c_on c) (c_off c) n)) /\
    reader k (s, e) = Some ms /\ complete_read ms s e hs /\ mroot h zero hs = Some r /\ addr k = Some a.
Proof. exact hist_roots_for_selected. Qed.
Print Assumptions C02_hist_roots_for_selected.

Require Import Verif.Check.C02_check Verif.Proofs.JudgeSoundC02P.
(* ---- the executable properties of Check/C02_check.v are the property (judge soundness) ---- *)
(* For every correspondence sink: (model_passes) the model's own output passes the executable property, under the
   premises of the property theorem it restates; (sound) an ARBITRARY output that passes satisfies the clause. *)

(* sink C02_lim: Limit — premise: the end is a uint64 *)
Theorem C02_judge_lim_model_passes : forall i : lim_in, u64 (snd (fst i)) -> lim_ok i (lim_model i) = true.
Proof. exact lim_model_passes. Qed.
Print Assumptions C02_judge_lim_model_passes.

(* the start never moves; on a well-formed range with n >= 1 the output is the interval of C02_limit with the bounds
   of C02_limit_bounds *)
Theorem C02_judge_lim_sound : forall (i : lim_in) (o : lim_out), lim_ok i o = true ->
  let '(s, e, n) := i in
  fst o = s /\
  ((s <= e)%N -> (1 <= n)%N ->
     o = (s, N.min e (s + n - 1)) /\
     (s <= snd o <= e)%N /\ (range_size o <= n)%N /\
     ((range_size (s, e) <= n)%N -> o = (s, e)) /\
     ((n < range_size (s, e))%N -> range_size o = n)).
Proof. exact lim_sound. Qed.
Print Assumptions C02_judge_lim_sound.

(* sink C02_rng: interval selection — premises of C02_ranges *)
Theorem C02_judge_rng_model_passes : forall i : rng_in,
  NoDup (map fst (snd (fst i))) ->
  (forall k m, alookup k (fst (fst i)) = Some m -> u64 m) ->
  rng_ok i (rng_model i) = true.
Proof. exact rng_model_passes. Qed.
Print Assumptions C02_judge_rng_model_passes.

(* the conclusion of C02_ranges for every output that passes *)
Theorem C02_judge_rng_sound : forall on off n rs os,
  rng_ok (on, off, n) (rs, os) = true ->
  NoDup (map fst off) -> (1 <= n)%N ->
  (forall k a b, In (k, (a, b)) rs <->
     exists m, In (k, a) off /\ alookup k on = Some m /\ (a <= m)%N /\ b = N.min m (a + n - 1)) /\
  KSorted fst rs /\ NoDup (map fst rs) /\
  (forall k a b, In (k, (a, b)) rs -> (a <= b)%N /\ (range_size (a, b) <= n)%N) /\
  (forall k o, In (k, o) os <-> In (k, o) off /\ alookup k on <> None) /\
  KSorted fst os /\ NoDup (map fst os).
Proof. exact rng_sound. Qed.
Print Assumptions C02_judge_rng_sound.

(* the conclusion of C02_ranges_omitted for every output that passes *)
Theorem C02_judge_rng_sound_omitted : forall on off n rs os k,
  rng_ok (on, off, n) (rs, os) = true ->
  NoDup (map fst off) -> (1 <= n)%N ->
  (forall o m, In (k, o) off -> alookup k on = Some m -> (m < o)%N) \/ alookup k on = None \/ ~ In k (map fst off) ->
  ~ In k (map fst rs).
Proof. exact rng_sound_omitted. Qed.
Print Assumptions C02_judge_rng_sound_omitted.

(* the executable property is complete: the only output that passes is the model's *)
Theorem C02_judge_rng_only_model : forall on off n o,
  rng_ok (on, off, n) o = true ->
  NoDup (map fst off) -> (forall k m, alookup k on = Some m -> u64 m) -> (1 <= n)%N ->
  o = report_ranges on off n.
Proof. exact rng_ok_only_model. Qed.
Print Assumptions C02_judge_rng_only_model.

(* sink C02_roots: root observation — premises: uint64 interval ends, input outside the recorded class F01b *)
Theorem C02_judge_roots_model_passes : forall i : roots_in,
  (forall k s e, In (k, (s, e)) (snd (fst (fst (fst (fst i))))) -> u64 e) ->
  roots_known i = 0%N ->
  roots_ok i (roots_model i) = true.
Proof. exact roots_model_passes. Qed.
Print Assumptions C02_judge_roots_model_passes.

(* the conclusion of C02_roots_sound for every reported root of an output that passes, and every message read names
   the queried source chain (the clause of C02_root_exact_except_known) *)
Theorem C02_judge_roots_sound : forall (i : roots_in) (o : roots_out), roots_ok i o = true ->
  let '(sup, ranges, ans, addrs, zero, tbl) := i in
  (forall k s e a r, In (k, (s, e), a, r) o ->
     exists su ms hs,
       sup = Some su /\ In k su /\ In (k, (s, e)) ranges /\
       reader_of ans k (s, e) = Some ms /\ alookup k addrs = Some a /\
       complete_read ms s e hs /\ mroot (tbl_h tbl) zero hs = Some r /\
       Forall (fun m => m_src m = k) ms) /\
  (length o <= length ranges)%nat.
Proof. exact roots_sound. Qed.
Print Assumptions C02_judge_roots_sound.

(* sink C02_hist: Processor.Outcome round by round — premises on THIS round's agreed maps *)
Theorem C02_judge_hr_model_passes : forall i : hr_in,
  let '(F, dest, max, n, prev, retry, aos) := i in
  (forall c, hr_cons F dest aos = Some c ->
     NoDup (map fst (c_off c)) /\ (forall k m, alookup k (c_on c) = Some m -> u64 m) /\
     NoDup (map root_chain (c_roots c))) ->
  hr_ok i (hr_model i) = true.
Proof. exact hr_model_passes. Qed.
Print Assumptions C02_judge_hr_model_passes.

(* selecting round: the conclusion of C02_hist_selection_exact for every outcome that passes *)
Theorem C02_judge_hr_sound : forall F dest max n prev retry aos c o,
  hr_ok (F, dest, max, n, prev, retry, aos) o = true ->
  next_state (o_type prev) = Selecting -> hr_cons F dest aos = Some c ->
  NoDup (map fst (c_off c)) -> (forall k m, alookup k (c_on c) = Some m -> u64 m) -> (1 <= n)%N ->
  (o_ranges o, o_off o) = report_ranges (c_on c) (c_off c) n /\
  o_type o = T_selected /\ o_roots o = [] /\ o_attempts o = 0%N /\ o_sigs o = [].
Proof. exact hr_sound_selecting. Qed.
Print Assumptions C02_judge_hr_sound.

(* selecting round: the conclusion of C02_hist_selection_characterised *)
Theorem C02_judge_hr_sound_characterised : forall F dest max n prev retry aos c o,
  hr_ok (F, dest, max, n, prev, retry, aos) o = true ->
  next_state (o_type prev) = Selecting -> hr_cons F dest aos = Some c ->
  NoDup (map fst (c_off c)) -> (1 <= n)%N ->
  (forall k a b, In (k, (a, b)) (o_ranges o) <->
     exists m, In (k, a) (c_off c) /\ alookup k (c_on c) = Some m /\ (a <= m)%N /\ b = N.min m (a + n - 1)) /\
  (forall k, (alookup k (c_on c) = None \/ ~ In k (map fst (c_off c))) -> ~ In k (map fst (o_ranges o))) /\
  NoDup (map fst (o_ranges o)) /\
  (forall k v, In (k, v) (o_off o) <-> In (k, v) (c_off c) /\ alookup k (c_on c) <> None).
Proof. exact hr_sound_selecting_characterised. Qed.
Print Assumptions C02_judge_hr_sound_characterised.

(* after any history: an outcome that passes agrees with the outcome of C02_hist_selection_exact in every field that
   theorem speaks about *)
Theorem C02_judge_hr_sound_history : forall F dest max n prev0 rs retry aos c q o,
  hr_ok (F, dest, max, n, run max n prev0 rs, retry, aos) o = true ->
  next_state (o_type (run max n prev0 rs)) = Selecting -> hr_cons F dest aos = Some c ->
  NoDup (map fst (c_off c)) -> (forall k m, alookup k (c_on c) = Some m -> u64 m) -> (1 <= n)%N ->
  let o' := run max n prev0 (rs ++ [(q, Some c)]) in
  o_ranges o = o_ranges o' /\ o_off o = o_off o' /\ o_type o = o_type o' /\ o_roots o = o_roots o' /\
  o_attempts o = o_attempts o' /\ o_sigs o = o_sigs o'.
Proof. exact hr_sound_selecting_history. Qed.
Print Assumptions C02_judge_hr_sound_history.

(* the other rounds: a retry reproduces the previous outcome; a building round selects nothing and reports only roots
   agreed in this round, no chain twice; a waiting round selects and reports nothing *)
Theorem C02_judge_hr_sound_other_rounds : forall F dest max n prev retry aos o,
  hr_ok (F, dest, max, n, prev, retry, aos) o = true ->
  (next_state (o_type prev) = Selecting -> hr_cons F dest aos = None -> o_ranges o = []) /\
  (next_state (o_type prev) = Building -> retry = true -> o = prev) /\
  (next_state (o_type prev) = Building -> retry = false ->
     o_ranges o = [] /\
     match hr_cons F dest aos with
     | None => o_roots o = []
     | Some c => (forall r, In r (o_roots o) -> In r (c_roots c)) /\ NoDup (map root_chain (o_roots o))
     end) /\
  (next_state (o_type prev) = Waiting -> o_ranges o = [] /\ o_roots o = []).
Proof. exact hr_sound_other_rounds. Qed.
Print Assumptions C02_judge_hr_sound_other_rounds.

(* sink C02_hobs: Processor.Observation round by round — premises: Go types (uint64), a known-chain list without
   repetition, one of the four scripted off-ramp reader modes, input outside the recorded class F01b *)
Theorem C02_judge_ho_model_passes : forall i : ho_in,
  let '(t, ranges, retry, (sup, known, sd, curse), (mode, cur), ex, (ans, addrs, zero, tbl), fch) := i in
  (forall k s e, In (k, (s, e)) ranges -> u64 e) ->
  (forall k w, ho_expected ex k = Some w -> u64 w) ->
  (forall kn, known = Some kn -> NoDup kn) ->
  (mode <= 3)%N ->
  ho_known i = 0%N ->
  ho_ok i (ho_model i) = true.
Proof. exact ho_model_passes. Qed.
Print Assumptions C02_judge_ho_model_passes.

(* the conclusion of C02_hist_observation_roots for every root of an observation that passes *)
Theorem C02_judge_ho_sound : forall t ranges retry sup known sd curse mode cur ex ans addrs zero tbl fch roots on off f k s e a r,
  ho_ok (t, ranges, retry, (sup, known, sd, curse), (mode, cur), ex, (ans, addrs, zero, tbl), fch) (roots, on, off, f) = true ->
  In (k, (s, e), a, r) roots ->
  next_state (o_type (ho_prev t ranges)) = Building /\ retry = false /\
  exists su ms hs,
    sup = Some su /\ In k su /\ In (k, (s, e)) (o_ranges (ho_prev t ranges)) /\
    reader_of ans k (s, e) = Some ms /\ alookup k addrs = Some a /\
    complete_read ms s e hs /\ mroot (tbl_h tbl) zero hs = Some r /\
    Forall (fun m => m_src m = k) ms.
Proof. exact ho_sound_roots. Qed.
Print Assumptions C02_judge_ho_sound.

(* sequence numbers and fChain of an observation that passes: off-ramp next only outside building rounds, for known
   non-cursed chains, the off-ramp's current value; on-ramp latest only in selecting rounds, for known supported
   chains, expected next - 1; no chain twice *)
Theorem C02_judge_ho_sound_seqnums : forall t ranges retry sup known sd curse mode cur ex ans addrs zero tbl fch roots on off f,
  ho_ok (t, ranges, retry, (sup, known, sd, curse), (mode, cur), ex, (ans, addrs, zero, tbl), fch) (roots, on, off, f) = true ->
  NoDup (map fst off) /\ NoDup (map fst on) /\
  (forall k v, In (k, v) off ->
     next_state t <> Building /\ sd = Some true /\ (exists kn, known = Some kn /\ In k kn) /\
     (exists cursed, curse = Some (false, cursed) /\ ~ In k cursed) /\
     mode = 0%N /\ v = ho_cursor cur k) /\
  (forall k v, In (k, v) on ->
     next_state t = Selecting /\ (exists kn, known = Some kn /\ In k kn) /\ (exists su, sup = Some su /\ In k su) /\
     exists w, ho_expected ex k = Some w /\ w <> 0%N /\ v = (w - 1)%N) /\
  (if state_eqb (next_state t) Building && retry then f = [] else f = observe_fchain fch).
Proof. exact ho_sound_seqnums. Qed.
Print Assumptions C02_judge_ho_sound_seqnums.

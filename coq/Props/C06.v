(* C06 — RMN signature collection meets both thresholds under every response schedule.
   This file holds the property theorems only; each is closed by [exact] of a lemma proved in Proofs/RmnP.v.

   The model (Model/Rmn.v) is the repaired code (fixes/F12.patch): [run edv vrs fixed cfg sc evs] folds the step
   function of rmn.controller.ComputeReportSignatures over an arbitrary event list [evs]
   (Resp node body | TimerFire | CtxDone), for an arbitrary configuration [cfg] and arbitrary choices [sc] of
   everything Go leaves to chance (map iteration orders, shuffles, request ids, Send failures).  [edv] / [vrs]
   are the ed25519 and RMNCrypto.VerifyReportSignatures oracles.  All theorems are for all of these. *)
Require Import Verif.Model.Base Verif.Model.Rmn Verif.Model.RmnHist Verif.Proofs.RmnP Verif.Proofs.RmnHistP.
From Coq Require Import Sorting.Sorted.

(* Phase A (getRmnSignedObservations) hands observations on only if, for every requested lane that has enough
   observers, some root r has F_home+1 DISTINCT voters, each a configured observer of the lane's chain whose
   response in the schedule is correctly signed, names this destination and configuration, and carries r for exactly
   the requested onramp and interval.  A node counts once however often and under whichever request id it answers. *)
Theorem C06_obs_threshold : forall edv vrs cfg sc,
  NoDup (map sg_node (c_signers cfg)) ->
  forall evs us s e acc,
  run edv vrs fixed cfg sc evs = GA us s ->
  stepA edv fixed cfg sc us s e = Done (inl acc) ->
  forall u, In u us ->
  exists r voters,
    NoDup voters /\ (u_F u + 1 <= zlen voters)%Z /\
    forall n, In n voters -> vote_evidence edv cfg (evs ++ [e]) n (u_req u) r.
Proof.
  intros edv vrs cfg sc ND evs us s e acc H1 H2 u Hu.
  destruct (obs_threshold edv vrs cfg sc ND evs us s e acc H1 H2 u Hu) as (r & vs & A & B & C).
  exists r, vs. auto.
Qed.
Print Assumptions C06_obs_threshold.

(* A successful return hands back (a) exactly the requested lanes that have enough observers, ascending by chain,
   each with a non-empty root backed as above, and (b) signatures of F_remote+1 DISTINCT configured signers, each
   present in the schedule, well-formed and valid for exactly the report handed back, ascending by signer address. *)
Theorem C06_sig_threshold : forall edv vrs cfg sc,
  NoDup (map sg_node (c_signers cfg)) ->
  forall evs sigs rep log,
  run edv vrs fixed cfg sc evs = GFinal (Success sigs rep) log ->
  exists us, prepare cfg = inl (Ok us) /\
    (Permutation (map fst rep) (map u_req us) /\
     StronglySorted (fun a b => (lr_chain (fst a) <= lr_chain (fst b))%N) rep /\
     forall q r, In (q, r) rep ->
       exists u, In u us /\ q = u_req u /\ r <> 0%N /\
         exists voters, NoDup voters /\ (u_F u + 1 <= zlen voters)%Z /\
           forall n, In n voters -> vote_evidence edv cfg evs n q r) /\
    exists entries : list (node * N * N),
      sigs = map snd entries /\
      NoDup (map snode entries) /\
      (c_remoteF cfg + 1 <= zlen entries)%Z /\
      StronglySorted (fun a b => (saddr a <= saddr b)%N) entries /\
      forall x, In x entries -> sig_evidence vrs cfg evs rep x.
Proof. exact success_sound. Qed.
Print Assumptions C06_sig_threshold.

(* The hypotheses above are met by a concrete honest run (3 nodes, F_home = F_remote = 1). *)
Theorem C06_success_example :
  NoDup (map sg_node (c_signers Witness.cfg)) /\
  exists log, run Witness.edv Witness.vrs fixed Witness.cfg Witness.sc Witness.good_run
              = GFinal (Success [1101; 1201]%N [(mkLaneReq 5 w_onr32 10 20, 105)]%N) log.
Proof. exact Witness.good_run_succeeds. Qed.
Print Assumptions C06_success_example.

Theorem C06_phaseA_example :
  exists us s acc,
    run Witness.edv Witness.vrs fixed Witness.cfg Witness.sc [Resp 1 (BMsg 1 (Witness.obs_of 21 105))]%N = GA us s /\
    stepA Witness.edv fixed Witness.cfg Witness.sc us s (Resp 2 (BMsg 2 (Witness.obs_of 22 105)))%N = Done (inl acc) /\
    us <> [].
Proof. exact Witness.good_run_phaseA. Qed.
Print Assumptions C06_phaseA_example.

(* F12(b): on the code before the repair (responses let in by request id only) distinctness fails: the call
   succeeds although every response came from one node where two observers and two signers are required. *)
Theorem C06_distinct_unfixed_refuted :
  exists edv vrs cfg sc evs sigs rep log,
    NoDup (map sg_node (c_signers cfg)) /\
    run edv vrs unfixed cfg sc evs = GFinal (Success sigs rep) log /\
    ~ (exists us, prepare cfg = inl (Ok us) /\ success_spec edv vrs cfg evs us sigs rep).
Proof. exact distinct_unfixed_refuted. Qed.
Print Assumptions C06_distinct_unfixed_refuted.

(* Totality 1: by the event at which the context is done the call has returned; later events change nothing. *)
Theorem C06_total_terminates : forall edv vrs cfg sc pre post,
  exists f l, run edv vrs fixed cfg sc (pre ++ [CtxDone]) = GFinal f l /\
              run edv vrs fixed cfg sc (pre ++ CtxDone :: post) = GFinal f l.
Proof. exact total_terminates. Qed.
Print Assumptions C06_total_terminates.

(* Totality 2: no event list whatsoever makes the repaired code panic. *)
Theorem C06_total_no_panic : forall edv vrs cfg sc,
  NoDup (map sg_node (c_signers cfg)) ->
  forall evs l, run edv vrs fixed cfg sc evs <> GFinal Crash l.
Proof. exact total_no_panic. Qed.
Print Assumptions C06_total_no_panic.

(* F12(a): on the code before the repair a nil Observation / LaneDest / LaneSource / ClosedInterval or a root shorter
   than 32 bytes in ONE response panics the caller; the repaired code returns an error. *)
Theorem C06_nil_submessage_unfixed_refuted :
  exists edv vrs cfg sc,
    forall evs, In evs Witness.crash_runs ->
      (exists l, run edv vrs unfixed cfg sc (evs ++ [CtxDone]) = GFinal Crash l) /\
      (exists f l, run edv vrs fixed cfg sc (evs ++ [CtxDone]) = GFinal (Failure f) l).
Proof. exact nil_submessage_unfixed_refuted. Qed.
Print Assumptions C06_nil_submessage_unfixed_refuted.

(* Liveness.  Send calls succeed, request ids are fresh, the destination is known to chain-selectors.  [hon] are the
   honest nodes, [rho] the (non-empty) root they observe per chain.  Every lane has F_home+1 honest observers [q] and
   at most F_home observers that are not honest; F_remote+1 honest signers [qs] are known to RMNHome.  An honest node
   answers a request that was SENT TO IT correctly — an observation that validates and carries rho in phase A, a
   well-formed signature valid for the report it is asked to sign in phase B ([honest_run]); nothing is assumed about
   any other response in the schedule (any node, any request id, any body, any order, any number, any timer firing).
   If the context is not done within [evs] and every quorum member's answer arrives after its request was sent
   ([answered_A] / [answered_B]), the call has returned successfully by the end of [evs]. *)
Theorem C06_liveness : forall edv vrs cfg sc us,
  NoDup (map sg_node (c_signers cfg)) ->
  prepare cfg = inl (Ok us) ->
  c_dest_known cfg = true ->
  (forall k, s_fail sc k = false) ->
  (forall i j, s_id sc i = s_id sc j -> i = j) ->
  forall (hon : node -> bool) (rho : chain -> root),
  (forall u, In u us -> rho (u_chain u) <> 0%N) ->
  forall q : upd -> list node,
  honest_quorums us hon q ->
  (forall u, In u us -> (zlen (filter (fun n => negb (hon n)) (u_nodes u)) <= u_F u)%Z) ->
  forall qs : list node,
  NoDup qs /\ (c_remoteF cfg + 1 <= zlen qs)%Z /\ (0 <= c_remoteF cfg)%Z /\
    (forall h, In h qs -> hon h = true /\ In h (signer_nodes cfg) /\ is_home cfg h = true) ->
  forall evs,
  honest_run edv vrs cfg sc us hon rho evs ->
  ~ In CtxDone evs ->
  (forall u h, In u us -> In h (q u) -> answered_A edv vrs cfg sc evs h) ->
  (forall h, In h qs -> answered_B edv vrs cfg sc evs h) ->
  exists sigs rep log, run edv vrs fixed cfg sc evs = GFinal (Success sigs rep) log.
Proof. exact liveness. Qed.
Print Assumptions C06_liveness.

(* Phase A alone, without any bound on the number of dishonest nodes: with F_home+1 honest observers per lane
   answering in time, getRmnSignedObservations neither keeps waiting nor gives up. *)
Theorem C06_liveness_obs : forall edv vrs cfg sc us,
  prepare cfg = inl (Ok us) ->
  (forall k, s_fail sc k = false) ->
  (forall i j, s_id sc i = s_id sc j -> i = j) ->
  forall (hon : node -> bool) (rho : chain -> root) (q : upd -> list node),
  honest_quorums us hon q ->
  forall evs,
  honest_obs edv cfg us hon rho evs ->
  ~ In CtxDone evs ->
  (forall u h, In u us -> In h (q u) -> answered_in_time edv vrs cfg sc evs h) ->
  match run edv vrs fixed cfg sc evs with
  | GA _ _ => False
  | GFinal (Failure f) _ => ~ failsA f
  | _ => True
  end.
Proof. exact liveness_phaseA. Qed.
Print Assumptions C06_liveness_obs.

(* The hypotheses of C06_liveness hold of a concrete schedule in which a dishonest node interferes under the honest
   nodes' request ids (proved by applying the theorem, not by computing the run). *)
Theorem C06_liveness_example :
  exists sigs rep log,
    run Witness.edv Witness.vrs fixed Witness.cfg Witness.sc LiveWitness.live_run = GFinal (Success sigs rep) log.
Proof. exact LiveWitness.liveness_applies. Qed.
Print Assumptions C06_liveness_example.

(* The comparator of transformAndSortObservations indexes FixedDestLaneUpdates[0] only for two attributed observations
   of the SAME node, and an observation without lane updates passes validation.  In the repaired code no node is sent
   two observation requests and no node has two accepted observations in any reachable state, so that branch is never
   taken (the model's startB panics exactly there: [tas_panics]); C06_total_no_panic covers this step. *)
Theorem C06_one_observation_per_node : forall edv vrs cfg sc,
  NoDup (map sg_node (c_signers cfg)) ->
  forall evs us s, run edv vrs fixed cfg sc evs = GA us s ->
    NoDup (map snd (a_ids s)) /\ NoDup (map fst (a_acc s)) /\ tas_panics (a_acc s) = false.
Proof. exact one_observation_per_node. Qed.
Print Assumptions C06_one_observation_per_node.

(* Before the F12(b) repair the panic was reachable: node 1 answers its own request and, with an empty observation,
   the request sent to node 2; the same schedule on the repaired code just carries on into phase B. *)
Theorem C06_sort_panic_unfixed_refuted :
  exists edv vrs cfg sc evs,
    (exists l, run edv vrs unfixed cfg sc evs = GFinal Crash l) /\
    (exists s, run edv vrs fixed cfg sc evs = GB s).
Proof. exact sort_panic_unfixed_refuted. Qed.
Print Assumptions C06_sort_panic_unfixed_refuted.

(* The lane source of a counted observation is EXACTLY the requested lane.  The on-ramp address is modelled as the byte
   string it is (Model/Rmn.v [addr], [keep_right] = typconv.KeepNRightBytes): a lane update is let through only if its
   selector is the requested one and its on-ramp address is byte-equal to the last 20 bytes of the requested address
   (the whole address if that has at most 20 bytes) — so it has exactly that length: a shorter tail (empty, 1 byte, 19
   bytes), a prefix, or a longer string with the same tail (the 32-byte abi-encoded form, 21 bytes) names another lane
   and is rejected.  ([vote_evidence] in the threshold theorems above carries the same equation.) *)
Theorem C06_lane_source_exact : forall n us lus seen votes,
  validate_lus fixed n us seen lus = Ok votes ->
  forall ch rv, In (ch, rv) votes ->
  exists lu u, In lu lus /\ find_upd ch us = Some u /\
    lu_src lu = Some (ch, keep_right 20 (lr_onramp (u_req u))) /\
    forall o, lu_src lu = Some (ch, o) -> fst o = N.min (fst (lr_onramp (u_req u))) 20.
Proof. exact lane_source_exact. Qed.
Print Assumptions C06_lane_source_exact.

Theorem C06_lane_source_example :
  keep_right 20 w_onr32 = w_onr20 /\
  validate_lus fixed 1%N Witness.us1 [] [Witness.lu_with w_onr20] = Ok [(5%N, R32 105%N)] /\
  forall o, In o [(1, [(0, 35)]); (19, [(0, 35)]); (0, []); (19, [(18, 17)]); w_onr32; (21, [(0, 35); (19, 17)])]%N ->
    validate_lus fixed 1%N Witness.us1 [] [Witness.lu_with o] = Err.
Proof. exact Witness.onramp_rule_examples. Qed.
Print Assumptions C06_lane_source_example.

(* ---------- histories: a SEQUENCE of calls on one long-lived controller (Model/RmnHist.v) ----------
   [hrun] is the multi-call machine: an event is either a new ComputeReportSignatures call — with the configuration
   that RMNHome / RMNRemote / the plugin present at THAT moment and Go's random choices for that call — or an event of
   the select loop of the call in progress.  The one thing it threads from call to call is the position in the global
   request-id stream [gid].  [flatten calls] is the concatenated history of a list of calls, [hmap] applies the
   single-call machine [run] to every call on its own. *)

(* Running the multi-call machine over the concatenated history equals mapping the single-call machine over the calls:
   the result of call k is the model result on call k's configuration and event list alone — nothing read, counted or
   asked in an earlier call survives into it.  For every history (induction over the list of calls), every
   configuration sequence, every id stream, also for the pre-repair switches [fx]. *)
Theorem C06_history_memoryless : forall edv vrs fx gid (calls : list call),
  hresults (hrun edv vrs fx gid (flatten calls)) = hmap edv vrs fx gid 0 calls.
Proof. exact history_memoryless. Qed.
Print Assumptions C06_history_memoryless.

(* C06_sig_threshold lifted to every call of every history: a call that succeeds has F_home+1 distinct observers per
   lane and F_remote+1 distinct signers IN THE CONFIGURATION CURRENT AT THAT CALL, each witnessed by a response among
   THAT call's own events — a node that was an observer (a signer) in an earlier call, or a vote received by an
   earlier call, counts for nothing. *)
Theorem C06_history_sig_threshold : forall edv vrs gid (calls : list call) c off g,
  In (c, (off, g)) (combine calls (hresults (hrun edv vrs fixed gid (flatten calls)))) ->
  NoDup (map sg_node (c_signers (cl_cfg c))) ->
  forall sigs rep log, g = GFinal (Success sigs rep) log ->
  exists us, prepare (cl_cfg c) = inl (Ok us) /\
    (Permutation (map fst rep) (map u_req us) /\
     StronglySorted (fun a b => (lr_chain (fst a) <= lr_chain (fst b))%N) rep /\
     forall q r, In (q, r) rep ->
       exists u, In u us /\ q = u_req u /\ r <> 0%N /\
         exists voters, NoDup voters /\ (u_F u + 1 <= zlen voters)%Z /\
           forall n, In n voters -> vote_evidence edv (cl_cfg c) (cl_evs c) n q r) /\
    exists entries : list (node * N * N),
      sigs = map snd entries /\
      NoDup (map snode entries) /\
      (c_remoteF (cl_cfg c) + 1 <= zlen entries)%Z /\
      StronglySorted (fun a b => (saddr a <= saddr b)%N) entries /\
      forall x, In x entries -> sig_evidence vrs (cl_cfg c) (cl_evs c) rep x.
Proof. exact history_sig_threshold. Qed.
Print Assumptions C06_history_sig_threshold.

(* C06_obs_threshold likewise: whenever phase A of any call of any history hands its observations on, every lane has
   a root with F_home+1 distinct voters that are configured observers at that call and answered within that call. *)
Theorem C06_history_obs_threshold : forall edv vrs gid (calls : list call) c off g,
  In (c, (off, g)) (combine calls (hresults (hrun edv vrs fixed gid (flatten calls)))) ->
  NoDup (map sg_node (c_signers (cl_cfg c))) ->
  forall us s e acc, g = GA us s ->
  stepA edv fixed (cl_cfg c) (with_ids gid off (cl_sc c)) us s e = Done (inl acc) ->
  forall u, In u us ->
  exists r voters,
    NoDup voters /\ (u_F u + 1 <= zlen voters)%Z /\
    forall n, In n voters -> vote_evidence edv (cl_cfg c) (cl_evs c ++ [e]) n (u_req u) r.
Proof.
  intros edv vrs gid calls c off g H ND us s e acc E Es u Hu.
  destruct (history_obs_threshold edv vrs gid calls c off g H ND us s e acc E Es u Hu) as (r & vs & A & B & C).
  exists r, vs. auto.
Qed.
Print Assumptions C06_history_obs_threshold.

(* What legitimately outlives a call — answers to ITS requests that arrive while a LATER call is listening — is
   without influence: if request ids never repeat, the result of every call is the result on its event list with
   every response under an id issued before that call removed. *)
Theorem C06_history_leftover_ignored : forall edv vrs fx (gid : nat -> reqid) (calls : list call),
  (forall i j, gid i = gid j -> i = j) ->
  forall c off g, In (c, (off, g)) (combine calls (hresults (hrun edv vrs fx gid (flatten calls)))) ->
  g = run edv vrs fx (cl_cfg c) (with_ids gid off (cl_sc c)) (filter (not_leftover gid off) (cl_evs c)).
Proof. exact leftover_ignored. Qed.
Print Assumptions C06_history_leftover_ignored.

(* Non-vacuity, two concrete histories on Witness.cfg (3 observers of lane 5, F_home = 1) with an injective id stream.
   (a) Between the calls nodes 2 and 3 stop being observers UNDER THE SAME CONFIG DIGEST: the first call succeeds, the
   second — which sees the same honest answers again — ends with ErrNothingToDo and asks nobody.
   (b) Nothing changes, and the answers to the first call arrive a second time during the second call: all of them
   are leftovers (ids 1..4, the second call issued 5..), the second call has accepted nothing and is still waiting. *)
Theorem C06_history_example :
  (forall i j, HistWitness.gid i = HistWitness.gid j -> i = j) /\
  (exists log,
     hresults (hrun Witness.edv Witness.vrs fixed HistWitness.gid (flatten HistWitness.two_calls)) =
     [(0%nat, GFinal (Success [1101; 1201]%N [(mkLaneReq 5 w_onr32 10 20, 105)]%N) log);
      (4%nat, GFinal (Failure FNothingToDo) [])]) /\
  (exists log us s,
     hresults (hrun Witness.edv Witness.vrs fixed HistWitness.gid (flatten HistWitness.replayed)) =
     [(0%nat, GFinal (Success [1101; 1201]%N [(mkLaneReq 5 w_onr32 10 20, 105)]%N) log); (4%nat, GA us s)] /\
     a_acc s = [] /\ filter (not_leftover HistWitness.gid 4) Witness.good_run = []).
Proof.
  split; [exact HistWitness.gid_injective|].
  split; [exact HistWitness.two_calls_results|exact HistWitness.replayed_second_call_waits].
Qed.
Print Assumptions C06_history_example.

Require Import Verif.Check.C06_check Verif.Proofs.JudgeSoundC06P.
(* ---- the executable properties of Check/C06_check.v are the property (judge soundness) ---- *)
(* A case of sinks C06_sched / C06_sweep is (i, o): the configuration and the script of items the harness delivered, and
   the observable of the real call.  [item_events (i_items i)] is the script read as the event list of the theorems
   above (the responses it delivered), [edv_c] / [vrs_c] are the oracles as scripted by the harness stubs.
   [cfg_wf] = signer node indexes, signer addresses and RMNHome node ids pairwise distinct (the harness generates such
   configurations: spec 'assumptions'). *)

(* An implementation output that agrees with the model (judge code 1 absent) passes the executable property (judge code
   2 absent), provided the call had returned when the script ended (kind 10 = still running; the harness extends the
   script until the call has returned or it has cancelled the context). *)
Theorem C06_judge_c06_model_passes : forall i o,
  NoDup (map sg_node (c_signers (i_cfg i))) /\ NoDup (map sg_addr (c_signers (i_cfg i))) /\
  NoDup (map hn_id (c_nodes (i_cfg i))) ->
  c06_oeqb (c06_model i) o = true ->
  (forall x, o = [x] -> o_kind x <> 10%N) ->
  c06_ok i o = true.
Proof. exact c06_model_passes. Qed.
Print Assumptions C06_judge_c06_model_passes.

(* An output that passes the executable property satisfies, for the script of the case: C06_total_no_panic /
   C06_total_terminates (returned, no panic); C06_one_observation_per_node and C06_obs_threshold on the attributed
   observations handed to the signers (no node twice, every one from a configured observer of its chain, every lane a
   root with F_home+1 distinct voters that carry it there AND have the vote evidence of C06_obs_threshold in the
   script); and, if it reports success, the conclusion of C06_sig_threshold word for word — for the returned lanes
   [rep] and signatures.  (The scripted RMNCrypto stub does not look at the report; that every VerifyReportSignatures
   call saw exactly the report handed back is the harness flag o_repok.) *)
Theorem C06_judge_c06_sound : forall i o,
  c06_ok i o = true ->
  exists x, o = [x] /\
    o_kind x <> 9%N /\ o_kind x <> 10%N /\
    (o_attr x = [] \/
     (NoDup (map fst (o_attr x)) /\
      (forall n l ch r, In (n, l) (o_attr x) -> In (ch, r) l -> In n (rmn_nodes_of (i_cfg i) ch)) /\
      exists us, prepare (i_cfg i) = inl (Ok us) /\
        forall u, In u us -> exists r voters,
          NoDup voters /\ (u_F u + 1 <= zlen voters)%Z /\
          forall n, In n voters ->
            (exists l, In (n, l) (o_attr x) /\ In (u_chain u, r) l) /\
            vote_evidence edv_c (i_cfg i) (item_events (i_items i)) n (u_req u) r)) /\
    (o_kind x = 0%N ->
     exists us rep, prepare (i_cfg i) = inl (Ok us) /\
       o_lanes x = map (fun p => (lr_chain (fst p), snd p)) rep /\
       ((Permutation (map fst rep) (map u_req us) /\
         StronglySorted (fun a b => (lr_chain (fst a) <= lr_chain (fst b))%N) rep /\
         forall q r, In (q, r) rep ->
           exists u, In u us /\ q = u_req u /\ r <> 0%N /\
             exists voters, NoDup voters /\ (u_F u + 1 <= zlen voters)%Z /\
               forall n, In n voters -> vote_evidence edv_c (i_cfg i) (item_events (i_items i)) n q r) /\
        exists entries : list (node * N * N),
          o_sigs x = map snd entries /\
          NoDup (map snode entries) /\
          (c_remoteF (i_cfg i) + 1 <= zlen entries)%Z /\
          StronglySorted (fun a b => (saddr a <= saddr b)%N) entries /\
          forall e, In e entries -> sig_evidence vrs_c (i_cfg i) (item_events (i_items i)) rep e) /\
       o_repok x = true).
Proof. exact c06_sound. Qed.
Print Assumptions C06_judge_c06_sound.

(* The hypotheses are satisfiable: a successful two-observer / two-signer output passes and is the model's; dropping a
   signature, handing back another root or naming a node twice among the attributed observations does not pass. *)
Theorem C06_judge_c06_example :
  c06_ok (Ex.inp 105%N) [Ex.good_out] = true /\ c06_oeqb (c06_model (Ex.inp 105%N)) [Ex.good_out] = true /\
  c06_ok (Ex.inp 105%N) [mkOut 0 [(5, 105)]%N [1101]%N Ex.log4 (o_attr Ex.good_out) true] = false /\
  c06_ok (Ex.inp 105%N) [mkOut 0 [(5, 106)]%N [1101; 1201]%N Ex.log4 (o_attr Ex.good_out) true] = false /\
  c06_ok (Ex.inp 105%N) [mkOut 4 [] [] Ex.log4 [(1, [(5, 105)]); (1, [(5, 105)])]%N true] = false.
Proof. exact Ex.c06_ok_example. Qed.
Print Assumptions C06_judge_c06_example.

(* Sinks C06_hist*: a history passes iff every call passes the single-call property against ITS OWN configuration and
   ITS OWN script — the reading of C06_history_sig_threshold / C06_history_obs_threshold on arbitrary outputs
   ([c06_P (snd c) x] is the conclusion of C06_judge_c06_sound for input [snd c] and output [x]). *)
Theorem C06_judge_hist_model_passes : forall h o,
  Forall (fun c => cfg_wf (i_cfg (snd c))) h ->
  hist_oeqb (hist_model h) o = true ->
  Forall (fun y => forall x, y = [x] -> o_kind x <> 10%N) o ->
  hist_ok h o = true.
Proof. exact hist_model_passes. Qed.
Print Assumptions C06_judge_hist_model_passes.

Theorem C06_judge_hist_sound : forall h o,
  hist_ok h o = true -> Forall2 (fun c y => exists x, y = [x] /\ c06_P (snd c) x) h o.
Proof. exact hist_sound. Qed.
Print Assumptions C06_judge_hist_sound.

(* second call: the answers of the first call arrive again (leftovers: ids 1..4, the second call issued 5..) and the
   context is cancelled: ErrTimeout passes; without a cancellation in the script it does not, nor does "still running";
   the same script is an honest run at position 0 of the id stream and not at position 4 (why a history judges every
   call at ITS position) *)
Theorem C06_judge_hist_example :
  hist_ok [(0%N, Ex.inp 105%N); (4%N, Ex.inp_c 105%N)] [[Ex.good_out]; [mkOut 4 [] [] [] [] true]] = true /\
  hist_ok [(0%N, Ex.inp 105%N); (4%N, Ex.inp 105%N)] [[Ex.good_out]; [mkOut 4 [] [] [] [] true]] = false /\
  hist_ok [(0%N, Ex.inp 105%N); (4%N, Ex.inp 105%N)] [[Ex.good_out]; [mkOut 10 [] [] [] [] true]] = false /\
  live_test_from 0 (Ex.inp 105%N) = true /\ live_test_from 4 (Ex.inp 105%N) = false.
Proof. exact Ex.hist_ok_example. Qed.
Print Assumptions C06_judge_hist_example.

(* ================= ORDER of the signatures; the Send log; WHEN the call may fail; liveness as a test =================
   Model theorems first (for every configuration, every choice of what Go leaves to chance, every event list), then
   their executable twins in Check/C06_check.v ([c06_core]'s strict order, [log_ok], [kind_ok], [live_test_from]) with
   (a) every outcome the model allows passes and (b) a passing output satisfies the clause. *)

(* "ordered by signer address": with pairwise distinct signer addresses the signatures of a successful return are
   STRICTLY ascending by the address of the signer that made them (C06_sig_threshold has the non-strict order). *)
Theorem C06_sigs_strictly_ordered : forall edv vrs cfg sc,
  NoDup (map sg_node (c_signers cfg)) -> NoDup (map sg_addr (c_signers cfg)) ->
  forall evs sigs rep log,
  run edv vrs fixed cfg sc evs = GFinal (Success sigs rep) log ->
  exists entries : list (node * N * N),
    sigs = map snd entries /\
    StronglySorted (fun a b => (saddr a < saddr b)%N) entries /\
    forall x, In x entries -> sig_evidence vrs cfg evs rep x.
Proof. intros edv vrs cfg sc ND NDa evs sigs rep log. exact (sigs_strictly_ordered edv vrs cfg sc ND evs sigs rep log NDa). Qed.
Print Assumptions C06_sigs_strictly_ordered.

(* Every PeerClient.Send call of every run.  A configuration the call refuses (duplicate chain, no F, nothing to do) is
   refused before anything is sent.  Otherwise: an observation request (kind 0) names only requested lanes that its
   addressee observes; a report-signature request (kind 1) goes to a configured signer that RMNHome knows; no node is
   sent two observation requests (failed sends included); no signer has two accepted signature requests. *)
Theorem C06_requests_wellformed : forall edv vrs cfg sc,
  NoDup (map sg_node (c_signers cfg)) ->
  forall evs,
  (forall f, prepare cfg = inr f -> run edv vrs fixed cfg sc evs = GFinal (Failure f) []) /\
  (forall us, prepare cfg = inl (Ok us) ->
     let log := g_log (run edv vrs fixed cfg sc evs) in
     Forall (fun r =>
       (sd_kind r = 0%N /\
        forall ch, In ch (sd_chains r) -> exists u, In u us /\ u_chain u = ch /\ In (sd_node r) (u_nodes u)) \/
       (sd_kind r = 1%N /\ In (sd_node r) (signer_nodes cfg) /\ is_home cfg (sd_node r) = true)) log /\
     NoDup (map sd_node (filter (fun r => N.eqb (sd_kind r) 0) log)) /\
     NoDup (map sd_node (filter (fun r => N.eqb (sd_kind r) 1 && sd_ok r) log))).
Proof.
  intros edv vrs cfg sc ND evs. split.
  - intros f P. exact (refused_config edv vrs cfg sc f evs P).
  - intros us P. exact (requests_wellformed edv vrs cfg sc ND evs us P).
Qed.
Print Assumptions C06_requests_wellformed.

(* While the call is in phase A no report-signature request has left the controller (so one leaves only after phase A
   handed on observations that meet the threshold: C06_obs_threshold). *)
Theorem C06_phaseA_no_sig_request : forall edv vrs cfg sc,
  NoDup (map sg_node (c_signers cfg)) ->
  forall evs us s, run edv vrs fixed cfg sc evs = GA us s -> Forall (fun r => sd_kind r = 0%N) (a_log s).
Proof. exact phaseA_no_sig_request. Qed.
Print Assumptions C06_phaseA_no_sig_request.

(* WHEN the call may end with which error: a timeout only if the context is done within the event list; a
   configuration error only if the configuration has it (and then nothing was sent);
   ErrInsufficientObservationResponses only in phase A (no signature request was sent).  (Nothing further is proved
   about FInsufSigs / FRoots / FDest / FSendSigs beyond C06_liveness, which excludes every failure.) *)
Theorem C06_failure_origin : forall edv vrs cfg sc,
  NoDup (map sg_node (c_signers cfg)) ->
  forall evs f l,
  run edv vrs fixed cfg sc evs = GFinal (Failure f) l ->
  match f with
  | FTimeoutA | FTimeoutB => In CtxDone evs
  | FDupChain | FNoF | FNothingToDo => prepare cfg = inr f /\ l = []
  | FInsufObs => Forall (fun r => sd_kind r = 0%N) l
  | _ => True
  end.
Proof. exact failure_origin. Qed.
Print Assumptions C06_failure_origin.

(* WHEN the call may GIVE UP: ErrInsufficientObservationResponses is returned only after an observation request naming
   the lane has gone (accepted by PeerClient.Send or not) to EVERY configured observer of EVERY requested lane - the
   error is reported only once the initial-request timer has fired, and when it fires every observer not yet asked is
   asked.  So the call never fails for want of observations while there are observers it has not tried. *)
Theorem C06_giveup_only_after_asking_all : forall edv vrs cfg sc evs l us,
  run edv vrs fixed cfg sc evs = GFinal (Failure FInsufObs) l -> prepare cfg = inl (Ok us) ->
  forall u n, In u us -> In n (u_nodes u) ->
  exists r, In r l /\ sd_kind r = 0%N /\ sd_node r = n /\ In (u_chain u) (sd_chains r).
Proof. exact giveup_only_after_asking_all. Qed.
Print Assumptions C06_giveup_only_after_asking_all.

Theorem C06_giveup_example :
  exists l, run Witness.edv Witness.vrs fixed Witness.cfg Witness.sc
              [Resp 1 (BMsg 1 (Witness.obs_of 99 105)); TimerFire; Resp 2 (BMsg 2 (Witness.obs_of 22 105));
               Resp 3 (BMsg 3 (Witness.obs_of 99 105))]%N = GFinal (Failure FInsufObs) l /\
            map (fun r => (sd_kind r, sd_node r, sd_chains r)) l = [(0, 1, [5]); (0, 2, [5]); (0, 3, [5])]%N.
Proof. exact giveup_example. Qed.
Print Assumptions C06_giveup_example.

(* The same for phase B: ErrInsufficientSignatureResponses is returned only after a report-signature request has gone
   (accepted by PeerClient.Send or not) to EVERY configured signer that RMNHome knows - the error is reported only once
   the report timer has fired, and when it fires every signer not yet asked is asked - and only with F_remote >= 0. *)
Theorem C06_giveupB_only_after_asking_all : forall edv vrs cfg sc evs l,
  run edv vrs fixed cfg sc evs = GFinal (Failure FInsufSigs) l ->
  (0 <= c_remoteF cfg)%Z /\
  forall n, In n (signer_nodes cfg) -> is_home cfg n = true ->
  exists r, In r l /\ sd_kind r = 1%N /\ sd_node r = n.
Proof. exact giveupB_only_after_asking_all. Qed.
Print Assumptions C06_giveupB_only_after_asking_all.

Theorem C06_giveupB_example :
  exists l, run Witness.edv Witness.vrs fixed Witness.cfg Witness.sc
              [Resp 1 (BMsg 1 (Witness.obs_of 21 105)); Resp 2 (BMsg 2 (Witness.obs_of 22 105));
               Resp 1 (BMsg 3 (Witness.sig_of 9901)); TimerFire; Resp 2 (BMsg 4 (Witness.sig_of 9902));
               Resp 3 (BMsg 5 (Witness.sig_of 9903))]%N = GFinal (Failure FInsufSigs) l /\
            map (fun r => (sd_kind r, sd_node r)) l = [(0, 1); (0, 2); (1, 1); (1, 2); (1, 3)]%N.
Proof. exact giveupB_example. Qed.
Print Assumptions C06_giveupB_example.

Theorem C06_requests_failure_example :
  (exists us, prepare Witness.cfg = inl (Ok us) /\
     map (fun r => (sd_kind r, sd_node r))
         (g_log (run Witness.edv Witness.vrs fixed Witness.cfg Witness.sc Witness.good_run))
     = [(0, 1); (0, 2); (1, 1); (1, 2)]%N) /\
  (exists l, run Witness.edv Witness.vrs fixed Witness.cfg Witness.sc [CtxDone] = GFinal (Failure FTimeoutA) l) /\
  (exists l, run Witness.edv Witness.vrs fixed Witness.cfg Witness.sc (firstn 2 Witness.good_run ++ [CtxDone])
             = GFinal (Failure FTimeoutB) l).
Proof. split; [exact requests_wellformed_example|exact failure_origin_example]. Qed.
Print Assumptions C06_requests_failure_example.

(* ---- executable twins: (b) ---- *)
(* ORDER: a passing output that reports success hands back signatures strictly ascending by signer address, each of a
   configured signer whose node delivered it in the script (the scripted RMNCrypto stub accepts signature g for the
   signer address g / 100, whatever the report: the last conjunct says the same without the existential). *)
Theorem C06_judge_c06_sigs_ordered : forall i o,
  c06_ok i o = true ->
  exists x, o = [x] /\
    (o_kind x = 0%N ->
     exists entries : list (node * N * N),
       o_sigs x = map snd entries /\
       StronglySorted (fun a b => (saddr a < saddr b)%N) entries /\
       (forall e rep, In e entries -> sig_evidence vrs_c (i_cfg i) (item_events (i_items i)) rep e) /\
       StronglySorted N.lt (map (fun g => (g / 100)%N) (o_sigs x))).
Proof. exact c06_sigs_ordered. Qed.
Print Assumptions C06_judge_c06_sigs_ordered.

(* LOG and ERROR KIND: the Send log of a passing output satisfies C06_requests_wellformed, and a signature request is
   in it exactly when attributed observations were handed to the signers (for which C06_judge_c06_sound demands F_home+1
   carriers per lane); its error kind satisfies C06_failure_origin read on the script. *)
Theorem C06_judge_c06_log_kind_sound : forall i o,
  c06_ok i o = true ->
  exists x, o = [x] /\
    match prepare (i_cfg i) with
    | inl (Ok us) =>
        (forall s, In s (o_log x) ->
           (snd_kind s = 0%N /\
            forall ch, In ch (snd_chains s) ->
              In ch (map u_chain us) /\ In (snd_node s) (rmn_nodes_of (i_cfg i) ch)) \/
           (snd_kind s = 1%N /\ In (snd_node s) (signer_nodes (i_cfg i)) /\ is_home (i_cfg i) (snd_node s) = true)) /\
        NoDup (map snd_node (filter is_k0 (o_log x))) /\
        NoDup (map snd_node (filter (fun s => is_k1 s && snd_ok s) (o_log x))) /\
        ((exists s, In s (o_log x) /\ snd_kind s = 1%N) <-> o_attr x <> [])
    | _ => o_log x = [] /\ o_attr x = []
    end /\
    ((forall f, prepare (i_cfg i) = inr f -> o_kind x = fail_code f) /\
     (o_kind x = 3%N -> prepare (i_cfg i) = inr FNothingToDo) /\
     (o_kind x = 4%N -> In ICancel (i_items i) \/ In IRaceCancel (i_items i)) /\
     (o_kind x = 5%N -> forall s, In s (o_log x) -> snd_kind s <> 1%N)).
Proof. exact c06_log_kind_sound. Qed.
Print Assumptions C06_judge_c06_log_kind_sound.

(* GIVING UP (executable twin of C06_giveup_only_after_asking_all, clause [giveup_ok]): a passing output that reports
   ErrInsufficientObservationResponses either shows in its Send log an observation request naming the lane to EVERY
   observer of every requested lane, or there is a lane on which the voters of the best root in the script
   ([have_votes]) together with the observers of that lane that were never asked ([unasked], characterised by the
   second theorem) are fewer than F_home+1 - i.e. the observers never asked could not have completed the thresholds.
   Otherwise, in the world where exactly the never-asked observers are honest and ready, the call would fail although
   enough honest nodes would answer in time (C06_liveness); the liveness twin cannot see that, because the harness
   scripts answers only to requests that were sent. *)
Theorem C06_judge_giveup_sound : forall i o,
  c06_ok i o = true ->
  exists x, o = [x] /\
    (o_kind x = 5%N -> forall us, prepare (i_cfg i) = inl (Ok us) ->
     (forall u n, In u us -> In n (u_nodes u) ->
        exists s, In s (o_log x) /\ snd_kind s = 0%N /\ snd_node s = n /\ In (u_chain u) (snd_chains s)) \/
     (exists u, In u us /\
        (zlen (dedupN (have_votes (i_cfg i) (i_items i) u ++ unasked (o_log x) u)) < u_F u + 1)%Z)).
Proof. exact c06_giveup_sound. Qed.
Print Assumptions C06_judge_giveup_sound.

Theorem C06_judge_giveup_unasked : forall log u n,
  In n (unasked log u) <->
  In n (u_nodes u) /\
  ~ exists s, In s log /\ snd_kind s = 0%N /\ snd_node s = n /\ In (u_chain u) (snd_chains s).
Proof. exact unasked_in. Qed.
Print Assumptions C06_judge_giveup_unasked.

(* (a) for the give-up clause, from C06_giveup_only_after_asking_all: every outcome the model allows passes it. *)
Theorem C06_judge_giveup_model : forall off i x,
  NoDup (map sg_node (c_signers (i_cfg i))) /\ NoDup (map sg_addr (c_signers (i_cfg i))) /\
  NoDup (map hn_id (c_nodes (i_cfg i))) ->
  In x (c06_model_from off i) -> giveup_ok (i_cfg i) (i_items i) x = true.
Proof. exact model_outcome_giveup. Qed.
Print Assumptions C06_judge_giveup_model.

(* Non-vacuity (Witness.cfg: nodes 1, 2, 3 observe lane 5, F_home = 1, the initial wave asks 1 and 2).  early: 1 votes
   105, 2 votes 106, the output gives up with observer 3 never asked - rejected (3 and the voter of 105 are F_home+1),
   and the Prop-level clause fails too.  late: 1 answers badly, the timer fires and 3 is asked, 2 votes 105, 3 answers
   badly, the output gives up with all three asked - accepted, and it is what the model says. *)
Theorem C06_judge_giveup_example :
  (giveup_ok Witness.cfg ExG.items_early ExG.early_out = false /\
   ~ giveup_P Witness.cfg ExG.items_early ExG.early_out) /\
  (giveup_ok Witness.cfg ExG.items_late ExG.late_out = true /\
   c06_oeqb (c06_model ExG.inp_late) [ExG.late_out] = true).
Proof. exact ExG.giveup_examples. Qed.
Print Assumptions C06_judge_giveup_example.

(* GIVING UP in phase B (executable twin of C06_giveupB_only_after_asking_all, clause [giveupB_ok]): a passing output that
   reports ErrInsufficientSignatureResponses leaves fewer than F_remote+1 distinct configured signers known to RMNHome
   without a report-signature request in its Send log ([unasked_signers], characterised by the second theorem): the
   signers never asked could not by themselves have supplied the threshold.  Otherwise, in the world where those signers
   are honest and ready, the call would fail although enough honest signers would answer in time (C06_liveness). *)
Theorem C06_judge_giveupB_sound : forall i o,
  c06_ok i o = true ->
  exists x, o = [x] /\
    (o_kind x = 6%N -> (zlen (dedupN (unasked_signers (i_cfg i) (o_log x))) < c_remoteF (i_cfg i) + 1)%Z).
Proof. exact c06_giveupB_sound. Qed.
Print Assumptions C06_judge_giveupB_sound.

Theorem C06_judge_giveupB_unasked : forall cfg log n,
  In n (unasked_signers cfg log) <->
  In n (signer_nodes cfg) /\ is_home cfg n = true /\
  ~ exists s, In s log /\ snd_kind s = 1%N /\ snd_node s = n.
Proof. exact unasked_signers_in. Qed.
Print Assumptions C06_judge_giveupB_unasked.

(* (a), from C06_giveupB_only_after_asking_all: every outcome the model allows passes the clause. *)
Theorem C06_judge_giveupB_model : forall off i x,
  NoDup (map sg_node (c_signers (i_cfg i))) /\ NoDup (map sg_addr (c_signers (i_cfg i))) /\
  NoDup (map hn_id (c_nodes (i_cfg i))) ->
  In x (c06_model_from off i) -> giveupB_ok (i_cfg i) x = true.
Proof. exact model_outcome_giveupB. Qed.
Print Assumptions C06_judge_giveupB_model.

(* Non-vacuity (ExGB.cfg0 = Witness.cfg with F_remote = 0: signers 1, 2, 3, the first request goes to signer 1 alone).
   early: the output gives up after signer 1 alone was asked - signers 2 and 3 never were, one of them would do:
   rejected, and the Prop-level clause fails.  late: 1 signs badly, the timer fires, 2 and 3 are asked and sign badly:
   accepted, and it is what the model says. *)
Theorem C06_judge_giveupB_example :
  (giveupB_ok ExGB.cfg0 ExGB.early_out = false /\ ~ giveupB_P ExGB.cfg0 ExGB.early_out /\
   unasked_signers ExGB.cfg0 (o_log ExGB.early_out) = [2; 3]%N) /\
  (giveupB_ok ExGB.cfg0 ExGB.late_out = true /\ c06_oeqb (c06_model ExGB.inp_late) [ExGB.late_out] = true).
Proof. exact ExGB.giveupB_examples. Qed.
Print Assumptions C06_judge_giveupB_example.

(* LIVENESS.  [live_test_from off i] IS the hypothesis of C06_liveness for the case, for EVERY schedule (iteration
   order of rmnNodeInfo, of the vote map) and EVERY event list (due timers, race resolutions) the model allows for it:
   [eager_evs] are the event lists behind the outcomes of the model, [sched_of] the schedules. *)
Theorem C06_judge_live_test_sound : forall off i,
  live_test_from off i = true ->
  exists us rho,
    prepare (i_cfg i) = inl (Ok us) /\ c_dest_known (i_cfg i) = true /\
    (forall u, In u us -> rho (u_chain u) <> 0%N) /\
    forall order1 ro, In order1 (rotations (i_asked i)) -> In ro (rootords_of i) ->
      let cfg := i_cfg i in
      let sc := sched_of off i order1 ro in
      (forall k, s_fail sc k = false) /\
      (forall a b, s_id sc a = s_id sc b -> a = b) /\
      forall evs, In evs (eager_evs cfg sc (ginit cfg sc) (i_items i)) ->
        exists (hon : node -> bool) (q : upd -> list node) (qs : list node),
          honest_quorums us hon q /\
          (forall u, In u us -> (zlen (filter (fun n => negb (hon n)) (u_nodes u)) <= u_F u)%Z) /\
          (NoDup qs /\ (c_remoteF cfg + 1 <= zlen qs)%Z /\ (0 <= c_remoteF cfg)%Z /\
           forall h, In h qs -> hon h = true /\ In h (signer_nodes cfg) /\ is_home cfg h = true) /\
          honest_run edv_c vrs_c cfg sc us hon rho evs /\
          ~ In CtxDone evs /\
          (forall u h, In u us -> In h (q u) -> answered_A edv_c vrs_c cfg sc evs h) /\
          (forall h, In h qs -> answered_B edv_c vrs_c cfg sc evs h).
Proof. exact live_test_sound. Qed.
Print Assumptions C06_judge_live_test_sound.

(* (a) for the liveness clause, from C06_liveness: when the test holds EVERY outcome the model allows is a success, so
   the clause "test => kind 0" cannot reject an output that agrees with the model. *)
Theorem C06_judge_live_test_model : forall off i x,
  NoDup (map sg_node (c_signers (i_cfg i))) /\ NoDup (map sg_addr (c_signers (i_cfg i))) /\
  NoDup (map hn_id (c_nodes (i_cfg i))) ->
  live_test_from off i = true -> In x (c06_model_from off i) -> o_kind x = 0%N.
Proof. exact live_test_success. Qed.
Print Assumptions C06_judge_live_test_model.

(* (b): a passing output of a case that satisfies the test reports success. *)
Theorem C06_judge_c06_live_sound : forall i o,
  c06_ok i o = true -> live_test_from 0 i = true -> exists x, o = [x] /\ o_kind x = 0%N.
Proof. exact c06_live_sound. Qed.
Print Assumptions C06_judge_c06_live_sound.

(* histories: every call satisfies all clauses — C06_judge_c06_sound, the log / kind clauses, the liveness clause and
   the give-up clauses ([giveup_P] / [giveupB_P] = the conclusions of C06_judge_giveup_sound / C06_judge_giveupB_sound) —
   against ITS configuration, ITS script and ITS position in the request-id stream ([c06_full_P off i x] is the
   conjunction of the conclusions above for input i, output x and id offset off). *)
Theorem C06_judge_hist_sound_full : forall h o,
  hist_ok h o = true ->
  Forall2 (fun c y => exists x, y = [x] /\
             c06_P (snd c) x /\ log_P (i_cfg (snd c)) (o_log x) (o_attr x) /\
             kind_P (i_cfg (snd c)) (i_items (snd c)) x /\
             ((exists us rho, live_facts (N.to_nat (fst c)) (snd c) us rho) ->
              live_test_from (N.to_nat (fst c)) (snd c) = true -> o_kind x = 0%N) /\
             giveup_P (i_cfg (snd c)) (i_items (snd c)) x /\ giveupB_P (i_cfg (snd c)) x) h o.
Proof. exact hist_sound_full. Qed.
Print Assumptions C06_judge_hist_sound_full.

(* Non-vacuity and the executable property as it stood before these clauses ([c06_core] alone, kept as
   Ex.c06_ok1_before2): (1) an observation request to an unknown node and a signature request without attributed
   observations passed; (2) ErrTimeout without a cancellation in the script passed; (3) an honest complete script (the
   test holds) with an output reporting ErrInsufficientSignatureResponses passed; the good output still passes;
   (4) the two signatures in descending address order do not pass. *)
Theorem C06_judge_c06_before2_example :
  (Ex.c06_ok1_before2 (Ex.inp_c 105%N) Ex.bad_log_out = true /\ c06_ok1 (Ex.inp_c 105%N) Ex.bad_log_out = false /\
   ~ log_P (i_cfg (Ex.inp_c 105%N)) (o_log Ex.bad_log_out) (o_attr Ex.bad_log_out)) /\
  (Ex.c06_ok1_before2 Ex.inp_wait Ex.bad_kind_out = true /\ c06_ok1 Ex.inp_wait Ex.bad_kind_out = false /\
   ~ kind_P (i_cfg Ex.inp_wait) (i_items Ex.inp_wait) Ex.bad_kind_out) /\
  (Ex.c06_ok1_before2 (Ex.inp 105%N) Ex.bad_live_out = true /\ live_test_from 0 (Ex.inp 105%N) = true /\
   c06_ok1 (Ex.inp 105%N) Ex.bad_live_out = false /\ c06_ok1 (Ex.inp 105%N) Ex.good_out = true) /\
  (c06_ok1 (Ex.inp 105%N) (mkOut 0 [(5, 105)]%N [1201; 1101]%N Ex.log4 (o_attr Ex.good_out) true) = false /\
   c06_ok1 (Ex.inp 105%N) (mkOut 0 [(5, 105)]%N [1101; 1201]%N Ex.log4 (o_attr Ex.good_out) true) = true).
Proof.
  split; [exact Ex.c06_ok1_before2_log_unjudged|]. split; [exact Ex.c06_ok1_before2_kind_free|].
  split; [exact Ex.c06_ok1_before2_no_liveness|exact Ex.c06_order_example].
Qed.
Print Assumptions C06_judge_c06_before2_example.

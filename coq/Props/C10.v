(* C10 — All honest oracles compute byte-identical outcomes and reports.
   Theorems only; proofs are in Proofs/DeterminismP.v, Proofs/TransmitP.v, Proofs/BaseP.v (the seams, 1-5) and
   Proofs/DeterminismSysP.v (the whole outcome of both plugins, 6-8; model: Model/DeterminismSys.v). *)
Require Import Verif.Model.Base Verif.Proofs.BaseP Verif.Model.Consensus Verif.Model.Determinism
               Verif.Proofs.DeterminismP Verif.Model.Transmit Verif.Proofs.TransmitP.
Require Import Verif.Model.DeterminismSys Verif.Proofs.DeterminismSysP.

(* 1. Every consensus map (fChain, merkle roots, on-ramp / off-ramp numbers, RMN config; GetConsensusMap), once
      sorted by key as the outcome encoders do, is the same whatever order the Go runtime iterates the aggregated
      map in and whatever order the votes of one key were appended in (per-oracle maps are ranged over too). *)
Theorem C10_consensus_map_order_independent :
  forall (T : Type) (eqb : T -> T -> bool), (forall x y, reflect (x = y) (eqb x y)) ->
  forall (thr_of : N -> option N) m m1 m',
    (forall k t, thr_of k = Some t -> (0 < t)%N) ->
    NoDup (map fst m) ->
    same_votes m m1 -> Permutation m1 m' ->
    sort_by (kle (fun p : N * T => fst p)) (consensus_map eqb thr_of m) =
    sort_by (kle (fun p : N * T => fst p)) (consensus_map eqb thr_of m').
Proof. exact @consensus_map_order_indep. Qed.
Print Assumptions C10_consensus_map_order_independent.

(* 2. Lists that are sorted on a unique key before encoding (ranges, roots, off-ramp numbers by chain; token prices by
      token; gas prices by chain; chain reports by source) have one canonical order. *)
Theorem C10_sorted_output_canonical : forall (A : Type) (key : A -> N) (l l' : list A),
  NoDup (map key l) -> Permutation l l' -> sort_by (kle key) l = sort_by (kle key) l'.
Proof. exact @sorted_output_canonical. Qed.
Print Assumptions C10_sorted_output_canonical.

(* 3. GetValid (after the repair) is a function of the cache content, not of the map iteration order, and still
      returns exactly the items that reached the threshold. *)
Theorem C10_get_valid_order_independent : forall (T : Type) thr (c c' : cache T),
  NoDup (map fst c) -> Permutation c c' -> get_valid thr c = get_valid thr c'.
Proof. exact @get_valid_order_indep. Qed.
Print Assumptions C10_get_valid_order_independent.

Theorem C10_get_valid_members : forall (T : Type) thr (c : cache T) x,
  In x (get_valid thr c) <-> exists id n, In (id, (x, n)) c /\ (thr <= n)%N.
Proof. exact @get_valid_members. Qed.
Print Assumptions C10_get_valid_members.

(* 3'. Before the repair: two iteration orders gave two different last-writer-wins results (F17). *)
Theorem C10_get_valid_unfixed_refuted :
  exists (c c' : cache N) thr k,
    Permutation c c' /\ NoDup (map fst c) /\
    lww_lookup (fun _ => 7%N) (get_valid_unfixed thr c) k <> lww_lookup (fun _ => 7%N) (get_valid_unfixed thr c') k.
Proof. exact get_valid_unfixed_refuted. Qed.
Print Assumptions C10_get_valid_unfixed_refuted.

(* 4. Transmission schedule: identical for every enumeration order of the oracle ids (shared with C16). *)
Theorem C10_schedule_order_independent : forall sup order order' mult,
  Permutation order order' -> schedule sup order mult = schedule sup order' mult.
Proof. exact schedule_order_indep. Qed.
Print Assumptions C10_schedule_order_independent.

(* 5. Time zone: after normalisation to UTC the identity of a timestamped item is its instant, for every process
      zone; before the repair the partition into identical items depended on the zone (F25). *)
Theorem C10_tz_identity_zone_independent : forall loc loc' t1 t2,
  render_eqb (render loc (to_utc t1)) (render loc (to_utc t2)) =
  render_eqb (render loc' (to_utc t1)) (render loc' (to_utc t2)).
Proof. exact utc_identity_zone_indep. Qed.
Print Assumptions C10_tz_identity_zone_independent.

Theorem C10_tz_identity_is_instant : forall loc t1 t2,
  render_eqb (render loc (to_utc t1)) (render loc (to_utc t2)) = Z.eqb (instant t1) (instant t2).
Proof. exact utc_identity_is_instant. Qed.
Print Assumptions C10_tz_identity_is_instant.

Theorem C10_tz_raw_identity_refuted :
  exists loc loc' t1 t2,
    render_eqb (render loc t1) (render loc t2) <> render_eqb (render loc' t1) (render loc' t2).
Proof. exact raw_identity_zone_dependent_refuted. Qed.
Print Assumptions C10_tz_raw_identity_refuted.

(* ====================================================================================================
   WHOLE OUTCOME.  [*_outcome_canon_rt rt i] is the value Outcome.Encode serialises, as a function of
   i = (previous outcome, query, ordered attributed observations, configuration) and of a runtime rt = the order in
   which this oracle's Go runtime ranges over every map the function builds internally.  [*_reorder i i']: the same
   input with every field that is a Go map (in observations and in the configuration) in another iteration order.
   The functions take no own-oracle-id argument: "which oracle computes it" cannot matter by construction.
   ==================================================================================================== *)

(* 6. Commit plugin: merkle-root outcome (type, intervals, roots, off-ramp numbers, attempts, signatures, RMN remote
      config), token prices, gas prices, and the address maps the discovery step hands to Sync.  No hypothesis on the
      observations (no validation, no distinct oracles needed): slices keep their order, maps are maps. *)
Theorem C10_commit_outcome_deterministic : forall (rt rt' : commit_rt) (i i' : commit_in),
  commit_rt_ok rt -> commit_rt_ok rt' -> commit_reorder i i' ->
  commit_outcome_canon_rt rt i = commit_outcome_canon_rt rt' i'.
Proof. exact commit_outcome_deterministic. Qed.
Print Assumptions C10_commit_outcome_deterministic.

Theorem C10_commit_outcome_canon_deterministic : forall i i' : commit_in,
  commit_reorder i i' -> commit_outcome_canon i = commit_outcome_canon i'.
Proof. exact commit_outcome_canon_deterministic. Qed.
Print Assumptions C10_commit_outcome_canon_deterministic.

(* the hypotheses are satisfiable: the all-maps-reversed input of any input whose maps have unique keys is a
   re-ordering; reversing every internal map is a runtime; a 4-oracle round with a non-empty outcome in all parts *)
Theorem C10_commit_reorder_exists : forall i : commit_in,
  commit_in_ok i = true -> commit_reorder i (commit_in_rev i).
Proof. exact commit_in_rev_reorder. Qed.
Print Assumptions C10_commit_reorder_exists.

Example C10_commit_example :
  commit_rt_ok commit_rt_rev /\ commit_rt_ok commit_rt_id /\
  commit_reorder ex_ci (commit_in_rev ex_ci) /\ ex_ci <> commit_in_rev ex_ci /\
  commit_outcome_canon ex_ci = ex_cout /\
  commit_outcome_canon_rt commit_rt_rev (commit_in_rev ex_ci) = ex_cout.
Proof. exact (conj commit_rt_rev_ok (conj commit_rt_id_ok commit_example)). Qed.
Print Assumptions C10_commit_example.

(* with the insertion-order runtime the parts ARE the models of C01/C03/C04 (sink C04_round, RMN disabled), C14, C01 *)
Theorem C10_commit_parts_are_the_judged_models :
  (exists oc, forall k prev q aos, k_off_const k = oc ->
     (forall ao, In ao aos -> CommitConsensus.rmn_is_empty (CommitConsensus.o_rmn (snd ao)) = true) ->
     mr_outcome_rt (fun a => a) (fun c => c) k prev q aos =
     mr_canon (CommitSM.get_outcome (k_max k) (k_n k) prev q
                 (CommitLive.round_cons (fun _ => CommitSM.cfg_empty) (k_F k) (k_dest k) aos))) /\
  (forall k aos, tp_outcome_rt (fun a => a) (fun c => c) k aos =
                 Prices.tp_outcome (t_freq k) (t_info k) (t_feedchain k) (t_F k) (t_dest k) aos) /\
  (forall k aos, cf_outcome_rt (fun a => a) (fun c => c) (fun m => m) k aos =
                 Prices.cf_outcome (f_freq k) (f_info k) (f_F k) (f_dest k) aos) /\
  (forall F dest aos, disc_outcome_rt (fun a => a) F dest aos = disc_canon (Discovery.discovery_outcome F dest aos)).
Proof. exact (conj mr_outcome_rmn_disabled (conj tp_outcome_rt_id (conj cf_outcome_rt_id disc_outcome_rt_id))). Qed.
Print Assumptions C10_commit_parts_are_the_judged_models.

(* the one thing [commit_reorder] asks of a map, unique keys, is needed: an association list with a repeated key
   (not a Go map) in two orders gives two outcomes *)
Theorem C10_commit_outcome_nonmap_refuted :
  exists i info',
    Permutation (g_tokeninfo (ci_cfg i)) info' /\
    let k := ci_cfg i in
    let i' := mkCommitIn (ci_prev i) (ci_query i) (ci_aos i)
                (mkCommitCfg (g_F k) (g_dest k) (g_max k) (g_n k) (g_feedchain k) (g_tp_freq k) info' (g_cf_freq k) (g_feeinfo k) (g_off_const k)) in
    commit_outcome_canon i <> commit_outcome_canon i'.
Proof. exact commit_outcome_nonmap_refuted. Qed.
Print Assumptions C10_commit_outcome_nonmap_refuted.

(* 7. Execute plugin, the three states (GetCommitReports / GetMessages / Filter), from the attributed observations
      through getConsensusObservation (five merges; GetValid in ascending id order), the state function, the report
      builder and newSortedOutcome.  hash ... max_gas are the builder's oracles (the same functions on every oracle),
      nid the id of a nonce triplet.  Hypothesis: ids are faithful (items filed under one id are equal: sha3 is
      collision free on the round's renderings).  NO unique-sort-key hypothesis. *)
Theorem C10_exec_outcome_deterministic :
  forall (hash : N -> N -> N) (zero : N) (leaf_hash : ExecReport.msg -> option N)
         (enc_size : ExecReport.creport -> option N) (tree_gas : N -> N) (max_size max_gas : N)
         (nid : nonce3 -> N) (rt rt' : exec_rt) (i i' : exec_in),
  exec_rt_ok rt -> exec_rt_ok rt' -> exec_reorder i i' -> exec_ids_faithful nid i ->
  exec_outcome_canon_rt nid hash zero leaf_hash enc_size tree_gas max_size max_gas rt i =
  exec_outcome_canon_rt nid hash zero leaf_hash enc_size tree_gas max_size max_gas rt' i'.
Proof. exact exec_outcome_deterministic. Qed.
Print Assumptions C10_exec_outcome_deterministic.

Theorem C10_exec_reorder_exists : forall i : exec_in, exec_in_ok i = true -> exec_reorder i (exec_in_rev i).
Proof. exact exec_in_rev_reorder. Qed.
Print Assumptions C10_exec_reorder_exists.

(* one 4-oracle round per state: maps reversed at every level + a runtime ranging backwards give the same outcome;
   the outcomes are non-empty (state, (source, start, executed, #messages) per pending report, #chain reports) *)
Example C10_exec_example :
  exec_rt_ok exec_rt_rev /\
  (exec_reorder ex_x1 (exec_in_rev ex_x1) /\ ex_x1 <> exec_in_rev ex_x1 /\ exec_ids_faithful ex_nid ex_x1 /\
   (* the two agreed versions of report (1, 10) conflict and are dropped: repair of F76 *)
   eout_shape (ex_xcanon ex_x1) = Some (1, [(2, 1, [], 0%nat)], 0%nat)%N /\
   ex_xcanon_rt exec_rt_rev (exec_in_rev ex_x1) = ex_xcanon ex_x1) /\
  (exec_reorder ex_x2 (exec_in_rev ex_x2) /\ exec_ids_faithful ex_nid ex_x2 /\
   eout_shape (ex_xcanon ex_x2) = Some (2, [(1, 10, [10], 1%nat); (1, 10, [], 1%nat); (2, 1, [], 1%nat)], 0%nat)%N /\
   ex_xcanon_rt exec_rt_rev (exec_in_rev ex_x2) = ex_xcanon ex_x2) /\
  (exec_reorder ex_x3 (exec_in_rev ex_x3) /\ exec_ids_faithful ex_nid ex_x3 /\
   eout_shape (ex_xcanon ex_x3) = Some (3, [(2, 1, [], 1%nat)], 1%nat)%N /\
   ex_xcanon_rt exec_rt_rev (exec_in_rev ex_x3) = ex_xcanon ex_x3).
Proof. exact (conj exec_rt_rev_ok exec_example). Qed.
Print Assumptions C10_exec_example.

(* the id-ordered GetValid returns exactly the items filed at least thr times (what C07's [valid] returns) *)
Theorem C10_exec_valid_exact : forall (T : Type) (id : T -> N) (rtc : cache T -> cache T) thr (items : list T) x,
  (forall c, Permutation c (rtc c)) -> ids_faithful id items ->
  (In x (mo_valid rtc id thr items) <-> In x items /\ (thr <= count (id_eqb id) x items)%N).
Proof. exact @mo_valid_spec. Qed.
Print Assumptions C10_exec_valid_exact.

(* 7a. faithful ids are needed, for messages and for nonce triplets *)
Theorem C10_exec_msg_id_collision_refuted :
  exists i i', exec_reorder i i' /\ ids_faithful ex_nid (nitems (xi_aos i)) /\ ex_xcanon i <> ex_xcanon i'.
Proof. exact exec_msg_id_collision_refuted. Qed.
Print Assumptions C10_exec_msg_id_collision_refuted.

Theorem C10_exec_nonce_id_collision_refuted :
  exists i i', exec_reorder i i' /\ (forall k, ids_faithful em_hid (mitems k (xi_aos i))) /\
    exec_outcome_canon (fun _ => 0%N) ex_hash 0 ex_leaf ex_size ex_gas 1000 1000 i <>
    exec_outcome_canon (fun _ => 0%N) ex_hash 0 ex_leaf ex_size ex_gas 1000 1000 i'.
Proof. exact exec_nonce_id_collision_refuted. Qed.
Print Assumptions C10_exec_nonce_id_collision_refuted.

(* 7b. unique sort keys (F29): consensus does not guarantee them - the merged observation of round ex_x1 has two valid
      commit data with one (source chain, range start).  Since the repair of F76 getCommitReportsOutcome drops such
      conflicting reports, so the pending list it produces has unique keys; before it (get_commit_reports_unfixed) both
      stayed, and 7 did not need unique keys: the stable sorts keep ties in GetValid order, which is the id order.  If
      GetValid ranges in cache order instead (before the repair of F17), the same cache in two range orders gave two
      outcomes exactly because the sort key was shared. *)
Theorem C10_exec_consensus_dupkey_example :
  exec_ids_faithful ex_nid ex_x1 /\
  exists m, exec_merge_rt ex_nid exec_rt_id 1 9 (x_fchain ex_xcfg) ex_xaos = Ok m /\
            ~ NoDup (map (fun cd => (ExecReport.c_src cd, ExecReport.c_start cd)) (get_commit_reports_unfixed m)) /\
            NoDup (map (fun cd => (ExecReport.c_src cd, ExecReport.c_start cd)) (get_commit_reports m)).
Proof. exact exec_consensus_dupkey_example. Qed.
Print Assumptions C10_exec_consensus_dupkey_example.

Theorem C10_exec_dupkey_refuted :
  let c := cache_of ec_id (citems 1 ex_xaos) in
  let out := fun l => new_outcome 1 (get_commit_reports_unfixed (mkEmerged [(1%N, l)] [] [] [] [])) [] in
  Permutation c (rev c) /\ NoDup (map fst c) /\
  out (get_valid_unfixed 2 c) <> out (get_valid_unfixed 2 (rev c)) /\
  out (get_valid 2 c) = out (get_valid 2 (rev c)).
Proof. exact exec_dupkey_unfixed_refuted. Qed.
Print Assumptions C10_exec_dupkey_refuted.

(* 8. Reports: content decided by the outcome, transmission schedule = GetTransmissionSchedule of the role map
      (chain -> oracle set) and the oracle id set; independent of the iteration order of the role map, of each oracle
      set and of the oracle id enumeration. *)
Theorem C10_schedule_role_map_only : forall roles roles' dest order order' mult,
  roles_reorder roles roles' -> Permutation order order' ->
  transmission_schedule roles dest order mult = transmission_schedule roles' dest order' mult.
Proof. exact schedule_deterministic. Qed.
Print Assumptions C10_schedule_role_map_only.

Theorem C10_commit_reports_deterministic : forall rt rt' i i' roles roles' order order' mult,
  commit_rt_ok rt -> commit_rt_ok rt' -> commit_reorder i i' ->
  roles_reorder roles roles' -> Permutation order order' ->
  commit_reports_canon_rt rt i roles order mult = commit_reports_canon_rt rt' i' roles' order' mult.
Proof. exact commit_reports_deterministic. Qed.
Print Assumptions C10_commit_reports_deterministic.

Theorem C10_exec_reports_deterministic :
  forall nid hash zero leaf_hash enc_size tree_gas max_size max_gas rt rt' i i' roles roles' order order' mult,
  exec_rt_ok rt -> exec_rt_ok rt' -> exec_reorder i i' -> exec_ids_faithful nid i ->
  roles_reorder roles roles' -> Permutation order order' ->
  exec_reports_canon_rt nid hash zero leaf_hash enc_size tree_gas max_size max_gas rt i roles order mult =
  exec_reports_canon_rt nid hash zero leaf_hash enc_size tree_gas max_size max_gas rt' i' roles' order' mult.
Proof. exact exec_reports_deterministic. Qed.
Print Assumptions C10_exec_reports_deterministic.

Example C10_reports_schedule_example :
  let roles := [(1, [0; 1; 2]); (9, [3; 1; 0])]%N in
  let roles' := [(9, [0; 1; 3]); (1, [2; 1; 0])]%N in
  roles_reorder roles roles' /\
  transmission_schedule roles 9 [0; 1; 2; 3]%N 10 = Some ([0; 1; 3]%N, [10; 20; 30]%Z) /\
  transmission_schedule roles' 9 [3; 2; 1; 0]%N 10 = Some ([0; 1; 3]%N, [10; 20; 30]%Z).
Proof. exact reports_schedule_example. Qed.
Print Assumptions C10_reports_schedule_example.

Require Import Verif.Check.C10_check Verif.Proofs.JudgeSoundC10P.
(* ---- the executable properties of Check/C10_check.v are the property (judge soundness) ---- *)

(* determinism sinks (C10_commit / C10_exec): the sink's output is the number of distinct (Outcome + Reports) results the
   harness saw over its R evaluations; the model's answer is the constant 1 and passes its own property *)
Theorem C10_judge_det_model_passes : forall i, det_ok i (det_model i) = true.
Proof. exact det_model_passes. Qed.
Print Assumptions C10_judge_det_model_passes.

(* a count that passes is the model's: exactly one distinct result (the property tests nothing else: the count is made
   by the harness) *)
Theorem C10_judge_det_sound : forall i o, det_ok i o = true -> o = det_model i.
Proof. exact det_sound. Qed.
Print Assumptions C10_judge_det_sound.

(* the model's constant is the conclusion of C10_commit_outcome_deterministic / C10_commit_reports_deterministic /
   C10_exec_outcome_deterministic: over ANY non-empty family of runs, each with its own runtime (iteration order of every
   internal map) and its own re-ordering of the maps of the input (for reports: also of the role map and the oracle id
   set), the results have exactly [det_model x] = 1 distinct values.
   [distinct_count l n]: some duplicate-free list with the same members as l has length n *)
Theorem C10_judge_det_model_commit_outcome : forall (i : commit_in) (runs : list (commit_rt * commit_in)) (x : det_in),
  runs <> [] -> (forall rt i', In (rt, i') runs -> commit_rt_ok rt /\ commit_reorder i i') ->
  distinct_count (map (fun r => commit_outcome_canon_rt (fst r) (snd r)) runs) (det_model x).
Proof. exact det_model_commit_outcome. Qed.
Print Assumptions C10_judge_det_model_commit_outcome.

Theorem C10_judge_det_model_commit_reports :
  forall roles order mult (i : commit_in) (runs : list (commit_rt * (commit_in * CommitConsensus.roles_t * list N))) (x : det_in),
  runs <> [] ->
  (forall rt i' roles' order', In (rt, (i', roles', order')) runs ->
     commit_rt_ok rt /\ commit_reorder i i' /\ roles_reorder roles roles' /\ Permutation order order') ->
  distinct_count (map (fun r => commit_reports_canon_rt (fst r) (fst (fst (snd r))) (snd (fst (snd r))) (snd (snd r)) mult) runs)
                 (det_model x).
Proof. exact det_model_commit_reports. Qed.
Print Assumptions C10_judge_det_model_commit_reports.

Theorem C10_judge_det_model_exec_outcome :
  forall (hash : N -> N -> N) (zero : N) (leaf_hash : ExecReport.msg -> option N)
         (enc_size : ExecReport.creport -> option N) (tree_gas : N -> N) (max_size max_gas : N) (nid : nonce3 -> N)
         (i : exec_in) (runs : list (exec_rt * exec_in)) (x : det_in),
  exec_ids_faithful nid i ->
  runs <> [] -> (forall rt i', In (rt, i') runs -> exec_rt_ok rt /\ exec_reorder i i') ->
  distinct_count (map (fun r => exec_outcome_canon_rt nid hash zero leaf_hash enc_size tree_gas max_size max_gas
                                                      (fst r) (snd r)) runs) (det_model x).
Proof. exact det_model_exec_outcome. Qed.
Print Assumptions C10_judge_det_model_exec_outcome.

(* the count is well defined, and the hypotheses are satisfiable by two different runs of the 4-oracle commit round *)
Theorem C10_judge_distinct_count_unique : forall (A : Type) (results : list A) n m,
  distinct_count results n -> distinct_count results m -> n = m.
Proof. exact @distinct_count_unique. Qed.
Print Assumptions C10_judge_distinct_count_unique.

Example C10_judge_det_model_commit_example :
  let runs := [(commit_rt_id, commit_in_rev ex_ci); (commit_rt_rev, commit_in_rev ex_ci)] in
  (forall rt i', In (rt, i') runs -> commit_rt_ok rt /\ commit_reorder ex_ci i') /\
  ex_ci <> commit_in_rev ex_ci /\
  distinct_count (map (fun r => commit_outcome_canon_rt (fst r) (snd r)) runs) 1.
Proof. exact det_model_commit_example. Qed.
Print Assumptions C10_judge_det_model_commit_example.

(* sink C16_rep_exec_roles -> rep_roles_judge = C16_check.rep_judge (Plugin.Reports of four long-lived oracles for one
   outcome): the executable property is the one proved sound in Proofs/JudgeSoundC16P.v.  One distinct answer per input
   (every oracle derives the same reports), and a report carries exactly the schedule of C16. *)
Require Verif.Model.Transmit Verif.Check.C16_check Verif.Proofs.JudgeSoundC16P.

Theorem C10_judge_rep_roles_model_passes : forall plugin items empty mult,
  NoDup (map fst items) ->
  C16_check.rep_ok (plugin, items, empty, mult) (C16_check.rep_model (plugin, items, empty, mult)) = true.
Proof. exact (fun p it e m => JudgeSoundC16P.rep_model_passes (p, it, e, m)). Qed.
Print Assumptions C10_judge_rep_roles_model_passes.

Theorem C10_judge_rep_roles_sound : forall plugin items empty mult o,
  NoDup (map fst items) -> C16_check.rep_ok (plugin, items, empty, mult) o = true ->
  exists r, o = [r] /\
    match r with
    | Ok None => plugin = 0%N /\ empty = true
    | Ok (Some s) => Transmit.schedule (C16_check.sup_of items) (map fst items) mult = Some s
    | Err => (plugin = 0%N /\ empty = true) \/ Transmit.schedule (C16_check.sup_of items) (map fst items) mult = None
    | _ => False
    end.
Proof. exact (fun p it e m => JudgeSoundC16P.rep_sound (p, it, e, m)). Qed.
Print Assumptions C10_judge_rep_roles_sound.

(* C10 — All honest oracles compute byte-identical outcomes and reports.
   Theorems only; proofs are in Proofs/DeterminismP.v, Proofs/TransmitP.v, Proofs/BaseP.v. *)
Require Import Verif.Model.Base Verif.Proofs.BaseP Verif.Model.Consensus Verif.Model.Determinism
               Verif.Proofs.DeterminismP Verif.Model.Transmit Verif.Proofs.TransmitP.

(* 1. Every consensus map (fChain, merkle roots, on-ramp / off-ramp numbers, RMN config; GetConsensusMap), once
      sorted by key as the outcome encoders do, is the same whatever order the Go runtime iterates the aggregated
      map in and whatever order the votes of one key were appended in (per-oracle maps are ranged over too). *)
Theorem C10_consensus_map_order_independent :
  forall (T : Type) (eqb : T -> T -> bool), (forall x y, reflect (x = y) (eqb x y)) ->
  forall (thr_of : N -> option N) m m1 m',
    (forall k t, thr_of k = Some t -> (0 < t)%N) ->
    NoDup (map fst m) ->
    same_votes m m1 -> Permutation m1 m' ->
    sort_by (kle (fun p : N * T => fst p)) (consensus_map eqb thr_of m) =
    sort_by (kle (fun p : N * T => fst p)) (consensus_map eqb thr_of m').
Proof. exact @consensus_map_order_indep. Qed.
Print Assumptions C10_consensus_map_order_independent.

(* 2. Lists that are sorted on a unique key before encoding (ranges, roots, off-ramp numbers by chain; token prices by
      token; gas prices by chain; chain reports by source) have one canonical order. *)
Theorem C10_sorted_output_canonical : forall (A : Type) (key : A -> N) (l l' : list A),
  NoDup (map key l) -> Permutation l l' -> sort_by (kle key) l = sort_by (kle key) l'.
Proof. exact @sorted_output_canonical. Qed.
Print Assumptions C10_sorted_output_canonical.

(* 3. GetValid (after the repair) is a function of the cache content, not of the map iteration order, and still
      returns exactly the items that reached the threshold. *)
Theorem C10_get_valid_order_independent : forall (T : Type) thr (c c' : cache T),
  NoDup (map fst c) -> Permutation c c' -> get_valid thr c = get_valid thr c'.
Proof. exact @get_valid_order_indep. Qed.
Print Assumptions C10_get_valid_order_independent.

Theorem C10_get_valid_members : forall (T : Type) thr (c : cache T) x,
  In x (get_valid thr c) <-> exists id n, In (id, (x, n)) c /\ (thr <= n)%N.
Proof. exact @get_valid_members. Qed.
Print Assumptions C10_get_valid_members.

(* 3'. Before the repair: two iteration orders gave two different last-writer-wins results (F17). *)
Theorem C10_get_valid_unfixed_refuted :
  exists (c c' : cache N) thr k,
    Permutation c c' /\ NoDup (map fst c) /\
    lww_lookup (fun _ => 7%N) (get_valid_unfixed thr c) k <> lww_lookup (fun _ => 7%N) (get_valid_unfixed thr c') k.
Proof. exact get_valid_unfixed_refuted. Qed.
Print Assumptions C10_get_valid_unfixed_refuted.

(* 4. Transmission schedule: identical for every enumeration order of the oracle ids (shared with C16). *)
Theorem C10_schedule_order_independent : forall sup order order' mult,
  Permutation order order' -> schedule sup order mult = schedule sup order' mult.
Proof. exact schedule_order_indep. Qed.
Print Assumptions C10_schedule_order_independent.

(* 5. Time zone: after normalisation to UTC the identity of a timestamped item is its instant, for every process
      zone; before the repair the partition into identical items depended on the zone (F25). *)
Theorem C10_tz_identity_zone_independent : forall loc loc' t1 t2,
  render_eqb (render loc (to_utc t1)) (render loc (to_utc t2)) =
  render_eqb (render loc' (to_utc t1)) (render loc' (to_utc t2)).
Proof. exact utc_identity_zone_indep. Qed.
Print Assumptions C10_tz_identity_zone_independent.

Theorem C10_tz_identity_is_instant : forall loc t1 t2,
  render_eqb (render loc (to_utc t1)) (render loc (to_utc t2)) = Z.eqb (instant t1) (instant t2).
Proof. exact utc_identity_is_instant. Qed.
Print Assumptions C10_tz_identity_is_instant.

Theorem C10_tz_raw_identity_refuted :
  exists loc loc' t1 t2,
    render_eqb (render loc t1) (render loc t2) <> render_eqb (render loc' t1) (render loc' t2).
Proof. exact raw_identity_zone_dependent_refuted. Qed.
Print Assumptions C10_tz_raw_identity_refuted.

(* C01 — Commit consensus needs 2f+1 distinct designated observers per chain.
   This file holds the property theorems only; each is closed by [exact] of a lemma proved in Proofs/.

   Vocabulary (Proofs/CommitConsensusP.v):
     valid_input retry roles known dest aos  = the oracle ids of [aos] are pairwise distinct (libocr) and every
                                               observation passed Processor.ValidateObservation (model: validate_obs)
                                               and its fChain Go map has unique keys;
     reported get aos o k v                  = oracle o's observation in [aos] lists entry (k, v) in field [get];
     supported_by P thr                      = there is a duplicate-free list of exactly the oracles satisfying P,
                                               of length >= thr;
     agreed_value get aos k thr v            = supported_by (reported .. k v) thr, and v is the only such value;
     designated roles k o                    = the role assignment lists o for chain k;
     honest_support P B n                    = >= n distinct oracles outside B satisfy P.
   Thresholds are [two_f_plus_1 f] = Go's Threshold(2*f+1) (int arithmetic converted to uint);
   C01_threshold_value says it is 2f+1 for every f a Go int can hold without overflow of 2f+1. *)
Require Import Verif.Model.Base Verif.Model.Consensus Verif.Model.CommitConsensus Verif.Model.Discovery
               Verif.Proofs.CommitConsensusP Verif.Proofs.DiscoveryP.

Theorem C01_threshold_value : forall f, (0 <= f < 2^63)%Z -> two_f_plus_1 f = Z.to_N (2 * f + 1).
Proof. exact two_f_plus_1_int. Qed.
Print Assumptions C01_threshold_value.

(* the per-chain f values are adopted iff 2F+1 distinct oracles of the DON report exactly that f and no other
   value has such support; adopted values are positive *)
Theorem C01_fchain : forall retry roles known dest aos,
  valid_input retry roles known dest aos ->
  forall F c, get_consensus F dest aos = Ok c ->
  forall k f, alookup k (c_fchain c) = Some f <-> agreed_value fchain_kv aos k (two_f_plus_1 F) f.
Proof. exact fchain_iff. Qed.
Print Assumptions C01_fchain.

Theorem C01_fchain_positive : forall retry roles known dest aos,
  valid_input retry roles known dest aos ->
  forall F c, get_consensus F dest aos = Ok c ->
  forall k f, alookup k (c_fchain c) = Some f -> (0 < f)%Z.
Proof. exact fchain_positive. Qed.
Print Assumptions C01_fchain_positive.

(* no agreed f for the destination <=> no consensus observation at all (empty outcome) *)
Theorem C01_dest_required : forall F dest aos,
  get_consensus F dest aos = Err <->
  alookup dest (consensus_map Z.eqb (fun _ : N => Some (two_f_plus_1 F)) (agg_map fchain_kv aos)) = None.
Proof. exact dest_required. Qed.
Print Assumptions C01_dest_required.

(* root (with interval and on-ramp address) / on-ramp max / RMN remote config:
   k |-> v is in the consensus  <=>  f_k is agreed and v is THE value with >= 2 f_k + 1 distinct reporters.
   (=> "only if 2f+1 distinct oracles reported exactly that value"; <= "left out otherwise, and only then")
   off-ramp next (destination data: by C01_designated only designated readers of the destination report it; as
   repaired by fixes/F26.patch): k |-> v is in the consensus <=> v is THE value with >= 2 f_dest + 1 distinct
   reporters — f of the chain the data is read from, for every source key k (also one whose own f is not agreed). *)
Theorem C01_per_chain : forall retry roles known dest aos,
  valid_input retry roles known dest aos ->
  forall F c, get_consensus F dest aos = Ok c ->
  forall k,
    (forall v, alookup k (c_roots c) = Some v <->
       exists f, alookup k (c_fchain c) = Some f /\ agreed_value roots_kv aos k (two_f_plus_1 f) v) /\
    (forall v, alookup k (c_onramp c) = Some v <->
       exists f, alookup k (c_fchain c) = Some f /\ agreed_value onramp_kv aos k (two_f_plus_1 f) v) /\
    (forall v, alookup k (c_offramp c) = Some v <->
       exists fd, alookup dest (c_fchain c) = Some fd /\ agreed_value offramp_kv aos k (two_f_plus_1 fd) v) /\
    (forall v, alookup k (c_rmn c) = Some v <->
       exists f, alookup k (c_fchain c) = Some f /\ agreed_value (rmn_kv dest) aos k (two_f_plus_1 f) v).
Proof. exact per_chain_iff. Qed.
Print Assumptions C01_per_chain.

(* one oracle = one vote: in the attributed vote list of every chain and field no oracle occurs twice, and the
   aggregated lists the consensus counts over are exactly those vote lists with the attribution dropped *)
Theorem C01_one_vote : forall retry roles known dest aos,
  valid_input retry roles known dest aos ->
  forall k,
    NoDup (map fst (votes roots_kv aos k)) /\
    NoDup (map fst (votes onramp_kv aos k)) /\
    NoDup (map fst (votes offramp_kv aos k)) /\
    NoDup (map fst (votes (rmn_kv dest) aos k)) /\
    NoDup (map fst (votes fchain_kv aos k)) /\
    (forall l, In (k, l) (a_roots (aggregate aos)) -> l = map snd (votes roots_kv aos k)) /\
    (forall l, In (k, l) (a_onramp (aggregate aos)) -> l = map snd (votes onramp_kv aos k)) /\
    (forall l, In (k, l) (a_offramp (aggregate aos)) -> l = map snd (votes offramp_kv aos k)) /\
    (forall l, In (k, l) (a_fchain (aggregate aos)) -> l = map snd (votes fchain_kv aos k)) /\
    a_rmn (aggregate aos) = map snd (votes (rmn_kv dest) aos dest).
Proof. exact one_vote. Qed.
Print Assumptions C01_one_vote.

(* ... and validation is what makes it so: without it a single oracle repeating a root gets it agreed alone *)
Theorem C01_one_vote_unvalidated_refuted :
  exists F dest aos c k v,
    NoDup (map fst aos) /\ get_consensus F dest aos = Ok c /\ alookup k (c_roots c) = Some v /\
    forall o, reported roots_kv aos o k v -> o = 0%N.
Proof. exact one_vote_unvalidated_refuted. Qed.
Print Assumptions C01_one_vote_unvalidated_refuted.

(* the votes that count come from designated observers: source-chain data from readers of that chain,
   off-ramp numbers and the RMN remote config from readers of the destination *)
Theorem C01_designated : forall retry roles known dest aos,
  valid_input retry roles known dest aos ->
  forall o k,
    (forall v, reported roots_kv aos o k v -> designated roles k o) /\
    (forall v, reported onramp_kv aos o k v -> designated roles k o) /\
    (forall v, reported offramp_kv aos o k v -> designated roles dest o) /\
    (forall v, reported (rmn_kv dest) aos o k v -> k = dest /\ designated roles dest o).
Proof. exact reporters_designated. Qed.
Print Assumptions C01_designated.

(* no group B of at most f_k oracles can add a value: every agreed value has f_k + 1 reporters outside B *)
Theorem C01_byzantine : forall retry roles known dest aos F c,
  valid_input retry roles known dest aos ->
  get_consensus F dest aos = Ok c ->
  forall k f B,
    alookup k (c_fchain c) = Some f -> (f < 2^63)%Z -> NoDup B -> (length B <= Z.to_nat f)%nat ->
    (forall v, alookup k (c_roots c) = Some v ->
       honest_support (fun o => reported roots_kv aos o k v) B (Z.to_nat f + 1)) /\
    (forall v, alookup k (c_onramp c) = Some v ->
       honest_support (fun o => reported onramp_kv aos o k v) B (Z.to_nat f + 1)) /\
    (forall v, alookup k (c_rmn c) = Some v ->
       honest_support (fun o => reported (rmn_kv dest) aos o k v) B (Z.to_nat f + 1)).
Proof. exact byzantine. Qed.
Print Assumptions C01_byzantine.

(* off-ramp next numbers: no group B of at most f_dest oracles can add one, for any source key k *)
Theorem C01_byzantine_offramp : forall retry roles known dest aos F c,
  valid_input retry roles known dest aos ->
  get_consensus F dest aos = Ok c ->
  forall fd B,
    alookup dest (c_fchain c) = Some fd -> (fd < 2^63)%Z -> NoDup B -> (length B <= Z.to_nat fd)%nat ->
    forall k v, alookup k (c_offramp c) = Some v ->
      honest_support (fun o => reported offramp_kv aos o k v) B (Z.to_nat fd + 1).
Proof. exact byzantine_offramp. Qed.
Print Assumptions C01_byzantine_offramp.

(* F26: before the repair the off-ramp number of source chain k was agreed at 2*f_k+1. Witness (10 oracles, F = 3,
   f_dest = 3, f_k = 1, B = {7,8,9}): (a) the three oracles of B alone get 999 agreed (the repaired function leaves
   it out); (b) with 2*f_dest+1 oracles outside B reporting 10 and only B dissenting, nothing is agreed (the repaired
   function agrees 10). The liveness face of the same defect (f_k > f_dest) is C04_liveness_unfixed_refuted. *)
Theorem C01_offramp_key_f_unfixed_refuted :
  exists F dest roles known k fd B aos_a aos_b,
    NoDup B /\ (length B <= Z.to_nat fd)%nat /\
    valid_input false roles known dest aos_a /\ valid_input false roles known dest aos_b /\
    (exists c, get_consensus_unfixed F dest aos_a = Ok c /\ alookup dest (c_fchain c) = Some fd /\
               alookup k (c_offramp c) = Some 999%N /\
               forall o v, reported offramp_kv aos_a o k v -> In o B) /\
    (exists c, get_consensus F dest aos_a = Ok c /\ alookup k (c_offramp c) = None) /\
    (exists H, NoDup H /\ length H = Z.to_nat (2 * fd + 1) /\
               forall o, In o H -> ~ In o B /\ reported offramp_kv aos_b o k 10%N) /\
    (forall o v, reported offramp_kv aos_b o k v -> v <> 10%N -> In o B) /\
    (exists c, get_consensus_unfixed F dest aos_b = Ok c /\ alookup dest (c_fchain c) = Some fd /\
               alookup k (c_offramp c) = None) /\
    (exists c, get_consensus F dest aos_b = Ok c /\ alookup k (c_offramp c) = Some 10%N).
Proof. exact offramp_key_f_unfixed_refuted. Qed.
Print Assumptions C01_offramp_key_f_unfixed_refuted.

(* ... nor alter one: if all oracles outside B that report a root for k report h, the agreed root can only be h *)
Theorem C01_byzantine_cannot_alter : forall retry roles known dest aos F c,
  valid_input retry roles known dest aos ->
  get_consensus F dest aos = Ok c ->
  forall k f B h,
    alookup k (c_fchain c) = Some f -> (f < 2^63)%Z -> NoDup B -> (length B <= Z.to_nat f)%nat ->
    (forall o v, ~ In o B -> reported roots_kv aos o k v -> v = h) ->
    forall v, alookup k (c_roots c) = Some v -> v = h.
Proof. exact byzantine_cannot_alter. Qed.
Print Assumptions C01_byzantine_cannot_alter.

(* discovered contract addresses (after the repair of F03): on-ramps at the destination's f, the other four
   maps at the key chain's f; same "iff unique value with 2f+1 distinct reporters" shape *)
Theorem C01_discovery : forall F dest aos,
  dvalid_input aos ->
  forall k,
    (forall f, alookup k (d_fchain_cons F aos) = Some f <-> agreed_value d_fchain_obs aos k (two_f_plus_1 F) f) /\
    (forall a, alookup k (dc_onramp (discovery_outcome F dest aos)) = Some a <->
       exists fd, alookup dest (d_fchain_cons F aos) = Some fd /\ agreed_value onramp_dkv aos k (two_f_plus_1 fd) a) /\
    (forall a, alookup k (dc_nonce (discovery_outcome F dest aos)) = Some a <->
       exists f, alookup k (d_fchain_cons F aos) = Some f /\ agreed_value (nonce_dkv dest) aos k (two_f_plus_1 f) a) /\
    (forall a, alookup k (dc_rmn (discovery_outcome F dest aos)) = Some a <->
       exists f, alookup k (d_fchain_cons F aos) = Some f /\ agreed_value (rmn_dkv dest) aos k (two_f_plus_1 f) a) /\
    (forall a, alookup k (dc_feeq (discovery_outcome F dest aos)) = Some a <->
       exists f, alookup k (d_fchain_cons F aos) = Some f /\ agreed_value feeq_dkv aos k (two_f_plus_1 f) a) /\
    (forall a, alookup k (dc_router (discovery_outcome F dest aos)) = Some a <->
       exists f, alookup k (d_fchain_cons F aos) = Some f /\ agreed_value router_dkv aos k (two_f_plus_1 f) a).
Proof. exact discovery_iff. Qed.
Print Assumptions C01_discovery.

Theorem C01_discovery_reported : forall dest aos o k a,
    (reported onramp_dkv aos o k a <-> exists ob, In (o, ob) aos /\ In (k, a) (d_onramp ob) /\ a <> 0%N) /\
    (reported feeq_dkv aos o k a <-> exists ob, In (o, ob) aos /\ In (k, a) (d_feeq ob) /\ a <> 0%N) /\
    (reported router_dkv aos o k a <-> exists ob, In (o, ob) aos /\ In (k, a) (d_router ob) /\ a <> 0%N) /\
    (reported (nonce_dkv dest) aos o k a <->
       k = dest /\ exists ob, In (o, ob) aos /\ alookup dest (d_nonce ob) = Some a /\ a <> 0%N) /\
    (reported (rmn_dkv dest) aos o k a <->
       k = dest /\ exists ob, In (o, ob) aos /\ alookup dest (d_rmn ob) = Some a /\ a <> 0%N).
Proof. exact discovery_reported. Qed.
Print Assumptions C01_discovery_reported.

Theorem C01_discovery_byzantine : forall F dest aos,
  dvalid_input aos ->
  forall k B,
    NoDup B ->
    (forall a fd, alookup dest (d_fchain_cons F aos) = Some fd -> (0 <= fd < 2^63)%Z -> (length B <= Z.to_nat fd)%nat ->
       alookup k (dc_onramp (discovery_outcome F dest aos)) = Some a ->
       honest_support (fun o => reported onramp_dkv aos o k a) B (Z.to_nat fd + 1)) /\
    (forall a f, alookup k (d_fchain_cons F aos) = Some f -> (0 <= f < 2^63)%Z -> (length B <= Z.to_nat f)%nat ->
       (alookup k (dc_nonce (discovery_outcome F dest aos)) = Some a ->
          honest_support (fun o => reported (nonce_dkv dest) aos o k a) B (Z.to_nat f + 1)) /\
       (alookup k (dc_rmn (discovery_outcome F dest aos)) = Some a ->
          honest_support (fun o => reported (rmn_dkv dest) aos o k a) B (Z.to_nat f + 1)) /\
       (alookup k (dc_feeq (discovery_outcome F dest aos)) = Some a ->
          honest_support (fun o => reported feeq_dkv aos o k a) B (Z.to_nat f + 1)) /\
       (alookup k (dc_router (discovery_outcome F dest aos)) = Some a ->
          honest_support (fun o => reported router_dkv aos o k a) B (Z.to_nat f + 1))).
Proof. exact discovery_byzantine. Qed.
Print Assumptions C01_discovery_byzantine.

(* F03: the function as it was before the repair adopts an on-ramp address reported by one oracle *)
Theorem C01_discovery_onramp_unfixed_refuted :
  exists F dest aos k a,
    dvalid_input aos /\
    alookup dest (d_fchain_cons F aos) = None /\
    alookup k (dc_onramp (discovery_outcome_unfixed F dest aos)) = Some a /\
    (forall o, reported onramp_dkv aos o k a -> o = 3%N) /\
    alookup k (dc_onramp (discovery_outcome F dest aos)) = None.
Proof. exact discovery_onramp_unfixed_refuted. Qed.
Print Assumptions C01_discovery_onramp_unfixed_refuted.

Require Import Verif.Proofs.BaseP Verif.Proofs.JudgeSoundC01P Verif.Check.C01_check.
(* ---- the executable properties of Check/C01_check.v are the property (judge soundness) ---- *)
(* Vocabulary added by Proofs/JudgeSoundC01P.v:
     field_spec get aos thr_of out   = [out] has unique keys and  k |-> v is in it  <=>  k has a threshold thr and
                                       agreed_value get aos k thr v  (the shape of C01_fchain / C01_per_chain / C01_discovery);
     consensus_clauses F dest acc r  = the conclusions of C01_dest_required / C01_fchain / C01_per_chain for an ARBITRARY
                                       answer r over the accepted observations acc (spelled out in C01_judge_mr_sound);
     discovery_clauses F dest aos c  = the five address-map clauses of C01_discovery for an ARBITRARY Sync argument c
                                       (spelled out in C01_judge_disc_sound).
   [select vs aos] = the observations of aos whose verdict in vs is true. *)

(* the heart of every sink: the executable per-map check (count DISTINCT reporters, unique value over the threshold,
   unique keys) holds exactly when the map is the one the theorems describe *)
Theorem C01_judge_field_ok_iff : forall (O V : Type) (e : V -> V -> bool),
  (forall x y, reflect (x = y) (e x y)) ->
  forall (get : O -> list (N * V)) (aos : list (N * O)) (thr_of : N -> option N),
  (forall k t, thr_of k = Some t -> (0 < t)%N) ->
  forall out, field_ok e get aos thr_of out = true <->
    NoDup (map fst out) /\
    forall k v, alookup k out = Some v <-> exists thr, thr_of k = Some thr /\ agreed_value get aos k thr v.
Proof. exact (fun O V => @field_ok_iff O V). Qed.
Print Assumptions C01_judge_field_ok_iff.

(* sink C01_mr. Premises of (a): one observation per oracle (libocr), FChain is a Go map *)
Theorem C01_judge_mr_model_passes : forall F dest retry roles known aos,
  NoDup (map fst aos) ->
  (forall o ob, In (o, ob) aos -> NoDup (map fst (o_fchain ob))) ->
  mr_ok (F, dest, retry, roles, known, aos) (mr_model (F, dest, retry, roles, known, aos)) = true.
Proof. exact mr_model_passes. Qed.
Print Assumptions C01_judge_mr_model_passes.

(* an implementation answer (verdicts vs, consensus r) that passes mr_judge satisfies, over the observations it let
   through: C01_one_vote (roots / on-ramp / off-ramp / RMN votes), C01_designated, positive fChain claims, and
   C01_dest_required / C01_fchain / C01_per_chain with at most one value per key — no premise *)
Theorem C01_judge_mr_sound : forall F dest retry roles known aos vs r,
  mr_ok (F, dest, retry, roles, known, aos) (vs, r) = true ->
  let acc := select vs aos in
  length vs = length aos /\ NoDup (map fst aos) /\ NoDup (map fst acc) /\
  (forall k, NoDup (map fst (votes roots_kv acc k)) /\ NoDup (map fst (votes onramp_kv acc k)) /\
             NoDup (map fst (votes offramp_kv acc k)) /\ NoDup (map fst (votes (rmn_kv dest) acc k))) /\
  (forall o k,
     (forall v, reported roots_kv acc o k v -> designated roles k o) /\
     (forall v, reported onramp_kv acc o k v -> designated roles k o) /\
     (forall v, reported offramp_kv acc o k v -> designated roles dest o) /\
     (forall v, reported (rmn_kv dest) acc o k v -> k = dest /\ designated roles dest o)) /\
  (forall o k f, reported fchain_kv acc o k f -> (0 < f)%Z) /\
  match r with
  | Err => forall f, ~ agreed_value fchain_kv acc dest (two_f_plus_1 F) f
  | Ok c =>
      (forall k f, alookup k (c_fchain c) = Some f <-> agreed_value fchain_kv acc k (two_f_plus_1 F) f) /\
      (exists fd, alookup dest (c_fchain c) = Some fd) /\
      (NoDup (map fst (c_fchain c)) /\ NoDup (map fst (c_roots c)) /\ NoDup (map fst (c_onramp c)) /\
       NoDup (map fst (c_offramp c)) /\ NoDup (map fst (c_rmn c))) /\
      forall k,
        (forall v, alookup k (c_roots c) = Some v <->
           exists f, alookup k (c_fchain c) = Some f /\ agreed_value roots_kv acc k (two_f_plus_1 f) v) /\
        (forall v, alookup k (c_onramp c) = Some v <->
           exists f, alookup k (c_fchain c) = Some f /\ agreed_value onramp_kv acc k (two_f_plus_1 f) v) /\
        (forall v, alookup k (c_offramp c) = Some v <->
           exists fd, alookup dest (c_fchain c) = Some fd /\ agreed_value offramp_kv acc k (two_f_plus_1 fd) v) /\
        (forall v, alookup k (c_rmn c) = Some v <->
           exists f, alookup k (c_fchain c) = Some f /\ agreed_value (rmn_kv dest) acc k (two_f_plus_1 f) v)
  | _ => False
  end.
Proof. exact mr_sound. Qed.
Print Assumptions C01_judge_mr_sound.

(* transfer of C01_byzantine / C01_byzantine_offramp to an arbitrary answer that passes mr_judge *)
Theorem C01_judge_mr_sound_byzantine : forall F dest retry roles known aos vs c,
  mr_ok (F, dest, retry, roles, known, aos) (vs, Ok c) = true ->
  let acc := select vs aos in
  forall k f B,
    alookup k (c_fchain c) = Some f -> (f < 2^63)%Z -> NoDup B -> (length B <= Z.to_nat f)%nat ->
    (forall v, alookup k (c_roots c) = Some v ->
       honest_support (fun o => reported roots_kv acc o k v) B (Z.to_nat f + 1)) /\
    (forall v, alookup k (c_onramp c) = Some v ->
       honest_support (fun o => reported onramp_kv acc o k v) B (Z.to_nat f + 1)) /\
    (forall v, alookup k (c_rmn c) = Some v ->
       honest_support (fun o => reported (rmn_kv dest) acc o k v) B (Z.to_nat f + 1)) /\
    (k = dest -> forall k' v, alookup k' (c_offramp c) = Some v ->
       honest_support (fun o => reported offramp_kv acc o k' v) B (Z.to_nat f + 1)).
Proof. exact mr_sound_byzantine. Qed.
Print Assumptions C01_judge_mr_sound_byzantine.

(* sink C01_disc. Premise of (a) = the hypothesis of C01_discovery *)
Theorem C01_judge_disc_model_passes : forall F dest sync_fails aos,
  dvalid_input aos ->
  disc_ok (F, dest, sync_fails, aos) (disc_model (F, dest, sync_fails, aos)) = true.
Proof. exact disc_model_passes. Qed.
Print Assumptions C01_judge_disc_model_passes.

(* an answer that passes disc_judge: Sync was called once with a c satisfying the five clauses of C01_discovery, and
   Outcome's error is Sync's. Premise: the nonce-manager / RMN-remote address maps are Go maps (part of dvalid_input;
   its other parts that matter are checked by disc_ok and returned here) *)
Theorem C01_judge_disc_sound : forall F dest sync_fails aos o,
  disc_ok (F, dest, sync_fails, aos) o = true ->
  (forall o' ob, In (o', ob) aos -> NoDup (map fst (d_nonce ob)) /\ NoDup (map fst (d_rmn ob))) ->
  NoDup (map fst aos) /\ (forall o' ob, In (o', ob) aos -> NoDup (map fst (d_fchain_obs ob))) /\
  exists c, o = Ok (c, sync_fails) /\
    (NoDup (map fst (dc_onramp c)) /\ NoDup (map fst (dc_nonce c)) /\ NoDup (map fst (dc_rmn c)) /\
     NoDup (map fst (dc_feeq c)) /\ NoDup (map fst (dc_router c))) /\
    forall k,
      (forall a, alookup k (dc_onramp c) = Some a <->
         exists fd, alookup dest (d_fchain_cons F aos) = Some fd /\ agreed_value onramp_dkv aos k (two_f_plus_1 fd) a) /\
      (forall a, alookup k (dc_nonce c) = Some a <->
         exists f, alookup k (d_fchain_cons F aos) = Some f /\ agreed_value (nonce_dkv dest) aos k (two_f_plus_1 f) a) /\
      (forall a, alookup k (dc_rmn c) = Some a <->
         exists f, alookup k (d_fchain_cons F aos) = Some f /\ agreed_value (rmn_dkv dest) aos k (two_f_plus_1 f) a) /\
      (forall a, alookup k (dc_feeq c) = Some a <->
         exists f, alookup k (d_fchain_cons F aos) = Some f /\ agreed_value feeq_dkv aos k (two_f_plus_1 f) a) /\
      (forall a, alookup k (dc_router c) = Some a <->
         exists f, alookup k (d_fchain_cons F aos) = Some f /\ agreed_value router_dkv aos k (two_f_plus_1 f) a).
Proof. exact disc_sound. Qed.
Print Assumptions C01_judge_disc_sound.

(* the fChain disc_ok evaluates the thresholds with (not observable at Sync) is the agreed fChain of the theorems *)
Theorem C01_judge_disc_fchain : forall F aos,
  NoDup (map fst aos) -> (forall o ob, In (o, ob) aos -> NoDup (map fst (d_fchain_obs ob))) ->
  forall k f, alookup k (d_fchain F aos) = Some f <-> agreed_value d_fchain_obs aos k (two_f_plus_1 F) f.
Proof. exact d_fchain_iff. Qed.
Print Assumptions C01_judge_disc_fchain.

(* sink C01_plug. Premises of (a): one observation per oracle; FChain and the discovery maps are Go maps *)
Theorem C01_judge_plug_model_passes : forall fresh F dest maxsize roles known aos,
  NoDup (map fst aos) ->
  (forall ao, In ao aos -> NoDup (map fst (o_fchain (fst (fst (snd ao))))) /\ dobs_wf (snd (fst (snd ao)))) ->
  plug_ok (fresh, F, dest, maxsize, roles, known, aos) (plug_model (fresh, F, dest, maxsize, roles, known, aos)) = true.
Proof. exact plug_model_passes. Qed.
Print Assumptions C01_judge_plug_model_passes.

(* an answer that passes plug_judge: the verdicts are those of the validation rules; over what was let through,
   one oracle = one vote and the votes are designated; the merkle outcome (type, ranges, off-ramp next, RMN config id)
   is that of a consensus observation rc satisfying the C01 clauses; the Sync argument satisfies C01_discovery.
   Not observable at this level: the agreed roots (the outcome of this state carries none) *)
Theorem C01_judge_plug_sound : forall fresh F dest maxsize roles known aos vs r,
  plug_ok (fresh, F, dest, maxsize, roles, known, aos) (vs, r) = true ->
  let acc := select (map (plug_validate roles known dest) aos) aos in
  let macc := map plug_mr acc in
  let dacc := map plug_disc acc in
  NoDup (map fst aos) /\
  vs = map (plug_validate roles known dest) aos /\
  (forall k, NoDup (map fst (votes roots_kv macc k)) /\ NoDup (map fst (votes onramp_kv macc k)) /\
             NoDup (map fst (votes offramp_kv macc k)) /\ NoDup (map fst (votes (rmn_kv dest) macc k))) /\
  (forall o k,
     (forall v, reported roots_kv macc o k v -> designated roles k o) /\
     (forall v, reported onramp_kv macc o k v -> designated roles k o) /\
     (forall v, reported offramp_kv macc o k v -> designated roles dest o) /\
     (forall v, reported (rmn_kv dest) macc o k v -> k = dest /\ designated roles dest o)) /\
  exists m d, r = Ok (m, d) /\
    (exists rc, m = mro_of dest maxsize rc /\ consensus_clauses F dest macc rc) /\
    ((forall o' ob, In (o', ob) dacc -> NoDup (map fst (d_nonce ob)) /\ NoDup (map fst (d_rmn ob))) ->
     discovery_clauses F dest dacc d).
Proof. exact plug_sound. Qed.
Print Assumptions C01_judge_plug_sound.

(* the consensus observation plug_ok compares with ("prescribed by the statement", distinct reporters counted
   directly) satisfies the statement for every list of observations — no premise *)
Theorem C01_judge_plug_spec_cons : forall F dest acc, consensus_clauses F dest acc (spec_cons F dest acc).
Proof. exact (fun F dest acc => mr_result_spec_clauses F dest acc _ (spec_cons_spec F dest acc)). Qed.
Print Assumptions C01_judge_plug_spec_cons.

(* sink C01_quorum: the executable property is equality with the model (2F+1 attributed observations) *)
Theorem C01_judge_quorum_model_passes : forall i : Z * Z * Z, Bool.eqb (quorum_model i) (quorum_model i) = true.
Proof. exact quorum_model_passes. Qed.
Print Assumptions C01_judge_quorum_model_passes.

Theorem C01_judge_quorum_sound : forall n f cnt (o : bool),
  Bool.eqb o (quorum_model (n, f, cnt)) = true -> (o = true <-> (2 * f + 1 <= cnt)%Z).
Proof. exact quorum_sound. Qed.
Print Assumptions C01_judge_quorum_sound.

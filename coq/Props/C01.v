(* C01 — Commit consensus needs 2f+1 distinct designated observers per chain.
   This file holds the property theorems only; each is closed by [exact] of a lemma proved in Proofs/.

   Vocabulary (Proofs/CommitConsensusP.v):
     valid_input retry roles known dest aos  = the oracle ids of [aos] are pairwise distinct (libocr) and every
                                               observation passed Processor.ValidateObservation (model: validate_obs)
                                               and its fChain Go map has unique keys;
     reported get aos o k v                  = oracle o's observation in [aos] lists entry (k, v) in field [get];
     supported_by P thr                      = there is a duplicate-free list of exactly the oracles satisfying P,
                                               of length >= thr;
     agreed_value get aos k thr v            = supported_by (reported .. k v) thr, and v is the only such value;
     designated roles k o                    = the role assignment lists o for chain k;
     honest_support P B n                    = >= n distinct oracles outside B satisfy P.
   Thresholds are [two_f_plus_1 f] = Go's Threshold(2*f+1) (int arithmetic converted to uint);
   C01_threshold_value says it is 2f+1 for every f a Go int can hold without overflow of 2f+1. *)
Require Import Verif.Model.Base Verif.Model.Consensus Verif.Model.CommitConsensus Verif.Model.Discovery
               Verif.Proofs.CommitConsensusP Verif.Proofs.DiscoveryP.

Theorem C01_threshold_value : forall f, (0 <= f < 2^63)%Z -> two_f_plus_1 f = Z.to_N (2 * f + 1).
Proof. exact two_f_plus_1_int. Qed.
Print Assumptions C01_threshold_value.

(* the per-chain f values are adopted iff 2F+1 distinct oracles of the DON report exactly that f and no other
   value has such support; adopted values are positive *)
Theorem C01_fchain : forall retry roles known dest aos,
  valid_input retry roles known dest aos ->
  forall F c, get_consensus F dest aos = Ok c ->
  forall k f, alookup k (c_fchain c) = Some f <-> agreed_value fchain_kv aos k (two_f_plus_1 F) f.
Proof. exact fchain_iff. Qed.
Print Assumptions C01_fchain.

Theorem C01_fchain_positive : forall retry roles known dest aos,
  valid_input retry roles known dest aos ->
  forall F c, get_consensus F dest aos = Ok c ->
  forall k f, alookup k (c_fchain c) = Some f -> (0 < f)%Z.
Proof. exact fchain_positive. Qed.
Print Assumptions C01_fchain_positive.

(* no agreed f for the destination <=> no consensus observation at all (empty outcome) *)
Theorem C01_dest_required : forall F dest aos,
  get_consensus F dest aos = Err <->
  alookup dest (consensus_map Z.eqb (fun _ : N => Some (two_f_plus_1 F)) (agg_map fchain_kv aos)) = None.
Proof. exact dest_required. Qed.
Print Assumptions C01_dest_required.

(* root (with interval and on-ramp address) / on-ramp max / RMN remote config:
   k |-> v is in the consensus  <=>  f_k is agreed and v is THE value with >= 2 f_k + 1 distinct reporters.
   (=> "only if 2f+1 distinct oracles reported exactly that value"; <= "left out otherwise, and only then")
   off-ramp next (destination data: by C01_designated only designated readers of the destination report it; as
   repaired by fixes/F26.patch): k |-> v is in the consensus <=> v is THE value with >= 2 f_dest + 1 distinct
   reporters — f of the chain the data is read from, for every source key k (also one whose own f is not agreed). *)
Theorem C01_per_chain : forall retry roles known dest aos,
  valid_input retry roles known dest aos ->
  forall F c, get_consensus F dest aos = Ok c ->
  forall k,
    (forall v, alookup k (c_roots c) = Some v <->
       exists f, alookup k (c_fchain c) = Some f /\ agreed_value roots_kv aos k (two_f_plus_1 f) v) /\
    (forall v, alookup k (c_onramp c) = Some v <->
       exists f, alookup k (c_fchain c) = Some f /\ agreed_value onramp_kv aos k (two_f_plus_1 f) v) /\
    (forall v, alookup k (c_offramp c) = Some v <->
       exists fd, alookup dest (c_fchain c) = Some fd /\ agreed_value offramp_kv aos k (two_f_plus_1 fd) v) /\
    (forall v, alookup k (c_rmn c) = Some v <->
       exists f, alookup k (c_fchain c) = Some f /\ agreed_value (rmn_kv dest) aos k (two_f_plus_1 f) v).
Proof. exact per_chain_iff. Qed.
Print Assumptions C01_per_chain.

(* one oracle = one vote: in the attributed vote list of every chain and field no oracle occurs twice, and the
   aggregated lists the consensus counts over are exactly those vote lists with the attribution dropped *)
Theorem C01_one_vote : forall retry roles known dest aos,
  valid_input retry roles known dest aos ->
  forall k,
    NoDup (map fst (votes roots_kv aos k)) /\
    NoDup (map fst (votes onramp_kv aos k)) /\
    NoDup (map fst (votes offramp_kv aos k)) /\
    NoDup (map fst (votes (rmn_kv dest) aos k)) /\
    NoDup (map fst (votes fchain_kv aos k)) /\
    (forall l, In (k, l) (a_roots (aggregate aos)) -> l = map snd (votes roots_kv aos k)) /\
    (forall l, In (k, l) (a_onramp (aggregate aos)) -> l = map snd (votes onramp_kv aos k)) /\
    (forall l, In (k, l) (a_offramp (aggregate aos)) -> l = map snd (votes offramp_kv aos k)) /\
    (forall l, In (k, l) (a_fchain (aggregate aos)) -> l = map snd (votes fchain_kv aos k)) /\
    a_rmn (aggregate aos) = map snd (votes (rmn_kv dest) aos dest).
Proof. exact one_vote. Qed.
Print Assumptions C01_one_vote.

(* ... and validation is what makes it so: without it a single oracle repeating a root gets it agreed alone *)
Theorem C01_one_vote_unvalidated_refuted :
  exists F dest aos c k v,
    NoDup (map fst aos) /\ get_consensus F dest aos = Ok c /\ alookup k (c_roots c) = Some v /\
    forall o, reported roots_kv aos o k v -> o = 0%N.
Proof. exact one_vote_unvalidated_refuted. Qed.
Print Assumptions C01_one_vote_unvalidated_refuted.

(* the votes that count come from designated observers: source-chain data from readers of that chain,
   off-ramp numbers and the RMN remote config from readers of the destination *)
Theorem C01_designated : forall retry roles known dest aos,
  valid_input retry roles known dest aos ->
  forall o k,
    (forall v, reported roots_kv aos o k v -> designated roles k o) /\
    (forall v, reported onramp_kv aos o k v -> designated roles k o) /\
    (forall v, reported offramp_kv aos o k v -> designated roles dest o) /\
    (forall v, reported (rmn_kv dest) aos o k v -> k = dest /\ designated roles dest o).
Proof. exact reporters_designated. Qed.
Print Assumptions C01_designated.

(* no group B of at most f_k oracles can add a value: every agreed value has f_k + 1 reporters outside B *)
Theorem C01_byzantine : forall retry roles known dest aos F c,
  valid_input retry roles known dest aos ->
  get_consensus F dest aos = Ok c ->
  forall k f B,
    alookup k (c_fchain c) = Some f -> (f < 2^63)%Z -> NoDup B -> (length B <= Z.to_nat f)%nat ->
    (forall v, alookup k (c_roots c) = Some v ->
       honest_support (fun o => reported roots_kv aos o k v) B (Z.to_nat f + 1)) /\
    (forall v, alookup k (c_onramp c) = Some v ->
       honest_support (fun o => reported onramp_kv aos o k v) B (Z.to_nat f + 1)) /\
    (forall v, alookup k (c_rmn c) = Some v ->
       honest_support (fun o => reported (rmn_kv dest) aos o k v) B (Z.to_nat f + 1)).
Proof. exact byzantine. Qed.
Print Assumptions C01_byzantine.

(* off-ramp next numbers: no group B of at most f_dest oracles can add one, for any source key k *)
Theorem C01_byzantine_offramp : forall retry roles known dest aos F c,
  valid_input retry roles known dest aos ->
  get_consensus F dest aos = Ok c ->
  forall fd B,
    alookup dest (c_fchain c) = Some fd -> (fd < 2^63)%Z -> NoDup B -> (length B <= Z.to_nat fd)%nat ->
    forall k v, alookup k (c_offramp c) = Some v ->
      honest_support (fun o => reported offramp_kv aos o k v) B (Z.to_nat fd + 1).
Proof. exact byzantine_offramp. Qed.
Print Assumptions C01_byzantine_offramp.

(* F26: before the repair the off-ramp number of source chain k was agreed at 2*f_k+1. Witness (10 oracles, F = 3,
   f_dest = 3, f_k = 1, B = {7,8,9}): (a) the three oracles of B alone get 999 agreed (the repaired function leaves
   it out); (b) with 2*f_dest+1 oracles outside B reporting 10 and only B dissenting, nothing is agreed (the repaired
   function agrees 10). The liveness face of the same defect (f_k > f_dest) is C04_liveness_unfixed_refuted. *)
Theorem C01_offramp_key_f_unfixed_refuted :
  exists F dest roles known k fd B aos_a aos_b,
    NoDup B /\ (length B <= Z.to_nat fd)%nat /\
    valid_input false roles known dest aos_a /\ valid_input false roles known dest aos_b /\
    (exists c, get_consensus_unfixed F dest aos_a = Ok c /\ alookup dest (c_fchain c) = Some fd /\
               alookup k (c_offramp c) = Some 999%N /\
               forall o v, reported offramp_kv aos_a o k v -> In o B) /\
    (exists c, get_consensus F dest aos_a = Ok c /\ alookup k (c_offramp c) = None) /\
    (exists H, NoDup H /\ length H = Z.to_nat (2 * fd + 1) /\
               forall o, In o H -> ~ In o B /\ reported offramp_kv aos_b o k 10%N) /\
    (forall o v, reported offramp_kv aos_b o k v -> v <> 10%N -> In o B) /\
    (exists c, get_consensus_unfixed F dest aos_b = Ok c /\ alookup dest (c_fchain c) = Some fd /\
               alookup k (c_offramp c) = None) /\
    (exists c, get_consensus F dest aos_b = Ok c /\ alookup k (c_offramp c) = Some 10%N).
Proof. exact offramp_key_f_unfixed_refuted. Qed.
Print Assumptions C01_offramp_key_f_unfixed_refuted.

(* ... nor alter one: if all oracles outside B that report a root for k report h, the agreed root can only be h *)
Theorem C01_byzantine_cannot_alter : forall retry roles known dest aos F c,
  valid_input retry roles known dest aos ->
  get_consensus F dest aos = Ok c ->
  forall k f B h,
    alookup k (c_fchain c) = Some f -> (f < 2^63)%Z -> NoDup B -> (length B <= Z.to_nat f)%nat ->
    (forall o v, ~ In o B -> reported roots_kv aos o k v -> v = h) ->
    forall v, alookup k (c_roots c) = Some v -> v = h.
Proof. exact byzantine_cannot_alter. Qed.
Print Assumptions C01_byzantine_cannot_alter.

(* discovered contract addresses (after the repair of F03): on-ramps at the destination's f, the other four
   maps at the key chain's f; same "iff unique value with 2f+1 distinct reporters" shape *)
Theorem C01_discovery : forall F dest aos,
  dvalid_input aos ->
  forall k,
    (forall f, alookup k (d_fchain_cons F aos) = Some f <-> agreed_value d_fchain_obs aos k (two_f_plus_1 F) f) /\
    (forall a, alookup k (dc_onramp (discovery_outcome F dest aos)) = Some a <->
       exists fd, alookup dest (d_fchain_cons F aos) = Some fd /\ agreed_value onramp_dkv aos k (two_f_plus_1 fd) a) /\
    (forall a, alookup k (dc_nonce (discovery_outcome F dest aos)) = Some a <->
       exists f, alookup k (d_fchain_cons F aos) = Some f /\ agreed_value (nonce_dkv dest) aos k (two_f_plus_1 f) a) /\
    (forall a, alookup k (dc_rmn (discovery_outcome F dest aos)) = Some a <->
       exists f, alookup k (d_fchain_cons F aos) = Some f /\ agreed_value (rmn_dkv dest) aos k (two_f_plus_1 f) a) /\
    (forall a, alookup k (dc_feeq (discovery_outcome F dest aos)) = Some a <->
       exists f, alookup k (d_fchain_cons F aos) = Some f /\ agreed_value feeq_dkv aos k (two_f_plus_1 f) a) /\
    (forall a, alookup k (dc_router (discovery_outcome F dest aos)) = Some a <->
       exists f, alookup k (d_fchain_cons F aos) = Some f /\ agreed_value router_dkv aos k (two_f_plus_1 f) a).
Proof. exact discovery_iff. Qed.
Print Assumptions C01_discovery.

Theorem C01_discovery_reported : forall dest aos o k a,
    (reported onramp_dkv aos o k a <-> exists ob, In (o, ob) aos /\ In (k, a) (d_onramp ob) /\ a <> 0%N) /\
    (reported feeq_dkv aos o k a <-> exists ob, In (o, ob) aos /\ In (k, a) (d_feeq ob) /\ a <> 0%N) /\
    (reported router_dkv aos o k a <-> exists ob, In (o, ob) aos /\ In (k, a) (d_router ob) /\ a <> 0%N) /\
    (reported (nonce_dkv dest) aos o k a <->
       k = dest /\ exists ob, In (o, ob) aos /\ alookup dest (d_nonce ob) = Some a /\ a <> 0%N) /\
    (reported (rmn_dkv dest) aos o k a <->
       k = dest /\ exists ob, In (o, ob) aos /\ alookup dest (d_rmn ob) = Some a /\ a <> 0%N).
Proof. exact discovery_reported. Qed.
Print Assumptions C01_discovery_reported.

Theorem C01_discovery_byzantine : forall F dest aos,
  dvalid_input aos ->
  forall k B,
    NoDup B ->
    (forall a fd, alookup dest (d_fchain_cons F aos) = Some fd -> (0 <= fd < 2^63)%Z -> (length B <= Z.to_nat fd)%nat ->
       alookup k (dc_onramp (discovery_outcome F dest aos)) = Some a ->
       honest_support (fun o => reported onramp_dkv aos o k a) B (Z.to_nat fd + 1)) /\
    (forall a f, alookup k (d_fchain_cons F aos) = Some f -> (0 <= f < 2^63)%Z -> (length B <= Z.to_nat f)%nat ->
       (alookup k (dc_nonce (discovery_outcome F dest aos)) = Some a ->
          honest_support (fun o => reported (nonce_dkv dest) aos o k a) B (Z.to_nat f + 1)) /\
       (alookup k (dc_rmn (discovery_outcome F dest aos)) = Some a ->
          honest_support (fun o => reported (rmn_dkv dest) aos o k a) B (Z.to_nat f + 1)) /\
       (alookup k (dc_feeq (discovery_outcome F dest aos)) = Some a ->
          honest_support (fun o => reported feeq_dkv aos o k a) B (Z.to_nat f + 1)) /\
       (alookup k (dc_router (discovery_outcome F dest aos)) = Some a ->
          honest_support (fun o => reported router_dkv aos o k a) B (Z.to_nat f + 1))).
Proof. exact discovery_byzantine. Qed.
Print Assumptions C01_discovery_byzantine.

(* F03: the function as it was before the repair adopts an on-ramp address reported by one oracle *)
Theorem C01_discovery_onramp_unfixed_refuted :
  exists F dest aos k a,
    dvalid_input aos /\
    alookup dest (d_fchain_cons F aos) = None /\
    alookup k (dc_onramp (discovery_outcome_unfixed F dest aos)) = Some a /\
    (forall o, reported onramp_dkv aos o k a -> o = 3%N) /\
    alookup k (dc_onramp (discovery_outcome F dest aos)) = None.
Proof. exact discovery_onramp_unfixed_refuted. Qed.
Print Assumptions C01_discovery_onramp_unfixed_refuted.

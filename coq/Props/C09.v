(* C09 — Execute history: pending messages are neither lost nor re-executed (function level).
   This file holds the property theorems only; each is closed by [exact] of a lemma proved in Proofs/ExecPendingP.v.

   Vocabulary (Proofs/ExecPendingP.v).  A report is (id, lo, hi, executed list); the executed list is a list of RUNS
   (a, b) standing for a..b.  [in_runs runs s]: s occurs in the list.  [strict_runs runs]: ascending, no repeats.
   [in_union E s]: some range of E contains s.  [all_executed E r]: every number of [lo r, hi r] is in some range of E.
   [layout rs]: intervals non-empty, ascending, pairwise disjoint (any holes).  Legal executed-range lists: ranges
   well formed and ending below 2^64-1, and - once sorted by start - each starting at or after the end of the one
   before ([no_overlap], the test the function itself makes; one range per message, merged runs, unordered lists and
   repeated ranges for re-executed messages all qualify).

   The multi-round part of C09: C09_never_reexecuted_cycle (below) composes the pending filter with the C08 report
   builder across the three rounds of a cycle.  The liveness clause is proved per round and is PARTIAL:
   GetCommitReports / GetMessages rounds - an item reported by f+1 distinct validated observers is in the merged
   outcome whatever the others send (Props/C07.v: C07_commit_complete, C07_message_complete, C07_nonce_complete);
   Filter round - C09_liveness_filter_round_partial / C09_liveness_filter_round_all_ready below: a provable commit
   report whose all-ready chain report fits the remaining budget gets a chain report containing every eligible
   message.  What is not a theorem: that 2F+1 honest oracles with readable chains produce those f+1 identical
   observations (reader behaviour), sequenced messages whose nonce chain is broken, and the case where the all-ready
   report does not fit (the greedy fallback includes a subset, C08).  The history-level reading is in addition monitored
   on real four-oracle histories by the harness (sink C09_history: outcome of every round against [filter_executed] on
   the world snapshot of the cycle's first observation, under the same-view / everything-ready conditions named in
   Check/C09_check.v). *)
Require Import Verif.Model.Base Verif.Model.ExecPending Verif.Proofs.ExecPendingP.
Local Open Scope N_scope.

(* C09_filter_spec, part 1: WHICH reports stay pending and in which order - exactly those with an unexecuted message,
   by start - for every layout (given in any order) and every legal executed-range list *)
Theorem C09_filter_spec_reports : forall reports executed out,
  layout (by_start reports) ->
  (forall r, In r reports -> p_exec r = [] /\ p_hi r < max64) ->
  Forall (fun e => fst e <= snd e /\ snd e < max64) executed ->
  no_overlap 0 (ranges_by_start executed) = true ->
  filter_executed reports executed = Ok out ->
  exists keep : rep -> bool,
    map p_id out = map p_id (filter keep (by_start reports)) /\
    forall r, In r (by_start reports) -> (keep r = true <-> ~ all_executed executed r).
Proof. intros reports executed out H1 H2 H3 H4 H5. exact (filter_keeps reports executed H1 H2 H3 H4 out H5). Qed.
Print Assumptions C09_filter_spec_reports.

(* C09_filter_spec, part 2: WHAT a pending report records - the destination's executed set intersected with its
   interval, ascending, every number once *)
Theorem C09_filter_spec_executed : forall reports executed out r',
  layout (by_start reports) ->
  (forall r, In r reports -> p_exec r = [] /\ p_hi r < max64) ->
  Forall (fun e => fst e <= snd e /\ snd e < max64) executed ->
  no_overlap 0 (ranges_by_start executed) = true ->
  filter_executed reports executed = Ok out ->
  In r' out ->
  exists r, In r reports /\ p_id r' = p_id r /\ p_lo r' = p_lo r /\ p_hi r' = p_hi r /\
            ~ all_executed executed r /\ strict_runs (p_exec r') /\
            forall s, in_runs (p_exec r') s <-> (p_lo r <= s <= p_hi r /\ in_union executed s).
Proof. intros reports executed out r' H1 H2 H3 H4 H5. exact (filter_records reports executed H1 H2 H3 H4 out H5 r'). Qed.
Print Assumptions C09_filter_spec_executed.

(* the only error: the executed ranges, sorted by start, overlap *)
Theorem C09_filter_error_iff : forall reports executed,
  layout (by_start reports) ->
  (forall r, In r reports -> p_exec r = [] /\ p_hi r < max64) ->
  Forall (fun e => fst e <= snd e /\ snd e < max64) executed ->
  (filter_executed reports executed = Err <-> executed <> [] /\ no_overlap 0 (ranges_by_start executed) = false).
Proof. exact filter_err_iff. Qed.
Print Assumptions C09_filter_error_iff.

(* C09_pending_exact (function level): a commit report is pending iff one of its messages is not executed *)
Theorem C09_pending_exact : forall reports executed out r,
  layout (by_start reports) ->
  (forall r, In r reports -> p_exec r = [] /\ p_hi r < max64) ->
  Forall (fun e => fst e <= snd e /\ snd e < max64) executed ->
  no_overlap 0 (ranges_by_start executed) = true ->
  filter_executed reports executed = Ok out ->
  In r reports ->
  ((exists r', In r' out /\ p_id r' = p_id r /\ p_lo r' = p_lo r /\ p_hi r' = p_hi r) <-> ~ all_executed executed r).
Proof. intros reports executed out r H1 H2 H3 H4 H5. exact (pending_exact reports executed H1 H2 H3 H4 out H5 r). Qed.
Print Assumptions C09_pending_exact.

(* C09_never_reexecuted (function level): a message the destination reports as executed is in the executed list of
   the pending report that contains it - the list report.checkMessage consults before adding a message to a report *)
Theorem C09_never_reexecuted_recorded : forall reports executed out r' s,
  layout (by_start reports) ->
  (forall r, In r reports -> p_exec r = [] /\ p_hi r < max64) ->
  Forall (fun e => fst e <= snd e /\ snd e < max64) executed ->
  no_overlap 0 (ranges_by_start executed) = true ->
  filter_executed reports executed = Ok out ->
  In r' out -> p_lo r' <= s <= p_hi r' -> in_union executed s -> in_runs (p_exec r') s.
Proof. intros reports executed out r' s H1 H2 H3 H4 H5. exact (executed_recorded reports executed H1 H2 H3 H4 out H5 r' s). Qed.
Print Assumptions C09_never_reexecuted_recorded.

(* "unordered inputs are supported" *)
Theorem C09_filter_order_independent : forall reports reports' executed,
  NoDup (map p_lo reports) -> Permutation reports reports' ->
  filter_executed reports executed = filter_executed reports' executed.
Proof. exact filter_executed_perm. Qed.
Print Assumptions C09_filter_order_independent.

(* The function before the repair (F15): with one range per message a fully executed report stays pending ... *)
Theorem C09_filter_unfixed_refuted :
  exists reports executed out r',
    filter_executed_unfixed reports executed = Ok out /\ In r' out /\
    (forall s, p_lo r' <= s <= p_hi r' -> in_union executed s) /\
    filter_executed reports executed = Ok [].
Proof. exact filter_unfixed_refuted. Qed.
Print Assumptions C09_filter_unfixed_refuted.

(* ... and a message executed twice is recorded twice. *)
Theorem C09_filter_unfixed_repeats_refuted :
  filter_executed_unfixed [mkRep 1 1 3 []] [(2, 2); (2, 2)] = Ok [mkRep 1 1 3 [(2, 2); (2, 2)]] /\
  filter_executed [mkRep 1 1 3 []] [(2, 2); (2, 2)] = Ok [mkRep 1 1 3 [(2, 2)]].
Proof. exact filter_unfixed_repeats_refuted. Qed.
Print Assumptions C09_filter_unfixed_repeats_refuted.

(* computeRanges on ascending disjoint report ranges: the ranges queried from the reader cover exactly the reports'
   sequence numbers and are as few as possible (no two of them adjacent) *)
Theorem C09_compute_ranges : forall r l,
  fst r <= snd r -> snd r < max64 -> asc_from (snd r) l ->
  exists outs,
    compute_ranges (r :: l) = Ok outs /\
    (forall s, in_union outs s <-> in_union (r :: l) s) /\
    match outs with o :: rest => fst o = fst r /\ fst o <= snd o /\ gap_above (snd o) rest | [] => False end.
Proof. exact compute_ranges_spec. Qed.
Print Assumptions C09_compute_ranges.

(* groupByChainSelector: every root goes to its own chain, in reading order *)
Theorem C09_group_by_chain : forall crs c,
  alookup c (group_by_chain crs) = match of_chain c (concat crs) with [] => None | l => Some l end.
Proof. exact group_by_chain_spec. Qed.
Print Assumptions C09_group_by_chain.

(* C09_never_reexecuted across one execute cycle (composition with the C08 report builder): the executed list a
   pending report carries is the one recorded by the filter in the GetCommitReports round (pending reports travel
   unchanged through the GetMessages outcome), and report.checkMessage treats a message as eligible only if its
   sequence number is not in that list (C08_add: every included index is eligible). Hence a message the destination
   reported as executed when the cycle started is in no chain report of that cycle. *)
Require Verif.Model.ExecReport Verif.Proofs.ExecReportP Verif.Proofs.ExecHistoryP.
Theorem C09_never_reexecuted_cycle : forall reports executed out r' (cd : ExecReport.cdata),
  layout (by_start reports) ->
  (forall r, In r reports -> p_exec r = [] /\ p_hi r < max64) ->
  Forall (fun e => fst e <= snd e /\ snd e < max64) executed ->
  no_overlap 0 (ranges_by_start executed) = true ->
  filter_executed reports executed = Ok out ->
  In r' out ->
  (forall s, in_runs (p_exec r') s -> memN s (ExecReport.c_exec cd) = true) ->
  forall i m, ExecReportP.eligible cd i -> nth_error (ExecReport.c_msgs cd) i = Some m ->
    p_lo r' <= ExecReport.m_seq m <= p_hi r' -> ~ in_union executed (ExecReport.m_seq m).
Proof. exact ExecHistoryP.executed_never_included. Qed.
Print Assumptions C09_never_reexecuted_cycle.

(* C09 liveness, Filter round (partial: see the header).  Add = execReportBuilder.Add on one pending commit report.
   Premises: the commit data reproduces its committed root ("provable"), the token data list matches the messages,
   and the chain report of ALL checkMessage-ready messages fits what is left of the size and gas limits ("fitting the
   limits").  Then that chain report is appended - it holds exactly the ready messages - ... *)
Require Verif.Model.Merkle Verif.Proofs.ExecLivenessP.
Theorem C09_liveness_filter_round_all_ready :
  forall (hash : N -> N -> N) (zero : N) (leaf_hash : ExecReport.msg -> option N)
         (enc_size : ExecReport.creport -> option N) (tree_gas : N -> N) (nonces : ExecReport.nmap)
         (max_size max_gas : N) (st : ExecReport.bstate) (cd : ExecReport.cdata) t,
  (forall a b, hash a b = hash b a) ->
  (length (ExecReport.c_msgs cd) <= Merkle.max_leaves)%nat ->
  length (ExecReport.c_td cd) = length (ExecReport.c_msgs cd) ->
  ExecReport.construct_tree hash zero leaf_hash cd = Ok t -> Merkle.troot zero t = ExecReport.c_root cd ->
  ExecReport.ready_of nonces st cd <> [] ->
  (forall r, ExecReportP.report_for hash zero leaf_hash cd (ExecReport.ready_of nonces st cd) r ->
     exists sz, enc_size r = Some sz /\
                ExecReportP.fits max_size max_gas st sz (ExecReport.report_gas tree_gas r)) ->
  exists st' r,
    ExecReport.add hash zero leaf_hash enc_size tree_gas nonces max_size max_gas st cd
      = Ok (st', ExecReport.mark_executed r cd) /\
    ExecReport.b_reports st' = ExecReport.b_reports st ++ [r] /\
    ExecReport.r_msgs r = ExecReport.select (ExecReport.c_msgs cd) (ExecReport.ready_of nonces st cd) /\
    ExecReportP.report_for hash zero leaf_hash cd (ExecReport.ready_of nonces st cd) r.
Proof. exact ExecLivenessP.add_reports_all_ready. Qed.
Print Assumptions C09_liveness_filter_round_all_ready.

(* ... and every eligible message (not executed, token data ready, not too costly) that allows out-of-order execution
   (nonce 0, so "nonce in order" holds trivially) is in it and is recorded as executed in the commit data handed on. *)
Theorem C09_liveness_filter_round_partial :
  forall (hash : N -> N -> N) (zero : N) (leaf_hash : ExecReport.msg -> option N)
         (enc_size : ExecReport.creport -> option N) (tree_gas : N -> N) (nonces : ExecReport.nmap)
         (max_size max_gas : N) (st : ExecReport.bstate) (cd : ExecReport.cdata) t,
  (forall a b, hash a b = hash b a) ->
  (length (ExecReport.c_msgs cd) <= Merkle.max_leaves)%nat ->
  length (ExecReport.c_td cd) = length (ExecReport.c_msgs cd) ->
  ExecReport.construct_tree hash zero leaf_hash cd = Ok t -> Merkle.troot zero t = ExecReport.c_root cd ->
  (forall r, ExecReportP.report_for hash zero leaf_hash cd (ExecReport.ready_of nonces st cd) r ->
     exists sz, enc_size r = Some sz /\
                ExecReportP.fits max_size max_gas st sz (ExecReport.report_gas tree_gas r)) ->
  forall i m, ExecReportP.eligible cd i -> nth_error (ExecReport.c_msgs cd) i = Some m ->
    ExecReport.m_nonce m = 0 ->
  exists st' r,
    ExecReport.add hash zero leaf_hash enc_size tree_gas nonces max_size max_gas st cd
      = Ok (st', ExecReport.mark_executed r cd) /\
    ExecReport.b_reports st' = ExecReport.b_reports st ++ [r] /\ In m (ExecReport.r_msgs r) /\
    memN (ExecReport.m_seq m) (ExecReport.c_exec (ExecReport.mark_executed r cd)) = true.
Proof. exact ExecLivenessP.add_includes_eligible. Qed.
Print Assumptions C09_liveness_filter_round_partial.

(* ===================== History level (Model/ExecCycles.v, Proofs/ExecCyclesP.v) =====================
   State = the destination's content as the plugin reads it (clock, committed reports with their commit time,
   executed messages, not-ready messages, curses, configured source chains); events = time advance | commit report
   lands | executions become visible | readiness / curses / role map change | a cycle, with the part of its report
   that lands at once.  [reached V t0 evs] is the state after the event list [evs]; V = MessageVisibilityInterval.
   The plugin keeps no memory between cycles, so the model of a cycle is a function of the current state; the
   harness part C09_cycles compares every cycle of long-lived plugins with exactly that function. *)
Require Import Verif.Model.ExecCycles Verif.Proofs.ExecCyclesP.

(* the observation of a cycle (reader arguments, pending after GetCommitReports, report, pending after Filter) is a
   function of the destination's content when the cycle starts - for every history before it and after it *)
Theorem C09_hist_cycle_memoryless : forall V evs1 st nobs land evs2,
  run_from V st (evs1 ++ ECycle nobs land :: evs2) =
  run_from V st evs1 ++ cycle_obs V (state_after V st evs1) nobs ::
  run_from V (state_after V st (evs1 ++ [ECycle nobs land])) evs2.
Proof. exact run_from_cycle. Qed.
Print Assumptions C09_hist_cycle_memoryless.

(* at the start of every cycle of every history, for every legal shape [ex] the reader gives to the executed set of a
   source chain: the pending filter succeeds ... *)
Theorem C09_hist_filter_total : forall V t0 evs c ex,
  exec_view (reached V t0 evs) c ex ->
  exists out, filter_executed (chain_reps V (reached V t0 evs) c) ex = Ok out.
Proof. exact hist_filter_total. Qed.
Print Assumptions C09_hist_filter_total.

(* ... pending = exactly the committed reports inside the window that have an unexecuted message, each recording
   the destination's executed set inside its interval *)
Theorem C09_hist_pending_exact : forall V t0 evs c ex out,
  let st := reached V t0 evs in
  exec_view st c ex ->
  filter_executed (chain_reps V st c) ex = Ok out ->
  (forall r, In r (d_reports st) -> cr_chain r = c ->
     ((exists r', In r' out /\ p_id r' = cr_id r /\ p_lo r' = cr_lo r /\ p_hi r' = cr_hi r) <->
      (in_window V st r = true /\ ~ (forall s, cr_lo r <= s <= cr_hi r -> In (c, s) (d_exec st))))) /\
  (forall r' s, In r' out -> (in_runs (p_exec r') s <-> (p_lo r' <= s <= p_hi r' /\ In (c, s) (d_exec st)))).
Proof. exact hist_pending_exact. Qed.
Print Assumptions C09_hist_pending_exact.

(* legal reader answers exist in every reachable state (non-vacuity of [exec_view]): one range per executed message *)
Theorem C09_hist_reader_answer_legal : forall V t0 evs c,
  exec_view (reached V t0 evs) c (exec_ranges (reached V t0 evs) c).
Proof. exact hist_exec_view_exists. Qed.
Print Assumptions C09_hist_reader_answer_legal.

(* the candidate set of a cycle in closed form: the cycle is not blocked by a global / destination curse, the source
   chain is configured and not cursed, some committed report inside the window contains the message, the message is
   not executed and is ready *)
Theorem C09_hist_candidates : forall V t0 evs m,
  In m (offered V (reached V t0 evs)) <-> candidate V (reached V t0 evs) m.
Proof. intros V t0 evs m. exact (offered_iff V (reached V t0 evs) (reached_inv V t0 evs) m). Qed.
Print Assumptions C09_hist_candidates.

(* never re-executed: a message executed at some point of a history is a candidate of no later cycle *)
Theorem C09_hist_never_reexecuted : forall V t0 evs1 evs2 m,
  In m (d_exec (reached V t0 evs1)) -> ~ In m (offered V (reached V t0 (evs1 ++ evs2))).
Proof. exact hist_never_reexecuted. Qed.
Print Assumptions C09_hist_never_reexecuted.

(* never lost: a message of a committed report is a candidate of EVERY later cycle in which it is still unexecuted,
   inside the window, of a live chain and ready - whether the reports of the cycles in between landed, landed partly,
   late, or never (non-landing cannot lose it: nothing but the destination's content is remembered) *)
Theorem C09_hist_no_loss : forall V t0 evs1 evs2 r s,
  let st2 := reached V t0 (evs1 ++ evs2) in
  In r (d_reports (reached V t0 evs1)) -> cr_lo r <= s <= cr_hi r ->
  cycle_open st2 = true -> In (cr_chain r) (live_chains st2) -> in_window V st2 r = true ->
  ~ In (cr_chain r, s) (d_exec st2) -> ~ In (cr_chain r, s) (d_blocked st2) ->
  In (cr_chain r, s) (offered V st2).
Proof. exact hist_no_loss. Qed.
Print Assumptions C09_hist_no_loss.

(* only committed messages are ever executed (what lands with a cycle was in its report) *)
Theorem C09_hist_executed_committed : forall V t0 evs m,
  In m (d_exec (reached V t0 evs)) -> committed (reached V t0 evs) m = true.
Proof. exact hist_executed_committed. Qed.
Print Assumptions C09_hist_executed_committed.

(* non-vacuity: a concrete history (two reports committed at different times, a report that never lands, a late
   landing, the window moving past the older report) and the hypotheses of C09_hist_no_loss on it *)
Theorem C09_hist_nonvacuous :
  length (run_from 60 (init 1000) ex_events) = 4%nat /\
  (let st2 := reached 60 1000 (firstn 6 ex_events ++ []) in
   In (mkCR 1 1 10 12 1000) (d_reports (reached 60 1000 (firstn 6 ex_events))) /\
   cycle_open st2 = true /\ In 1 (live_chains st2) /\ in_window 60 st2 (mkCR 1 1 10 12 1000) = true /\
   ~ In (1, 11) (d_exec st2) /\ ~ In (1, 11) (d_blocked st2)).
Proof. split; [now rewrite ex_history|exact ex_no_loss_hyps]. Qed.
Print Assumptions C09_hist_nonvacuous.

(* F55 (known finding): the liveness clause fails for a pending commit report whose messages do not fit one
   observation.  truncateObservation (Model/Truncate.v; the last step of getMessagesObservation), on an observation that
   is down to one commit report of one chain and still exceeds the limit, returns the error "no more data to truncate"
   for every size function: no oracle produces a GetMessages observation, so no outcome is reached from the unchanged
   previous outcome and the cycle never completes.  (C17_error_only_if_nothing_fits is the converse.)  The history
   theorems above describe the candidate set under the stated condition that everything fits. *)
Require Verif.Model.Truncate.
Theorem C09_liveness_oversized_report_refuted :
  forall (size : Truncate.tobs -> N) (max : Z) (pick : nat -> Truncate.tobs -> N)
         (c : N) (d : Truncate.tcommit) msgs toks costly nonces,
  let o := Truncate.mkTObs [(c, [d])] msgs toks costly nonces in
  (max < Z.of_N (size o))%Z -> Truncate.truncate size max pick o = Err.
Proof. exact oversized_report_no_observation. Qed.
Print Assumptions C09_liveness_oversized_report_refuted.

(* ===================== System level: one whole cycle of one DON (Model/ExecSys.v, Proofs/ExecSysP.v) =====================
   Vocabulary as in Props/C07.v (exec_round = Plugin.Outcome composed from the C07 / C08 models; quorum; sys_validated;
   key_functional).  These theorems are about the rounds as the DON computes them from ANY validated observation lists
   - i.e. including what up to f (or more) deviating oracles send - not about the destination model of ExecCycles. *)
Require Import Verif.Model.Consensus Verif.Model.Merkle Verif.Model.ExecSys Verif.Proofs.ExecSysP.
Require Verif.Model.ExecMerge.

(* C09_cycle_no_reexecution.  C07_used_needs_quorum_cycle, clause (c), read for executed messages: in every cycle, a
   sequence number s of chain k that EVERY commit report of chain k agreed in the GetCommitReports round (quorum
   f_dest + 1) and covering s lists as executed is in no chain report of chain k of that cycle's execute report.
   The executed list is part of a commit report's identity.  When two versions of one report - with and without s -
   both reach f_dest + 1 reporters (one lagging honest reader plus one faulty oracle among four), the repaired
   getCommitReportsOutcome drops both for this cycle (F76, C09_conflicting_versions_unfixed_refuted below). *)
Theorem C09_cycle_no_reexecution :
  forall (hash : N -> N -> N) (zero : N) (leaf_hash : ExecReport.msg -> option N)
         (enc_size : ExecReport.creport -> option N) (tree_gas : N -> N) (max_size max_gas : N)
         (nonce_key : EM.nonce_t -> N) (sup : N -> list N) (bigF : Z) (dest : N) (fc1 fc2 fc3 : list (N * Z))
         (prev o1 o2 o3 : outcome) (aos1 aos2 aos3 : list sao),
  NoDup (map fst aos1) -> NoDup (map fst aos2) -> NoDup (map fst aos3) ->
  sys_validated sup dest fc1 aos1 -> sys_validated sup dest fc2 aos2 -> sys_validated sup dest fc3 aos3 ->
  key_functional aos1 -> key_functional aos2 ->
  exec_round hash zero leaf_hash enc_size tree_gas max_size max_gas nonce_key bigF dest fc1 prev aos1 = Ok o1 ->
  o_state o1 = 2 ->
  exec_round hash zero leaf_hash enc_size tree_gas max_size max_gas nonce_key bigF dest fc2 o1 aos2 = Ok o2 ->
  exec_round hash zero leaf_hash enc_size tree_gas max_size max_gas nonce_key bigF dest fc3 o2 aos3 = Ok o3 ->
  forall k s : N,
  (forall (x : xcommit),
     quorum (xcommits_of k) (f_plus_1 (EM.f_dest dest fc1)) aos1 x -> ExecReport.c_src (xc_cd x) = k ->
     PS.in_range (ExecReport.c_start (xc_cd x)) (ExecReport.c_end (xc_cd x)) s = true ->
     memN s (ExecReport.c_exec (xc_cd x)) = true) ->
  forall (r : ExecReport.creport) (mm : ExecReport.msg),
    In r (o_report o3) -> In mm (ExecReport.r_msgs r) -> ExecReport.r_src r = k -> ExecReport.m_seq mm <> s.
Proof. exact cycle_no_reexecution. Qed.
Print Assumptions C09_cycle_no_reexecution.

(* C09_cycle_liveness: the liveness clause over one cycle.  Given a previous outcome from which a cycle starts and three
   validated observation lists of distinct oracles (at least F each), a commit report x of chain k with messages ms, and
   the message x0 = ms[i0]:
     GetCommitReports round: x has a quorum of f_dest + 1 reporters under the key of its source chain k (a configured
       chain; fChain is a map) and carries no token data; no OTHER report of chain k with the same root or an
       overlapping interval has such a quorum (true whenever at most f_dest destination readers deviate from the honest
       view; otherwise the repaired code drops both versions for this cycle, F76);
     GetMessages round: every message of x's interval has a quorum of f_k + 1 reporters and NO OTHER message for a
       sequence number of the interval has one (true whenever at most f_k observers deviate from the honest view:
       a deviating message is reported by deviating oracles only); somebody files a token-data entry for every message;
     x0 is eligible: not executed according to x; its token data T0 is ready, each slot with a quorum and no rival, and
       NO observation files more slots for it than T0 has (the recorded exception F13e); fewer than f_dest + 1
       oracles flag it too costly; out-of-order execution allowed (nonce 0: "nonce in order" holds trivially);
       x is provable: its messages reproduce its root, at most 256 of them;
     Filter round: every pending report of the GetMessages outcome is well formed - no messages yet, or its messages
       reproduce its root and its token data list is as long as its message list.  This stays a hypothesis: it is a fact
       about the DESTINATION (an agreed report has f_dest + 1 reporters, so at least one honest destination reader saw it
       committed, and the commit plugin commits true roots: C04), not about observation lists.  Before the repairs of
       F75 at most F faulty oracles could break it (C09_cycle_liveness_poisoned_unfixed_refuted); F13d is excluded by
       validation since its repair.  The report codec does not fail, and the chain report of x's ready messages fits
       what the earlier reports leave of the size and gas limits (the recorded exception F14: otherwise the greedy
       fallback may drop a message).
   Then all three rounds succeed and x0 is in a chain report of chain k of the Filter round's execute report -
   whatever else the (<= f per item) deviating oracles put into their observations.  F55 (no GetMessages observation at
   all for an oversized report) is outside: the observation lists are inputs here. *)
Theorem C09_cycle_liveness :
  forall (hash : N -> N -> N) (zero : N) (leaf_hash : ExecReport.msg -> option N)
         (enc_size : ExecReport.creport -> option N) (tree_gas : N -> N) (max_size max_gas : N)
         (nonce_key : EM.nonce_t -> N),
  (forall a b : N, hash a b = hash b a) ->
  (forall r : ExecReport.creport, enc_size r <> None) ->
  forall (sup : N -> list N) (bigF : Z) (dest : N) (fc1 fc2 fc3 : list (N * Z)) (prev : outcome)
         (aos1 aos2 aos3 : list sao),
  NoDup (map fst aos1) -> NoDup (map fst aos2) ->
  sys_validated sup dest fc1 aos1 -> sys_validated sup dest fc2 aos2 -> sys_validated sup dest fc3 aos3 ->
  key_functional aos1 -> key_functional aos2 ->
  (bigF <= Z.of_nat (length aos1))%Z -> (bigF <= Z.of_nat (length aos2))%Z -> (bigF <= Z.of_nat (length aos3))%Z ->
  o_state prev = 0 \/ o_state prev = 1 \/ o_state prev = 4 ->
  forall (x : xcommit) (ms : list xmsg) (i0 : nat) (x0 : xmsg) (T0 : list EM.tok) (f2 : Z) (t : Merkle.tree),
  let cd0 := xc_cd x in
  let k := ExecReport.c_src cd0 in
  let lo := ExecReport.c_start cd0 in
  let hi := ExecReport.c_end cd0 in
  let m0 := xm_msg x0 in
  In k (EM.keys fc1) -> NoDup (EM.keys fc1) -> 0 < f_plus_1 (EM.f_dest dest fc1) ->
  quorum (xcommits_of k) (f_plus_1 (EM.f_dest dest fc1)) aos1 x ->
  (forall y : xcommit, quorum (xcommits_of k) (f_plus_1 (EM.f_dest dest fc1)) aos1 y ->
                       conflicts (xc_cd x) (xc_cd y) = true -> y = x) ->
  ExecReport.c_td cd0 = [] ->
  alookup k fc2 = Some f2 -> (forall f : Z, In (k, f) fc2 -> f = f2) -> 0 < f_plus_1 f2 ->
  ms <> [] ->
  map (fun y : xmsg => ExecReport.m_seq (xm_msg y)) ms = PS.nrange lo (length ms) ->
  hi = lo + N.of_nat (length ms) - 1 ->
  (forall y : xmsg, In y ms -> quorum (xmsgs_of k) (f_plus_1 f2) aos2 y) ->
  (forall y : xmsg, quorum (xmsgs_of k) (f_plus_1 f2) aos2 y ->
                    PS.in_range lo hi (ExecReport.m_seq (xm_msg y)) = true -> In y ms) ->
  (forall s : N, PS.in_range lo hi s = true ->
                 exists (o : N) (ob : sobs), In (o, ob) aos2 /\ In s (EM.keys (EM.entries k (so_tokens ob)))) ->
  nth_error ms i0 = Some x0 ->
  forallb EM.t_ready T0 = true ->
  (forall (o : N) (ob : sobs), In (o, ob) aos2 ->
     (length (EM.entries (ExecReport.m_seq m0) (EM.entries k (so_tokens ob))) <= length T0)%nat) ->
  (forall (i : nat) (tk : EM.tok), nth_error T0 i = Some tk ->
     quorum (xtok_of k (ExecReport.m_seq m0) i) (f_plus_1 f2) aos2 tk /\
     (forall t' : EM.tok, quorum (xtok_of k (ExecReport.m_seq m0) i) (f_plus_1 f2) aos2 t' -> t' = tk)) ->
  memN (ExecReport.m_seq m0) (ExecReport.c_exec cd0) = false ->
  (forall rs : list N, NoDup rs -> rs <> [] ->
     (forall o : N, In o rs -> exists ob : sobs, In (o, ob) aos2 /\ In (ExecReport.m_id m0) (so_costly ob)) ->
     (Z.of_nat (length rs) < EM.f_dest dest fc2 + 1)%Z) ->
  ExecReport.m_nonce m0 = 0 ->
  (length ms <= 256)%nat ->
  ExecReport.construct_tree hash zero leaf_hash
    (ExecReport.mkCD k (ExecReport.c_root cd0) lo hi (ExecReport.c_exec cd0) (map xm_msg ms) [] []) = Ok t ->
  Merkle.troot zero t = ExecReport.c_root cd0 ->
  (forall o1 o2 : outcome,
     exec_round hash zero leaf_hash enc_size tree_gas max_size max_gas nonce_key bigF dest fc1 prev aos1 = Ok o1 ->
     exec_round hash zero leaf_hash enc_size tree_gas max_size max_gas nonce_key bigF dest fc2 o1 aos2 = Ok o2 ->
     forall cd : ExecReport.cdata, In cd (o_pending o2) -> well_formed hash zero leaf_hash cd) ->
  (forall (o1 o2 : outcome) (cd2 : ExecReport.cdata) (pre post : list ExecReport.cdata) (st : ExecReport.bstate)
          (pend : list ExecReport.cdata),
     exec_round hash zero leaf_hash enc_size tree_gas max_size max_gas nonce_key bigF dest fc1 prev aos1 = Ok o1 ->
     exec_round hash zero leaf_hash enc_size tree_gas max_size max_gas nonce_key bigF dest fc2 o1 aos2 = Ok o2 ->
     o_pending o2 = pre ++ cd2 :: post -> ExecReport.c_msgs cd2 = map xm_msg ms ->
     ExecReport.c_root cd2 = ExecReport.c_root cd0 ->
     let nonces := nonce_map nonce_key (EM.merge_nonces (EM.f_dest dest fc3) (to_aos aos3)) in
     ExecReport.select_loop hash zero leaf_hash enc_size tree_gas nonces max_size max_gas ExecReport.b_init pre
       = Ok (st, pend) ->
     forall r : ExecReport.creport,
       ExecReportP.report_for hash zero leaf_hash cd2 (ExecReport.ready_of nonces st cd2) r ->
       exists sz : N, enc_size r = Some sz /\
                      ExecReportP.fits max_size max_gas st sz (ExecReport.report_gas tree_gas r)) ->
  exists (o1 o2 o3 : outcome) (r : ExecReport.creport),
    exec_round hash zero leaf_hash enc_size tree_gas max_size max_gas nonce_key bigF dest fc1 prev aos1 = Ok o1 /\
    exec_round hash zero leaf_hash enc_size tree_gas max_size max_gas nonce_key bigF dest fc2 o1 aos2 = Ok o2 /\
    exec_round hash zero leaf_hash enc_size tree_gas max_size max_gas nonce_key bigF dest fc3 o2 aos3 = Ok o3 /\
    In r (o_report o3) /\ ExecReport.r_src r = k /\ In m0 (ExecReport.r_msgs r).
Proof. exact cycle_liveness. Qed.
Print Assumptions C09_cycle_liveness.

(* non-vacuity: on the concrete four-oracle cycle of Proofs/ExecSysP.v (module SysEx; oracle 3 deviates in every round)
   EVERY hypothesis of C09_cycle_liveness holds for message 5 (the proof instantiates the theorem), so: *)
Theorem C09_cycle_liveness_nonvacuous :
  exists (o1 o2 o3 : outcome) (r : ExecReport.creport),
    SysEx.Round 1 9 SysEx.fc out_init SysEx.aos1 = Ok o1 /\ SysEx.Round 1 9 SysEx.fc o1 SysEx.aos2 = Ok o2 /\
    SysEx.Round 1 9 SysEx.fc o2 SysEx.aos3 = Ok o3 /\
    In r (o_report o3) /\ ExecReport.r_src r = 1 /\ In SysEx.m1 (ExecReport.r_msgs r).
Proof. exact SysLive.cycle_liveness_example. Qed.
Print Assumptions C09_cycle_liveness_nonvacuous.

(* F75 (repaired).  On the functions as they were ([exec_round_unfixed]: commit reports agreed at the f of the chain KEY
   they are filed under; validation without validateCommitReportKeys), at most F faulty oracles broke the well-formedness
   hypothesis.  Witness: seven oracles, F = 2, f(chain 1) = f(destination) = 2, f(chain 2) = 1; five honest oracles with
   one view in all three rounds; the two faulty ones - which do not even read chain 2 (commit reports are not
   role-checked: F07) - file a forged commit report for chain 1 under the key of chain 2 in the first round and behave
   honestly afterwards.  The real report keeps its quorum and is pending, but the forged one is pending too, gets the
   real messages attached, and the Filter round fails - in this round and, since a failed round commits nothing, in
   every later one: execution to the destination stops for all sources.  (SysPoison.poisoned_getmessages: on the real
   plugins the stall started one round earlier, because the honest GetMessages observation repeats both pending reports
   under one key and is refused by ValidateObservation; replay VERIF_XS_PROBE=poison / poison1 on the unpatched tree.)
   With the repairs the faulty observations are refused, and even unrefused the forged report (two reporters, below
   f_dest + 1 = 3) is not agreed. *)
Theorem C09_cycle_liveness_poisoned_unfixed_refuted :
  exists (sup : N -> list N) (bigF : Z) (dest : N) (fc : list (N * Z)) (aos1 aos2 aos3 : list sao) (o1 o2 : outcome)
         (x : xcommit) (honest faulty : list N),
    let RoundU := exec_round_unfixed SysEx.h 999 SysEx.leaf SysEx.enc SysEx.tg 1000000 1000000 SysEx.nkey in
    NoDup (map fst aos1) /\ NoDup (map fst aos2) /\ NoDup (map fst aos3) /\
    sys_validated_nokeys sup dest fc aos1 /\ sys_validated_nokeys sup dest fc aos2 /\ sys_validated_nokeys sup dest fc aos3 /\
    key_functional aos1 /\ key_functional aos2 /\
    (exists ob1 ob2 ob3, forall o, In o honest -> In (o, ob1) aos1 /\ In (o, ob2) aos2 /\ In (o, ob3) aos3) /\
    map fst aos1 = honest ++ faulty /\
    (Z.of_nat (length faulty) <= bigF)%Z /\
    alookup (ExecReport.c_src (xc_cd x)) fc = Some bigF /\ alookup dest fc = Some bigF /\
    quorum (xcommits_of (ExecReport.c_src (xc_cd x))) (f_plus_1 bigF) aos1 x /\
    RoundU bigF dest fc out_init aos1 = Ok o1 /\ In (xc_cd x) (o_pending o1) /\
    RoundU bigF dest fc o1 aos2 = Ok o2 /\
    RoundU bigF dest fc o2 aos3 = Err /\
    (forall n, exec_run_unfixed SysEx.h 999 SysEx.leaf SysEx.enc SysEx.tg 1000000 1000000 SysEx.nkey bigF dest o2
                       (repeat (fc, aos3) n) = o2) /\
    (forall o, In o faulty -> exists ob, In (o, ob) aos1 /\ EM.validate (sup o) dest fc (to_obs ob) = false) /\
    (forall o, exec_round SysEx.h 999 SysEx.leaf SysEx.enc SysEx.tg 1000000 1000000 SysEx.nkey bigF dest fc out_init aos1 = Ok o ->
               o_pending o = [xc_cd x]).
Proof. exact cycle_liveness_poisoned_unfixed_refuted. Qed.
Print Assumptions C09_cycle_liveness_poisoned_unfixed_refuted.

(* F76 (repaired).  Four oracles, f = 1: oracles 0 and 1 see message 5 of report [5, 6] executed, oracle 2 reads the
   destination one cycle late and the faulty oracle 3 seconds it.  Both versions of the report have f_dest + 1 = 2
   reporters (every observation passes the validation).  Before the repair both were pending; the GetMessages observation
   of every honest oracle repeats both under one key, so it is refused by every oracle (validateObservedSequenceNumbers;
   on the real plugins Observation itself already fails in computeRanges: replay VERIF_XS_PROBE=split on the unpatched
   tree), no observation is accepted and the Outcome fails from then on.  The repaired getCommitReportsOutcome drops
   both versions: the outcome is empty and the next round is a GetCommitReports round again. *)
Theorem C09_conflicting_versions_unfixed_refuted :
  NoDup (map fst SysSplit.aosS) /\ sys_validated SysEx.sup 9 SysEx.fc SysSplit.aosS /\ key_functional SysSplit.aosS /\
  quorum (xcommits_of 1) (f_plus_1 1) SysSplit.aosS SysEx.xv /\ quorum (xcommits_of 1) (f_plus_1 1) SysSplit.aosS SysEx.x /\
  SysSplit.RoundU 1 9 SysEx.fc out_init SysSplit.aosS = Ok SysSplit.o1u /\
  map ExecReport.c_exec (o_pending SysSplit.o1u) = [[]; [5]] /\
  (forall o, EM.validate (SysEx.sup o) 9 SysEx.fc (to_obs SysSplit.regrouped) = false) /\
  SysSplit.RoundU 1 9 SysEx.fc SysSplit.o1u [] = Err /\
  SysEx.Round 1 9 SysEx.fc out_init SysSplit.aosS = Ok (mkOut 1 [] []).
Proof. exact SysSplit.split_view. Qed.
Print Assumptions C09_conflicting_versions_unfixed_refuted.

(* histories: for every history of rounds in which a GetCommitReports round, a GetMessages round and a Filter round
   succeed with any number of failed rounds in between (a failed Outcome commits nothing), the history ends in the Filter
   round's outcome and the outcomes handed from round to round are exactly those three - so the cycle theorems
   (C07_used_needs_quorum_cycle, C08_report_sound_cycle, C09_cycle_no_reexecution) apply to the report of every Filter
   round of every history, whatever rounds came before *)
Theorem C09_history_cycle :
  forall (hash : N -> N -> N) (zero : N) (leaf_hash : ExecReport.msg -> option N)
         (enc_size : ExecReport.creport -> option N) (tree_gas : N -> N) (max_size max_gas : N)
         (nonce_key : EM.nonce_t -> N) (bigF : Z) (dest : N) (prev : outcome) (pre : list round_in)
         (r1 : round_in) (mid1 : list round_in) (r2 : round_in) (mid2 : list round_in) (r3 : round_in)
         (o1 o2 o3 : outcome),
  let Round := exec_round hash zero leaf_hash enc_size tree_gas max_size max_gas nonce_key bigF dest in
  let Run := exec_run hash zero leaf_hash enc_size tree_gas max_size max_gas nonce_key bigF dest in
  let Fails := round_fails hash zero leaf_hash enc_size tree_gas max_size max_gas nonce_key bigF dest in
  Round (fst r1) (Run prev pre) (snd r1) = Ok o1 -> Forall (Fails o1) mid1 ->
  Round (fst r2) o1 (snd r2) = Ok o2 -> Forall (Fails o2) mid2 ->
  Round (fst r3) o2 (snd r3) = Ok o3 ->
  Run prev (pre ++ r1 :: mid1 ++ r2 :: mid2 ++ [r3]) = o3 /\
  Run prev (pre ++ r1 :: mid1) = o1 /\ Run prev (pre ++ r1 :: mid1 ++ r2 :: mid2) = o2.
Proof. exact history_cycle. Qed.
Print Assumptions C09_history_cycle.

Require Import Verif.Check.C09_check Verif.Proofs.JudgeSoundC09P.
(* ---- the executable properties of Check/C09_check.v are the property (judge soundness) ---- *)
(* Vocabulary (Proofs/JudgeSoundC09P.v).  [calm o]: o is neither Panic nor Spin.  [wf_runs runs]: every run a <= b (the
   harness reports a flat executed slice as its maximal +1-runs, so this holds of every case).  [pending_rel reports es
   out]: the clauses of C09_filter_spec_reports / _executed / C09_pending_exact for an ARBITRARY answer [out] (unfolded
   in C09_judge_pending_rel_meaning).  The executable properties compare executed lists in the harness's normal form
   (adjacent runs joined); the theorems below turn that into statements about the numbers in the list. *)

(* sink C09_ranges (computeRanges).  The model's answer passes for every input ... *)
Theorem C09_judge_ranges_model_passes : forall i, ranges_ok i (ranges_model i) = true.
Proof. exact ranges_model_passes. Qed.
Print Assumptions C09_judge_ranges_model_passes.

(* ... and an arbitrary answer that passes never is a crash and, on ascending disjoint report ranges, satisfies the
   conclusion of C09_compute_ranges *)
Theorem C09_judge_ranges_sound : forall i o, ranges_ok i o = true ->
  calm o /\
  forall r l, i = r :: l -> fst r <= snd r -> snd r < max64 -> asc_from (snd r) l ->
  exists outs,
    o = Ok outs /\
    (forall s, in_union outs s <-> in_union (r :: l) s) /\
    match outs with x :: rest => fst x = fst r /\ fst x <= snd x /\ gap_above (snd x) rest | [] => False end.
Proof. exact ranges_sound. Qed.
Print Assumptions C09_judge_ranges_sound.

(* sinks C09_filter, C09_filter_all (filterOutExecutedMessages).  The model's answer passes on reports without recorded
   executions and sequence numbers below 2^64-1 (what the harness generates; beyond, F19) ... *)
Theorem C09_judge_filter_model_passes : forall reports es,
  (forall r, In r reports -> p_exec r = [] /\ p_hi r < max64) ->
  Forall (fun e => snd e < max64) es ->
  filter_ok (reports, es) (filter_model (reports, es)) = true.
Proof. exact filter_model_passes. Qed.
Print Assumptions C09_judge_filter_model_passes.

(* ... and an arbitrary answer that passes never is a crash; on a layout and well-formed executed ranges it is an error
   exactly when the ranges overlap (C09_filter_error_iff for the answer) and otherwise a list with the clauses of
   C09_filter_spec_reports, C09_filter_spec_executed, C09_pending_exact *)
Theorem C09_judge_filter_sound : forall reports es o, filter_ok (reports, es) o = true ->
  calm o /\
  (layout (by_start reports) -> Forall (fun e => fst e <= snd e) es ->
   (o = Err <-> es <> [] /\ no_overlap 0 (ranges_by_start es) = false) /\
   (no_overlap 0 (ranges_by_start es) = true -> exists out, o = Ok out /\ pending_rel reports es out)).
Proof. exact filter_sound. Qed.
Print Assumptions C09_judge_filter_sound.

Theorem C09_judge_pending_rel_meaning : forall reports es out,
  pending_rel reports es out <->
  ((exists keep : rep -> bool,
      map p_id out = map p_id (filter keep (by_start reports)) /\
      forall r, In r (by_start reports) -> (keep r = true <-> ~ all_executed es r)) /\
   (forall r', In r' out ->
      exists r, In r reports /\ p_id r' = p_id r /\ p_lo r' = p_lo r /\ p_hi r' = p_hi r /\ ~ all_executed es r /\
        (wf_runs (p_exec r') ->
         strict_runs (p_exec r') /\
         forall s, in_runs (p_exec r') s <-> (p_lo r <= s <= p_hi r /\ in_union es s))) /\
   (forall r, In r reports ->
      ((exists r', In r' out /\ p_id r' = p_id r /\ p_lo r' = p_lo r /\ p_hi r' = p_hi r) <-> ~ all_executed es r))).
Proof. intros reports es out. unfold pending_rel. reflexivity. Qed.
Print Assumptions C09_judge_pending_rel_meaning.

(* sinks C09_pending, C09_observe (getPendingExecutedReports over a scripted reader).  [world_of world c]: the
   destination's executed set of chain c; [reader_failed tab]: some executed-ranges query of the call log failed;
   [honest_answers]: every query of the chain was answered, the answers together are a legal list and show the
   destination's executed set inside the reports.  The model passes when no query fails and the reader is honest ... *)
Theorem C09_judge_pend_model_passes : forall l tab world,
  groups_good (group_by_chain l) ->
  (forall c reps r, In (c, reps) (group_by_chain l) -> In r reps -> p_exec r = []) ->
  ~ reader_failed tab ->
  (forall c reps, In (c, reps) (group_by_chain l) -> honest_answers tab world c reps) ->
  pend_ok (Some l, tab, world) (pend_model (Some l, tab, world)) = true.
Proof. exact pend_model_passes. Qed.
Print Assumptions C09_judge_pend_model_passes.

(* ... and an arbitrary answer that passes: pending EXACTLY the committed reports with a message the DESTINATION has not
   executed, chain by chain, each recording the destination's executed set inside its interval *)
Theorem C09_judge_pend_sound : forall crs tab world o, pend_ok (crs, tab, world) o = true ->
  calm o /\
  match crs with
  | None => o = Err
  | Some l =>
      groups_good (group_by_chain l) ->
      match o with
      | Ok out =>
          ~ reader_failed tab /\
          Permutation (map fst out) (map fst (group_by_chain l)) /\
          (forall c reps, In (c, reps) (group_by_chain l) ->
             exists outc, In (c, outc) out /\ pending_rel reps (world_of world c) outc) /\
          (forall c outc, In (c, outc) out ->
             exists reps, In (c, reps) (group_by_chain l) /\ pending_rel reps (world_of world c) outc)
      | Err => reader_failed tab
      | _ => False
      end
  end.
Proof. exact pend_sound. Qed.
Print Assumptions C09_judge_pend_sound.

(* sinks C09_history (hist_judge) and C09_history_big (histmon_judge): both evaluate hist_ok on the implementation's
   outcome.  The model of the history sink passes on legal snapshots ... *)
Theorem C09_judge_hist_model_passes : forall st snap, snap_legal snap -> hist_ok (st, snap) (hist_model (st, snap)) = true.
Proof. exact (fun st snap H => hist_model_passes snap H st). Qed.
Print Assumptions C09_judge_hist_model_passes.

(* ... and an arbitrary outcome that passes: a message the destination showed as executed when the cycle started is in
   no report (the conclusion of C09_never_reexecuted_cycle), every reported message is committed, none twice; before
   the Filter round the pending reports satisfy the pending-exact clauses per chain of the snapshot *)
Theorem C09_judge_hist_sound : forall st snap o, hist_ok (st, snap) o = true ->
  exists pend msgs, o = Ok (pend, msgs, msgs) /\ NoDup msgs /\
    (forall c s, In (c, s) msgs ->
       (forall reps ex, In (c, reps, ex) snap -> ~ in_union ex s) /\
       (exists reps ex r, In (c, reps, ex) snap /\ In r reps /\ p_lo r <= s <= p_hi r)) /\
    (st = 3 -> forall c r, In (c, r) pend -> p_lo r <= p_hi r ->
                 exists s, p_lo r <= s <= p_hi r /\ ~ in_runs (p_exec r) s) /\
    (st <> 3 -> msgs = [] /\
                (snap_wf snap ->
                 pending_exact_over snap (fun cre => fst (fst cre)) (fun cre => snd (fst cre)) (fun cre => snd cre) pend)).
Proof. exact hist_sound. Qed.
Print Assumptions C09_judge_hist_sound.

(* histmon_judge has no model to compare with: it never reports a mismatch, only hist_ok = false (whose meaning is
   C09_judge_hist_sound) *)
Theorem C09_judge_histmon_sound : forall cs p, In p (histmon_judge cs) ->
  snd p <> 1 /\ exists i o, In (i, o) cs /\ hist_ok i o = false.
Proof. exact histmon_reports_only_hist_ok. Qed.
Print Assumptions C09_judge_histmon_sound.

(* sink C09_cycles (whole histories of long-lived plugins).  The model passes on every history whose home-chain
   configurations name each source chain once ... *)
Theorem C09_judge_cyc_model_passes : forall V t0 evs,
  sources_distinct evs -> cyc_ok (V, t0, evs) (cyc_model (V, t0, evs)) = true.
Proof. exact cyc_model_passes. Qed.
Print Assumptions C09_judge_cyc_model_passes.

(* ... and an arbitrary observation list that passes has one observation per cycle, and the observation of every cycle
   satisfies [cycle_P] on the state the history has reached when the cycle starts.  cycle_P (Proofs/JudgeSoundC09P.v):
   reader arguments from the current clock; the report holds exactly the candidates of C09_hist_candidates, each once;
   pending after GetCommitReports as in C09_hist_pending_exact; pending after Filter = the reports with a message
   neither executed nor reported.  Because the report is the candidate set, what lands of it moves the destination as
   in the model, so the states are the model's [reached] states - for EVERY passing implementation *)
Theorem C09_judge_cyc_sound : forall V t0 evs1 nobs land evs2 o,
  cyc_ok (V, t0, evs1 ++ ECycle nobs land :: evs2) o = true ->
  exists outs ob, o = Ok outs /\
    nth_error outs (length (filter (fun e => match e with ECycle _ _ => true | _ => false end) evs1)) = Some ob /\
    cycle_P V (reached V t0 evs1) nobs ob /\
    (forall m, In m (obs_offered ob) <-> candidate V (reached V t0 evs1) m) /\ NoDup (obs_offered ob).
Proof.
  intros V t0 evs1 nobs land evs2 o H. destruct (cyc_sound_at V t0 evs1 nobs land evs2 o H) as [outs [ob [E [Hn P]]]].
  exists outs, ob. split; [exact E|]. split; [exact Hn|]. split; [exact P|]. split; [exact (proj1 (proj2 P))|exact (proj1 (proj2 (proj2 P)))].
Qed.
Print Assumptions C09_judge_cyc_sound.

(* C09_hist_no_loss for the report of the implementation: whatever happened to the earlier reports *)
Theorem C09_judge_cyc_no_loss : forall V t0 evs0 evs' nobs land evs2 o r s,
  cyc_ok (V, t0, (evs0 ++ evs') ++ ECycle nobs land :: evs2) o = true ->
  let st2 := reached V t0 (evs0 ++ evs') in
  In r (d_reports (reached V t0 evs0)) -> cr_lo r <= s <= cr_hi r ->
  cycle_open st2 = true -> In (cr_chain r) (live_chains st2) -> in_window V st2 r = true ->
  ~ In (cr_chain r, s) (d_exec st2) -> ~ In (cr_chain r, s) (d_blocked st2) ->
  exists outs ob, o = Ok outs /\
    nth_error outs (length (filter (fun e => match e with ECycle _ _ => true | _ => false end) (evs0 ++ evs'))) = Some ob /\
    In (cr_chain r, s) (obs_offered ob).
Proof. exact cyc_no_loss. Qed.
Print Assumptions C09_judge_cyc_no_loss.

(* C09_hist_never_reexecuted for the report of the implementation *)
Theorem C09_judge_cyc_never_reexecuted : forall V t0 evs0 evs' nobs land evs2 o m,
  cyc_ok (V, t0, (evs0 ++ evs') ++ ECycle nobs land :: evs2) o = true ->
  In m (d_exec (reached V t0 evs0)) ->
  exists outs ob, o = Ok outs /\
    nth_error outs (length (filter (fun e => match e with ECycle _ _ => true | _ => false end) (evs0 ++ evs'))) = Some ob /\
    ~ In m (obs_offered ob).
Proof. exact cyc_never_reexecuted. Qed.
Print Assumptions C09_judge_cyc_never_reexecuted.

(* sinks ExecSys_cycle_* -> sys_judge = ExecSys_check.sys_judge_noclass (whole execute cycles of one DON over a world
   with ground truth).  The soundness lemmas are proved once in Proofs/JudgeSoundExecSysP.v (the f+1 clauses (i)-(iv) are
   restated in Props/C07.v, C07_judge_sys_sound); here the two clauses C09 is about. *)
Require Verif.Check.ExecSys_check Verif.Proofs.JudgeSoundExecSysP.
Module C09SysK := Verif.Check.ExecSys_check.
Module C09JSX := Verif.Proofs.JudgeSoundExecSysP.

(* never re-executed: nothing the destination shows as executed is in any report of a history that passes *)
Theorem C09_judge_sys_sound_noreexec :
  forall (g : C09SysK.scfg) (prev : ExecSys.outcome) (rs : list C09SysK.sround_in) (o : C09SysK.sys_out),
  C09SysK.sys_safe (g, prev, rs) o = true -> C09SysK.s_live g = true ->
  forall (vals : list bool) (x : ExecSys.outcome) (r : ExecReport.creport) (m : ExecReport.msg),
    In (vals, Ok x) o -> In r (ExecSys.o_report x) -> In m (ExecReport.r_msgs r) ->
    ~ In (ExecReport.r_src r, ExecReport.m_seq m) (C09SysK.s_executed g).
Proof. exact C09JSX.sys_safe_noreexec_sound. Qed.
Print Assumptions C09_judge_sys_sound_noreexec.

(* no loss: outside the recorded class (the only thing sys_judge_noclass masks), a history that passes has a Filter
   outcome whose report holds every eligible pending message of the world *)
Theorem C09_judge_sys_sound_live :
  forall (i : C09SysK.sys_in) (o : C09SysK.sys_out),
  (if N.eqb (C09SysK.sys_known i) 0 then C09SysK.sys_live i o else true) = true -> C09SysK.sys_known i = 0%N ->
  C09SysK.s_live (fst (fst i)) = true -> C09SysK.s_expect (fst (fst i)) <> [] ->
  exists (vals : list bool) (x : ExecSys.outcome), In (vals, Ok x) o /\ ExecSys.o_state x = 4%N /\
    forall c s, In (c, s) (C09SysK.s_expect (fst (fst i))) ->
      exists r m, In r (ExecSys.o_report x) /\ ExecReport.r_src r = c /\ In m (ExecReport.r_msgs r) /\ ExecReport.m_seq m = s.
Proof.
  exact (fun i o H K => C09JSX.sys_live_sound i o (C09JSX.sys_live_noclass_sound i o H K)).
Qed.
Print Assumptions C09_judge_sys_sound_live.

(* (a) on a concrete cycle (four oracles, one deviating in every round): the model's history passes sys_judge_noclass *)
Theorem C09_judge_sys_model_passes_example :
  C09SysK.sys_safe C09JSX.SysCase.i (C09SysK.sys_model C09JSX.SysCase.i) = true /\
  C09SysK.sys_known C09JSX.SysCase.i = 0%N /\
  C09SysK.sys_judge_noclass [(C09JSX.SysCase.i, C09SysK.sys_model C09JSX.SysCase.i)] = [].
Proof.
  exact (let H := C09JSX.SysCase.sys_case_passes in
         conj (proj1 H) (conj (proj1 (proj2 (proj2 (proj2 H)))) (proj1 (proj2 (proj2 (proj2 (proj2 (proj2 H)))))))).
Qed.
Print Assumptions C09_judge_sys_model_passes_example.

(* ---------- judge soundness, second pass (pend_ok with a failed query in the log; hist_ok after Filter) ---------- *)

(* sink C09_pending, cases with a scripted failing executed-ranges query.  What the harness guarantees about such a call
   log (harness/execute/c09_test.go): the table is the log of the ExecutedMessageRanges calls the implementation made,
   each with the answer it got; failures are scripted PER CHAIN, so every logged call of a chain with a failed call is a
   failed call, and the failing chain has a commit report ([scripted_failures]); the answers given end below 2^64-1
   ([answers_below]).  Nothing is assumed about which queries the implementation issued or in which order.  Then the
   model answers Err ... *)
Theorem C09_judge_pend_model_failing : forall l tab,
  groups_good (group_by_chain l) -> answers_below tab -> scripted_failures tab (group_by_chain l) ->
  reader_failed tab -> pending_reports (Some l) (answer_of tab) = Err.
Proof. exact pend_model_failing. Qed.
Print Assumptions C09_judge_pend_model_failing.

(* ... and pend_ok accepts it: (a) for every case of the sinks C09_pending / C09_observe, with or without a failed query *)
Theorem C09_judge_pend_model_passes_all : forall l tab world,
  groups_good (group_by_chain l) ->
  (forall c reps r, In (c, reps) (group_by_chain l) -> In r reps -> p_exec r = []) ->
  answers_below tab -> scripted_failures tab (group_by_chain l) ->
  (~ reader_failed tab -> forall c reps, In (c, reps) (group_by_chain l) -> honest_answers tab world c reps) ->
  pend_ok (Some l, tab, world) (pend_model (Some l, tab, world)) = true.
Proof. exact pend_model_passes_all. Qed.
Print Assumptions C09_judge_pend_model_passes_all.

(* the premises are satisfiable with a failed query: chain 2 asked first and failed (chain 1 never asked), and chain 1
   answered before chain 2 failed; the model says Err, pend_ok accepts Err and rejects an answer *)
Example C09_judge_pend_failing_example :
  groups_good (group_by_chain ex_crs) /\
  (answers_below ex_tab_failing /\ scripted_failures ex_tab_failing (group_by_chain ex_crs) /\ reader_failed ex_tab_failing) /\
  (answers_below ex_tab_failing2 /\ scripted_failures ex_tab_failing2 (group_by_chain ex_crs) /\ reader_failed ex_tab_failing2) /\
  pend_model (Some ex_crs, ex_tab_failing, ex_world) = Err /\ pend_model (Some ex_crs, ex_tab_failing2, ex_world) = Err /\
  pend_ok (Some ex_crs, ex_tab_failing, ex_world) Err = true /\ pend_ok (Some ex_crs, ex_tab_failing2, ex_world) Err = true /\
  pend_ok (Some ex_crs, ex_tab_failing2, ex_world) (Ok [(1, [mkRep 2 10 12 [(11, 11)]]); (2, [mkRep 7 1 4 []])]) = false.
Proof. exact pend_failing_example. Qed.
Print Assumptions C09_judge_pend_failing_example.

(* sinks C09_history / C09_history_big, Filter round (state 3): hist_ok now tests the EXACT pending clause, relative
   to what the outcome's own report [msgs] holds (so it is true also when not everything fits into one report): an
   outcome that passes has pending = exactly the committed reports of the snapshot with a message that is neither
   executed per the snapshot nor in the report, each recording (executed per the snapshot or reported) inside its
   interval - compare C09_pending_exact / C09_filter_spec_executed and clause (e) of the C09_cycles judge *)
Theorem C09_judge_hist_sound_filter : forall snap pend msgs omsgs,
  hist_ok (3, snap) (Ok (pend, msgs, omsgs)) = true -> snap_wf snap ->
  (forall c r', In (c, r') pend ->
     exists reps ex r, In (c, reps, ex) snap /\ In r reps /\
       p_id r' = p_id r /\ p_lo r' = p_lo r /\ p_hi r' = p_hi r /\
       ~ (forall s, p_lo r <= s <= p_hi r -> in_union ex s \/ In (c, s) msgs) /\
       (wf_runs (p_exec r') ->
        strict_runs (p_exec r') /\
        forall s, in_runs (p_exec r') s <-> (p_lo r <= s <= p_hi r /\ (in_union ex s \/ In (c, s) msgs)))) /\
  (forall c reps ex r s, In (c, reps, ex) snap -> In r reps -> p_lo r <= s <= p_hi r ->
     ~ in_union ex s -> ~ In (c, s) msgs ->
     exists r', In (c, r') pend /\ p_id r' = p_id r /\ p_lo r' = p_lo r /\ p_hi r' = p_hi r).
Proof. exact hist_sound_filter. Qed.
Print Assumptions C09_judge_hist_sound_filter.

(* the judge was only strengthened ... *)
Theorem C09_judge_hist_stronger : forall i o, hist_ok i o = true -> hist_ok_before i o = true.
Proof. exact hist_ok_stronger. Qed.
Print Assumptions C09_judge_hist_stronger.

(* ... and what it accepted wrongly: on ex_snap (chain 1: report [10,12] with 11 executed) with a report holding 10 but
   not 12, dropping the report from the pending list (o1) and keeping it with an empty executed list (o2) both passed;
   the clause demands o3.  Also the non-vacuity of C09_judge_hist_sound_filter (o3 passes, snap_wf ex_snap). *)
Example C09_judge_hist_before_weak :
  let ms := [(1, 10); (2, 1); (2, 4)] in
  let o1 : hist_out := Ok ([], ms, ms) in
  let o2 : hist_out := Ok ([(1, mkRep 2 10 12 [])], ms, ms) in
  let o3 : hist_out := Ok ([(1, mkRep 2 10 12 [(10, 11)])], ms, ms) in
  hist_ok_before (3, ex_snap) o1 = true /\ hist_ok (3, ex_snap) o1 = false /\
  hist_ok_before (3, ex_snap) o2 = true /\ hist_ok (3, ex_snap) o2 = false /\
  hist_ok (3, ex_snap) o3 = true /\
  (In (1, ex_reports, ex_executed) ex_snap /\ In (mkRep 2 10 12 []) ex_reports /\
   ~ in_union ex_executed 12 /\ ~ In (1, 12) ms) /\
  snap_wf ex_snap.
Proof. exact hist_ok_before_weak. Qed.
Print Assumptions C09_judge_hist_before_weak.

(* (a) for the ExecSys sinks in general (Proofs/JudgeSoundExecSysAP.v, the C07 row of docs/judge_soundness.md): on every
   case satisfying the decidable well-formedness facts the harness guarantees ([sys_wf]) and lying outside the recorded
   class F14 of C08 ([sys_drop]), the model's own output passes the whole walk of sys_safe (carried, owns / reverify,
   the f+1 clauses (i)-(iv), not-costly, nonces_walk); what remains is the ground-truth clause about the harness's
   world, which the model never reads *)
Require Verif.Proofs.JudgeSoundExecSysAP.
Theorem C09_judge_sys_model_passes : forall i, Verif.Proofs.JudgeSoundExecSysAP.sys_wf i ->
  Verif.Proofs.JudgeSoundExecSysAP.sys_drop i = false ->
  C09SysK.sys_safe i (C09SysK.sys_model i) = C09SysK.noreexec_ok (fst (fst i)) (C09SysK.sys_model i).
Proof. exact Verif.Proofs.JudgeSoundExecSysAP.sys_safe_model. Qed.
Print Assumptions C09_judge_sys_model_passes.

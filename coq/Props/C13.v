(* C13 — Malformed or adversarial inputs produce errors, never panics or hangs.
   Theorems only (proofs in Proofs/PanicSitesP.v). Each is about the res-monad model of one family of panic / spin
   sites; the sweep harness (Check/C13_check.v) validates that the modelled set of sites is complete for the
   single-site mutation sweep of honest traffic. *)
Require Import Verif.Model.Base Verif.Model.PanicSites Verif.Proofs.PanicSitesP.

(* 1. hand-written unmarshalers: for every byte string and every behaviour of hex.DecodeString / SetString *)
Theorem C13_bytes_unmarshal_never_panics : forall hex_decode data,
  bytes_unmarshal hex_decode data <> Panic /\ bytes_unmarshal hex_decode data <> Spin.
Proof. exact bytes_unmarshal_no_panic. Qed.
Print Assumptions C13_bytes_unmarshal_never_panics.

Theorem C13_bytes32_unmarshal_never_panics : forall hex_decode data,
  bytes32_unmarshal hex_decode data <> Panic /\ bytes32_unmarshal hex_decode data <> Spin.
Proof. exact bytes32_unmarshal_no_panic. Qed.
Print Assumptions C13_bytes32_unmarshal_never_panics.

Theorem C13_bigint_unmarshal_never_panics : forall parse_decimal p,
  bigint_unmarshal parse_decimal p <> Panic /\ bigint_unmarshal parse_decimal p <> Spin.
Proof. exact bigint_unmarshal_no_panic. Qed.
Print Assumptions C13_bigint_unmarshal_never_panics.

(* 2. execute plugin: any state string in a previous outcome is rejected or advanced, never a panic *)
Theorem C13_exec_state_never_panics : forall s,
  exec_callback_next s <> Panic /\ exec_callback_next s <> Spin.
Proof. exact exec_callback_next_no_panic. Qed.
Print Assumptions C13_exec_state_never_panics.

Theorem C13_exec_state_unfixed_refuted : exists s, exec_callback_next_unfixed s = Panic.
Proof. exact exec_callback_next_unfixed_refuted. Qed.
Print Assumptions C13_exec_state_unfixed_refuted.

(* 3. execute getMessagesOutcome: total for every range (including ranges ending at 2^64-1), and equal to the
      original loop wherever that one terminated *)
Theorem C13_range_loop_total : forall observed s e, exists l, range_loop observed s e = Ok l.
Proof. exact range_loop_total. Qed.
Print Assumptions C13_range_loop_total.

Theorem C13_range_loop_refines_original : forall observed s e l,
  NoDup observed -> range_loop_unfixed observed s e = Ok l -> range_loop observed s e = Ok l.
Proof. exact range_loop_same_as_unfixed. Qed.
Print Assumptions C13_range_loop_refines_original.

Theorem C13_range_loop_unfixed_refuted : exists observed s, range_loop_unfixed observed s max64 = Spin.
Proof. exact range_loop_unfixed_spins_refuted. Qed.
Print Assumptions C13_range_loop_unfixed_refuted.

(* 4. medians / aggregators over validated (non-nil) big integers *)
Theorem C13_validated_aggregate_never_panics : forall xs ys,
  validate_updates xs = Ok tt -> validate_updates ys = Ok tt -> exists v, agg2_res xs ys = Ok v.
Proof. exact validated_aggregate_no_panic. Qed.
Print Assumptions C13_validated_aggregate_never_panics.

Theorem C13_unvalidated_median_refuted : exists vals, median_res vals = Panic.
Proof. exact median_res_nil_refuted. Qed.
Print Assumptions C13_unvalidated_median_refuted.

(* 5. RMN controller: for every configuration, schedule and list of peer responses / timer / context events
      (arbitrary bodies: nil sub-messages, short roots, wrong kinds, garbage) the repaired controller never panics,
      and has returned by the event at which the context is done (proved in Proofs/RmnP.v for C06). *)
Require Verif.Model.Rmn Verif.Proofs.RmnP.
Theorem C13_rmn_never_panics : forall edv vrs cfg sc,
  NoDup (map Rmn.sg_node (Rmn.c_signers cfg)) ->
  forall evs l, Rmn.run edv vrs Rmn.fixed cfg sc evs <> Rmn.GFinal Rmn.Crash l.
Proof. exact RmnP.total_no_panic. Qed.
Print Assumptions C13_rmn_never_panics.

Theorem C13_rmn_returns_by_deadline : forall edv vrs cfg sc pre post,
  exists f l, Rmn.run edv vrs Rmn.fixed cfg sc (pre ++ [Rmn.CtxDone]) = Rmn.GFinal f l /\
              Rmn.run edv vrs Rmn.fixed cfg sc (pre ++ Rmn.CtxDone :: post) = Rmn.GFinal f l.
Proof. exact RmnP.total_terminates. Qed.
Print Assumptions C13_rmn_returns_by_deadline.

(* 6. Observation truncation (execute GetMessages phase): for every size function, limit and chain-pick order the
      repaired truncation returns an observation or an error — no panic, no endless loop (Proofs/TruncateP.v, C17);
      the pre-repair slice surgery panicked. *)
Require Verif.Model.Truncate Verif.Proofs.TruncateP.
Theorem C13_truncate_total : forall size max pick o,
  (forall n o, Truncate.t_commits o <> [] -> In (pick n o) (Truncate.tkeys (Truncate.t_commits o))) ->
  NoDup (Truncate.tkeys (Truncate.t_commits o)) ->
  (exists o', Truncate.truncate size max pick o = Ok o') \/ Truncate.truncate size max pick o = Err.
Proof. exact TruncateP.truncate_total. Qed.
Print Assumptions C13_truncate_total.

Theorem C13_truncate_unfixed_refuted :
  exists o c, Truncate.truncate_chain_unfixed o c = Panic /\
              exists size max pick, Truncate.truncate_unfixed size max pick o = Panic.
Proof. exact TruncateP.truncate_chain_unfixed_panics. Qed.
Print Assumptions C13_truncate_unfixed_refuted.

(* ======================================================================================================================
   7. Second batch (Model/PanicSites2.v, docs/c13_sites.md): one (guard, use) pair per site.  For each: the function
      as it stands (use behind its guard) never panics / spins, for ALL inputs (no size bound); and a witness that the
      bare use does panic without the guard.  no_crash r := r <> Panic /\ r <> Spin. *)
Require Import Verif.Model.PanicSites2 Verif.Proofs.PanicSites2P.

(* 7.1 "for i := range xs { ys[i] }": panics exactly when ys is shorter than xs *)
Theorem C13_zip_loop_panics_iff : forall (A B : Type) (xs : list A) (ys : list B),
  zip_loop xs ys = Panic <-> (length ys < length xs)%nat.
Proof. exact @zip_loop_panic_iff. Qed.
Print Assumptions C13_zip_loop_panics_iff.
Theorem C13_zip_guard_needed_refuted : exists (xs ys : list N), zip_loop xs ys = Panic.
Proof. exact zip_guard_needed_refuted. Qed.
Print Assumptions C13_zip_guard_needed_refuted.

(* the seven functions that run such a loop behind a length comparison (reader answers vs. things asked about, token
   data vs. messages of a pending report from the previous outcome, token data of two observers) *)
Theorem C13_validate_roots_state_never_panics : forall (A B : Type) (chains : list A) (answers : list B),
  no_crash (validate_roots_state chains answers).
Proof. exact @validate_roots_state_no_crash. Qed.
Print Assumptions C13_validate_roots_state_never_panics.
Theorem C13_observe_offramp_next_never_panics : forall (A B : Type) (chains : list A) (answers : list B),
  no_crash (observe_offramp_next chains answers).
Proof. exact @observe_offramp_next_no_crash. Qed.
Print Assumptions C13_observe_offramp_next_never_panics.
Theorem C13_observe_feed_prices_never_panics : forall (A B : Type) (tokens : list A) (prices : list B),
  no_crash (observe_feed_prices tokens prices).
Proof. exact @observe_feed_prices_no_crash. Qed.
Print Assumptions C13_observe_feed_prices_never_panics.
Theorem C13_all_source_configs_never_panics : forall (A B : Type) (sels : list A) (cfgs : list B),
  no_crash (all_source_configs sels cfgs).
Proof. exact @all_source_configs_no_crash. Qed.
Print Assumptions C13_all_source_configs_never_panics.
Theorem C13_report_token_data_never_panics : forall (A B : Type) (msgs : list A) (toks : list B),
  no_crash (report_token_data msgs toks).
Proof. exact @report_token_data_no_crash. Qed.
Print Assumptions C13_report_token_data_never_panics.
Theorem C13_token_merge_never_panics : forall (A B : Type) (from : list A) (base : list B),
  no_crash (token_merge from base).
Proof. exact @token_merge_no_crash. Qed.
Print Assumptions C13_token_merge_never_panics.
(* priceReader.GetFeeQuoterTokenUpdates after the repair F72; the original indexed the answer unchecked *)
Theorem C13_fee_quoter_updates_never_panics : forall (A B : Type) (tokens : list A) (updates : list B),
  no_crash (fee_quoter_updates tokens updates).
Proof. exact @fee_quoter_updates_no_crash. Qed.
Print Assumptions C13_fee_quoter_updates_never_panics.
Theorem C13_fee_quoter_updates_same_as_unfixed : forall (A B : Type) (tokens : list A) (updates : list B),
  length updates = length tokens -> fee_quoter_updates tokens updates = fee_quoter_updates_unfixed tokens updates.
Proof. exact @fee_quoter_updates_same. Qed.
Print Assumptions C13_fee_quoter_updates_same_as_unfixed.
Theorem C13_fee_quoter_updates_unfixed_panics_iff : forall (A B : Type) (tokens : list A) (updates : list B),
  fee_quoter_updates_unfixed tokens updates = Panic <-> (length updates < length tokens)%nat.
Proof. exact @fee_quoter_updates_unfixed_panics. Qed.
Print Assumptions C13_fee_quoter_updates_unfixed_panics_iff.
Theorem C13_fee_quoter_updates_unfixed_refuted :
  exists (tokens updates : list N), fee_quoter_updates_unfixed tokens updates = Panic.
Proof. exact fee_quoter_updates_unfixed_refuted. Qed.
Print Assumptions C13_fee_quoter_updates_unfixed_refuted.

(* 7.2 execute report builder on a pending report of a decodable previous outcome: any numbers of messages and of
   token data entries *)
Theorem C13_check_message_never_panics : forall (M T : Type) (msgs : list M) (toks : list T) (idx : Z),
  (0 <= idx)%Z -> no_crash (check_message msgs toks idx).
Proof. exact @check_message_no_crash. Qed.
Print Assumptions C13_check_message_never_panics.
Theorem C13_builder_add_never_panics : forall (M T : Type) (msgs : list M) (toks : list T),
  no_crash (builder_add msgs toks).
Proof. exact @builder_add_no_crash. Qed.
Print Assumptions C13_builder_add_never_panics.
Theorem C13_check_message_guard_needed_refuted :
  exists (msgs toks : list N) idx, check_message_unguarded msgs toks idx = Panic /\ check_message msgs toks idx = Err.
Proof. exact check_message_guard_needed_refuted. Qed.
Print Assumptions C13_check_message_guard_needed_refuted.

(* 7.3 the leader's query: RMN signature bundle with nil / short entries (F10 repaired), bundle missing altogether *)
Theorem C13_ecdsa_sig_never_panics : forall sig, no_crash (ecdsa_sig_from_pb sig).
Proof. exact ecdsa_sig_from_pb_no_crash. Qed.
Print Assumptions C13_ecdsa_sig_never_panics.
Theorem C13_ecdsa_sig_guard_needed_refuted :
  ecdsa_sig_from_pb_unguarded None = Panic /\
  exists r s, ecdsa_sig_from_pb_unguarded (Some (r, s)) = Panic /\ ecdsa_sig_from_pb (Some (r, s)) = Err.
Proof. exact ecdsa_sig_guard_needed_refuted. Qed.
Print Assumptions C13_ecdsa_sig_guard_needed_refuted.
Theorem C13_lane_update_never_panics : forall lu, no_crash (lane_update_from_pb lu).
Proof. exact lane_update_from_pb_no_crash. Qed.
Print Assumptions C13_lane_update_never_panics.
Theorem C13_lane_update_guard_needed_refuted :
  lane_update_from_pb_unguarded None = Panic /\
  lane_update_from_pb_unguarded (Some (mkPbLane None (Some (1, 2)%N) (repeat 0%N 32))) = Panic /\
  lane_update_from_pb_unguarded (Some (mkPbLane (Some 5%N) None (repeat 0%N 32))) = Panic /\
  lane_update_from_pb_unguarded (Some (mkPbLane (Some 5%N) (Some (1, 2)%N) (repeat 0%N 5))) = Panic.
Proof. exact lane_update_guard_needed_refuted. Qed.
Print Assumptions C13_lane_update_guard_needed_refuted.
Theorem C13_verify_query_never_panics : forall building retry cfg_empty verified (q : option pb_bundle),
  no_crash (verify_query building retry cfg_empty verified q).
Proof. exact verify_query_no_crash. Qed.
Print Assumptions C13_verify_query_never_panics.
Theorem C13_verify_query_guard_needed_refuted :
  exists building retry cfg_empty verified,
    verify_query_unguarded building retry cfg_empty verified None = Panic /\
    verify_query building retry cfg_empty verified None = Err.
Proof. exact verify_query_guard_needed_refuted. Qed.
Print Assumptions C13_verify_query_guard_needed_refuted.
Theorem C13_build_report_bundle_never_panics : forall q : option pb_bundle, no_crash (build_report_bundle q).
Proof. exact build_report_bundle_no_crash. Qed.
Print Assumptions C13_build_report_bundle_never_panics.

(* 7.4 Deviates: any two non-nil big integers (zero, negative, huge); and on medians of validated observations *)
Theorem C13_deviates_never_panics : forall a b ppb : Z, no_crash (deviates (Some a) (Some b) ppb).
Proof. exact deviates_no_crash. Qed.
Print Assumptions C13_deviates_never_panics.
Theorem C13_deviates_of_validated_medians_never_panics : forall (xs ys : list (option Z)) (ppb : Z),
  all_some xs = true -> all_some ys = true -> xs <> [] -> ys <> [] -> no_crash (deviates_of_medians xs ys ppb).
Proof. exact deviates_of_medians_no_crash. Qed.
Print Assumptions C13_deviates_of_validated_medians_never_panics.
Theorem C13_deviates_guard_needed_refuted :
  deviates_unguarded (Some 5%Z) (Some 0%Z) 1 = Panic /\ deviates (Some 5%Z) (Some 0%Z) 1 = Ok true /\
  deviates None (Some 1%Z) 1 = Panic /\ deviates (Some 1%Z) None 1 = Panic.
Proof. exact deviates_guard_needed_refuted. Qed.
Print Assumptions C13_deviates_guard_needed_refuted.

(* 7.5 token data consensus of execute Outcome: Append at any index of a range loop, writes into made maps *)
Theorem C13_append_at_never_panics : forall (A : Type) (d : A) (l : list A) (index : Z) (x : A),
  (0 <= index)%Z ->
  exists l', append_at d l index x = Ok l' /\ length l' = Nat.max (length l) (Z.to_nat (index + 1)).
Proof. exact @append_at_ok. Qed.
Print Assumptions C13_append_at_never_panics.
Theorem C13_append_at_guard_needed_refuted :
  append_at_unguarded [1; 2]%N 2 9%N = Panic /\ append_at 0%N [1; 2]%N 2 9%N = Ok [1; 2; 9]%N /\
  append_at 0%N [1; 2]%N (-1) 9%N = Panic.
Proof. exact append_at_guard_needed_refuted. Qed.
Print Assumptions C13_append_at_guard_needed_refuted.
Theorem C13_merge_tok_never_panics : forall fchain entries (m : tokmap),
  inner_made m = true -> no_crash (merge_tok_all fchain m entries).
Proof. exact merge_tok_all_no_crash. Qed.
Print Assumptions C13_merge_tok_never_panics.
Theorem C13_merge_tok_guard_needed_refuted :
  merge_tok_write_unguarded [] 5 10 1 = Panic /\ exists m', merge_tok_write [5]%N [] 5 10 1 = Ok m'.
Proof. exact merge_tok_guard_needed_refuted. Qed.
Print Assumptions C13_merge_tok_guard_needed_refuted.

(* 7.6 RMN peer responses: root length before Bytes32(root), empty vote table before values[len-1], address suffix *)
Theorem C13_root32_never_panics : forall root, no_crash (root32 root).
Proof. exact root32_no_crash. Qed.
Print Assumptions C13_root32_never_panics.
Theorem C13_root32_guard_needed_refuted : to_bytes32 (repeat 0%N 31) = Panic /\ root32 (repeat 0%N 31) = Err.
Proof. exact root32_guard_needed_refuted. Qed.
Print Assumptions C13_root32_guard_needed_refuted.
Theorem C13_max_count_never_panics : forall counts, no_crash (max_count counts).
Proof. exact max_count_no_crash. Qed.
Print Assumptions C13_max_count_never_panics.
Theorem C13_max_count_guard_needed_refuted : max_count_unguarded [] = Panic /\ max_count [] = Ok None.
Proof. exact max_count_guard_needed_refuted. Qed.
Print Assumptions C13_max_count_guard_needed_refuted.
Theorem C13_keep_n_right_never_panics : forall (b : list N) (n : N),
  (N.of_nat (length b) < two64)%N -> no_crash (keep_n_right b n).
Proof. exact keep_n_right_no_crash. Qed.
Print Assumptions C13_keep_n_right_never_panics.
Theorem C13_keep_n_right_guard_needed_refuted :
  keep_n_right_unguarded [1; 2]%N 3 = Panic /\ keep_n_right [1; 2]%N 3 = Ok [1; 2]%N.
Proof. exact keep_n_right_guard_needed_refuted. Qed.
Print Assumptions C13_keep_n_right_guard_needed_refuted.

(* 7.7 reader results: USDC event payloads, fee components and prices for the costly-message test, packed fee
   updates, price feed answers, chain writer answers *)
Theorem C13_unpack_id_never_panics : forall arg0, no_crash (unpack_id arg0).
Proof. exact unpack_id_no_crash. Qed.
Print Assumptions C13_unpack_id_never_panics.
Theorem C13_source_token_payload_never_panics : forall extra, no_crash (source_token_payload extra).
Proof. exact source_token_payload_no_crash. Qed.
Print Assumptions C13_source_token_payload_never_panics.
Theorem C13_usdc_guards_needed_refuted :
  gslice (repeat 0%N 31) 0 32 = Panic /\ unpack_id (repeat 0%N 31) = Err /\
  source_token_payload_unguarded (repeat 0%N 63) = Panic /\ source_token_payload (repeat 0%N 63) = Err.
Proof. exact usdc_guards_needed_refuted. Qed.
Print Assumptions C13_usdc_guards_needed_refuted.
Theorem C13_exec_cost_never_panics : forall dests exec_fee da_fee native,
  no_crash (exec_cost dests exec_fee da_fee native).
Proof. exact exec_cost_no_crash. Qed.
Print Assumptions C13_exec_cost_never_panics.
Theorem C13_exec_cost_guard_needed_refuted :
  exec_cost_unguarded [] (Some 1%Z) (Some 1%Z) [] = Panic /\
  exec_cost_unguarded [900]%N None (Some 1%Z) [(900%N, 2%Z)] = Panic /\
  exec_cost_unguarded [900]%N (Some 1%Z) None [(900%N, 2%Z)] = Panic /\
  exec_cost [900]%N None (Some 1%Z) [(900%N, 2%Z)] = Err.
Proof. exact exec_cost_guard_needed_refuted. Qed.
Print Assumptions C13_exec_cost_guard_needed_refuted.
(* a message read without FeeValueJuels (F70 repaired: fee 0; the original multiplied by the nil value) *)
Theorem C13_msg_fee_never_panics : forall link juels, no_crash (msg_fee link juels).
Proof. exact msg_fee_no_crash. Qed.
Print Assumptions C13_msg_fee_never_panics.
Theorem C13_msg_fee_same_as_unfixed : forall link j, msg_fee link (Some j) = msg_fee_unfixed link (Some j).
Proof. exact msg_fee_same. Qed.
Print Assumptions C13_msg_fee_same_as_unfixed.
Theorem C13_msg_fee_unfixed_refuted : exists link, msg_fee_unfixed link None = Panic.
Proof. exact msg_fee_unfixed_refuted. Qed.
Print Assumptions C13_msg_fee_unfixed_refuted.
Theorem C13_packed_fee_never_panics : forall ts v, no_crash (packed_fee ts v).
Proof. exact packed_fee_no_crash. Qed.
Print Assumptions C13_packed_fee_never_panics.
Theorem C13_packed_fee_guard_needed_refuted : from_packed_fee None = Panic /\ packed_fee 1700000000 None = Ok None.
Proof. exact packed_fee_guard_needed_refuted. Qed.
Print Assumptions C13_packed_fee_guard_needed_refuted.
(* price feed answer without a value (F73 repaired) *)
Theorem C13_raw_price_never_panics : forall answer decimals, no_crash (raw_price answer decimals).
Proof. exact raw_price_no_crash. Qed.
Print Assumptions C13_raw_price_never_panics.
Theorem C13_raw_price_same_as_unfixed : forall a decimals, raw_price (Some a) decimals = raw_price_unfixed (Some a) decimals.
Proof. exact raw_price_same. Qed.
Print Assumptions C13_raw_price_same_as_unfixed.
Theorem C13_raw_price_unfixed_refuted : forall decimals, raw_price_unfixed None decimals = Panic.
Proof. exact raw_price_unfixed_refuted. Qed.
Print Assumptions C13_raw_price_unfixed_refuted.
(* chain writer answering (nil, nil) (F74 repaired) *)
Theorem C13_fee_components_never_panics : forall (C : Type) (answers : list (N * option C)), no_crash (fee_components answers).
Proof. exact @fee_components_no_crash. Qed.
Print Assumptions C13_fee_components_never_panics.
Theorem C13_fee_components_same_as_unfixed : forall (C : Type) (answers : list (N * option C)),
  forallb (fun e => is_some (snd e)) answers = true -> fee_components answers = fee_components_unfixed answers.
Proof. exact @fee_components_same. Qed.
Print Assumptions C13_fee_components_same_as_unfixed.
Theorem C13_fee_components_unfixed_refuted : exists answers : list (N * option N), fee_components_unfixed answers = Panic.
Proof. exact fee_components_unfixed_refuted. Qed.
Print Assumptions C13_fee_components_unfixed_refuted.

(* 7.8 execute GetCommitReports observation: the executed-range loop of filterOutExecutedMessages over uint64 bounds
   (F71 repaired): total for every report / executed range, equal to the original wherever that one returned; the
   original never returned exactly for an executed range and a report both ending at 2^64-1 (report not fully executed) *)
Theorem C13_filter_one_total : forall lo hi a b, exists r, filter_one lo hi a b = Ok r.
Proof. exact filter_one_total. Qed.
Print Assumptions C13_filter_one_total.
Theorem C13_filter_one_refines_original : forall lo hi a b r,
  filter_one_unfixed lo hi a b = Ok r -> filter_one lo hi a b = Ok r.
Proof. exact filter_one_refines. Qed.
Print Assumptions C13_filter_one_refines_original.
Theorem C13_filter_one_unfixed_spins_iff : forall lo hi a b,
  (lo <= max64)%N -> (hi <= max64)%N -> (a <= max64)%N -> (b <= max64)%N ->
  (filter_one_unfixed lo hi a b = Spin <-> (b = max64 /\ hi = max64 /\ lo < a)%N).
Proof. exact filter_one_unfixed_spin_iff. Qed.
Print Assumptions C13_filter_one_unfixed_spins_iff.
Theorem C13_filter_one_unfixed_refuted : exists lo hi a b, filter_one_unfixed lo hi a b = Spin.
Proof. exact filter_one_unfixed_refuted. Qed.
Print Assumptions C13_filter_one_unfixed_refuted.

Require Import Verif.Check.C13_check Verif.Proofs.JudgeSoundC13P Verif.Proofs.JudgeSoundC06P.
(* ---- the executable properties of Check/C13_check.v are the property (judge soundness) ---- *)
(* Sinks C13_commit / C13_exec / C13_reader_*: the case output is the callback's termination code (0 returned, 2 panicked,
   3 did not return before the watchdog); there is no model of the callbacks, the "model" is the constant 0. *)
Theorem C13_judge_sweep_model_passes : forall i, sweep_ok i (sweep_model i) = true.
Proof. exact sweep_model_passes. Qed.
Print Assumptions C13_judge_sweep_model_passes.
Theorem C13_judge_sweep_sound : forall i o, sweep_ok i o = true -> o = 0%N /\ o <> 2%N /\ o <> 3%N.
Proof. exact sweep_sound. Qed.
Print Assumptions C13_judge_sweep_sound.

(* Sinks C13_sites_*: the output is res_code of what the real (guard, use) pair did (0 value, 1 error, 2 panic, 3 no
   return).  The site's model passes under exactly the hypotheses of the never-panics theorems of section 7 (7.2 / 7.5
   index >= 0, 7.4 both integers non-nil, 7.6 a byte string shorter than 2^64) — the harness passes only such inputs. *)
Theorem C13_judge_site_model_passes : forall i,
  match i with
  | SCheckMsg idx _ _ => (0 <= idx)%Z
  | SDeviates x1 x2 _ => x1 <> None /\ x2 <> None
  | SAppend idx _ => (0 <= idx)%Z
  | SKeepRight len _ => (N.of_nat len < two64)%N
  | _ => True
  end ->
  site_ok i (site_model i) = true.
Proof. exact site_model_passes. Qed.
Print Assumptions C13_judge_site_model_passes.
(* a code that passes is the code of a result that is no crash — the predicate of every C13_*_never_panics theorem *)
Theorem C13_judge_site_sound : forall i o, site_ok i o = true ->
  (o = 0%N \/ o = 1%N) /\ forall (A : Type) (r : res A), res_code r = o -> no_crash r.
Proof. exact site_sound. Qed.
Print Assumptions C13_judge_site_sound.
Theorem C13_judge_site_example :
  site_ok (SCheckMsg 1 2 1) 1%N = true /\ site_model (SCheckMsg 1 2 1) = 1%N /\
  site_ok (SKeepRight 20 33) 0%N = true /\ site_model (SKeepRight 20 33) = 0%N /\
  site_ok (SDeviates (Some 5%Z) (Some 0%Z) 10000000) (site_model (SDeviates (Some 5%Z) (Some 0%Z) 10000000)) = true /\
  site_ok (SRoot32 31) 2%N = false.
Proof. exact site_ok_example. Qed.
Print Assumptions C13_judge_site_example.

(* Sink C06_sweep, judged by C06's judge re-exported: the statements of Props/C06.v (C06_judge_c06_model_passes,
   C06_judge_c06_sound; [c06_P i x] is the conclusion spelled out there), and the clause that is C13's — the call
   returned (kind 10 = watchdog) and not by a recovered panic (kind 9): C13_rmn_never_panics /
   C13_rmn_returns_by_deadline read on an arbitrary output. *)
Theorem C13_judge_c06_model_passes : forall i o,
  NoDup (map Rmn.sg_node (Rmn.c_signers (i_cfg i))) /\ NoDup (map Rmn.sg_addr (Rmn.c_signers (i_cfg i))) /\
  NoDup (map Rmn.hn_id (Rmn.c_nodes (i_cfg i))) ->
  c06_oeqb (c06_model i) o = true ->
  (forall x, o = [x] -> o_kind x <> 10%N) ->
  c06_ok i o = true.
Proof. exact c06_model_passes. Qed.
Print Assumptions C13_judge_c06_model_passes.
Theorem C13_judge_c06_sound : forall i o, c06_ok i o = true -> exists x, o = [x] /\ c06_P i x.
Proof. exact c06_sound. Qed.
Print Assumptions C13_judge_c06_sound.
Theorem C13_judge_c06_no_panic_no_hang : forall i o,
  c06_ok i o = true -> exists x, o = [x] /\ o_kind x <> 9%N /\ o_kind x <> 10%N.
Proof. exact c06_sound_no_panic_no_hang. Qed.
Print Assumptions C13_judge_c06_no_panic_no_hang.

(* Borrowed parts (judges p_*: no model, verdict 2 exactly for the outputs on which [bad] holds): an empty verdict list
   means no recorded output is bad; for res-valued outputs ([bad] = res_bad) that is no_crash of every output. *)
Theorem C13_judge_panic_only_sound : forall (I O : Type) (bad : O -> bool) (cs : list (I * O)) k,
  pj_from bad k cs = [] <-> Forall (fun c => bad (snd c) = false) cs.
Proof. exact @pj_from_sound. Qed.
Print Assumptions C13_judge_panic_only_sound.
Theorem C13_judge_res_bad_is_crash : forall (A : Type) (r : res A), res_bad r = false <-> no_crash r.
Proof. exact @res_bad_no_crash. Qed.
Print Assumptions C13_judge_res_bad_is_crash.

(* C13 — Malformed or adversarial inputs produce errors, never panics or hangs.
   Theorems only (proofs in Proofs/PanicSitesP.v). Each is about the res-monad model of one family of panic / spin
   sites; the sweep harness (Check/C13_check.v) validates that the modelled set of sites is complete for the
   single-site mutation sweep of honest traffic. *)
Require Import Verif.Model.Base Verif.Model.PanicSites Verif.Proofs.PanicSitesP.

(* 1. hand-written unmarshalers: for every byte string and every behaviour of hex.DecodeString / SetString *)
Theorem C13_bytes_unmarshal_never_panics : forall hex_decode data,
  bytes_unmarshal hex_decode data <> Panic /\ bytes_unmarshal hex_decode data <> Spin.
Proof. exact bytes_unmarshal_no_panic. Qed.
Print Assumptions C13_bytes_unmarshal_never_panics.

Theorem C13_bytes32_unmarshal_never_panics : forall hex_decode data,
  bytes32_unmarshal hex_decode data <> Panic /\ bytes32_unmarshal hex_decode data <> Spin.
Proof. exact bytes32_unmarshal_no_panic. Qed.
Print Assumptions C13_bytes32_unmarshal_never_panics.

Theorem C13_bigint_unmarshal_never_panics : forall parse_decimal p,
  bigint_unmarshal parse_decimal p <> Panic /\ bigint_unmarshal parse_decimal p <> Spin.
Proof. exact bigint_unmarshal_no_panic. Qed.
Print Assumptions C13_bigint_unmarshal_never_panics.

(* 2. execute plugin: any state string in a previous outcome is rejected or advanced, never a panic *)
Theorem C13_exec_state_never_panics : forall s,
  exec_callback_next s <> Panic /\ exec_callback_next s <> Spin.
Proof. exact exec_callback_next_no_panic. Qed.
Print Assumptions C13_exec_state_never_panics.

Theorem C13_exec_state_unfixed_refuted : exists s, exec_callback_next_unfixed s = Panic.
Proof. exact exec_callback_next_unfixed_refuted. Qed.
Print Assumptions C13_exec_state_unfixed_refuted.

(* 3. execute getMessagesOutcome: total for every range (including ranges ending at 2^64-1), and equal to the
      original loop wherever that one terminated *)
Theorem C13_range_loop_total : forall observed s e, exists l, range_loop observed s e = Ok l.
Proof. exact range_loop_total. Qed.
Print Assumptions C13_range_loop_total.

Theorem C13_range_loop_refines_original : forall observed s e l,
  NoDup observed -> range_loop_unfixed observed s e = Ok l -> range_loop observed s e = Ok l.
Proof. exact range_loop_same_as_unfixed. Qed.
Print Assumptions C13_range_loop_refines_original.

Theorem C13_range_loop_unfixed_refuted : exists observed s, range_loop_unfixed observed s max64 = Spin.
Proof. exact range_loop_unfixed_spins_refuted. Qed.
Print Assumptions C13_range_loop_unfixed_refuted.

(* 4. medians / aggregators over validated (non-nil) big integers *)
Theorem C13_validated_aggregate_never_panics : forall xs ys,
  validate_updates xs = Ok tt -> validate_updates ys = Ok tt -> exists v, agg2_res xs ys = Ok v.
Proof. exact validated_aggregate_no_panic. Qed.
Print Assumptions C13_validated_aggregate_never_panics.

Theorem C13_unvalidated_median_refuted : exists vals, median_res vals = Panic.
Proof. exact median_res_nil_refuted. Qed.
Print Assumptions C13_unvalidated_median_refuted.

(* 5. RMN controller: for every configuration, schedule and list of peer responses / timer / context events
      (arbitrary bodies: nil sub-messages, short roots, wrong kinds, garbage) the repaired controller never panics,
      and has returned by the event at which the context is done (proved in Proofs/RmnP.v for C06). *)
Require Verif.Model.Rmn Verif.Proofs.RmnP.
Theorem C13_rmn_never_panics : forall edv vrs cfg sc,
  NoDup (map Rmn.sg_node (Rmn.c_signers cfg)) ->
  forall evs l, Rmn.run edv vrs Rmn.fixed cfg sc evs <> Rmn.GFinal Rmn.Crash l.
Proof. exact RmnP.total_no_panic. Qed.
Print Assumptions C13_rmn_never_panics.

Theorem C13_rmn_returns_by_deadline : forall edv vrs cfg sc pre post,
  exists f l, Rmn.run edv vrs Rmn.fixed cfg sc (pre ++ [Rmn.CtxDone]) = Rmn.GFinal f l /\
              Rmn.run edv vrs Rmn.fixed cfg sc (pre ++ Rmn.CtxDone :: post) = Rmn.GFinal f l.
Proof. exact RmnP.total_terminates. Qed.
Print Assumptions C13_rmn_returns_by_deadline.

(* 6. Observation truncation (execute GetMessages phase): for every size function, limit and chain-pick order the
      repaired truncation returns an observation or an error — no panic, no endless loop (Proofs/TruncateP.v, C17);
      the pre-repair slice surgery panicked. *)
Require Verif.Model.Truncate Verif.Proofs.TruncateP.
Theorem C13_truncate_total : forall size max pick o,
  (forall n o, Truncate.t_commits o <> [] -> In (pick n o) (Truncate.tkeys (Truncate.t_commits o))) ->
  NoDup (Truncate.tkeys (Truncate.t_commits o)) ->
  (exists o', Truncate.truncate size max pick o = Ok o') \/ Truncate.truncate size max pick o = Err.
Proof. exact TruncateP.truncate_total. Qed.
Print Assumptions C13_truncate_total.

Theorem C13_truncate_unfixed_refuted :
  exists o c, Truncate.truncate_chain_unfixed o c = Panic /\
              exists size max pick, Truncate.truncate_unfixed size max pick o = Panic.
Proof. exact TruncateP.truncate_chain_unfixed_panics. Qed.
Print Assumptions C13_truncate_unfixed_refuted.

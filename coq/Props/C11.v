(* C11 — Honest observations always pass validation, for any role assignment.
   Model: Model/Roles.v.  [observe_commit g i st phase retry] / [observe_exec g i st phase] = Plugin.Observation of
   oracle i (a reader and a writer exactly for the chains of its role, reader state st, any subset of calls failing),
   in the result monad; [validate_commit g retry i ob] / [validate_exec g i ob] = Plugin.ValidateObservation run by
   any honest oracle j on (i, ob): the verdict does not depend on j because all honest oracles hold the same
   home-chain view (the harness runs every j).  [cfg_ok g i]: i has a peer id, the destination is configured, chain
   selectors are distinct, every fChain is positive.  [values_ok st]: the values stored on the chains are of the kind
   validation accepts from anybody (positive fees / prices, a well-formed or absent RMN remote configuration,
   non-overlapping commit reports) — hypotheses on chain data, none on roles or on which calls fail.
   [dest_priced g st]: the destination publishes fee components and a wrapped-native price (the costly-message
   observer cannot price anything otherwise).

   The full-strength statements C11_commit and C11_exec hold of the repaired code; the pre-repair functions are
   refuted in the *_unfixed_*refuted theorems (F05, F18a, F18b, F18c, F18d). *)
Require Import Verif.Model.Base Verif.Model.Roles Verif.Proofs.RolesP.

(* commit, every role assignment, every phase, every pattern of failing calls: no panic, an observation is
   produced, and it is accepted.  (Holds since the repairs of F05 and F18a.)  A retry query is only sent by an
   honest leader in the BuildingReport phase. *)
Theorem C11_commit : forall g i st phase retry,
  cfg_ok g i = true -> values_ok st = true -> (retry = true -> phase = 1%N) ->
  exists ob, observe_commit g i st phase retry = Ok ob /\ validate_commit g retry i ob = true.
Proof. intros g i st phase retry Hc Hv. exact (commit_honest_valid g i st Hc Hv phase retry). Qed.
Print Assumptions C11_commit.

Theorem C11_commit_unfixed_refuted :
  (exists g i st phase retry, cfg_ok g i = true /\ values_ok st = true /\ no_failures st /\
                              observe_commit_unfixed g i st phase retry = Panic) /\
  (exists g i st phase retry ob, cfg_ok g i = true /\ values_ok st = true /\ no_failures st /\
                                 observe_commit g i st phase retry = Ok ob /\
                                 validate_commit_unfixed g retry i ob = false).
Proof. exact commit_unfixed_refuted. Qed.
Print Assumptions C11_commit_unfixed_refuted.

(* execute: whatever is produced is accepted, for every role, phase and failure pattern.
   [pending_known g st] is the stable-home-configuration hypothesis: the previous outcome's pending reports name chains
   with a configured F only.  The merges that produced that outcome need an F for every chain they keep, so it holds as
   long as the home-chain configuration did not lose a chain between two rounds; since the repair of F13d validation
   rejects observations that mention a chain without F, and the GetMessages observation repeats the pending reports. *)
Theorem C11_exec_valid : forall g i st phase ob,
  cfg_ok g i = true -> values_ok st = true -> pending_known g st = true ->
  observe_exec g i st phase = Ok ob -> validate_exec g i ob = true.
Proof. intros g i st phase ob Hc Hv. exact (exec_honest_valid g i st Hc Hv phase ob). Qed.
Print Assumptions C11_exec_valid.

Theorem C11_exec_no_panic : forall g i st phase, observe_exec g i st phase <> Panic.
Proof. exact exec_no_panic. Qed.
Print Assumptions C11_exec_no_panic.

(* execute, full strength: with every call succeeding an observation is produced and accepted, for every role
   assignment, oracle, chain state and phase.  (Holds since the repairs of F18b, F18c, F18d.) *)
Theorem C11_exec : forall g i st phase,
  cfg_ok g i = true -> values_ok st = true -> pending_known g st = true ->
  no_failures st -> dest_priced g st = true -> (phase <= 2)%N ->
  exists ob, observe_exec g i st phase = Ok ob /\ validate_exec g i ob = true.
Proof.
  intros g i st phase Hc Hv Hpk Hn Hpr Hp.
  destruct (exec_produced g i st phase Hn Hpr Hp) as [ob Hob].
  exists ob. split; [exact Hob|]. exact (exec_honest_valid g i st Hc Hv phase ob Hpk Hob).
Qed.
Print Assumptions C11_exec.

(* before the repairs:
   F18c (GetMessages phase, reports pending, no destination access: the costly-message observer needs the destination)
   F18d (GetCommitReports phase, destination access, an on-chain report from a source chain the oracle does not read) *)
Theorem C11_exec_unfixed_cd_refuted :
  (exists g i st, cfg_ok g i = true /\ values_ok st = true /\ no_failures st /\ dest_priced g st = true /\
                  f18c_class g i st 1 = true /\ observe_exec_unfixed_c g i st 1 = Err) /\
  (exists g i st, cfg_ok g i = true /\ values_ok st = true /\ no_failures st /\ dest_priced g st = true /\
                  f18d_class g i st 0 = true /\ observe_exec_unfixed_d g i st 0 = Err).
Proof. exact exec_unfixed_cd_refuted. Qed.
Print Assumptions C11_exec_unfixed_cd_refuted.

(* before the repair of F18b a pending report of a source chain the oracle does not read failed the whole
   GetMessages observation of an oracle with destination access *)
Theorem C11_exec_unfixed_refuted :
  exists g i st, cfg_ok g i = true /\ values_ok st = true /\ no_failures st /\
                 reads g i (c_dest g) = true /\ observe_exec_unfixed g i st 1 = Err.
Proof. exact exec_unfixed_refuted. Qed.
Print Assumptions C11_exec_unfixed_refuted.

(* C11 — Honest observations always pass validation, for any role assignment.
   Model: Model/Roles.v.  [observe_commit g i st phase retry] / [observe_exec g i st phase] = Plugin.Observation of
   oracle i (a reader and a writer exactly for the chains of its role, reader state st, any subset of calls failing),
   in the result monad; [validate_commit g retry i ob] / [validate_exec g i ob] = Plugin.ValidateObservation run by
   any honest oracle j on (i, ob): the verdict does not depend on j because all honest oracles hold the same
   home-chain view (the harness runs every j).  [cfg_ok g i]: i has a peer id, the destination is configured, chain
   selectors are distinct, every fChain is positive.  [values_ok st]: the values stored on the chains are of the kind
   validation accepts from anybody (positive fees / prices, a well-formed or absent RMN remote configuration,
   non-overlapping commit reports) — hypotheses on chain data, none on roles or on which calls fail.
   [dest_priced g st]: the destination publishes fee components and a wrapped-native price (the costly-message
   observer cannot price anything otherwise).

   The full-strength statements C11_commit and C11_exec hold of the repaired code; the pre-repair functions are
   refuted in the *_unfixed_*refuted theorems (F05, F18a, F18b, F18c, F18d). *)
Require Import Verif.Model.Base Verif.Model.Roles Verif.Proofs.RolesP.

(* commit, every role assignment, every phase, every pattern of failing calls: no panic, an observation is
   produced, and it is accepted.  (Holds since the repairs of F05 and F18a.)  A retry query is only sent by an
   honest leader in the BuildingReport phase. *)
Theorem C11_commit : forall g i st phase retry,
  cfg_ok g i = true -> values_ok st = true -> (retry = true -> phase = 1%N) ->
  exists ob, observe_commit g i st phase retry = Ok ob /\ validate_commit g retry i ob = true.
Proof. intros g i st phase retry Hc Hv. exact (commit_honest_valid g i st Hc Hv phase retry). Qed.
Print Assumptions C11_commit.

Theorem C11_commit_unfixed_refuted :
  (exists g i st phase retry, cfg_ok g i = true /\ values_ok st = true /\ no_failures st /\
                              observe_commit_unfixed g i st phase retry = Panic) /\
  (exists g i st phase retry ob, cfg_ok g i = true /\ values_ok st = true /\ no_failures st /\
                                 observe_commit g i st phase retry = Ok ob /\
                                 validate_commit_unfixed g retry i ob = false).
Proof. exact commit_unfixed_refuted. Qed.
Print Assumptions C11_commit_unfixed_refuted.

(* execute: whatever is produced is accepted, for every role, phase and failure pattern.
   [pending_known g st] is the stable-home-configuration hypothesis: the previous outcome's pending reports name chains
   with a configured F only.  The merges that produced that outcome need an F for every chain they keep, so it holds as
   long as the home-chain configuration did not lose a chain between two rounds; since the repair of F13d validation
   rejects observations that mention a chain without F, and the GetMessages observation repeats the pending reports. *)
Theorem C11_exec_valid : forall g i st phase ob,
  cfg_ok g i = true -> values_ok st = true -> pending_known g st = true ->
  observe_exec g i st phase = Ok ob -> validate_exec g i ob = true.
Proof. intros g i st phase ob Hc Hv. exact (exec_honest_valid g i st Hc Hv phase ob). Qed.
Print Assumptions C11_exec_valid.

Theorem C11_exec_no_panic : forall g i st phase, observe_exec g i st phase <> Panic.
Proof. exact exec_no_panic. Qed.
Print Assumptions C11_exec_no_panic.

(* execute, full strength: with every call succeeding an observation is produced and accepted, for every role
   assignment, oracle, chain state and phase.  (Holds since the repairs of F18b, F18c, F18d.) *)
Theorem C11_exec : forall g i st phase,
  cfg_ok g i = true -> values_ok st = true -> pending_known g st = true ->
  no_failures st -> dest_priced g st = true -> (phase <= 2)%N ->
  exists ob, observe_exec g i st phase = Ok ob /\ validate_exec g i ob = true.
Proof.
  intros g i st phase Hc Hv Hpk Hn Hpr Hp.
  destruct (exec_produced g i st phase Hn Hpr Hp) as [ob Hob].
  exists ob. split; [exact Hob|]. exact (exec_honest_valid g i st Hc Hv phase ob Hpk Hob).
Qed.
Print Assumptions C11_exec.

(* before the repairs:
   F18c (GetMessages phase, reports pending, no destination access: the costly-message observer needs the destination)
   F18d (GetCommitReports phase, destination access, an on-chain report from a source chain the oracle does not read) *)
Theorem C11_exec_unfixed_cd_refuted :
  (exists g i st, cfg_ok g i = true /\ values_ok st = true /\ no_failures st /\ dest_priced g st = true /\
                  f18c_class g i st 1 = true /\ observe_exec_unfixed_c g i st 1 = Err) /\
  (exists g i st, cfg_ok g i = true /\ values_ok st = true /\ no_failures st /\ dest_priced g st = true /\
                  f18d_class g i st 0 = true /\ observe_exec_unfixed_d g i st 0 = Err).
Proof. exact exec_unfixed_cd_refuted. Qed.
Print Assumptions C11_exec_unfixed_cd_refuted.

(* before the repair of F18b a pending report of a source chain the oracle does not read failed the whole
   GetMessages observation of an oracle with destination access *)
Theorem C11_exec_unfixed_refuted :
  exists g i st, cfg_ok g i = true /\ values_ok st = true /\ no_failures st /\
                 reads g i (c_dest g) = true /\ observe_exec_unfixed g i st 1 = Err.
Proof. exact exec_unfixed_refuted. Qed.
Print Assumptions C11_exec_unfixed_refuted.

(* ==== histories: long-lived plugins read the role map through ONE long-lived home-chain poller (model: Pollers.v,
   C18) whose configuration changes between rounds.  [hrun O d f evs]: the answers of a history evs of poller events
   (Start, completed fetches — successful, failed, partial —, reads, Close) interleaved with plugin rounds, every
   round served from the poller state of that moment (Model/RolesHist.v).  [cfg_at O d f evs k]: the Roles configuration
   of the most recent successfully fetched home-chain configuration among the poller events before position k.
   The theorems hold for EVERY event list (induction over it, through the C18 snapshot theorem). ==== *)
Require Import Verif.Model.Pollers Verif.Model.RolesHist Verif.Proofs.PollersP Verif.Proofs.RolesHistP.

(* a round of any history is answered from the latest successfully fetched configuration alone: nothing that was
   polled, looked up, observed or validated earlier enters *)
Theorem C11_history_round : forall O d f evs k e,
  nth_error evs k = Some e ->
  nth_error (hrun O d f evs) k = Some (round_out (cfg_at O d f evs k) e).
Proof. exact hist_round. Qed.
Print Assumptions C11_history_round.

(* commit: the honest observation of round k is produced, and every validation round m that sees the same latest
   configuration (failed polls, re-polls of an unchanged configuration and other rounds may lie between) accepts it —
   whatever the role map was before round k *)
Theorem C11_history_commit : forall O d f evs k i st phase retry,
  nth_error evs k = Some (HObsC i st phase retry) ->
  cfg_ok (cfg_at O d f evs k) i = true -> values_ok st = true -> (retry = true -> phase = 1%N) ->
  exists ob,
    nth_error (hrun O d f evs) k = Some (Some (OCommit (Ok ob))) /\
    forall m, nth_error evs m = Some (HValC retry i ob) -> cfg_at O d f evs m = cfg_at O d f evs k ->
              nth_error (hrun O d f evs) m = Some (Some (OVerdict true)).
Proof. exact hist_commit_honest. Qed.
Print Assumptions C11_history_commit.

(* execute: whatever round k produces is accepted by every validation round that sees the same latest configuration *)
Theorem C11_history_exec : forall O d f evs k i st phase ob,
  nth_error evs k = Some (HObsE i st phase) ->
  cfg_ok (cfg_at O d f evs k) i = true -> values_ok st = true -> pending_known (cfg_at O d f evs k) st = true ->
  nth_error (hrun O d f evs) k = Some (Some (OExec (Ok ob))) ->
  forall m, nth_error evs m = Some (HValE i ob) -> cfg_at O d f evs m = cfg_at O d f evs k ->
            nth_error (hrun O d f evs) m = Some (Some (OVerdict true)).
Proof. exact hist_exec_honest. Qed.
Print Assumptions C11_history_exec.

(* the role map every getter of the poller / ChainSupport shows after ANY event list is the one of the latest
   successfully fetched configuration (what the observing side — SupportsDestChain — and the validating side —
   SupportedChains — see can never drift apart) *)
Theorem C11_history_role_map : forall reset evs O d f,
  let v := views (prun home_fetch home_derive reset home_init evs) in
  let g := cfg_of_home O d f (home_cfg_of evs) in
  (forall p ch, memN ch (get_supported_chains v p) = reads g p ch) /\
  (forall o, match get_chain_config v d with
             | None => None
             | Some cc => if memN o O then Some (memN o (cc_nodes cc)) else None
             end = supports_dest g o) /\
  (forall ch, memN ch (get_known_chains v) = memN ch (home_chains g)) /\
  (forall ch, option_map Z.of_N (alookup ch (get_fchain v)) = alookup ch (home_fchain g)) /\
  (forall ch, option_map cc_pair (get_chain_config v ch) = alookup ch (c_chains g)).
Proof. exact api_latest. Qed.
Print Assumptions C11_history_role_map.

(* non-vacuity: after a change that takes chain 5 from oracle 2, the hypotheses of C11_history_commit hold for
   oracle 2 on the new role map *)
Theorem C11_history_example :
  let st := mkRs true (fun _ _ => false) false [] [5%N] rmn_none [] [] [] [] [] [] [] [] [] [] in
  let evs := [HPoller EStart; ex_poll ex_cfgA; ex_poll ex_cfgB; HObsC 2 st 0 false] in
  nth_error evs 3 = Some (HObsC 2 st 0 false) /\
  cfg_ok (cfg_at ex_O 9 9 evs 3) 2 = true /\ reads (cfg_at ex_O 9 9 evs 3) 2 5 = false /\
  reads (cfg_at ex_O 9 9 evs 2) 2 5 = true.
Proof. exact hist_commit_honest_example. Qed.
Print Assumptions C11_history_example.

Require Import Verif.Check.C11_check Verif.Proofs.JudgeSoundRolesHistP Verif.Proofs.JudgeSoundC11P.
(* ---- the executable properties of Check/C11_check.v are the property (judge soundness) ---- *)

(* commit sink: under the hypotheses of C11_commit the model's own answer (observation, verdict of every oracle) passes;
   outside [values_ok] the executable property is vacuous by construction *)
Theorem C11_judge_cc_model_passes : forall g fl st phase retry i,
  cfg_ok g i = true -> (retry = true -> phase = 1%N) ->
  cc_ok (g, fl, st, phase, retry, i) (cc_model (g, fl, st, phase, retry, i)) = true.
Proof. exact cc_model_passes. Qed.
Print Assumptions C11_judge_cc_model_passes.

(* commit sink: an implementation answer o = (result of Observation, verdicts) that passes satisfies the conclusion of
   C11_commit: an observation is produced and each of the |c_oracles| validators accepts it *)
Theorem C11_judge_cc_sound : forall g fl st phase retry i o,
  cc_ok (g, fl, st, phase, retry, i) o = true -> values_ok st = true ->
  exists ob, fst o = Ok ob /\ length (snd o) = length (c_oracles g) /\ forall v, In v (snd o) -> v = true.
Proof. exact cc_sound. Qed.
Print Assumptions C11_judge_cc_sound.

(* execute sink: the model passes for the three execute phases when the reader state fails exactly the case's failure list;
   rests on a strengthening of C11_exec: the model fails only for a failing call of the oracle's OWN readers or an unpriced
   destination *)
Theorem C11_judge_ce_model_passes : forall g fl st phase i,
  cfg_ok g i = true -> (phase <= 2)%N -> (forall k c, rs_fail st k c = fail_of fl k c) ->
  ce_ok (g, fl, st, phase, i) (ce_model (g, fl, st, phase, i)) = true.
Proof. exact ce_model_passes. Qed.
Print Assumptions C11_judge_ce_model_passes.

Theorem C11_judge_ce_model_error_cause : forall g i st phase, (phase <= 2)%N ->
  (exists ob, observe_exec g i st phase = Ok ob) \/
  (observe_exec g i st phase = Err /\ (own_failing g i st \/ dest_priced g st = false)).
Proof. exact observe_exec_cases. Qed.
Print Assumptions C11_judge_ce_model_error_cause.

(* execute sink: a passing answer satisfies the conclusions of C11_exec_no_panic (no panic, no hang), C11_exec_valid
   (whatever is produced under a stable home configuration is accepted by every validator) and, towards C11_exec, an
   error only when one of the oracle's own reads is scripted to fail or the destination publishes no prices *)
Theorem C11_judge_ce_sound : forall g fl st phase i o,
  ce_ok (g, fl, st, phase, i) o = true -> values_ok st = true ->
  fst o <> Panic /\ fst o <> Spin /\
  (forall ob, fst o = Ok ob -> pending_known g st = true ->
              length (snd o) = length (c_oracles g) /\ forall v, In v (snd o) -> v = true) /\
  (fst o = Err -> own_failure g i fl = true \/ dest_priced g st = false).
Proof. exact ce_sound. Qed.
Print Assumptions C11_judge_ce_sound.

(* the conclusion of C11_exec when nothing is scripted to fail *)
Theorem C11_judge_ce_sound_produced : forall g st phase i o,
  ce_ok (g, [], st, phase, i) o = true -> values_ok st = true -> pending_known g st = true ->
  dest_priced g st = true ->
  exists ob, fst o = Ok ob /\ length (snd o) = length (c_oracles g) /\ forall v, In v (snd o) -> v = true.
Proof. exact ce_sound_produced. Qed.
Print Assumptions C11_judge_ce_sound_produced.

(* history sinks: the same on the configuration of the most recent successful poll; no [cfg_ok] premise for (a), the
   executable property is vacuous outside it *)
Theorem C11_judge_cch_model_passes : forall h fl st phase retry i,
  Forall short_poll (hctx_polls h) -> (retry = true -> phase = 1%N) ->
  cch_ok (h, (fl, st, phase, retry, i)) (cch_model (h, (fl, st, phase, retry, i))) = true.
Proof. exact cch_model_passes. Qed.
Print Assumptions C11_judge_cch_model_passes.

Theorem C11_judge_cch_sound : forall h fl st phase retry i o,
  cch_ok (h, (fl, st, phase, retry, i)) o = true ->
  cfg_ok (hctx_spec h) i = true -> values_ok st = true ->
  exists ob, fst o = Ok ob /\ length (snd o) = length (c_oracles (hctx_spec h)) /\ forall v, In v (snd o) -> v = true.
Proof. exact cch_sound. Qed.
Print Assumptions C11_judge_cch_sound.

Theorem C11_judge_ceh_model_passes : forall h fl st phase i,
  Forall short_poll (hctx_polls h) -> (phase <= 2)%N -> (forall k c, rs_fail st k c = fail_of fl k c) ->
  ceh_ok (h, (fl, st, phase, i)) (ceh_model (h, (fl, st, phase, i))) = true.
Proof. exact ceh_model_passes. Qed.
Print Assumptions C11_judge_ceh_model_passes.

Theorem C11_judge_ceh_sound : forall h fl st phase i o,
  ceh_ok (h, (fl, st, phase, i)) o = true ->
  cfg_ok (hctx_spec h) i = true -> values_ok st = true ->
  fst o <> Panic /\ fst o <> Spin /\
  (forall ob, fst o = Ok ob -> pending_known (hctx_spec h) st = true ->
              length (snd o) = length (c_oracles (hctx_spec h)) /\ forall v, In v (snd o) -> v = true) /\
  (fst o = Err -> own_failure (hctx_spec h) i fl = true \/ dest_priced (hctx_spec h) st = false).
Proof. exact ceh_sound. Qed.
Print Assumptions C11_judge_ceh_sound.

(* what the history judges model is the system of C11_history_round / C11_history_commit: the observation is the answer
   of the observation round behind the scripted poller events, each verdict the answer of a validation round behind it *)
Theorem C11_judge_cch_model_is_history : forall os d f polls fl st phase retry i,
  nth_error (hrun os d f (hist_hevs polls ++ [HObsC i st phase retry])) (length (hist_hevs polls)) =
  Some (Some (OCommit (fst (cch_model ((os, d, f, polls), (fl, st, phase, retry, i)))))).
Proof. exact cch_model_is_history. Qed.
Print Assumptions C11_judge_cch_model_is_history.

Theorem C11_judge_cch_model_verdicts_history : forall os d f polls fl st phase retry i ob vs,
  cch_model ((os, d, f, polls), (fl, st, phase, retry, i)) = (Ok ob, vs) ->
  forall v, In v vs ->
  nth_error (hrun os d f (hist_hevs polls ++ [HObsC i st phase retry; HValC retry i ob])) (S (length (hist_hevs polls))) =
  Some (Some (OVerdict v)).
Proof. exact cch_model_verdicts_history. Qed.
Print Assumptions C11_judge_cch_model_verdicts_history.

Theorem C11_judge_ceh_model_is_history : forall os d f polls fl st phase i,
  nth_error (hrun os d f (hist_hevs polls ++ [HObsE i st phase])) (length (hist_hevs polls)) =
  Some (Some (OExec (fst (ceh_model ((os, d, f, polls), (fl, st, phase, i)))))).
Proof. exact ceh_model_is_history. Qed.
Print Assumptions C11_judge_ceh_model_is_history.

(* API sinks (judge shared with C12, Check/RolesHist_check.v) *)
Theorem C11_judge_api_model_passes : forall x,
  Forall short_poll (hctx_polls (fst x)) -> api_ok x (api_cmodel x) = true.
Proof. exact api_model_passes. Qed.
Print Assumptions C11_judge_api_model_passes.

(* an answer that passes is the Roles accessor of C11_history_role_map on the most recent successful poll *)
Theorem C11_judge_api_sound : forall x a, api_ok x a = true -> a = api_spec (hctx_spec (fst x)) (snd x).
Proof. exact api_sound. Qed.
Print Assumptions C11_judge_api_sound.

(* what the observing side asks (SupportsDestChain) is answered from the same configuration *)
Theorem C11_judge_api_sound_supports_dest : forall h o b, api_ok (h, QSupDest o) (AOptB b) = true ->
  b = supports_dest (hctx_spec h) o.
Proof. exact api_sound_supports_dest. Qed.
Print Assumptions C11_judge_api_sound_supports_dest.

(* C12 — Observations count only from oracles designated for the chain observed.
   Model: Model/Roles.v (validate_commit / validate_exec = Plugin.ValidateObservation of the two plugins as wired,
   verdict true = accepted).  [designated g o c] = oracle o has a peer id and the home chain lists it as a reader of c.
   One theorem per field class.  The one class whose role check the code lacks (commit reports inside execute
   observations, recorded finding F07) is refuted with a witness; C12_*_except_known is the strongest statement that
   holds for all classes outside it.  Discovered addresses (F04), feed prices / fee-quoter updates (F05), chain-fee
   updates (F06), nonces / token data / costly flags (F07) and the accept direction (F05 first half) hold after the
   repairs; the pre-repair functions are refuted in the *_unfixed_refuted theorems.

   Full-strength statement: for commit it is C12_commit_except_known (no commit class is recorded any more);
   for execute it is false of the current code because of the recorded class:
     forall g o ob cl c,       In (cl, c) (efields g ob) -> designated g o c = false -> validate_exec g o ob = false *)
Require Import Verif.Model.Base Verif.Model.Roles Verif.Proofs.RolesP.

(* ---- source-chain data, commit ---- *)
Theorem C12_reject_merkle_roots : forall g retry o ob c,
  In c (m_roots (co_m ob)) -> designated g o c = false -> validate_commit g retry o ob = false.
Proof. exact reject_merkle_roots. Qed.
Print Assumptions C12_reject_merkle_roots.

Theorem C12_reject_onramp_seqnums : forall g retry o ob c,
  In c (m_onramp (co_m ob)) -> designated g o c = false -> validate_commit g retry o ob = false.
Proof. exact reject_onramp_seqnums. Qed.
Print Assumptions C12_reject_onramp_seqnums.

Theorem C12_reject_fee_components : forall g retry o ob c,
  In c (map fst (f_comp (co_f ob))) -> designated g o c = false -> validate_commit g retry o ob = false.
Proof. exact reject_fee_components. Qed.
Print Assumptions C12_reject_fee_components.

Theorem C12_reject_native_prices : forall g retry o ob c,
  In c (map fst (f_native (co_f ob))) -> designated g o c = false -> validate_commit g retry o ob = false.
Proof. exact reject_native_prices. Qed.
Print Assumptions C12_reject_native_prices.

(* ---- destination data, commit ---- *)
Theorem C12_reject_offramp_seqnums : forall g retry o ob,
  m_offramp (co_m ob) <> [] -> designated g o (c_dest g) = false -> validate_commit g retry o ob = false.
Proof. exact reject_offramp_seqnums. Qed.
Print Assumptions C12_reject_offramp_seqnums.

Theorem C12_reject_rmn_remote_config : forall g retry o ob,
  rmn_empty (m_rmn (co_m ob)) = false -> designated g o (c_dest g) = false -> validate_commit g retry o ob = false.
Proof. exact reject_rmn_remote_config. Qed.
Print Assumptions C12_reject_rmn_remote_config.

(* discovered addresses (both plugins; holds since the discovery validator is called — repair of F04) *)
Theorem C12_reject_discovered_commit : forall g retry o ob c,
  disc_about g (co_d ob) c -> designated g o c = false -> validate_commit g retry o ob = false.
Proof. exact reject_discovered_commit. Qed.
Print Assumptions C12_reject_discovered_commit.

Theorem C12_reject_discovered_exec : forall g o ob c,
  disc_about g (e_d ob) c -> designated g o c = false -> validate_exec g o ob = false.
Proof. exact reject_discovered_exec. Qed.
Print Assumptions C12_reject_discovered_exec.

Theorem C12_discovered_unfixed_refuted :
  (exists g retry o ob c, disc_about g (co_d ob) c /\ designated g o c = false /\
                          validate_commit_unfixed g retry o ob = true) /\
  (exists g o ob c, disc_about g (e_d ob) c /\ designated g o c = false /\ validate_exec_unfixed g o ob = true).
Proof. exact discovered_unfixed_refuted. Qed.
Print Assumptions C12_discovered_unfixed_refuted.

(* ---- execute: messages ---- *)
Theorem C12_reject_messages : forall g o ob c n,
  In (c, n) (e_msgs ob) -> n <> 0%N -> designated g o c = false -> validate_exec g o ob = false.
Proof. exact reject_messages. Qed.
Print Assumptions C12_reject_messages.

(* ---- feed prices (feed chain), fee-quoter token updates and chain-fee updates (destination): hold since the
   repairs of F05 (second half) and F06; the pre-repair validators accepted them ---- *)
Theorem C12_reject_feed_prices : forall g retry o ob,
  t_feed (co_t ob) <> [] -> designated g o (c_feed g) = false -> validate_commit g retry o ob = false.
Proof. exact reject_feed_prices. Qed.
Print Assumptions C12_reject_feed_prices.

Theorem C12_reject_fq_token_updates : forall g retry o ob,
  t_fq (co_t ob) <> [] -> designated g o (c_dest g) = false -> validate_commit g retry o ob = false.
Proof. exact reject_fq_token_updates. Qed.
Print Assumptions C12_reject_fq_token_updates.

Theorem C12_reject_chain_fee_updates : forall g retry o ob,
  f_upd (co_f ob) <> [] -> designated g o (c_dest g) = false -> validate_commit g retry o ob = false.
Proof. exact reject_chain_fee_updates. Qed.
Print Assumptions C12_reject_chain_fee_updates.

Theorem C12_feed_prices_unfixed_refuted : class_refuted_commit_unfixed FFeedPrice.
Proof. exact feed_prices_unfixed_refuted. Qed.
Print Assumptions C12_feed_prices_unfixed_refuted.

Theorem C12_fq_token_updates_unfixed_refuted : class_refuted_commit_unfixed FFqUpdate.
Proof. exact fq_token_updates_unfixed_refuted. Qed.
Print Assumptions C12_fq_token_updates_unfixed_refuted.

Theorem C12_chain_fee_updates_unfixed_refuted : class_refuted_commit_unfixed FChainFeeUpd.
Proof. exact chain_fee_updates_unfixed_refuted. Qed.
Print Assumptions C12_chain_fee_updates_unfixed_refuted.

(* ---- execute: nonces and costly-message flags (destination), token data (source chain it is filed under): hold since
   the repair of F07 (validateObserverDataEligibility); the pre-repair validator accepted them ---- *)
Theorem C12_reject_nonces : forall g o ob c n,
  In (c, n) (e_nonces ob) -> n <> 0%N -> designated g o (c_dest g) = false -> validate_exec g o ob = false.
Proof. exact reject_nonces. Qed.
Print Assumptions C12_reject_nonces.

Theorem C12_reject_token_data : forall g o ob c n,
  In (c, n) (e_tokens ob) -> n <> 0%N -> designated g o c = false -> validate_exec g o ob = false.
Proof. exact reject_token_data. Qed.
Print Assumptions C12_reject_token_data.

Theorem C12_reject_costly_flags : forall g o ob,
  e_costly ob <> 0%N -> designated g o (c_dest g) = false -> validate_exec g o ob = false.
Proof. exact reject_costly_flags. Qed.
Print Assumptions C12_reject_costly_flags.

Theorem C12_nonces_unfixed_refuted : class_refuted_exec_unfixed FNonces.
Proof. exact nonces_unfixed_refuted. Qed.
Print Assumptions C12_nonces_unfixed_refuted.

Theorem C12_token_data_unfixed_refuted : class_refuted_exec_unfixed FTokenData.
Proof. exact token_data_unfixed_refuted. Qed.
Print Assumptions C12_token_data_unfixed_refuted.

Theorem C12_costly_flags_unfixed_refuted : class_refuted_exec_unfixed FCostly.
Proof. exact costly_flags_unfixed_refuted. Qed.
Print Assumptions C12_costly_flags_unfixed_refuted.

(* ---- commit reports inside execute observations: not role-checked (recorded, F07).  The honest GetMessages
   observation repeats the previous outcome's pending reports whatever the observer reads, so a destination guard
   on this field would reject honest observations (C11). ---- *)
Theorem C12_reject_commit_reports_refuted : class_refuted_exec FCommitReports.
Proof. exact commit_reports_refuted. Qed.
Print Assumptions C12_reject_commit_reports_refuted.

(* ---- the full-strength statement restricted by exactly the recorded classes ---- *)
Theorem C12_commit_except_known : forall g retry o ob,
  validate_commit g retry o ob = true ->
  forall cl c, In (cl, c) (cfields g ob) -> known_class cl = false -> designated g o c = true.
Proof. exact commit_accepted_designated. Qed.
Print Assumptions C12_commit_except_known.

Theorem C12_exec_except_known : forall g o ob,
  validate_exec g o ob = true ->
  forall cl c, In (cl, c) (efields g ob) -> known_class cl = false -> designated g o c = true.
Proof. exact exec_accepted_designated. Qed.
Print Assumptions C12_exec_except_known.

(* ---- data from designated observers is never rejected on role grounds ---- *)
Theorem C12_accept : forall g retry o ob,
  known_oracle g o = true -> dest_configured g = true -> wf_commit retry ob = true ->
  (forall cl c, In (cl, c) (cfields g ob) -> designated g o c = true) ->
  validate_commit g retry o ob = true.
Proof. exact accept_commit. Qed.
Print Assumptions C12_accept.

(* [chains_known]: every chain key of the observation has a configured F (validateObservedChains, repair of F13d) —
   a rejection for an unconfigured chain is not a rejection on role grounds *)
Theorem C12_accept_exec : forall g o ob,
  known_oracle g o = true -> wf_exec ob = true -> chains_known g ob = true ->
  (forall cl c, In (cl, c) (efields g ob) -> designated g o c = true) ->
  validate_exec g o ob = true.
Proof. exact accept_exec. Qed.
Print Assumptions C12_accept_exec.

Theorem C12_accept_unfixed_refuted :
  exists g retry o ob,
    known_oracle g o = true /\ dest_configured g = true /\ wf_commit retry ob = true /\
    (forall cl c, In (cl, c) (cfields g ob) -> designated g o c = true) /\
    validate_commit_unfixed g retry o ob = false.
Proof. exact accept_commit_unfixed_refuted. Qed.
Print Assumptions C12_accept_unfixed_refuted.

(* the verdict is exactly: observer known, destination configured, role-independent well-formedness, and every
   field outside the recorded classes about a chain the observer reads *)
Theorem C12_commit_verdict : forall g retry o ob,
  validate_commit g retry o ob =
  known_oracle g o && dest_configured g && wf_commit retry ob && forallb (field_pass g o) (cfields g ob).
Proof. exact validate_commit_factor. Qed.
Print Assumptions C12_commit_verdict.

Theorem C12_exec_verdict : forall g o ob,
  validate_exec g o ob =
  known_oracle g o && wf_exec ob && forallb (field_pass g o) (efields g ob) && chains_known g ob.
Proof. exact validate_exec_factor. Qed.
Print Assumptions C12_exec_verdict.

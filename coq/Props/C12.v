(* C12 — Observations count only from oracles designated for the chain observed.
   Model: Model/Roles.v (validate_commit / validate_exec = Plugin.ValidateObservation of the two plugins as wired,
   verdict true = accepted).  [designated g o c] = oracle o has a peer id and the home chain lists it as a reader of c.
   One theorem per field class.  The one class whose role check the code lacks (commit reports inside execute
   observations, recorded finding F07) is refuted with a witness; C12_*_except_known is the strongest statement that
   holds for all classes outside it.  Discovered addresses (F04), feed prices / fee-quoter updates (F05), chain-fee
   updates (F06), nonces / token data / costly flags (F07) and the accept direction (F05 first half) hold after the
   repairs; the pre-repair functions are refuted in the *_unfixed_refuted theorems.

   Full-strength statement: for commit it is C12_commit_except_known (no commit class is recorded any more);
   for execute it is false of the current code because of the recorded class:
     forall g o ob cl c,       In (cl, c) (efields g ob) -> designated g o c = false -> validate_exec g o ob = false *)
Require Import Verif.Model.Base Verif.Model.Roles Verif.Proofs.RolesP.

(* ---- source-chain data, commit ---- *)
Theorem C12_reject_merkle_roots : forall g retry o ob c,
  In c (m_roots (co_m ob)) -> designated g o c = false -> validate_commit g retry o ob = false.
Proof. exact reject_merkle_roots. Qed.
Print Assumptions C12_reject_merkle_roots.

Theorem C12_reject_onramp_seqnums : forall g retry o ob c,
  In c (m_onramp (co_m ob)) -> designated g o c = false -> validate_commit g retry o ob = false.
Proof. exact reject_onramp_seqnums. Qed.
Print Assumptions C12_reject_onramp_seqnums.

Theorem C12_reject_fee_components : forall g retry o ob c,
  In c (map fst (f_comp (co_f ob))) -> designated g o c = false -> validate_commit g retry o ob = false.
Proof. exact reject_fee_components. Qed.
Print Assumptions C12_reject_fee_components.

Theorem C12_reject_native_prices : forall g retry o ob c,
  In c (map fst (f_native (co_f ob))) -> designated g o c = false -> validate_commit g retry o ob = false.
Proof. exact reject_native_prices. Qed.
Print Assumptions C12_reject_native_prices.

(* ---- destination data, commit ---- *)
Theorem C12_reject_offramp_seqnums : forall g retry o ob,
  m_offramp (co_m ob) <> [] -> designated g o (c_dest g) = false -> validate_commit g retry o ob = false.
Proof. exact reject_offramp_seqnums. Qed.
Print Assumptions C12_reject_offramp_seqnums.

Theorem C12_reject_rmn_remote_config : forall g retry o ob,
  rmn_empty (m_rmn (co_m ob)) = false -> designated g o (c_dest g) = false -> validate_commit g retry o ob = false.
Proof. exact reject_rmn_remote_config. Qed.
Print Assumptions C12_reject_rmn_remote_config.

(* discovered addresses (both plugins; holds since the discovery validator is called — repair of F04) *)
Theorem C12_reject_discovered_commit : forall g retry o ob c,
  disc_about g (co_d ob) c -> designated g o c = false -> validate_commit g retry o ob = false.
Proof. exact reject_discovered_commit. Qed.
Print Assumptions C12_reject_discovered_commit.

Theorem C12_reject_discovered_exec : forall g o ob c,
  disc_about g (e_d ob) c -> designated g o c = false -> validate_exec g o ob = false.
Proof. exact reject_discovered_exec. Qed.
Print Assumptions C12_reject_discovered_exec.

Theorem C12_discovered_unfixed_refuted :
  (exists g retry o ob c, disc_about g (co_d ob) c /\ designated g o c = false /\
                          validate_commit_unfixed g retry o ob = true) /\
  (exists g o ob c, disc_about g (e_d ob) c /\ designated g o c = false /\ validate_exec_unfixed g o ob = true).
Proof. exact discovered_unfixed_refuted. Qed.
Print Assumptions C12_discovered_unfixed_refuted.

(* ---- execute: messages ---- *)
Theorem C12_reject_messages : forall g o ob c n,
  In (c, n) (e_msgs ob) -> n <> 0%N -> designated g o c = false -> validate_exec g o ob = false.
Proof. exact reject_messages. Qed.
Print Assumptions C12_reject_messages.

(* ---- feed prices (feed chain), fee-quoter token updates and chain-fee updates (destination): hold since the
   repairs of F05 (second half) and F06; the pre-repair validators accepted them ---- *)
Theorem C12_reject_feed_prices : forall g retry o ob,
  t_feed (co_t ob) <> [] -> designated g o (c_feed g) = false -> validate_commit g retry o ob = false.
Proof. exact reject_feed_prices. Qed.
Print Assumptions C12_reject_feed_prices.

Theorem C12_reject_fq_token_updates : forall g retry o ob,
  t_fq (co_t ob) <> [] -> designated g o (c_dest g) = false -> validate_commit g retry o ob = false.
Proof. exact reject_fq_token_updates. Qed.
Print Assumptions C12_reject_fq_token_updates.

Theorem C12_reject_chain_fee_updates : forall g retry o ob,
  f_upd (co_f ob) <> [] -> designated g o (c_dest g) = false -> validate_commit g retry o ob = false.
Proof. exact reject_chain_fee_updates. Qed.
Print Assumptions C12_reject_chain_fee_updates.

Theorem C12_feed_prices_unfixed_refuted : class_refuted_commit_unfixed FFeedPrice.
Proof. exact feed_prices_unfixed_refuted. Qed.
Print Assumptions C12_feed_prices_unfixed_refuted.

Theorem C12_fq_token_updates_unfixed_refuted : class_refuted_commit_unfixed FFqUpdate.
Proof. exact fq_token_updates_unfixed_refuted. Qed.
Print Assumptions C12_fq_token_updates_unfixed_refuted.

Theorem C12_chain_fee_updates_unfixed_refuted : class_refuted_commit_unfixed FChainFeeUpd.
Proof. exact chain_fee_updates_unfixed_refuted. Qed.
Print Assumptions C12_chain_fee_updates_unfixed_refuted.

(* ---- execute: nonces and costly-message flags (destination), token data (source chain it is filed under): hold since
   the repair of F07 (validateObserverDataEligibility); the pre-repair validator accepted them ---- *)
Theorem C12_reject_nonces : forall g o ob c n,
  In (c, n) (e_nonces ob) -> n <> 0%N -> designated g o (c_dest g) = false -> validate_exec g o ob = false.
Proof. exact reject_nonces. Qed.
Print Assumptions C12_reject_nonces.

Theorem C12_reject_token_data : forall g o ob c n,
  In (c, n) (e_tokens ob) -> n <> 0%N -> designated g o c = false -> validate_exec g o ob = false.
Proof. exact reject_token_data. Qed.
Print Assumptions C12_reject_token_data.

Theorem C12_reject_costly_flags : forall g o ob,
  e_costly ob <> 0%N -> designated g o (c_dest g) = false -> validate_exec g o ob = false.
Proof. exact reject_costly_flags. Qed.
Print Assumptions C12_reject_costly_flags.

Theorem C12_nonces_unfixed_refuted : class_refuted_exec_unfixed FNonces.
Proof. exact nonces_unfixed_refuted. Qed.
Print Assumptions C12_nonces_unfixed_refuted.

Theorem C12_token_data_unfixed_refuted : class_refuted_exec_unfixed FTokenData.
Proof. exact token_data_unfixed_refuted. Qed.
Print Assumptions C12_token_data_unfixed_refuted.

Theorem C12_costly_flags_unfixed_refuted : class_refuted_exec_unfixed FCostly.
Proof. exact costly_flags_unfixed_refuted. Qed.
Print Assumptions C12_costly_flags_unfixed_refuted.

(* ---- commit reports inside execute observations: not role-checked (recorded, F07).  The honest GetMessages
   observation repeats the previous outcome's pending reports whatever the observer reads, so a destination guard
   on this field would reject honest observations (C11). ---- *)
Theorem C12_reject_commit_reports_refuted : class_refuted_exec FCommitReports.
Proof. exact commit_reports_refuted. Qed.
Print Assumptions C12_reject_commit_reports_refuted.

(* ---- the full-strength statement restricted by exactly the recorded classes ---- *)
Theorem C12_commit_except_known : forall g retry o ob,
  validate_commit g retry o ob = true ->
  forall cl c, In (cl, c) (cfields g ob) -> known_class cl = false -> designated g o c = true.
Proof. exact commit_accepted_designated. Qed.
Print Assumptions C12_commit_except_known.

Theorem C12_exec_except_known : forall g o ob,
  validate_exec g o ob = true ->
  forall cl c, In (cl, c) (efields g ob) -> known_class cl = false -> designated g o c = true.
Proof. exact exec_accepted_designated. Qed.
Print Assumptions C12_exec_except_known.

(* ---- data from designated observers is never rejected on role grounds ---- *)
Theorem C12_accept : forall g retry o ob,
  known_oracle g o = true -> dest_configured g = true -> wf_commit retry ob = true ->
  (forall cl c, In (cl, c) (cfields g ob) -> designated g o c = true) ->
  validate_commit g retry o ob = true.
Proof. exact accept_commit. Qed.
Print Assumptions C12_accept.

(* [chains_known]: every chain key of the observation has a configured F (validateObservedChains, repair of F13d) —
   a rejection for an unconfigured chain is not a rejection on role grounds *)
Theorem C12_accept_exec : forall g o ob,
  known_oracle g o = true -> wf_exec ob = true -> chains_known g ob = true ->
  (forall cl c, In (cl, c) (efields g ob) -> designated g o c = true) ->
  validate_exec g o ob = true.
Proof. exact accept_exec. Qed.
Print Assumptions C12_accept_exec.

Theorem C12_accept_unfixed_refuted :
  exists g retry o ob,
    known_oracle g o = true /\ dest_configured g = true /\ wf_commit retry ob = true /\
    (forall cl c, In (cl, c) (cfields g ob) -> designated g o c = true) /\
    validate_commit_unfixed g retry o ob = false.
Proof. exact accept_commit_unfixed_refuted. Qed.
Print Assumptions C12_accept_unfixed_refuted.

(* the verdict is exactly: observer known, destination configured, role-independent well-formedness, and every
   field outside the recorded classes about a chain the observer reads *)
Theorem C12_commit_verdict : forall g retry o ob,
  validate_commit g retry o ob =
  known_oracle g o && dest_configured g && wf_commit retry ob && forallb (field_pass g o) (cfields g ob).
Proof. exact validate_commit_factor. Qed.
Print Assumptions C12_commit_verdict.

Theorem C12_exec_verdict : forall g o ob,
  validate_exec g o ob =
  known_oracle g o && wf_exec ob && forallb (field_pass g o) (efields g ob) && chains_known g ob.
Proof. exact validate_exec_factor. Qed.
Print Assumptions C12_exec_verdict.

(* ==== histories: long-lived plugins read the role map through ONE long-lived home-chain poller (model: Pollers.v,
   C18) whose configuration changes between rounds.  [hrun O d f evs]: the answers of a history evs of poller events
   (Start, completed fetches — successful, failed, partial —, reads, Close) interleaved with plugin rounds, every
   round served from the poller state of that moment (Model/RolesHist.v).  [cfg_at O d f evs k]: the Roles configuration
   of the most recent successfully fetched home-chain configuration among the poller events before position k (the
   empty one before the first success).  The theorems hold for EVERY event list (induction over it, through the C18
   snapshot theorem): what was polled, looked up or validated earlier never enters a verdict. ==== *)
Require Import Verif.Model.Pollers Verif.Model.RolesHist Verif.Proofs.PollersP Verif.Proofs.RolesHistP.

(* the verdict of the k-th event, if it is a commit validation, is exactly the C12 characterisation evaluated on the
   latest successfully fetched configuration *)
Theorem C12_history_commit_verdict : forall O d f evs k retry o ob,
  nth_error evs k = Some (HValC retry o ob) ->
  let g := cfg_at O d f evs k in
  nth_error (hrun O d f evs) k =
  Some (Some (OVerdict (known_oracle g o && dest_configured g && wf_commit retry ob &&
                        forallb (field_pass g o) (cfields g ob)))).
Proof. exact hist_commit_verdict. Qed.
Print Assumptions C12_history_commit_verdict.

Theorem C12_history_exec_verdict : forall O d f evs k o ob,
  nth_error evs k = Some (HValE o ob) ->
  let g := cfg_at O d f evs k in
  nth_error (hrun O d f evs) k =
  Some (Some (OVerdict (known_oracle g o && wf_exec ob && forallb (field_pass g o) (efields g ob) &&
                        chains_known g ob))).
Proof. exact hist_exec_verdict. Qed.
Print Assumptions C12_history_exec_verdict.

(* accepted in round k => every field outside the recorded class is about a chain the observer is designated for in
   the configuration fetched last before round k: a designation that was removed since does not count any more *)
Theorem C12_history_commit_accepted_designated : forall O d f evs k retry o ob,
  nth_error evs k = Some (HValC retry o ob) ->
  nth_error (hrun O d f evs) k = Some (Some (OVerdict true)) ->
  forall cl c, In (cl, c) (cfields (cfg_at O d f evs k) ob) -> known_class cl = false ->
               designated (cfg_at O d f evs k) o c = true.
Proof. exact hist_commit_accepted_designated. Qed.
Print Assumptions C12_history_commit_accepted_designated.

Theorem C12_history_exec_accepted_designated : forall O d f evs k o ob,
  nth_error evs k = Some (HValE o ob) ->
  nth_error (hrun O d f evs) k = Some (Some (OVerdict true)) ->
  forall cl c, In (cl, c) (efields (cfg_at O d f evs k) ob) -> known_class cl = false ->
               designated (cfg_at O d f evs k) o c = true.
Proof. exact hist_exec_accepted_designated. Qed.
Print Assumptions C12_history_exec_accepted_designated.

(* role-conformant data w.r.t. the configuration fetched last (e.g. right after a designation was given) is accepted *)
Theorem C12_history_commit_accept : forall O d f evs k retry o ob,
  nth_error evs k = Some (HValC retry o ob) ->
  let g := cfg_at O d f evs k in
  known_oracle g o = true -> dest_configured g = true -> wf_commit retry ob = true ->
  (forall cl c, In (cl, c) (cfields g ob) -> designated g o c = true) ->
  nth_error (hrun O d f evs) k = Some (Some (OVerdict true)).
Proof. exact hist_commit_accept. Qed.
Print Assumptions C12_history_commit_accept.

Theorem C12_history_exec_accept : forall O d f evs k o ob,
  nth_error evs k = Some (HValE o ob) ->
  let g := cfg_at O d f evs k in
  known_oracle g o = true -> wf_exec ob = true -> chains_known g ob = true ->
  (forall cl c, In (cl, c) (efields g ob) -> designated g o c = true) ->
  nth_error (hrun O d f evs) k = Some (Some (OVerdict true)).
Proof. exact hist_exec_accept. Qed.
Print Assumptions C12_history_exec_accept.

(* every answer of the poller getters and of plugincommon.ChainSupport after ANY event list (either failure counter) is
   the Roles accessor on the latest successfully fetched configuration: per-peer chain sets, SupportsDestChain, known
   chains, fChain, per-chain config — no getter can lag behind another *)
Theorem C12_history_role_map : forall reset evs O d f,
  let v := views (prun home_fetch home_derive reset home_init evs) in
  let g := cfg_of_home O d f (home_cfg_of evs) in
  (forall p ch, memN ch (get_supported_chains v p) = reads g p ch) /\
  (forall o, match get_chain_config v d with
             | None => None
             | Some cc => if memN o O then Some (memN o (cc_nodes cc)) else None
             end = supports_dest g o) /\
  (forall ch, memN ch (get_known_chains v) = memN ch (home_chains g)) /\
  (forall ch, option_map Z.of_N (alookup ch (get_fchain v)) = alookup ch (home_fchain g)) /\
  (forall ch, option_map cc_pair (get_chain_config v ch) = alookup ch (c_chains g)).
Proof. exact api_latest. Qed.
Print Assumptions C12_history_role_map.

(* the scripted polls of the harness (one short page each, or a failed read): the role map read off the poller's state
   machine = the role map of the most recent successful poll *)
Theorem C12_history_scripted_polls : forall O d f polls,
  Forall short_poll polls -> hist_cfg O d f polls = spec_cfg O d f polls.
Proof. exact hist_cfg_spec. Qed.
Print Assumptions C12_history_scripted_polls.

(* non-vacuity: oracle 2 loses chain 5 (keeps 9), a poll fails, chain 5 is given back: accepted, rejected, rejected
   (the last good map stays), accepted *)
Theorem C12_history_example :
  hrun ex_O 9 9 ex_hist =
  [None; None; Some (OVerdict true); None; Some (OVerdict false); None; Some (OVerdict false); None;
   Some (OVerdict true)].
Proof. exact hist_example. Qed.
Print Assumptions C12_history_example.

(* a successful poll that answers with NO chain config replaces the role map by the empty one (it is not a failed poll:
   the previous map does not stay), and under the empty role map every commit observation is rejected *)
Theorem C12_history_empty_poll : forall O d f polls,
  Forall short_poll polls -> hist_cfg O d f (polls ++ [Some []]) = cfg_of_home O d f [].
Proof. exact hist_cfg_empty_poll. Qed.
Print Assumptions C12_history_empty_poll.

Theorem C12_history_empty_rejects : forall O d f retry o ob,
  validate_commit (cfg_of_home O d f []) retry o ob = false.
Proof. exact empty_cfg_rejects_commit. Qed.
Print Assumptions C12_history_empty_rejects.

Require Import Verif.Check.C12_check Verif.Proofs.JudgeSoundRolesHistP Verif.Proofs.JudgeSoundC12P.
(* ---- the executable properties of Check/C12_check.v are the property (judge soundness) ---- *)

(* commit sink: the model's own verdict passes the executable property, for every input (the commit sink has no recorded class) *)
Theorem C12_judge_cv_model_passes : forall i, cv_ok i (cv_model i) = true.
Proof. exact cv_model_passes. Qed.
Print Assumptions C12_judge_cv_model_passes.

(* commit sink: a verdict v of the implementation that passes is "accepted" IFF observer known, destination configured,
   observation well-formed and EVERY field about a chain the observer is designated for — i.e. exactly the verdict of
   C12_commit_verdict (ob' = the observation as the plugin sees it: without discovery processor the discovery part is absent) *)
Theorem C12_judge_cv_sound : forall g c retry o ob v,
  cv_ok (g, c, retry, o, ob) v = true ->
  let ob' := strip_cd (cctx_disc c) ob in
  (v = true <->
   (known_oracle g o = true /\ dest_configured g = true /\ wf_commit retry ob' = true /\
    forall cl ch, In (cl, ch) (cfields g ob') -> designated g o ch = true)) /\
  v = known_oracle g o && dest_configured g && wf_commit retry ob' && forallb (field_pass g o) (cfields g ob').
Proof. exact cv_sound. Qed.
Print Assumptions C12_judge_cv_sound.

(* hence every reject theorem above holds of a passing verdict; the representative one *)
Theorem C12_judge_cv_sound_reject_merkle_roots : forall g c retry o ob v ch,
  cv_ok (g, c, retry, o, ob) v = true ->
  In ch (m_roots (co_m ob)) -> designated g o ch = false -> v = false.
Proof. exact cv_sound_reject_merkle_roots. Qed.
Print Assumptions C12_judge_cv_sound_reject_merkle_roots.

(* execute sink: the model's verdict passes outside the recorded class (F07: commit reports from a non-designated observer) *)
Theorem C12_judge_ev_model_passes : forall i, ev_known i = 0%N -> ev_ok i (ev_model i) = true.
Proof. exact ev_model_passes. Qed.
Print Assumptions C12_judge_ev_model_passes.

(* execute sink: a passing verdict is "accepted" IFF observer known, well-formed, configured chains only and EVERY field
   (commit reports included: the full-strength statement) about a designated chain; outside the recorded class it is
   exactly the verdict of C12_exec_verdict, inside it "rejected" (what the code does not do: the recorded finding) *)
Theorem C12_judge_ev_sound : forall g c o ob v,
  ev_ok (g, c, o, ob) v = true ->
  let ob' := strip_ed (ectx_disc c) ob in
  (v = true <->
   (known_oracle g o = true /\ wf_exec ob' = true /\ chains_known g ob' = true /\
    forall cl ch, In (cl, ch) (efields g ob') -> designated g o ch = true)) /\
  (ev_known (g, c, o, ob) = 0%N ->
   v = known_oracle g o && wf_exec ob' && forallb (field_pass g o) (efields g ob') && chains_known g ob') /\
  (ev_known (g, c, o, ob) <> 0%N -> v = false).
Proof. exact ev_sound. Qed.
Print Assumptions C12_judge_ev_sound.

Theorem C12_judge_ev_sound_reject_messages : forall g c o ob v ch n,
  ev_ok (g, c, o, ob) v = true ->
  In (ch, n) (e_msgs ob) -> n <> 0%N -> designated g o ch = false -> v = false.
Proof. exact ev_sound_reject_messages. Qed.
Print Assumptions C12_judge_ev_sound_reject_messages.

(* history sinks: the same on the configuration of the most recent successful poll [hctx_spec h]; the model (role map
   read off the poller's state machine) passes when every scripted poll is one page below the page size *)
Theorem C12_judge_cvh_model_passes : forall x,
  Forall short_poll (hctx_polls (fst x)) -> cvh_ok x (cvh_model x) = true.
Proof. exact cvh_model_passes. Qed.
Print Assumptions C12_judge_cvh_model_passes.

Theorem C12_judge_cvh_sound : forall h c retry o ob v,
  cvh_ok (h, (c, retry, o, ob)) v = true ->
  let g := hctx_spec h in
  let ob' := strip_cd (cctx_disc c) ob in
  (v = true <->
   (known_oracle g o = true /\ dest_configured g = true /\ wf_commit retry ob' = true /\
    forall cl ch, In (cl, ch) (cfields g ob') -> designated g o ch = true)) /\
  v = known_oracle g o && dest_configured g && wf_commit retry ob' && forallb (field_pass g o) (cfields g ob') /\
  (Forall short_poll (hctx_polls h) -> v = cvh_model (h, (c, retry, o, ob))).
Proof. exact cvh_sound. Qed.
Print Assumptions C12_judge_cvh_sound.

Theorem C12_judge_evh_model_passes : forall x,
  Forall short_poll (hctx_polls (fst x)) -> evh_known x = 0%N -> evh_ok x (evh_model x) = true.
Proof. exact evh_model_passes. Qed.
Print Assumptions C12_judge_evh_model_passes.

Theorem C12_judge_evh_sound : forall h c o ob v,
  evh_ok (h, (c, o, ob)) v = true ->
  let g := hctx_spec h in
  let ob' := strip_ed (ectx_disc c) ob in
  (v = true <->
   (known_oracle g o = true /\ wf_exec ob' = true /\ chains_known g ob' = true /\
    forall cl ch, In (cl, ch) (efields g ob') -> designated g o ch = true)) /\
  (evh_known (h, (c, o, ob)) = 0%N ->
   v = known_oracle g o && wf_exec ob' && forallb (field_pass g o) (efields g ob') && chains_known g ob') /\
  (evh_known (h, (c, o, ob)) <> 0%N -> v = false).
Proof. exact evh_sound. Qed.
Print Assumptions C12_judge_evh_sound.

(* the verdict the history judges model is the verdict of the round that follows the scripted poller events in the
   system [hrun] of C12_history_commit_verdict / C12_history_exec_verdict *)
Theorem C12_judge_cvh_model_is_history : forall os d f polls c retry o ob,
  let ob' := strip_cd (cctx_disc c) ob in
  nth_error (hrun os d f (hist_hevs polls ++ [HValC retry o ob'])) (length (hist_hevs polls)) =
  Some (Some (OVerdict (cvh_model ((os, d, f, polls), (c, retry, o, ob))))).
Proof. exact cvh_model_is_history. Qed.
Print Assumptions C12_judge_cvh_model_is_history.

Theorem C12_judge_evh_model_is_history : forall os d f polls c o ob,
  let ob' := strip_ed (ectx_disc c) ob in
  nth_error (hrun os d f (hist_hevs polls ++ [HValE o ob'])) (length (hist_hevs polls)) =
  Some (Some (OVerdict (evh_model ((os, d, f, polls), (c, o, ob))))).
Proof. exact evh_model_is_history. Qed.
Print Assumptions C12_judge_evh_model_is_history.

(* API sinks (judge shared with C11, Check/RolesHist_check.v): the answer the model reads off the poller's state machine
   after the scripted polls passes — it IS the Roles accessor on the most recent successful poll (list for list) *)
Theorem C12_judge_api_model_passes : forall x,
  Forall short_poll (hctx_polls (fst x)) -> api_ok x (api_cmodel x) = true.
Proof. exact api_model_passes. Qed.
Print Assumptions C12_judge_api_model_passes.

(* an answer that passes is the Roles accessor of C12_history_role_map evaluated on [hctx_spec]: the configuration of
   the most recent successful poll, nothing else of the history *)
Theorem C12_judge_api_sound : forall x a, api_ok x a = true -> a = api_spec (hctx_spec (fst x)) (snd x).
Proof. exact api_sound. Qed.
Print Assumptions C12_judge_api_sound.

(* in the vocabulary of C12_history_role_map: the per-peer chain set answered is exactly the chains the peer reads *)
Theorem C12_judge_api_sound_supported : forall h p l, api_ok (h, QSupported p) (ASet l) = true ->
  forall ch, memN ch l = reads (hctx_spec h) p ch.
Proof. exact api_sound_supported. Qed.
Print Assumptions C12_judge_api_sound_supported.

(* C15 — Curses stop observation, acceptance and execution for affected lanes.
   Property theorems only; each is closed by [exact] of a lemma proved in Proofs/CursesP.v.
   All statements are per call: the model functions take the curse reader's answer of that very call as an argument
   and keep no state, so a curse set that changes between observation, outcome, acceptance and transmission is
   covered by instantiating the statement at each call (the harness replays changing curse sets on one plugin
   instance to confirm that the implementation caches nothing either). *)
Require Import Verif.Model.Base Verif.Model.Transmit Verif.Model.Curses Verif.Proofs.CursesP.

(* ---- subject decoding ---- *)
Theorem C15_subject_injective : forall a b, subject_of_chain a = subject_of_chain b -> a = b.
Proof. exact subject_of_chain_inj. Qed.
Print Assumptions C15_subject_injective.

Theorem C15_subject_not_global : forall c, subject_of_chain c <> global_subject.
Proof. exact subject_of_chain_not_global. Qed.
Print Assumptions C15_subject_not_global.

Theorem C15_source_cursed_iff : forall S d srcs c,
  src_cursed (curse_info_of S d srcs) c = true <-> In c srcs /\ In (subject_of_chain c) S.
Proof. exact src_cursed_iff. Qed.
Print Assumptions C15_source_cursed_iff.

Theorem C15_dest_cursed_iff : forall S d srcs,
  ci_dest (curse_info_of S d srcs) = true <-> In global_subject S \/ In (subject_of_chain d) S.
Proof. exact dest_cursed_iff. Qed.
Print Assumptions C15_dest_cursed_iff.

Theorem C15_global_cursed_iff : forall S d srcs, ci_global (curse_info_of S d srcs) = true <-> In global_subject S.
Proof. exact global_cursed_iff. Qed.
Print Assumptions C15_global_cursed_iff.

Theorem C15_unrelated_subjects : forall S X d srcs,
  ~ In global_subject X -> ~ In (subject_of_chain d) X -> (forall c, In c srcs -> ~ In (subject_of_chain c) X) ->
  curse_info_of (S ++ X) d srcs = curse_info_of S d srcs.
Proof. exact unrelated_subjects_ignored. Qed.
Print Assumptions C15_unrelated_subjects.

(* ---- nothing is observed under a destination / global curse or when the curse state cannot be read ---- *)
Theorem C15_no_observe_commit : forall sup known curse nextseq,
  sup <> 1%N \/ known = None \/ blocked curse -> observe_offramp sup known curse nextseq = [].
Proof. exact commit_no_observe. Qed.
Print Assumptions C15_no_observe_commit.

Theorem C15_no_observe_exec : forall (P : Type) sup known curse (pending : option (list (N * P))),
  sup = 1%N -> known = None \/ blocked curse -> exec_observe sup known curse pending = Ok None.
Proof. exact @exec_no_observe. Qed.
Print Assumptions C15_no_observe_exec.

(* ---- a cursed source is left out, everything else stays ---- *)
Theorem C15_source_left_out_commit : forall sup known ci nextseq c,
  src_cursed ci c = true -> ~ In c (map fst (observe_offramp sup known (Some ci) nextseq)).
Proof. exact commit_cursed_source_left_out. Qed.
Print Assumptions C15_source_left_out_commit.

Theorem C15_observed_sources_commit : forall sup all ci nextseq c,
  In c (map fst (observe_offramp sup (Some all) (Some ci) nextseq)) ->
  In c all /\ src_cursed ci c = false /\ ci_global ci = false /\ ci_dest ci = false.
Proof. exact commit_observed_sources. Qed.
Print Assumptions C15_observed_sources_commit.

Theorem C15_observes_exactly_commit : forall all ci nextseq sn,
  ci_global ci = false -> ci_dest ci = false ->
  nextseq (non_cursed_sources ci all) = Some sn -> length sn = length (non_cursed_sources ci all) ->
  map fst (observe_offramp 1 (Some all) (Some ci) nextseq) = non_cursed_sources ci all.
Proof. exact commit_observes_exactly. Qed.
Print Assumptions C15_observes_exactly_commit.

(* execute (after the repair of F30): with the reader answering for the known sources, every chain whose subject is
   cursed is absent from the observed commit reports, known source or not *)
Theorem C15_source_left_out_exec : forall (P : Type) sup S dest all (pending : option (list (N * P))) g' c,
  exec_observe sup (Some all) (Some (curse_info_of S dest all)) pending = Ok (Some g') ->
  In (subject_of_chain c) S -> ~ In c (map fst g').
Proof. exact @exec_cursed_subject_left_out. Qed.
Print Assumptions C15_source_left_out_exec.

(* the same for an arbitrary reader answer: whatever it reports cursed is absent *)
Theorem C15_reported_source_left_out_exec : forall (P : Type) sup known ci (pending : option (list (N * P))) g' c,
  exec_observe sup known (Some ci) pending = Ok (Some g') ->
  src_cursed ci c = true -> ~ In c (map fst g').
Proof. exact @exec_cursed_source_left_out. Qed.
Print Assumptions C15_reported_source_left_out_exec.

Theorem C15_observed_sources_exec : forall (P : Type) sup all ci (pending : option (list (N * P))) g' c,
  exec_observe sup (Some all) (Some ci) pending = Ok (Some g') ->
  In c (map fst g') -> In c all /\ src_cursed ci c = false.
Proof. exact @exec_observed_sources. Qed.
Print Assumptions C15_observed_sources_exec.

(* the function as it was before the repair kept a cursed chain that is not a known source (finding F30) *)
Theorem C15_source_left_out_exec_unfixed_refuted :
  exists S dest known (g : list (N * N)),
    In (subject_of_chain 7) S /\
    exec_observe_unfixed 1 (Some known) (Some (curse_info_of S dest known)) (Some g) = Ok (Some g) /\ In 7%N (map fst g).
Proof. exact exec_unfixed_unknown_cursed_source_kept. Qed.
Print Assumptions C15_source_left_out_exec_unfixed_refuted.

(* nothing else is dropped: reports of known, non-cursed sources stay *)
Theorem C15_other_sources_kept_exec : forall (P : Type) sup all ci (g : list (N * P)) g' kv,
  exec_observe sup (Some all) (Some ci) (Some g) = Ok (Some g') ->
  In kv g -> In (fst kv) all -> src_cursed ci (fst kv) = false -> In kv g'.
Proof. exact @exec_other_sources_kept. Qed.
Print Assumptions C15_other_sources_kept_exec.

(* ---- acceptance: a report with roots / chain reports is refused under any relevant curse or reader failure ---- *)
Theorem C15_accept_commit : forall d roots tp gp sigs curse info rmn f,
  roots <> [] -> any_cursed curse roots -> commit_accept d roots tp gp sigs curse info rmn f <> Ok true.
Proof. exact commit_accept_refuses. Qed.
Print Assumptions C15_accept_commit.

Theorem C15_accept_exec : forall n d reports curse,
  reports <> [] -> any_cursed curse reports -> exec_accept n d reports curse <> Ok true.
Proof. exact exec_accept_refuses. Qed.
Print Assumptions C15_accept_exec.

(* ---- and nothing else is refused because of curses ---- *)
Theorem C15_accept_commit_unaffected : forall d roots tp gp sigs ci info rmn f,
  ci_global ci = false -> ci_dest ci = false -> (forall c, In c roots -> src_cursed ci c = false) ->
  commit_accept d roots tp gp sigs (Some ci) info rmn f =
  commit_should_accept d (N.of_nat (length roots)) tp gp sigs 0 info rmn f.
Proof. exact commit_accept_unaffected. Qed.
Print Assumptions C15_accept_commit_unaffected.

Theorem C15_accept_exec_unaffected : forall n d reports ci,
  ci_global ci = false -> ci_dest ci = false -> (forall c, In c reports -> src_cursed ci c = false) ->
  exec_accept n d reports (Some ci) = exec_should_accept n d (N.of_nat (length reports)) 0.
Proof. exact exec_accept_unaffected. Qed.
Print Assumptions C15_accept_exec_unaffected.

Require Import Verif.Check.C15_check Verif.Proofs.JudgeSoundC15P.
(* ---- the executable properties of Check/C15_check.v are the property (judge soundness) ---- *)
(* In the plugin-level parts the curse reader is scripted by a remote (read fails, global, destination, cursed chains);
   [answer r asked] is the CurseInfo it hands out and [curse_of known r] = match known with Some all => answer r all
   | None => None end is the answer of the call under judgement. *)

(* subj: the model's CurseInfo and filtered list pass the check *)
Theorem C15_judge_subj_model_passes : forall i, subj_ok i (subj_model i) = true.
Proof. exact subj_model_passes. Qed.
Print Assumptions C15_judge_subj_model_passes.

(* subj: any (CurseInfo, filtered list) that passes decodes the subjects as C15_global_cursed_iff / C15_dest_cursed_iff /
   C15_source_cursed_iff say and filters exactly the cursed chains out (everything under a global curse) *)
Theorem C15_judge_subj_sound : forall sb d srcs inp ci nc,
  subj_ok (sb, d, srcs, inp) (ci, nc) = true ->
  (ci_global ci = true <-> In global_subject sb) /\
  (ci_dest ci = true <-> In global_subject sb \/ In (subject_of_chain d) sb) /\
  (forall c, src_cursed ci c = true <-> In c srcs /\ In (subject_of_chain c) sb) /\
  (forall c, In c nc <-> ci_global ci = false /\ In c inp /\ src_cursed ci c = false).
Proof. exact subj_sound. Qed.
Print Assumptions C15_judge_subj_sound.

(* obs_commit *)
Theorem C15_judge_obsc_model_passes : forall i, obsc_ok i (obsc_model i) = true.
Proof. exact obsc_model_passes. Qed.
Print Assumptions C15_judge_obsc_model_passes.

(* obs_commit: off-ramp numbers o that pass satisfy C15_no_observe_commit, C15_source_left_out_commit (also in the
   full-strength form: no chain cursed on the remote), C15_observed_sources_commit and C15_observes_exactly_commit *)
Theorem C15_judge_obsc_sound : forall sup known fails g d cursed mode o,
  obsc_ok (sup, known, (fails, g, d, cursed), mode) o = true ->
  let curse := match known with Some all => answer (fails, g, d, cursed) all | None => None end in
  (sup <> 1%N \/ known = None \/ blocked curse -> o = []) /\
  (forall c, In c cursed -> ~ In c (map fst o)) /\
  (forall ci c, curse = Some ci -> src_cursed ci c = true -> ~ In c (map fst o)) /\
  (forall all ci c, known = Some all -> curse = Some ci -> In c (map fst o) ->
     In c all /\ src_cursed ci c = false /\ ci_global ci = false /\ ci_dest ci = false) /\
  (forall all ci sn, sup = 1%N -> known = Some all -> curse = Some ci -> ci_global ci = false -> ci_dest ci = false ->
     nextseq_of mode (non_cursed_sources ci all) = Some sn -> length sn = length (non_cursed_sources ci all) ->
     map fst o = non_cursed_sources ci all).
Proof. exact obsc_sound. Qed.
Print Assumptions C15_judge_obsc_sound.

(* obs_exec *)
Theorem C15_judge_obse_model_passes : forall i, obse_ok i (obse_model i) = true.
Proof. exact obse_model_passes. Qed.
Print Assumptions C15_judge_obse_model_passes.

(* obs_exec: observed commit reports l (Some [] = observation without commit reports) that pass satisfy
   C15_no_observe_exec, C15_source_left_out_exec (the remote's cursed chains standing for the subject set),
   C15_reported_source_left_out_exec, C15_observed_sources_exec and C15_other_sources_kept_exec *)
Theorem C15_judge_obse_sound : forall sup known fails g d cursed pending l,
  obse_ok (sup, known, (fails, g, d, cursed), pending) (Some l) = true ->
  let curse := match known with Some all => answer (fails, g, d, cursed) all | None => None end in
  (known = None \/ blocked curse -> l = []) /\
  (forall c, In c cursed -> ~ In c (map fst l)) /\
  (forall ci c, curse = Some ci -> src_cursed ci c = true -> ~ In c (map fst l)) /\
  (forall all ci c, known = Some all -> curse = Some ci -> In c (map fst l) -> In c all /\ src_cursed ci c = false) /\
  (forall all ci p kv, sup = 1%N -> known = Some all -> curse = Some ci -> ci_global ci = false -> ci_dest ci = false ->
     pending = Some p -> In kv p -> In (fst kv) all -> src_cursed ci (fst kv) = false -> In kv l).
Proof. exact obse_sound. Qed.
Print Assumptions C15_judge_obse_sound.

(* accept (both plugins) *)
Theorem C15_judge_acc_model_passes : forall i, acc_ok i (acc_model i) = true.
Proof. exact acc_model_passes. Qed.
Print Assumptions C15_judge_acc_model_passes.

(* accept: a verdict o (1 = accepted) that passes obeys C15_accept_commit / C15_accept_exec *)
Theorem C15_judge_acc_sound : forall plugin srcs fails g d cursed extra o,
  acc_ok (plugin, srcs, (fails, g, d, cursed), extra) o = true ->
  srcs <> [] -> any_cursed (answer (fails, g, d, cursed) srcs) srcs -> o <> 1%N.
Proof. exact acc_sound. Qed.
Print Assumptions C15_judge_acc_sound.

(* cyc_commit *)
Theorem C15_judge_cycc_model_passes : forall i, cycc_ok i (cycc_model i) = true.
Proof. exact cycc_model_passes. Qed.
Print Assumptions C15_judge_cycc_model_passes.

(* cyc_commit: in every state nothing is observed under a blocking curse and no chain cursed on the remote appears;
   BuildingReport reads no off-ramp numbers; the other states satisfy the five clauses of C15_judge_obsc_sound
   (obsc_spec); roots only for the agreed ranges *)
Theorem C15_judge_cycc_sound : forall st sup known fails g d cursed mode sel o,
  cycc_ok (st, sup, known, (fails, g, d, cursed), mode, sel) o = true ->
  (st = 2%N -> fst o = []) /\
  (st <> 2%N -> obsc_spec sup known (fails, g, d, cursed) mode (fst o)) /\
  (blocked (match known with Some all => answer (fails, g, d, cursed) all | None => None end) -> fst o = []) /\
  (forall c, In c cursed -> ~ In c (map fst (fst o))) /\
  (forall c, In c (snd o) -> In c sel).
Proof. exact cycc_sound. Qed.
Print Assumptions C15_judge_cycc_sound.

(* cyc_exec *)
Theorem C15_judge_cyce_model_passes : forall i, cyce_ok i (cyce_model i) = true.
Proof. exact cyce_model_passes. Qed.
Print Assumptions C15_judge_cyce_model_passes.

(* cyc_exec: GetCommitReports satisfies the five clauses of C15_judge_obse_sound (obse_spec) and carries no messages
   or nonces; GetMessages / Filter only refer to commit reports the previous outcome agreed on *)
Theorem C15_judge_cyce_sound : forall ph sup known fails g d cursed pend cr ms ns,
  cyce_ok (ph, sup, known, (fails, g, d, cursed), pend) (Some (cr, ms, ns)) = true ->
  (ph = 1%N -> ms = [] /\ ns = [] /\ obse_spec sup known (fails, g, d, cursed) pend cr) /\
  (ph <> 1%N -> forall p, p = match pend with Some p => p | None => [] end ->
     (forall kv, In kv cr -> In kv p) /\
     (forall kv, In kv ms -> In (fst kv) (map fst p)) /\
     (forall c, In c ns -> In c (map fst p))).
Proof. exact cyce_sound. Qed.
Print Assumptions C15_judge_cyce_sound.

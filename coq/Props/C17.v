(* C17 — Execute observations fit the size limit and stay consistent when truncated.
   This file holds the property theorems only; each is closed by [exact] of a lemma proved in Proofs/TruncateP.v.

   [truncate size max pick o] models truncateObservation on the observation o: [size] is the encoded length - ANY
   function, nothing is assumed of it; [max] the limit; [pick n o'] the chain that Go's map order puts first in
   iteration n >= 1 - ANY function.  [consistent o o'] (Model/Truncate.v) says: o' is exactly o projected on the commit
   reports that o' still holds - a message / token datum filed under (chain, seq) is kept iff the chain never had
   commit reports, or still has some and seq is in the range of none of the reports cut from its tail; a costly id is
   kept iff it is not the id of a dropped message; nonces of removed chains are removed - and every chain that is
   left holds a prefix of its original report list. *)
Require Import Verif.Model.Base Verif.Model.Truncate Verif.Proofs.TruncateP.

Theorem C17_fits : forall size max pick o o',
  truncate size max pick o = Ok o' -> (Z.of_N (size o') <= max)%Z.
Proof. exact truncate_fits. Qed.
Print Assumptions C17_fits.

(* an error is returned only after every observation that was measured - the original, each intermediate one and the
   last one with a single report - exceeded the limit *)
Theorem C17_error_only_if_nothing_fits : forall size max pick o,
  truncate size max pick o = Err ->
  Forall (fun x => (max < Z.of_N (size x))%Z) (trace size max pick (S (measure o)) 0 o).
Proof. exact truncate_err. Qed.
Print Assumptions C17_error_only_if_nothing_fits.

(* the loop ends (at most one iteration per commit report / chain key) with a result or the error; it cannot panic.
   Hypotheses: the chain Go picks is a key of the map; map keys are unique. *)
Theorem C17_terminates : forall size max pick o,
  (forall n o, t_commits o <> [] -> In (pick n o) (tkeys (t_commits o))) ->
  NoDup (tkeys (t_commits o)) ->
  (exists o', truncate size max pick o = Ok o') \/ truncate size max pick o = Err.
Proof. exact truncate_total. Qed.
Print Assumptions C17_terminates.

(* [toks_have_msgs o]: token data only under (chain, seq) keys that also hold a message - what getMessagesObservation
   builds. (truncateLastCommit deletes token data only together with a message, so token data without a message
   would survive the cut of its report.) *)
Theorem C17_consistent : forall size max pick o o',
  toks_have_msgs o ->
  truncate size max pick o = Ok o' -> consistent o o'.
Proof. exact truncate_consistent. Qed.
Print Assumptions C17_consistent.

(* [consistent] spelled out entry by entry *)
Theorem C17_consistent_messages : forall o0 o c s id,
  consistent o0 o ->
  (In (c, s, id) (t_msgs o) <-> In (c, s, id) (t_msgs o0) /\ alive (t_commits o0) (t_commits o) c s = true).
Proof. exact consistent_msgs. Qed.
Print Assumptions C17_consistent_messages.

Theorem C17_consistent_token_data : forall o0 o c s,
  consistent o0 o ->
  (In (c, s) (t_toks o) <-> In (c, s) (t_toks o0) /\ alive (t_commits o0) (t_commits o) c s = true).
Proof. exact consistent_toks. Qed.
Print Assumptions C17_consistent_token_data.

Theorem C17_consistent_costly : forall o0 o id,
  consistent o0 o ->
  (In id (t_costly o) <->
   In id (t_costly o0) /\
   ~ exists c s, In (c, s, id) (t_msgs o0) /\ alive (t_commits o0) (t_commits o) c s = false).
Proof. exact consistent_costly. Qed.
Print Assumptions C17_consistent_costly.

(* The code before the repair (F20): cutting one chain removed the costly flag of another chain's retained message ... *)
Theorem C17_unfixed_wrong_chain_refuted :
  exists o c o', truncate_chain_unfixed o c = Ok o' /\
                 In (2, 7, 102)%N (t_msgs o') /\ In 102%N (t_costly o) /\ ~ In 102%N (t_costly o') /\
                 t_costly (truncate_chain o c) = [102%N].
Proof. exact truncate_chain_unfixed_wrong_chain. Qed.
Print Assumptions C17_unfixed_wrong_chain_refuted.

(* ... and panicked (slice bounds out of range) when two costly ids matched. *)
Theorem C17_unfixed_panics_refuted :
  exists o c, truncate_chain_unfixed o c = Panic /\
              exists size max pick, truncate_unfixed size max pick o = Panic.
Proof. exact truncate_chain_unfixed_panics. Qed.
Print Assumptions C17_unfixed_panics_refuted.

(* C17_other_phases_partial (stated, not proved): in the GetCommitReports and Filter phases the plugin does not
   truncate at all; the only bound there is the reader's limit of 1000 commit reports. Not modelled. *)

(* ---- the executable properties of Check/C17_check.v are the property (judge soundness) ---- *)
Require Import Verif.Check.C17_check Verif.Proofs.JudgeSoundC17P.

(* consistentb is [consistent] of C17_consistent (and: the chain keys that are left are unique) *)
Theorem C17_judge_consistentb_sound : forall o0 o,
  toks_have_msgs o0 -> consistentb o0 o = true -> consistent o0 o /\ NoDup (tkeys (t_commits o)).
Proof. exact consistentb_sound. Qed.
Print Assumptions C17_judge_consistentb_sound.

(* for originals with token data under message-less keys the executable clause skips the token-data component only *)
Theorem C17_judge_consistentb_sound_but_toks : forall o0 o,
  consistentb o0 o = true ->
  let p := project o0 (t_commits o) in
  t_msgs o = t_msgs p /\ t_costly o = t_costly p /\ t_nonces o = t_nonces p /\
  prefixes (t_commits o0) (t_commits o) /\ NoDup (tkeys (t_commits o)).
Proof. exact consistentb_sound_but_toks. Qed.
Print Assumptions C17_judge_consistentb_sound_but_toks.

(* sink step (truncateLastCommit / truncateChain on one chain) *)
Theorem C17_judge_step_model_passes : forall kind c o,
  NoDup (tkeys (t_commits o)) -> step_ok (kind, c, o) (step_model (kind, c, o)) = true.
Proof. exact (fun kind c o => step_model_passes (kind, c, o)). Qed.
Print Assumptions C17_judge_step_model_passes.

Theorem C17_judge_step_sound : forall kind c o r,
  toks_have_msgs o -> step_ok (kind, c, o) r = true ->
  exists o', r = Ok o' /\ consistent o o' /\ NoDup (tkeys (t_commits o')) /\
             forall k l, In (k, l) (t_commits o) -> k <> c -> alookup k (t_commits o') = Some l.
Proof. exact (fun kind c o => step_sound (kind, c, o)). Qed.
Print Assumptions C17_judge_step_sound.

(* sinks trunc / observation (truncateObservation at several limits; snd r = real encoded size of the answer) *)
Theorem C17_judge_trunc_model_passes : forall o tab runs,
  NoDup (tkeys (t_commits o)) ->
  (forall run, In run runs -> truncate (size_tab tab) (fst run) (pick_of (snd run)) o <> Spin) ->
  trunc_ok (o, tab, runs) (trunc_model (o, tab, runs)) = true.
Proof. exact (fun o tab runs => trunc_model_passes (o, tab, runs)). Qed.
Print Assumptions C17_judge_trunc_model_passes.

Theorem C17_judge_trunc_sound : forall o tab runs out,
  toks_have_msgs o -> trunc_ok (o, tab, runs) out = true ->
  length out = length runs /\
  forall n run r, nth_error runs n = Some run -> nth_error out n = Some r ->
    match fst r with
    | Ok o' => (Z.of_N (snd r) <= fst run)%Z /\ consistent o o' /\
               ((Z.of_N (size_tab tab o) <= fst run)%Z -> o' = o) /\ (o' = o \/ t_commits o' <> [])
    | Err => let tr := trace (size_tab tab) (fst run) (pick_of (snd run)) (S (measure o)) 0 o in
             Forall (fun x => (fst run < Z.of_N (size_tab tab x))%Z) tr /\
             exists pre x, tr = pre ++ [x] /\ t_commits (cut_next (pick_of (snd run)) (length pre) x) = []
    | _ => False
    end.
Proof. exact (fun o tab runs => trunc_sound (o, tab, runs)). Qed.
Print Assumptions C17_judge_trunc_sound.

(* the Err clause by itself, premise-free: an ARBITRARY answer "error" that passes satisfies the conclusion of
   C17_error_only_if_nothing_fits (size = the case's table of real encoded sizes, pick = the case's witness path) *)
Theorem C17_judge_trunc_err_nothing_fits : forall o tab max picks n,
  trunc_ok1 o tab max picks (Err, n) = true ->
  Forall (fun x => (max < Z.of_N (size_tab tab x))%Z) (trace (size_tab tab) max (pick_of picks) (S (measure o)) 0 o).
Proof. exact trunc_ok1_err_sound. Qed.
Print Assumptions C17_judge_trunc_err_nothing_fits.

(* "not even one report fits": with unique chain keys, among the measured observations there is one that holds at most
   one commit report (the last one measured), and it exceeds the limit *)
Theorem C17_judge_trunc_err_single_report : forall o tab max picks n,
  NoDup (tkeys (t_commits o)) -> trunc_ok1 o tab max picks (Err, n) = true ->
  exists x, In x (trace (size_tab tab) max (pick_of picks) (S (measure o)) 0 o) /\
            (max < Z.of_N (size_tab tab x))%Z /\
            (t_commits x = [] \/ exists c l, t_commits x = [(c, l)] /\ (length l <= 1)%nat).
Proof. exact trunc_ok1_err_single_report. Qed.
Print Assumptions C17_judge_trunc_err_single_report.

(* hypotheses satisfiable: a genuine error after three measured observations *)
Theorem C17_judge_trunc_err_example :
  let o := mkTObs [(1%N, [mkTC 1 5 6; mkTC 2 7 8]); (2%N, [mkTC 3 1 2])] [(1, 7, 100)%N] [(1%N, 7%N)] [100%N] [] in
  let tab := [([(1%N, 2%nat); (2%N, 1%nat)], 120%N); ([(1%N, 1%nat); (2%N, 1%nat)], 70%N); ([(2%N, 1%nat)], 30%N)] in
  NoDup (tkeys (t_commits o)) /\ trunc_ok1 o tab 10 [1%N; 1%N; 2%N] (Err, 0%N) = true /\
  length (trace (size_tab tab) 10 (pick_of [1%N; 1%N; 2%N]) (S (measure o)) 0 o) = 3%nat.
Proof. exact trunc_ok1_err_example. Qed.
Print Assumptions C17_judge_trunc_err_example.

(* the executable property before the strengthening judged "error" against the ORIGINAL's size only: an error on an
   input whose single-report observation fits (40 <= 50) was accepted; it is rejected now, the model's own answer passes *)
Theorem C17_judge_trunc_before_weak :
  trunc_ok_before weak_trunc_in [(Err, 0%N)] = true /\
  trunc_ok weak_trunc_in [(Err, 0%N)] = false /\
  trunc_model weak_trunc_in = [(Ok (mkTObs [(1%N, [mkTC 1 5 6])] [] [] [] []), 40%N)] /\
  trunc_ok weak_trunc_in (trunc_model weak_trunc_in) = true.
Proof. exact trunc_ok_before_weak. Qed.
Print Assumptions C17_judge_trunc_before_weak.

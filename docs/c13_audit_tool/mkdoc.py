#!/usr/bin/env python3
"""Generates /verif/docs/c13_sites.md from the analyser output (sites.tsv) and the hand-written per-function annotations."""
import collections, re

rows = [l.rstrip('\n').split('\t') for l in open('/tmp/c13audit/sites.tsv')]
# (file, line, kind, func, reach, text)
sites = []
for r in rows:
    f, ln = r[0].rsplit(':', 1)
    sites.append(dict(file=f, line=int(ln), kind=r[1], func=r[2], reach=r[3], text=r[4]))

KIND = {
    'index-slice': 'index s[i]', 'index-array': 'index a[i]', 'index-array-ptr': 'index (*a)[i]', 'slice-expr': 'slice s[a:b]',
    'map-write': 'map write m[k]=v', 'ptr-field': 'field through pointer', 'ptr-deref': 'deref *p', 'type-assert': 'type assertion without ok',
    'bigint-method': 'big.Int method', 'make-size': 'make with computed size', 'sort-comparator': 'sort comparator',
    'explicit-panic': 'panic(...)', 'for-ever': 'for { } loop', 'for-leq': 'for ... <= bound', 'for-bound': 'for with non-len bound',
    'chan-recv': 'channel receive', 'chan-send': 'channel send', 'range-chan': 'range over channel', 'slice-to-array-conv': 'slice -> array conversion',
    'must-call': 'Must* call', 'range-int': 'range over integer',
}

P = 'modelled+proved'
S = 'swept only'
# file|func -> (input that reaches it, guard, status)   ; optional per-kind overrides with key file|func|kind
A = {}
def ann(key, inp, guard, status):
    A[key] = (inp, guard, status)

# ---------------- commit: chain fee
ann('commit/chainfee/outcome.go|*processor.Outcome', 'observations (validated) -> medians', 'local: sort comparator over the slice built here; big ints non-nil by chainfee ValidateObservation (F09)', P + ' (PanicSites: validated_aggregate; PanicSites2: deviates_of_medians) / sort: ' + S)
ann('commit/chainfee/outcome.go|*processor.getConsensusObservation', 'observations (validated)', 'executionFees / dataAvailabilityFees are made with len(vals) right above the loop', P + ' (PanicSites median_res: non-nil by validation F09)')
ann('commit/chainfee/outcome.go|aggregateObservations', 'observations', 'maps made at the top of the function', S)
ann('commit/chainfee/types.go|ChainFeeUpdateAggregator', 'observations (ChainFeeUpdates)', 'slices made with len(updates); a.Cmp(b): nil rejected by ValidateObservation (F09)', P + ' (PanicSites agg2_res / validate_updates)')
ann('commit/chainfee/types.go|ComponentsUSDPrices.ToPackedFee', 'medians of validated fee components x native price', 'operands are results of CalculateUsdPerUnitGas (never nil)', S)
ann('commit/chainfee/types.go|FeeUpdatesFromTimestampedBig', 'reader: GetChainFeePriceUpdate', 'map made here; values non-nil: ccipChainReader drops nil / zero answers (ccip.go:601)', P + ' (PanicSites2 packed_fee)')
ann('commit/chainfee/types.go|FromPackedFee', 'reader: GetChainFeePriceUpdate value', 'ccip.go:601 value != nil', P + ' (PanicSites2 packed_fee / from_packed_fee)')
ann('commit/chainfee/validate_observation.go|*processor.ValidateObservation', 'observation', 'nil test in the same condition (x == nil || x.Cmp(...))', P + ' (PanicSites validate_updates) ')
# ---------------- commit: merkle root
ann('commit/merkleroot/observation.go|*Processor.verifyQuery', 'query (RMN bundle pointer)', 'shouldSkipRMNVerification rule 3 (bundle required in BuildingReport) ; NewECDSASigsFromPB / NewLaneUpdatesFromPB', P + ' (PanicSites2 verify_query)')
ann('commit/merkleroot/observation.go|observerImpl.ObserveOffRampNextSeqNums', 'reader: NextSeqNum answer, GetRmnCurseInfo', 'len(offRampNextSeqNums) != len(sourceChains) -> nil ; curseInfo non-nil on nil error (ccipChainReader always returns a value)', P + ' (PanicSites2 observe_offramp_next)')
ann('commit/merkleroot/observation.go|observerImpl.ObserveLatestOnRampSeqNums', 'reader: GetExpectedNextSequenceNumber', 'latestOnRampSeqNums made with len(sourceChains), i from range', S)
ann('commit/merkleroot/observation.go|observerImpl.computeMerkleRoot', 'reader: messages', 'i > 0 before msgs[i-1]; hashesStr made with len(hashes)', S)
ann('commit/merkleroot/outcome.go|buildReport', 'query (RMN bundle), observations', 'q.RMNSignatures != nil; NewECDSASigsFromPB / NewLaneUpdatesFromPB errors -> empty outcome', P + ' (PanicSites2 build_report_bundle)')
ann('commit/merkleroot/outcome.go|reportRangesOutcome', 'observations (consensus maps)', 'sort comparators over slices built here', S)
ann('commit/merkleroot/types.go|*Outcome.Sort', 'previous outcome / outcome', 'sort comparators only', S)
ann('commit/merkleroot/types.go|aggregateObservations', 'observations', 'maps made at the top of the function', S)
ann('commit/merkleroot/validate_observation.go|ValidateMerkleRootsState', 'report (merkle roots) + reader: NextSeqNum answer', 'len(offRampExpNextSeqNums) != len(chainSlice) -> error', P + ' (PanicSites2 validate_roots_state)')
# ---------------- rmn
RMN = 'RMN peer response'
ann('commit/merkleroot/rmn/translatestruct.go|NewECDSASigFromPB', 'query / RMN report signature response', 'sig == nil; len(R) != 32 || len(S) != 32 (F10)', P + ' (PanicSites2 ecdsa_sig_from_pb)')
ann('commit/merkleroot/rmn/translatestruct.go|NewECDSASigsFromPB', 'query', 'NewECDSASigFromPB returns nil only with an error', P + ' (PanicSites2 parse_bundle)')
ann('commit/merkleroot/rmn/translatestruct.go|NewLaneUpdatesFromPB', 'query / RMN responses', 'lu == nil || LaneSource == nil || ClosedInterval == nil; len(Root) != 32 (F10)', P + ' (PanicSites2 lane_update_from_pb)')
ann('commit/merkleroot/rmn/controller.go|gotSufficientObservationResponses', RMN, 'validateSignedObservationResponse (nil lane source) + validateRootLengths before the response is stored; len(countsPerRoot) == 0 before values[len-1]; maps made before the write', P + ' (PanicSites2 root32, max_count; Rmn.v C06)')
ann('commit/merkleroot/rmn/controller.go|selectRoots', RMN, 'validateRootLengths (len == 32) before Bytes32(lu.Root); nil checks of validateSignedObservationResponse; maps made before the write', P + ' (PanicSites2 root32; Rmn.v)')
ann('commit/merkleroot/rmn/controller.go|transformAndSortObservations', RMN, 'FixedDestLaneUpdates[0]: a node has at most one accepted observation since F12 (proved in RmnP.v), so the comparator never sees two entries of one node', P + ' (Rmn.v tas_panics, C13_rmn_never_panics)')
ann('commit/merkleroot/rmn/controller.go|*controller.validateSignedObservationResponse', RMN, 'signedObs == nil, Observation == nil, LaneDest == nil, lane update / lane source / closed interval == nil, Root == nil checked before use; KeepNRightBytes guard', P + ' (Rmn.v C06; PanicSites2 keep_n_right)')
ann('commit/merkleroot/rmn/controller.go|*controller.validateReportSigResponse', RMN, 'NewECDSASigFromPB error before *sig', P + ' (Rmn.v; PanicSites2 ecdsa_sig_from_pb)')
ann('commit/merkleroot/rmn/controller.go|*controller.parseResponse', RMN, 'proto.Unmarshal error; request id / node checks', P + ' (Rmn.v)')
for fn in ['*controller.listenForRmnObservationResponses', '*controller.listenForRmnReportSignatures']:
    ann('commit/merkleroot/rmn/controller.go|' + fn, RMN + ' / timers / context', 'every select has a <-ctx.Done() case; timers', P + ' (Rmn.v: C13_rmn_returns_by_deadline)')
for fn in ['*controller.getRmnReportSignatures', '*controller.getRmnSignedObservations', '*controller.ComputeReportSignatures', '*controller.sendObservationRequests',
           '*controller.sendReportSignatureRequest', 'populateUpdatesPerChain', 'randomShuffle', 'sortAndParseReportSigs']:
    ann('commit/merkleroot/rmn/controller.go|' + fn, 'requests built from the previous outcome; ' + RMN, 'values validated when the response was accepted; maps / slices made locally', P + ' (Rmn.v model of the controller, C06 anomaly sweep)')
ann('commit/merkleroot/rmn/controller.go|newRequestID', 'crypto/rand failure', 'NONE (panic(err) when the OS random source fails)', 'unreachable with the quantified inputs (environment failure)')
ann('commit/merkleroot/rmn/crypto.go|verifyObservationSignature', RMN, 'rmnNode from the home config (OffchainPublicKey set by the RMNHome poller)', S + ' (C06 sweep)')
ann('commit/merkleroot/rmn/peerclient.go|*peerClient.listenToStream', 'peer stream', 'send on a buffered channel in a background goroutine', 'not in a callback (background goroutine)')
ann('commit/merkleroot/rmn/streamconfig.go|init', 'package init', 'constants', 'unreachable with inputs (package initialisation)')
# ---------------- token price
ann('commit/tokenprice/observation.go|*processor.ObserveFeedTokenPrices', 'reader: GetFeedPricesUSD answer', 'len(tokenPrices) != len(tokensToQuery) -> nothing observed', P + ' (PanicSites2 observe_feed_prices)')
ann('commit/tokenprice/observation.go|*processor.ObserveFeeQuoterTokenUpdates', 'reader: GetFeeQuoterTokenUpdates', 'map made here', S)
ann('commit/tokenprice/outcome.go|*processor.selectTokensForUpdate', 'observations (validated) -> medians', 'Deviates zero test; values non-nil by ValidateObservation (F09); ti.DeviationPPB from the validated config', P + ' (PanicSites2 deviates, deviates_of_medians)')
ann('commit/tokenprice/outcome.go|aggregateObservations', 'observations', 'maps made at the top', S)
ann('internal/libs/mathslib/calc.go|Deviates', 'medians of validated observations', 'x1.BitLen() == 0 || x2.BitLen() == 0 before Div; non-nil by validation', P + ' (PanicSites2 deviates)')
ann('internal/libs/mathslib/calc.go|CalculateUsdPerUnitGas', 'validated fee components / reader prices', 'non-nil: chainfee ValidateObservation; reader guards F32 (execute)', P + ' (PanicSites2 exec_cost) / ' + S)
# ---------------- consensus
ann('internal/plugincommon/consensus/consensus.go|GetConsensusMap', 'observations', 'len(items) != 1 before items[0]', S + ' (local guard two lines above)')
ann('internal/plugincommon/consensus/consensus.go|GetConsensusMapAggregator', 'observations', 'map made here', S)
ann('internal/plugincommon/consensus/consensus.go|Median', 'observations', 'len(vals) == 0 before valsCopy[len/2]', P + ' (PanicSites median_res)')
ann('internal/plugincommon/consensus/consensus.go|TimestampedBigAggregator', 'observations (validated)', 'slices made with len(updates); nil values rejected by validation (F09)', P + ' (PanicSites agg2_res)')
ann('internal/plugincommon/consensus/consensus.go|TokenPriceComparator', 'observations (validated)', 'Price nil rejected by validateObservedTokenPrices (F09)', P + ' (PanicSites median_res)')
ann('internal/plugincommon/consensus/min_observation.go|*minObservation[T].Add', 'observations', 'cache made in the constructor; entry tested with ok', S)
ann('internal/plugincommon/consensus/min_observation.go|*minObservation[T].GetValid', 'observations', 'ids are the keys of the cache', S)
ann('internal/libs/slicelib/bigint.go|BigIntSortedMiddle', '-', '-', 'not called from the plugins')
# ---------------- execute
ann('execute/exectypes/outcome.go|PluginState.Next', 'previous outcome (State string)', 'DecodeOutcome rejects unknown states (F19a)', P + ' (PanicSites exec_callback_next)')
ann('execute/exectypes/outcome.go|newSortedOutcome', 'previous outcome / outcome', 'sort comparators only', S)
ann('execute/exectypes/token.go|MessageTokenData.Append', 'observations (token data index of a range loop)', 'index >= len(out.TokenData) -> grow to index+1', P + ' (PanicSites2 append_at)')
ann('execute/exectypes/token.go|MessageTokenData.ToByteSlice', 'previous outcome', 'out made with len(mtd.TokenData)', S)
ann('execute/outcome.go|*Plugin.Outcome', 'previous outcome (State)', 'panic("unknown state") behind Next(), whose three results are the three cases', P + ' (PanicSites exec_callback_next_cycle)')
ann('execute/outcome.go|*Plugin.getCommitReportsOutcome', 'observations', 'sort comparators', S)
ann('execute/outcome.go|*Plugin.getMessagesOutcome', 'previous outcome, observations', 'i from range over the same slice; loop over observed keys, not over the range (F19b)', P + ' (PanicSites range_loop)')
ann('execute/outcome.go|observedSeqNumsInRange', 'observations, previous outcome ranges', 'F19b', P + ' (PanicSites range_loop)')
ann('execute/plugin.go|selectReport', 'previous outcome (pending reports)', 'i from range over the same slice', P + ' (PanicSites2 builder_add)')
ann('execute/plugin.go|getPendingExecutedReports', 'reader: commit reports, executed ranges', 'map from groupByChainSelector', S + ' (C09 harness)')
ann('execute/plugin_functions.go|filterOutExecutedMessages', 'reader: commit report ranges, executed ranges (uint64)', 'for ; s <= executed.End(); s++ : NONE before F71 (ends at 2^64-1 never terminate); i bounded by len(reports)', P + ' after repair F71 (PanicSites2 filter_one); C09 model ExecPending.v')
ann('execute/plugin_functions.go|truncateObservation', 'own observation', 'C17', P + ' (Truncate.v, C13_truncate_total)')
ann('execute/plugin_functions.go|truncateLastCommit', 'own observation', 'len(commits) == 0 before commits[len-1]', P + ' (Truncate.v)')
ann('execute/plugin_functions.go|truncateChain', 'own observation', 'F20', P + ' (Truncate.v)')
ann('execute/plugin_functions.go|decodeAttributedObservations', 'observations', 'decoded made with len(aos)', S)
ann('execute/plugin_functions.go|mergeTokenObservations', 'observations (validated chains)', 'results[selector] / validators[selector] made before the nested write; values[0] behind len(values) == 1', P + ' (PanicSites2 merge_tok_all, append_at)')
ann('execute/plugin_functions.go|initResultsAndValidators', 'observations', 'inner maps made by the caller (mergeTokenObservations)', P + ' (PanicSites2 merge_tok_write)')
for fn in ['mergeCommitObservations', 'mergeMessageObservations', 'mergeNonceObservations', 'mergeCostlyMessages', 'groupByChainSelector', 'getMessageTimestampMap']:
    ann('execute/plugin_functions.go|' + fn, 'observations / reader', 'maps made locally before the write', S)
ann('execute/observation.go|*Plugin.getCommitReportsObservation', 'reader: curse info, commit reports', 'ci non-nil on nil error; keptCommits made here', S + ' (C13_reader_exec, C15)')
ann('execute/observation.go|*Plugin.getFilterObservation', 'previous outcome (messages)', 'maps made here; msg.Sender[:] on any slice', S)
ann('execute/observation.go|readAllMessages', 'reader: messages', 'inner map made before the write', S)
ann('execute/observation.go|regroup', 'previous outcome', 'map made here', S)
ann('execute/report/report.go|*execReportBuilder.checkMessage', 'previous outcome (pending report: Messages, MessageTokenData)', 'idx >= len(Messages), idx >= len(MessageTokenData) -> error', P + ' (PanicSites2 check_message)')
ann('execute/report/report.go|buildSingleChainReportHelper', 'previous outcome (pending report)', 'len(MessageTokenData) != len(Messages) -> error; readyMessages made when nil', P + ' (PanicSites2 report_token_data, builder_add)')
ann('execute/report/report.go|*execReportBuilder.checkMessageNonce', 'observations (nonces), previous outcome', 'expectedNonce maps made before the write', S)
ann('execute/report/report.go|*execReportBuilder.buildSingleChainReport', 'previous outcome', 'maps made here', P + ' (PanicSites2 builder_add)')
ann('execute/report/data.go|markNewMessagesExecuted', 'built report', 'i < len(execReport.Messages)', S)
ann('execute/costlymessages/costly_messages.go|*CCIPMessageFeeUSD18Calculator.MessageFeeUSD18', 'reader: messages (FeeValueJuels), LINK price', 'LINK price non-nil (reader, F32); FeeValueJuels: NONE before F70', P + ' after repair F70 (PanicSites2 msg_fee)')
ann('execute/costlymessages/costly_messages.go|*CCIPMessageExecCostUSD18Calculator.MessageExecCostUSD18', 'reader: messages, fee components', 'len(messages) == 0 (F23); ExecutionFee / DataAvailabilityFee == nil -> error', P + ' (PanicSites2 exec_cost)')
ann('execute/costlymessages/costly_messages.go|*CCIPMessageExecCostUSD18Calculator.computeExecutionCostUSD18', 'reader: fee components x native price', 'non-nil by the checks of MessageExecCostUSD18 and the reader (F32)', P + ' (PanicSites2 exec_cost)')
ann('execute/costlymessages/costly_messages.go|*CCIPMessageExecCostUSD18Calculator.computeDataAvailabilityCostUSD18', 'reader: fee components', 'dataAvailabilityFee == nil tested first', P + ' (PanicSites2 exec_cost)')
ann('execute/costlymessages/costly_messages.go|calculateMessageMaxDAGas', 'reader: message, DA config', 'operands built with big.NewInt; divisor is the constant 10000', S)
ann('execute/tokendata/observer.go|merge', 'token data of two observers (reader / attestation API)', 'len(from) != len(base) -> error', P + ' (PanicSites2 token_merge)')
ann('execute/tokendata/observer.go|*compositeTokenDataObserver.initTokenDataObservations', 'reader: messages', 'tokenData made with len(message.TokenAmounts); inner map made before the write', S)
ann('execute/tokendata/observer.go|*NoopTokenDataObserver.Observe', 'reader: messages', 'as above', S)
ann('execute/tokendata/observer_background.go|*backgroundObserver.Observe', 'reader: messages; cache', 'i < len(msg.TokenAmounts) in the loop condition; msgQueue.enqueue selects on done (F22)', P + ' (BgObserver.v, C19) / ' + S)
ann('execute/tokendata/observer_background.go|*msgQueue.enqueue', 'own state', 'select with <-q.done (F22)', P + ' (C19)')
ann('execute/tokendata/usdc/usdc.go|*TokenDataObserver.extractTokenData', 'reader: messages, attestations', 'tokenData made with len(message.TokenAmounts); map lookups with ok', S)
ann('execute/tokendata/usdc/usdc.go|*TokenDataObserver.pickOnlyUSDCMessages', 'reader: messages', 'inner map made before the write', S)
ann('execute/tokendata/usdc/usdc.go|*TokenDataObserver.fetchUSDCMessageHashes', 'reader', 'map made here', S)
ann('execute/tokendata/usdc/http.go|*httpClient.setCoolDownPeriod', 'attestation API response headers', 'ok && len(retryAfterHeader) > 0 before [0]', S)
ann('execute/tokendata/usdc/http.go|*httpClient.callAPI', 'attestation API', 'err != nil returns before res is used (net/http contract: non-nil response on nil error)', S)
ann('execute/tokendata/usdc/http.go|*httpClient.Get', 'config', 'apiURL parsed in the constructor', S)
ann('execute/tokendata/usdc/http.go|*httpClient.parsePayload', 'attestation API body', 'json decode error', S)
ann('execute/tokendata/usdc/attestation.go|*sequentialAttestationClient.Attestations', 'reader: message hashes', 'inner map made before the write', S)
ann('execute/tokendata/usdc/attestation.go|FakeAttestationClient.Attestations', '-', '-', 'test double')
# ---------------- readers
RD = 'chain-reader result'
ann('pkg/reader/ccip.go|*ccipChainReader.CommitReportsGTETimestamp', RD + ' (events)', 'item.Data.(*T) with ok; len(reports) < limit before reports[:limit]; contractReaders[dest] behind validateExtendedReaderExistence', S + ' (C13_reader_exec)')
ann('pkg/reader/ccip.go|*ccipChainReader.ExecutedMessageRanges', RD, 'assertion with ok; reader existence validated', S)
ann('pkg/reader/ccip.go|*ccipChainReader.MsgsBetweenSeqNums', RD, 'assertion with ok; reader existence validated', S + ' (C13_reader_*)')
ann('pkg/reader/ccip.go|*ccipChainReader.GetChainsFeeComponents', 'chain writer answer', '*feeComponent: NONE before F74 (a (nil, nil) answer)', P + ' after repair F74 (PanicSites2 fee_components)')
ann('pkg/reader/ccip.go|*ccipChainReader.GetChainFeePriceUpdate', RD, 'update.Value == nil before Cmp; drops nil / zero', P + ' (PanicSites2 packed_fee)')
ann('pkg/reader/ccip.go|*ccipChainReader.GetRMNRemoteConfig', RD, 'len(digest) != 32 -> error before Bytes32(digest) (F31)', S + ' (C13_reader_commit; same shape as PanicSites2 root32)')
ann('pkg/reader/ccip.go|*ccipChainReader.GetWrappedNativeTokenPriceUSD', RD, 'update == nil || Timestamp == 0 || Value == nil -> skipped (F32)', S + ' (C13_reader_exec)')
ann('pkg/reader/ccip.go|*ccipChainReader.LinkPriceUSD', RD, 'Int == nil before Cmp (F32)', S + ' (C13_reader_exec)')
ann('pkg/reader/ccip.go|*ccipChainReader.getFeeQuoterTokenPriceUSD', RD, 'price == nil before Cmp (F32)', S + ' (C13_reader_exec)')
ann('pkg/reader/ccip.go|*ccipChainReader.getAllOffRampSourceChainsConfig', RD, 'len(SourceChainConfigs) != len(Selectors) -> error', P + ' (PanicSites2 all_source_configs)')
ann('pkg/reader/ccip.go|*ccipChainReader.GetContractAddress', 'bindings', 'len(bindings) != 1 -> error before bindings[0]', S)
ann('pkg/reader/ccip.go|*ccipChainReader.discoverOffRampContracts', RD, 'ContractAddresses.Append makes nil maps; sort comparator', S + ' (C13_reader_*)')
ann('pkg/reader/ccip.go|chainSelectorToBytes16', 'chain selector', 'constant bounds on a [16]byte', 'unreachable (constant slice bounds)')
ann('pkg/reader/ccip_interface.go|ContractAddresses.Append', RD, 'resp == nil / resp[contract] == nil -> make', S)
ann('pkg/reader/price_reader.go|*priceReader.GetFeeQuoterTokenUpdates', RD + ' (getTokenPrices)', 'updates[i]: NONE before F72 (answer shorter than the token list); Value == nil before Cmp', P + ' after repair F72 (PanicSites2 fee_quoter_updates)')
ann('pkg/reader/price_reader.go|*priceReader.GetFeedPricesUSD', RD, 'prices made with len(tokens), idx from range', S)
ann('pkg/reader/price_reader.go|*priceReader.getRawTokenPriceE18Normalized', RD + ' (latestRoundData)', 'answer.Mul / Div: NONE before F73 (nil Answer)', P + ' after repair F73 (PanicSites2 raw_price)')
ann('pkg/reader/price_reader.go|calculateUsdPer1e18TokenAmount', RD, 'price non-nil after F73; divisor 10^decimals > 0', P + ' (PanicSites2 raw_price)')
ann('pkg/reader/usdc_reader.go|MessageSentEvent.unpackID', RD + ' (CCTP MessageSent)', 'len(Arg0) < 32 -> error', P + ' (PanicSites2 unpack_id)')
ann('pkg/reader/usdc_reader.go|NewSourceTokenDataPayloadFromBytes', 'reader: message token ExtraData', 'len(extraData) < 64 -> error', P + ' (PanicSites2 source_token_payload)')
ann('pkg/reader/usdc_reader.go|usdcMessageReader.recreateMessageTransmitterEvents', 'reader: message token ExtraData', 'buf always has 32 bytes (4+4+4+8+12 appended above)', 'unreachable (constant length)')
ann('pkg/reader/usdc_reader.go|usdcMessageReader.MessageHashes', RD, 'boundContracts[source] with ok; assertion with ok', S)
ann('pkg/reader/usdc_reader.go|SourceTokenDataPayload.ToBytes', '-', 'constant bounds on [32]byte', 'unreachable (constant slice bounds)')
ann('pkg/reader/usdc_reader.go|AllAvailableDomains', '-', 'constant table', 'not reachable from a callback')
ann('pkg/reader/curses.go|CurseInfo.NonCursedSourceChains', RD, 'sort comparator', S + ' (C15)')
ann('pkg/reader/rmn_home.go|IsNodeObserver', 'RMNHome config (background poller)', 'bitmap nil: Pollers.v (C18)', 'not in a callback (poller goroutine); modelled in Pollers.v')
ann('pkg/reader/rmn_home.go|convertOnChainConfigToRMNHomeChainConfig', 'RMNHome config (background poller)', 'nodes made with len(...)', 'not in a callback (poller goroutine)')
ann('pkg/contractreader/extended.go|*extendedContractReader.getOneBinding', 'bindings', 'switch on len(extendedBindings) == 1', S)
ann('pkg/types/ccipocr3/common_types.go|*Bytes.UnmarshalJSON', 'any JSON document', 'len(data) < 2; has 0x prefix', P + ' (PanicSites bytes_unmarshal)')
ann('pkg/types/ccipocr3/common_types.go|*Bytes32.UnmarshalJSON', 'any JSON document', 'len(data) < 4', P + ' (PanicSites bytes32_unmarshal)')
ann('pkg/types/ccipocr3/common_types.go|*BigInt.UnmarshalJSON', 'any JSON document', 'len(p) < 2', P + ' (PanicSites bigint_unmarshal)')
ann('pkg/types/ccipocr3/common_types.go|Bytes32.String', 'any', 'full slice of an array', 'unreachable (b[:] of an array)')
ann('pkg/types/ccipocr3/common_types.go|NewBytesFromString', 'config / tests', 'HasPrefix 0x', 'not reachable from a callback')
ann('pkg/types/ccipocr3/common_types.go|NewBytes32FromString', 'config / tests', 'HasPrefix 0x', 'not reachable from a callback')
ann('pkg/types/ccipocr3/generic_types.go|*SeqNumRange.SetStart', '-', 'constant index on [2]SeqNum', 'unreachable (constant index)')
ann('pkg/types/ccipocr3/generic_types.go|*SeqNumRange.SetEnd', '-', 'constant index on [2]SeqNum', 'unreachable (constant index)')
ann('internal/libs/typeconv/address.go|KeepNRightBytes', RMN + ' / request (on-ramp address)', 'n >= uint(len(b)) -> b', P + ' (PanicSites2 keep_n_right)')
ann('internal/libs/slicelib/bytes.go|LeftPadBytes', 'observations (sender address strings)', 'l <= len(slice) -> slice', S)
ann('internal/libs/slicelib/generic.go|Map', 'any', 'res made with len(slice)', S)
ann('internal/libs/slicelib/bits.go|BoolsToBitFlags', 'merkle proof flags', 'i < len(bools)', S)
ann('internal/plugincommon/transmitters.go|GetTransmissionSchedule', 'home chain config', 'transmissionDelays made with len(transmitters), i from range', S + ' (C16)')
ann('internal/plugincommon/chain_support.go|ccipChainSupport.KnownSourceChainsSlice', 'home chain config', 'sort comparator', S)
ann('internal/plugincommon/curses.go|IsReportCursed', 'report + reader: curse info', 'curseInfo non-nil on nil error', S + ' (C15)')
ann('internal/plugincommon/discovery/processor.go|*ContractDiscoveryProcessor.Observation', 'reader', '*cdp.reader set by the constructor', S)
ann('internal/plugincommon/discovery/processor.go|*ContractDiscoveryProcessor.Outcome', 'observations', 'contracts made here; *cdp.reader', S + ' (C01)')
ann('internal/plugincommon/discovery/processor.go|aggregateObservations', 'observations', 'maps made at the top; reads of nil maps are allowed', S)
ann('commit/factory.go|PluginFactory.Start', '-', 'panic("should not be called"): services interface stubs', 'not called by libocr on a reporting plugin factory (CHA over-approximation)')
for fn in ['PluginFactory.Close', 'PluginFactory.Ready', 'PluginFactory.HealthReport', 'PluginFactory.Name']:
    ann('commit/factory.go|' + fn, '-', 'services interface stubs', 'not called by libocr on a reporting plugin factory (CHA over-approximation)')
    ann('execute/factory.go|' + fn, '-', 'services interface stubs', 'not called by libocr on a reporting plugin factory (CHA over-approximation)')
ann('execute/factory.go|PluginFactory.Start', '-', 'services interface stubs', 'not called by libocr on a reporting plugin factory (CHA over-approximation)')
for fn in ['*homeChainPoller.poll', '*homeChainPoller.fetchAndSetConfigs', '*homeChainPoller.setState', '*homeChainPoller.convertOnChainConfigToHomeChainConfig']:
    ann('internal/reader/home_chain.go|' + fn, 'home chain config (background poller)', 'Pollers.v (C18)', 'not in a callback (poller goroutine); modelled in Pollers.v')

ann('internal/plugincommon/consensus/threshold.go|MakeConstantThreshold', '-', '-', 'not a site: generic instantiation constantThreshold[T] (analyser artefact)')
ann('pkg/peergroup/factory.go|*Creator.Create', 'config digests', 'full slice of a [32]byte', 'unreachable (x[:] of an array)')
ann('pkg/peergroup/factory.go|writePrefix', 'config', 'full slice of an array', 'unreachable (x[:] of an array)')

MODELLED_MAPWRITE = {'execute/plugin_functions.go|mergeTokenObservations', 'execute/plugin_functions.go|initResultsAndValidators'}
MODELLED_PTR_FILES = ('commit/merkleroot/rmn/controller.go', 'commit/merkleroot/rmn/translatestruct.go')
MODELLED_PTR_FUNCS = {'commit/merkleroot/observation.go|*Processor.verifyQuery', 'commit/merkleroot/outcome.go|buildReport',
                      'pkg/reader/ccip.go|*ccipChainReader.GetChainsFeeComponents'}

def lookup(s):
    fk = s['file'] + '|' + s['func']
    if s['reach'] and fk in A and not A[fk][2].startswith(('not ', 'unreachable', 'test')):
        # secondary constructs of an annotated function: local by nature unless they are the modelled hazard itself
        if s['kind'] in ('map-write',) and fk not in MODELLED_MAPWRITE:
            return (A[fk][0], 'map made in the same function before the write', S)
        if s['kind'] == 'make-size':
            return (A[fk][0], 'size is the len(...) of data already in memory', S)
        if s['kind'] == 'sort-comparator':
            return (A[fk][0], 'strict order on one key; indices supplied by sort', S)
        if s['kind'] == 'ptr-field' and not (s['file'] in MODELLED_PTR_FILES or fk in MODELLED_PTR_FUNCS):
            return (A[fk][0], 'receiver / value built locally or checked by the caller', S)
    for k in (s['file'] + '|' + s['func'] + '|' + s['kind'], s['file'] + '|' + s['func']):
        if k in A:
            return A[k]
    pkg = s['file'].split('/')[0]
    if not s['reach']:
        return ('-', 'n/a', 'not reachable from a callback (constructor / config / background goroutine / helper)')
    if s['file'].startswith('pkg/reader/rmn_home') or s['file'].startswith('internal/reader/'):
        return ('home chain / RMNHome config (background poller)', 'Pollers.v (C18)', 'not in a callback (poller goroutine)')
    if s['kind'] in ('ptr-field',):
        return ('receiver / locally built value', 'non-nil by construction in this function or its constructor', S)
    if s['kind'] == 'map-write':
        return ('as the enclosing function', 'map made in the same function', S)
    if s['kind'] == 'make-size':
        return ('as the enclosing function', 'size is a len(...) of data already in memory', S)
    if s['kind'] == 'sort-comparator':
        return ('as the enclosing function', 'strict order on a key', S)
    return ('as the enclosing function', 'see code', S)

out = []
out.append('''# C13 — audit of potential panic / non-termination sites

Scope: non-test Go code of `/repo` reachable from the plugin callbacks (commit and execute `Query`, `Observation`,
`ValidateObservation`, `ObservationQuorum`, `Outcome`, `Reports`, `ShouldAcceptAttestedReport`,
`ShouldTransmitAcceptedReport`), from `rmn.Controller.ComputeReportSignatures`, the reader layer
(`pkg/reader`) and the token-data observers.

How the list was produced (not by eye): a `go/packages` + `go/types` walker over every function body
(`docs/c13_audit_tool/main.go.txt`, golang.org/x/tools v0.29.0 from the module cache) lists every index / slice / slice->array
conversion, every assignment into a map (nil-map write), every dereference and field access through a pointer, type
assertions without `, ok`, integer `/` and `%` with a non-constant divisor (none exist), `math/big` method calls,
`make` with a computed size, `for` loops without a `len(...)` bound, `for {}`, channel operations, explicit `panic(`,
`Must*` calls and sort comparators; reachability from the callbacks is the CHA call graph of x/tools (an
over-approximation). `nilaway ./...` (22 reports; the ones inside the scope are rows below: `observer_background.go:113`,
`plugin_functions.go:537/557/563/611`, `min_observation.go:71`, `ccip.go` `contractReaders[...]`, `usdc/http.go:211`) and
`staticcheck ./...` (no panic-relevant finding) were run on top.

Status legend: **modelled+proved** = a `res`-monad model of the (guard, use) pair exists in `coq/Model/PanicSites.v`,
`PanicSites2.v`, `Rmn.v`, `Truncate.v`, … with a theorem in `coq/Props/C13.v` excluding Panic / Spin for all inputs, and a
directed or function-level harness drives the real pair; **swept only** = covered by the JSON mutation sweep / reader
answer sweep / borrowed function harnesses, no theorem; **unreachable** / **not in a callback** with the reason.

Findings of this audit (sites with NO guard, reachable with quantified inputs; reproduced on the real code, repaired in
`fixes/F70..F74.patch`): F70 `costly_messages.go:304`, F71 `plugin_functions.go:246`, F72 `price_reader.go:132`,
F73 `price_reader.go:235/237/254`, F74 `ccip.go:492`.

''')
cnt = collections.Counter()
for s in sites:
    inp, guard, st = lookup(s)
    s['inp'], s['guard'], s['st'] = inp, guard, st
    key = 'modelled+proved' if st.startswith('modelled+proved') else ('swept only' if st.startswith('swept only') else 'unreachable / not in a callback')
    cnt[key] += 1
out.append('Totals: %d sites; %s.\n\n' % (len(sites), ', '.join('%s: %d' % kv for kv in sorted(cnt.items()))))
out.append('| file:line | function | construct | expression | input that reaches it | guard | status |\n|---|---|---|---|---|---|---|\n')
for s in sites:
    txt = s['text'].replace('|', '\\|')[:60]
    out.append('| %s:%d | %s | %s | `%s` | %s | %s | %s |\n' % (s['file'], s['line'], s['func'].replace('*', '\\*'), KIND.get(s['kind'], s['kind']), txt,
                                                       s['inp'], s['guard'].replace('|', '\\|'), s['st']))
open('/verif/docs/c13_sites.md', 'w').write(''.join(out))
print(len(sites), dict(cnt))
un = collections.Counter((s['file'], s['func']) for s in sites if s['reach'] and (s['file'] + '|' + s['func']) not in A and s['kind'] not in ('ptr-field', 'map-write', 'make-size', 'sort-comparator'))
for k, v in sorted(un.items()):
    print('UNANNOTATED', k, v)
